#!/bin/sh
# run every quick check once, sequentially; print the verdict lines
cd "$(dirname "$0")"
tier=${1:-quick}
for p in C01 C02 C03 C04 C05 C06 C07 C08 C09 C10 C11 C12 C13 C14 C15 C16 C17 C18; do
  s=$(date +%s)
  ./check $p --tier $tier > /tmp/verif_run_$p.log 2>&1
  rc=$?
  e=$(date +%s)
  echo "$p rc=$rc $((e-s))s $(grep -c '^VIOLATION' /tmp/verif_run_$p.log) violations; $(tail -1 /tmp/verif_run_$p.log | cut -c1-160)"
done
