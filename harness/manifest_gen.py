"""Writes /verif/MANIFEST.json from the table below (run after changing a claim)."""
import json
import os

VERIF = os.path.dirname(os.path.dirname(os.path.abspath(__file__)))

TB = ('Trusted: Coq 8.16.1 kernel (no axioms: Print Assumptions must print "Closed under the global context" for every theorem of '
      'coq/theories/Properties/{pid}.v, checked on every run); extraction (ExtrOcamlBasic only) + ocaml/driver.ml and the vm_compute '
      'cases route for the correspondence; the Python harness (interception, raw disk reader, generators, oracles, AST constant '
      'extractor). Modelled, not verified: disk_objectstore itself (hand-written Gallina model, tied to the working tree by '
      'differential execution on every run), CPython io, SQLAlchemy/SQLite, zlib, hashlib, the kernel, rsync.')

CLAIMS = {
    'C01': dict(
        technique='Coq program-level round-trip theorems for every write path (loose, direct-to-pack in all modes, loose-then-pack) + invariant-based recovery theorem + size/path/config grid differential',
        text=('PROOF (Coq, closed): C01_loose_roundtrip - for every world satisfying the C03 invariant, every content and EVERY chunking of the source '
              'stream, the model program of add_object/add_streamed_object (Programs.p_add_loose, event semantics Store.apply_ev) ends in a state where '
              'the library-free read of H(content) returns exactly the content; C01_direct_to_pack_roundtrip - the same for add_objects_to_pack / '
              'add_streamed_object(s)_to_pack, EVERY batch (repetitions, known content), compressed or not, all three no_holes modes; '
              'C01_loose_then_pack_roundtrip (pack_all_loose, one pack, any per-object compression outcome); C01_packed_entries_read_back - every index '
              'entry reads back as bytes with the key as digest and the recorded size; C01_packed_reader_returns_the_bytes (C07 simulation, any read '
              'program); chunk constants from the AST are positive. TIE: the programs reproduce the intercepted event traces of the write-path '
              'scenarios, event semantics validated against the real folder; the grid (13 sizes straddling 64 KiB/512 KiB/1 MiB x 5 content kinds incl. '
              'already-compressed payloads x 12 write paths incl. AUTO x hash x prefix 0-3 x zlib level x pack target) is executed on the implementation '
              'against hashlib and the bytes, reads whole/chunked/bulk/stream+meta/raw. PARTIAL: the hash is an injective Section variable; '
              'incremental hashing and zlib (the stored blob decodes to the content) are assumptions validated by the grid; pack roll-over inside one '
              'call is not in the programs.'),
        design='4/C01'),

    'C02': dict(
        technique='Coq refinement theorem: any history of operation programs equals the fold of map updates on the abstraction stored : key->bytes (all inputs, all histories) + verified trace monitor + random histories vs dict',
        text=('PROOF (Coq, closed): abstraction Store.stored; C02_views_are_the_map (library read path = abstraction under the invariant); per operation, '
              'program-level and for ALL inputs: C02_add_loose_is_put + C02_add_loose_changes_nothing_else, C02_add_to_pack_is_put_all and '
              'C02_import_is_put_all (every key that is not the key of a handed-over object reads back exactly as before, present or absent; the '
              'handed-over ones read back as their content: C01_direct_to_pack_roundtrip / C14_transfer_complete_and_byte_identical), '
              'C02_pack_is_invisible + C02_pack_changes_no_view (every key, both directions), C02_delete_is_remove, C11_repack_* (repack keeps keys and '
              'contents); C02_maintenance_is_invisible (along ANY monotone history every stored object stays stored with its bytes), C02_delete_rows, '
              'C02_reads_are_content_addressed. TIE: Store.apply_ev replayed over the intercepted trace of 27 fixed and 7+ generated operation variants '
              'must end in exactly the folder read raw, the programs reproduce those traces, the verified monitor accepts every event boundary; 180+ '
              'random histories over 14 operation kinds and all option combinations are compared with a dict after EVERY step '
              '(has/get/bulk/uneven bulk streams/meta/list/count/NotExistent, raw reader, validate). COMPOSED: C02_any_history_is_a_map (History.history_refines) - ANY finite '
              'sequence of add / pack / direct-to-pack / import / delete / clean / repack programs, each run from the world the previous one left, ends in a world '
              'satisfying the invariant in which EVERY key reads back exactly what the fold of the map updates holds. Corollaries: C02_loosen_changes_no_view, '
              'C05_pack_all_loose_over_any_number_of_packs. PARTIAL: which pack each object of a rolling-over call goes to is the oracle of that theorem '
              '(modelled by Layout.segs / PickPack.pick and tied by correspondence, not composed into it).'),
        design='4/C02'),
    'C03': dict(
        technique='Coq: invariant proved at every crash point of every history of operation programs + sound boolean checker + verified trace monitor run on implementation traces; independent raw reader',
        text=('PROOF (Coq, closed): Store.Inv is literally the property statement; C03_every_crash_point_of_every_history + C03_after_every_history (ANY '
              'finite history of add / pack / direct-to-pack / import / delete / clean / repack programs, killed after ANY number of primitives or run '
              'to its end: Inv holds); C03_checker_sound (inv_b -> Inv), C03_every_boundary (monitor accepted '
              '=> Inv at every event boundary of the trace), C03_manual_recovery (SQL query + slice + zlib returns bytes with the key digest and size), '
              'C03_unique_keys (no key indexed twice whatever is inserted), C03_tolerates_unreferenced_tail. TIE: the extracted monitor runs on the '
              'trace of every scenario with the model world initialised from the real folder and must end in the real folder; an independent '
              'sqlite3+zlib reader checks every state after every step of 220 random histories. PARTIAL: Inv is proved inductive for the '
              'add-loose program (all inputs, C05 file); for the other operations it is certified per observed trace by the verified monitor.'),
        design='4/C03'),
    'C04': dict(
        technique='Coq rely/guarantee over monotone history (all interleavings), side conditions discharged for the writer/packer programs for all inputs, reader-during-run theorem + forced interleavings of real Container calls',
        text=('PROOF (Coq, closed): C04_actor_steps_are_monotone (every event of a loose writer / the packer, under its side conditions, is a Mono step), '
              'C04_writer_is_monotone / C04_packer_is_monotone / C04_cleaner_is_monotone / C04_plain_import_is_monotone (for ALL inputs every step of '
              'add_object, pack_all_loose (one pack, any options), clean_storage, same-hash import / plain direct-to-pack passes those side conditions), '
              'C04_any_interleaving_is_monotone (induction over ANY schedule), C04_reader_finds_every_acknowledged_object (the reader protocol index '
              'snapshot -> loose -> refreshed snapshot returns exactly the bytes of every object stored before its loose lookup, for arbitrary '
              'monotone histories between its observations and an arbitrarily old pinned snapshot), C04_reader_during_a_monotone_run (the five '
              'observations placed after ANY p1<=p1\', p2<=p3<=p4 primitives of a running actor), C04_trace_checker_sound, MAX_RETRIES >= 2 from '
              'the AST. C04_bulk_reader_under_concurrency (the bulk generator Lookup.lookup_bulk with a snapshot pinned at any time, every loose file looked at at an instant of its own, a refreshed index, any monotone steps in between: every object acknowledged before is reported with the length of its content, for all thresholds, requests and schedules). ' 
              'TIE: the side-condition checker (extracted all_ok_b) accepts the real traces of 18 fixed + generated writer/packer scenarios, '
              'the programs reproduce those traces; 300 (thorough 8000) forced schedules of real threads (18 targeted: reader stopped between index '
              'lookup and loose open while the packer commits and unlinks; rest random bursty) with single/bulk/meta/seeking readers. PARTIAL: the '
              'reader protocol is modelled at observation level (Mono.lookup), not as an event program; the interleaving of SEVERAL actors is covered '
              'by the event-level theorem plus the trace checker, not by a program-level theorem (the model has one handle-local state); '
              'GIL/kernel/SQLite isolation are modelled, not verified; threads stand for processes.'),
        design='4/C04'),
    'C05': dict(
        technique='Coq program-level crash theorems for every operation and for whole histories (all inputs, every crash point) + verified crash monitor + kill at every gated I/O call',
        text=('PROOF (Coq, closed): C05_every_crash_point_of_every_history, C05_no_history_loses_an_object (no deletion in the history: everything stored at its start is stored at every crash point), C05_pack_all_loose_over_any_number_of_packs (a call that rolls over '
              'any number of packs), per operation C05_{add_loose,pack,clean,delete,repack,add_to_pack,import}_every_crash_point (Inv and every '
              'stored object still stored with its bytes); C05_monitor_sound (accepted trace => at EVERY crash point, buffers and open transaction dropped, Inv holds and every '
              'non-target object is still stored), C05_add_loose_every_crash_point (ALL inputs, worlds, chunkings, crash points), '
              'C05_new_handle_never_wrong_bytes, C05_any_spill. TIE: the monitor runs on the intercepted trace of each of 12 (thorough 28) operation '
              'variants; the process is really killed (os._exit) before EVERY gated call and after the last one (229 / 460 kills), the folder is then '
              'read raw and through a new handle; the Gallina programs must generate exactly the intercepted traces of 15 scenarios. PARTIAL: '
              'import_objects (a composition of lookups and direct-to-pack calls with one final commit) is certified per observed trace (all crash points of that trace) by the verified '
              'monitor and by the exhaustive kill sweep, not by a program-level theorem; multi-pack pack_all_loose is the iteration of the one-pack program.'),
        design='4/C05'),
    'C06': dict(
        technique='Coq program-level power-loss theorems for every operation and for whole histories (all inputs, every crash point) + verified power-loss monitor + power-loss image at every kill point',
        text=('PROOF (Coq, closed): C06_monitor_sound with the power_loss projection (every file falls back to its last fsync), '
              'C06_power_loss_anywhere_in_any_history (ANY history of add/pack/direct-to-pack/import/delete/clean/repack with the fsync defaults, power lost after ANY number of primitives: Inv in what survives), C06_add_loose_power_safe, C06_pack_power_safe (do_fsync=true: rows committed only over flushed+fsynced bytes, loose unlinked only after that '
              'commit), C06_clean_power_safe, C06_repack_power_safe, C06_add_to_pack_power_safe - ALL inputs and crash points; default fsync settings from the AST. TIE: fsync hook snapshots file content; '
              'after each of ~220 kills (every gated call + after completion) the power-loss image is built and examined raw and through a new '
              'handle; the power-loss monitor must accept every implementation trace with default settings (it rejects the do_fsync=False '
              'variants, as it should). PARTIAL as C05; kernel/disk behaviour is the fault model of the property text, not verified.'),
        design='4/C06'),
    'C07': dict(
        technique='Coq simulation proof (stream model vs in-memory file) + exhaustive small-program differential',
        text=('PROOF (Coq, closed): Streams.por_step is a transcription of utils.PackedObjectReader (shared pack handle, cached _pos, asserts); '
              'C07_packed_reader_simulation: for every pack with arbitrary neighbours, every object and EVERY finite program of '
              'read/seek/tell, results equal the in-memory reference that rejects out-of-range seeks without moving; '
              'C07_packed_reader_reads_inside: no read returns a byte outside the object; plain files (loose, re-loosened cache): '
              'C07_plain_file_in_range/_out_of_range; the pre-repair seek is refuted by a concrete witness (C07_packed_reader_v0_refuted, finding F2, fixed). '
              'TIE: all programs of length <= 2 (thorough: +6000 of length 3 per object) over objects of 0..5 bytes between neighbours in six '
              'forms are run on the implementation and compared with io.BytesIO; one in five also on the extracted models (exact results), the '
              'zlib decisions being recorded and passed as oracle; random 14-30 step programs on objects up to 1.3 MB through the public API. '
              'C07_decompresser_simulation: the Zlib decompresser (Streams.zsd_step: internal buffer, _pos, switch to the re-loosened cache, slow '
              'forward/rewind path), for EVERY decompressor oracle, chunk size > 0 and program of in-range operations, returns exactly the '
              'in-memory results unless a call fails loudly. When model and implementation disagree without a BytesIO deviation, the check extends '
              'the disagreeing programs (all one-op and many two-op extensions) to find a concrete failing program. '
              'PARTIAL: CallbackStreamWrapper is modelled as a pass-through; out-of-range seeks on the decompresser (clamping) are tested, not '
              'proved; zlib itself is an oracle whose laws are validated against the real module on every run; LazyLooseStream retries are in C04.'),
        design='4/C07'),
    'C08': dict(
        technique='Coq: lookup theorem independent of the pinned snapshot + listing theorem (+ refuted stale variant) + multi-handle histories',
        text=('PROOF (Coq, closed): C08_lookup_with_any_pinned_snapshot (no relation needed between the handle\'s snapshot and the world in which the '
              'object was acknowledged), C08_listing_complete / C08_listing_once for the repaired list_all_objects (loose listed first, snapshot '
              'refreshed afterwards), C08_stale_listing_refuted (witness of finding F4, fixed); for the BULK entry points the generator itself is a Gallina '
              'function (Lookup.lookup_bulk): C08_bulk_lookup_reports_every_acknowledged_object (any pinned snapshot, any thresholds/strategy, any '
              'request: every object stored before the call looked at the loose folder is reported exactly once, never MISSING, with the length of '
              'its content) and C08_bulk_lookup_reports_only_what_is_there. TIE: the extracted lookup_bulk reproduces the generator\'s answers on '
              'requests through handles with stale snapshots (every run); 370 (thorough 6000) sequential histories over 2-4 '
              'handles incl. 70 fixed ones placing a snapshot-pinning query before another handle packs and cleans; writer/packer traces pass the '
              'Mono side-condition checker. PARTIAL: SQLAlchemy session behaviour is abstracted to "snapshot pinned at first statement until reset".'),
        design='4/C08'),
    'C09': dict(
        technique='Coq lemmas on the UNIQUE index and loose map + no-op theorem for known loose content + repeat-biased histories',
        text=('PROOF (Coq, closed): C09_one_index_entry_per_key, C09_existing_entries_untouched, C09_known_loose_content_is_a_noop (ALL inputs, every '
              'prefix: loose/, packs/, index unchanged), C09_one_loose_file_per_key; direct-to-pack as a program (Programs.p_add_to_pack, three modes): '
              'C09_add_to_pack_every_prefix (ALL batches with any repetitions: invariant - hence one row per key - at every prefix), C09_no_holes '
              '(completed no_holes call: pack = old bytes ++ stored bytes of exactly the not-yet-indexed objects, each once; other packs/loose '
              'untouched), C09_known_only_adds_nothing, C09_no_truncate_v0_refuted (witness of finding F3, fixed). TIE: 190 repeat-biased histories (within a batch, across batches, '
              'across forms, damaged-loose injector) with, for no_holes, pack growth compared with newly referenced bytes; traces of the no_holes '
              'variants pass the monitor, end in the real folder, and are generated exactly by p_add_to_pack (5 scenarios). PARTIAL: pack roll-over inside '
              'one call is the iteration of the one-pack program; the stored blobs (zlib) are oracles.'),
        design='4/C09'),
    'C10': dict(
        technique='Coq: every write program leaves exactly the requested stored form (all inputs), transparency from the invariant, totals as a model with sum theorems, estimate model + mode-chain histories with per-row flag checks and totals correspondence',
        text=('PROOF (Coq, closed): C10_pack_writes_the_requested_form, C10_direct_and_import_write_the_requested_form, C10_repack_writes_the_requested_form '
              '(after the completed call every entry written has the compressed flag, stored length and size of the object handed over for its key, every '
              'other entry is the old one), C10_repack_uniform_mode (all handed over compressed/plain => all entries of the pack compressed/plain), '
              'C10_modes (YES/NO/KEEP as a function; AUTO is an oracle), C10_transparent (any form reads back as the content; size = content length), '
              'C10_plain_length_is_size, C10_repack_keeps_keys, C11_repack_changes_no_view, C10_estimate_restores_position (sampling seeks stay inside '
              'the stream, terminate, restore the position), threshold constants within range. TIE: the repack/pack/direct-to-pack programs reproduce '
              'the implementation traces (flags and blobs recovered from the run); seeks of estimate_compression == Compress.estimate, incl. data '
              'behind compressed-format signatures; 130 mode-chain histories (pack/repack with NO/YES/KEEP/AUTO/bools, empty, tiny, compressible, '
              'incompressible, already-compressed, 66-70 kB objects) checking per affected row the flag, size, stored length and the four totals '
              'against the raw index/packs. PARTIAL: that the flag handed over is the one the mode prescribes (should_compress with the old flag for '
              'KEEP, the heuristic for AUTO) is decided by the histories. TOTALS: get_total_size / count_objects are the Gallina function Totals.totals_of; '
              'C10_total_size_is_the_sum_of_content_lengths, C10_plain_entries_occupy_their_size, C10_packed_on_disk_le_packfiles (on every state satisfying '
              'the invariant, any number of packs and entries, the stored lengths never exceed the pack files); the extracted totals_of is compared with '
              'get_total_size() and count_objects() on the raw state after every history step.'),
        design='4/C10'),
    'C11': dict(
        technique='Coq lemmas on DELETE / repack statements / unlink + delete-heavy histories with raw pack comparison',
        text=('PROOF (Coq, closed): C11_delete_program (delete_objects as a program, all worlds and key lists: requested keys gone from every view, '
              'everything else reads as before, invariant kept), C11_repack_reclaims (repack_pack as a program: afterwards the pack file is exactly '
              'the concatenation of the live objects\' stored bytes, -1 is gone, other packs and loose untouched, same keys), '
              'C11_repack_removes_empty_pack, C11_delete_exactly_requested, C11_repack_keeps_keys_update/_repoint, C11_unlink_removes_only_that_key/_that_key. '
              'TIE: 150 delete-heavy histories (loose, packed, both, stray duplicates), returned list vs set, packs byte-identical after delete, after '
              'repack every pack = concatenation of live stored bytes and no empty/temporary pack; delete/repack traces replayed through the model '
              'end in the real folder and pass the monitor at every boundary; p_delete and p_repack_one generate exactly the intercepted traces. PARTIAL: the recompressed blobs are oracles '
              '(zlib), and repack() over all packs is the iteration of the one-pack program in listdir order.'),
        design='4/C11'),
    'C12': dict(
        technique='Coq soundness+completeness of the validation model w.r.t. the read path, the code-level scan (running end position in offset order) proved to imply it on every world + issue-list correspondence + exhaustive single-damage sweep',
        text=('PROOF (Coq, closed): Validate.validate_b models validate() over the same slicing semantics as the read path; '
              'C12_no_false_positive (Inv -> clean), C12_no_false_negative (for EVERY world: clean -> every visible key reads back with the key '
              'digest and recorded size), C12_read_path_is_recovery. TIE: on a container with loose/plain/compressed objects every single-bit flip '
              'and truncation of every referenced byte and every perturbation of offset/length/size/compressed/pack_id (1670 damages quick) is '
              'applied; ground truth by reading through a new handle; validate after every step of 60 histories; packs of 1003/2003 entries with the '
              'zero-length object at a multiple of 1000. THE SCAN AS CODED: ValidateScan.validate_f (pack ids from the index in increasing order, entries by '
              'offset, each compared only with the running end of its predecessor, loose files re-hashed; a failing read raises); '
              'C12_clean_scan_is_clean: on ANY world a clean report of that scan implies validate_b - ALL pairs disjoint, every entry re-reads as its key '
              'and size - so C12_no_false_negative applies to the report the code computes; the extracted validate_f gives the four issue lists of the '
              'real validate() (or raises when it raises) on 370+ damaged and undamaged states per run. PARTIAL: zlib is an oracle; the per-entry re-read '
              'fed to the scan is computed through the library\'s stream classes (tied by C07); that the faithful scan is clean on every reachable state '
              'relies on SQLite returning ties of ORDER BY offset in rowid order (tested after every history step, not proved).'),
        design='4/C12'),
    'C13': dict(
        technique='Coq: every step of the direct-to-pack and import programs keeps referenced bytes (all inputs); step theorem + verified per-step trace checker; pack-choice theorem; before/after pack comparison',
        text=('PROOF (Coq, closed): C13_pack_every_step / C13_add_to_pack_every_step / C13_import_every_step (for ALL inputs every single step of pack_all_loose (one pack, unlinks included), of add_*_to_pack - the '
              'no_holes truncations included - and of the import transfer keeps every referenced byte of every pack and never cuts a pack below its '
              'last referenced byte), C13_import_steps_pass_the_side_conditions, C13_step_keeps_referenced_bytes (every accepted event), '
              'C13_trace_checker_sound, C13_monotone_history_keeps_referenced_bytes, C13_pack_choice_keeps_layout (_get_pack_id_to_write_to never '
              'returns an earlier full pack). TIE: extracted c13_all_b accepts every step of 23 repack-free implementation traces; PickPack.pick == '
              '_get_pack_id_to_write_to on planted pack files; repack-free histories (targets 50/300/4GiB, reopened and parallel handles) compare '
              'every pack before/after every step and check consecutive ids and "all but the last pack reached the target and are never written '
              'again". C13_call_keeps_layout (pick followed by the fill order Layout.segs keeps ids consecutive, all but the last pack full, '
              'and the cached id behind full packs - for a whole call over any number of packs). PARTIAL: the layout theorem is about pack sizes '
              '(pick + segs, each tied to the code by correspondence); it is not composed with the event programs into one statement.'),
        design='4/C13'),

    'C14': dict(
        technique='Coq: import as a program (all batch lists, packs, modes) proved complete, byte-identical and crash-safe; cache plan proved a permutation within budget; merge classification; trace, plan and history correspondence',
        text=('PROOF (Coq, closed): C14_transfer_complete_and_byte_identical (Programs.p_import: ANY list of do_commit=False batches over ANY packs, '
              'all three modes, with/without fsync, one COMMIT: every object of every batch reads back as exactly its content under the key of that '
              'content, everything held before reads back unchanged, Inv holds), C14_destination_otherwise_untouched (new index = old index + collected '
              'rows under INSERT OR IGNORE, loose untouched, packs only grew), C14_interrupted_transfer_is_harmless (every prefix), '
              'C14_every_yielded_object_handed_over_once + C14_memory_budget_honoured (ImportPlan.plan, the bounded cache: permutation of the yielded '
              'objects, bulk flushes non-empty and within budget, an object goes alone iff larger than the budget), C14_keys_to_transfer (LEFTONLY of '
              'the sorted merge = requested keys the destination lacks, each once), C14_no_second_entry, content-addressing. TIE: p_import reproduces '
              'the intercepted event trace of 4 import scenarios (same/different hash, cached/streamed, pack roll-over); ImportPlan.plan (extracted) == '
              'the calls import_objects makes on the destination for generated sources and budgets straddling the sizes; import-heavy histories over '
              'both hash combinations, compress, target_memory_bytes 1..1e6, list/tuple/set/one-shot generator, callback; source unchanged. '
              'NOT MODELLED: reading from the source container, the callback, the old->new mapping dict (decided by the histories only).'),
        design='4/C14'),
    'C15': dict(
        technique='Coq: backup_container as a run of copy steps interleaved with any monotone steps - complete and a valid container for every run (induction over the chain of worlds) + observed step order == model + real rsync behind a scheduling wrapper',
        text=('PROOF (Coq, closed): C15_backup_complete (loose entries copied at their own instants, ONE atomic index dump, packs copied afterwards: '
              'every object stored at the start reads back from the backup, whatever monotone steps happen in between), '
              'C15_concurrent_steps_monotone, C15_excludes_cover_index_files (exclude list from the AST covers packs.idx, -wal, -shm); backup_container as a RUN '
              '(Backup.v: loose list taken, every listed entry transferred at its own instant - vanished entries skipped -, index dumped atomically, '
              'pack list taken, every listed pack transferred at its own instant, ANY monotone steps of other clients between any two instants): '
              'C15_backup_run_complete (every object stored at the start reads back from the backup), C15_backup_run_is_a_valid_container (the C03 '
              'invariant holds of the backup), C15_backup_run_validates (validation clean; the library read path = library-free recovery on it). TIE: '
              'the order of the rsync calls and of the index dump observed in every completed backup must equal Backup.backup_phases (extracted); the real '
              'backup_container with rsync 3.2.7; concurrent add/pack/pack+clean/clean/direct-to-pack placed before each of the 4 rsync calls and '
              'in the middle of the loose/packs/rest transfers, a long-open client keeping the WAL alive, incremental backups; the backup is opened '
              'as a Container, all objects read, validate, raw check (65 backups quick). PARTIAL: rsync and sqlite3 backup are modelled as '
              'per-entry / atomic copies, not verified; incremental backups (--link-dest against the previous backup) and the folder rotation are '
              'tested (finding F7), not modelled.'),
        design='4/C15'),
    'C16': dict(
        technique='Coq proof of the merge/chunk/paging helpers (induction) and of the bulk lookup generator as a Gallina model (bulk answer = per-key answer for all requests, thresholds, snapshots) + differential correspondence model<->code',
        text=('PROOF (Coq, closed): Merge.dws is a line-by-line state-machine model of utils.detect_where_sorted (with left_key); proved for all '
              'inputs: on sorted unique inputs it terminates with exactly merge_spec (C16_dws_spec), merge_spec is exactly set-membership '
              'classification with the left element on BOTH and every key once in order (C16_merge_spec_in/_once), every unsorted or '
              'non-unique input ends in ValueError (C16_dws_rejects), fuel never runs out (C16_dws_terminates); chunk_iterator '
              '(C16_chunks) and the id>last_pk paging loop (C16_paging) lose/duplicate nothing for every n>=1; constants from the AST '
              '(C16_constants). The generator behind has_objects / get_objects_meta / get_objects_content / get_objects_stream_and_meta is the Gallina '
              'function Lookup.lookup_bulk (chunked IN-queries or the ordered scan merged by Merge.dws, chosen by the count; grouping per pack in '
              'offset order; loose folder; refreshed index; MISSING / skip_if_missing): C16_bulk_lookup_is_map_single (for ALL thresholds with a '
              'positive batch size, index snapshots, loose folders and duplicate-free enumerations of the request the answer is a permutation of '
              'the per-key answers, no key twice, the merge never rejects), C16_bulk_lookup_strategy_independent, C16_bulk_lookup_any_request (any '
              'order and repetitions), C16_bulk_lookup_runs (one run per pack, in offset order). TIE: the extracted helpers and the '
              'implementation are run on all 4096 pairs of sorted subsets of a 6-universe, all short unsorted sides, random long pairs, and a '
              'second vm_compute route without extraction; the extracted lookup_bulk is run on what the implementation observes (the index through '
              'the reader\'s own - possibly stale - session, the loose folder, the committed index) for 54+ requests per run at thresholds '
              '(1,3)..(4,4) and the real ones, meta and stream entry points, and must give the generator\'s answers field by field. '
              'PARTIAL: pack_all_loose, clean_storage and import at both strategies and at the real 950/9500/1000 thresholds and lowered ones '
              'are decided by differential testing against a dict and the single-key operations (their sorted-merge core is proved); set '
              'iteration orders are not modelled (answers compared as runs per pack / sets).'),
        design='4/C16'),
    'C17': dict(
        technique='Coq: fault = program prefix + handler events, proved safe for all inputs, fault points and handler sequences; verified monitor on fault traces; single fault at every gated call with rerun',
        text=('PROOF (Coq, closed): C17_fault_anywhere_in_any_history (any history, any fault point, any handler sequence: Inv), C17_fault_in_add_loose / _pack / _clean / _delete / _repack / _add_to_pack / _import (FaultProofs.fault_anywhere: '
              'for ALL inputs, an I/O error after ANY number of primitives of the operation followed by ANY sequence of handler events - handles '
              'closed or flushed (their buffers reach the file), sandbox file removed, session rolled back - leaves Inv and every previously stored '
              'object readable byte for byte), C17_handlers_only_append, C17_fault_trace_monitor, C17_no_wrong_bytes, C17_rollback_is_noop. '
              'TIE: OSError(EIO) / OperationalError injected at EVERY gated call of 12 (thorough 28) operation variants (~280 injections quick); '
              'afterwards raw + new-handle examination, stale locks removed, rerun must complete and end in the same key->bytes map as an '
              'uninterrupted run with clean validation (repack excepted, as the property says); the intercepted trace of EVERY fault run is '
              'replayed through Store.apply_ev, must end in the folder the failed operation left (an unreferenced tail flushed by the interpreter '
              'finaliser is tolerated, cf. C03_tolerates_unreferenced_tail), must be accepted by the verified monitor, and what follows the failed '
              'call must be handler events only (the hypothesis of the program theorems). PARTIAL: "a rerun completes" is decided by the fault sweep '
              'only; pack roll-over inside one call is not in the programs.'),
        design='4/C17'),
    'C18': dict(
        technique='Coq descriptor-tracking theorem + one-handle-at-a-time/balance theorems for every write program and for the bulk read generator (all inputs) + event correspondence, fd census, tracemalloc, trace write sizes',
        text=('PROOF (Coq, closed): C18_handles_tracked (open write handles after ANY trace = opens minus closes), C18_add_loose_balanced / _bounded, '
              'C18_pack_one_handle_at_a_time, C18_import_one_handle_at_a_time (covers direct-to-pack), C18_repack_one_handle_at_a_time (ANY number of '
              'objects, batches, packs: the call closes what it opens and at every prefix holds at most one handle more than before), '
              'C18_delete_and_clean_open_nothing, chunk constants bounded; READ SIDE: LookupFd.lookup_events is the sequence of opens / closes / yields / session '
              'resets of the bulk generator, C18_bulk_read_events_are_the_answers (it carries exactly the answers of Lookup.lookup_bulk), '
              'C18_bulk_read_one_file_at_a_time (ALL requests, thresholds, snapshots, loose folders: at every point of the call at most one pack or '
              'loose file more than before is open, none when it ends), C18_bulk_meta_opens_nothing. TIE/MEASURED: the programs reproduce the '
              'intercepted traces; the extracted lookup_events reproduces the opens/closes of pack and loose files, the failed opens, the session '
              'resets and the yields intercepted during real bulk calls (blocks per file, per phase); '
              '/proc/self/fd census after every step of 60 histories and after close(), 60 rounds of pack operations with flat descriptor count, '
              'at most pack+cache open during bulk reads with seeks on compressed objects, LazyOpener inputs open one at a time, largest single '
              'write from the trace <= chunk bound, tracemalloc peak of 8 streaming paths at 4/16 MiB (thorough 16/64) flat and < 12 MiB. '
              'PARTIAL: memory, the re-loosened cache stream a seeking consumer triggers, the SQLite descriptors and the single-object read entry points are measured, not proved; CPython finalisation and allocator are outside the model.'),
        design='4/C18'),
}

NOT_YET = {}


def main():
    props = [json.loads(l) for l in open(os.path.join(VERIF, 'properties.jsonl'))]
    checks = []
    na = []
    for p in props:
        pid = p['id']
        if pid in CLAIMS:
            c = CLAIMS[pid]
            checks.append({
                'property_id': pid,
                'quick_cmd': f'./check {pid} --tier quick',
                'thorough_cmd': f'./check {pid} --tier thorough',
                'evidence_file': f'/verif/evidence/{pid}.json',
                'replay_cmd_template': f'./check {pid} --replay {{path}}',
                'engine': 'coq-model+correspondence',
                'level_claimed': {'category': 'proof', 'text': c['text'], 'design_ref': 'DESIGN.md section ' + c['design']},
                'level_note': TB.format(pid=pid) + (' ' + c['note'] if c.get('note') else ''),
                'technique': c['technique'],
            })
        else:
            na.append({'property_id': pid, 'reason': NOT_YET.get(pid, 'check under construction in this session; not claimed until its theorem and correspondence run')})
    m = {
        'version': 1,
        'setup_cmd': './setup.sh',
        'hooks': {
            'guard': 'DISK_OBJECTSTORE_VERIF',
            'enable': 'no source hooks: all interception is done from outside (module-level open, os.*, fcntl, SQLAlchemy engine events)',
            'baseline_off_cmd': 'cd /repo && /venv/bin/python -m pytest -ra -q -p no:cacheprovider --timeout=900 --continue-on-collection-errors',
            'source_commits': [],
            'add_only': True,
        },
        'engines': [
            {'name': 'coq-model+correspondence', 'path': '/verif/coq', 'serves_properties': sorted(CLAIMS),
             'kind_free_text': 'Gallina model + Coq proofs (coq/theories), extracted OCaml driver (ocaml/), Python differential harness (harness/)'},
        ],
        'checks': checks,
        'not_applicable': na,
        'notes': 'See DESIGN.md. known_findings.json lists genuine defects found (fixed ones suppress nothing).',
    }
    if not na:
        m['not_applicable'] = []
    with open(os.path.join(VERIF, 'MANIFEST.json'), 'w') as f:
        json.dump(m, f, indent=1)
    print('MANIFEST.json written:', len(checks), 'checks,', len(na), 'not claimed')


if __name__ == '__main__':
    main()
