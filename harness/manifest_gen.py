"""Writes /verif/MANIFEST.json from the table below (run after changing a claim)."""
import json
import os

VERIF = os.path.dirname(os.path.dirname(os.path.abspath(__file__)))

TB = ('Trusted: Coq 8.16.1 kernel (no axioms: Print Assumptions must print "Closed under the global context" for every theorem of '
      'coq/theories/Properties/{pid}.v, checked on every run); extraction (ExtrOcamlBasic only) + ocaml/driver.ml and the vm_compute '
      'cases route for the correspondence; the Python harness (interception, raw disk reader, generators, oracles, AST constant '
      'extractor). Modelled, not verified: disk_objectstore itself (hand-written Gallina model, tied to the working tree by '
      'differential execution on every run), CPython io, SQLAlchemy/SQLite, zlib, hashlib, the kernel, rsync.')

CLAIMS = {
    'C16': dict(
        technique='Coq proof of the merge/chunk/paging helpers (induction) + differential correspondence model<->code',
        text=('PROOF (Coq, closed): Merge.dws is a line-by-line state-machine model of utils.detect_where_sorted (with left_key); proved for all '
              'inputs: on sorted unique inputs it terminates with exactly merge_spec (C16_dws_spec), merge_spec is exactly set-membership '
              'classification with the left element on BOTH and every key once in order (C16_merge_spec_in/_once), every unsorted or '
              'non-unique input ends in ValueError (C16_dws_rejects), fuel never runs out (C16_dws_terminates); chunk_iterator '
              '(C16_chunks) and the id>last_pk paging loop (C16_paging) lose/duplicate nothing for every n>=1; constants from the AST '
              '(C16_constants). TIE: the extracted model and the implementation are run on all 4096 pairs of sorted subsets of a '
              '6-universe, all short unsorted sides, random long pairs, and a second vm_compute route without extraction. '
              'PARTIAL: the bulk-API half (has/meta/content/stream, pack_all_loose, clean_storage, import at both strategies and at '
              'the real 950/9500/1000 thresholds and lowered ones) is decided by differential testing against a dict and the '
              'single-key operations, not yet by a theorem over a Gallina lookup program.'),
        design='4/C16'),
    'C07': dict(
        technique='Coq simulation proof (stream model vs in-memory file) + exhaustive small-program differential',
        text=('PROOF (Coq, closed): Streams.por_step is a transcription of utils.PackedObjectReader (shared pack handle, cached _pos, asserts); '
              'C07_packed_reader_simulation: for every pack with arbitrary neighbours, every object and EVERY finite program of '
              'read/seek/tell, results equal the in-memory reference that rejects out-of-range seeks without moving; '
              'C07_packed_reader_reads_inside: no read returns a byte outside the object; plain files (loose, re-loosened cache): '
              'C07_plain_file_in_range/_out_of_range; the pre-repair seek is refuted by a concrete witness (C07_packed_reader_v0_refuted, finding F2, fixed). '
              'TIE: all programs of length <= 2 (thorough: +6000 of length 3 per object) over objects of 0..5 bytes between neighbours in six '
              'forms are run on the implementation and compared with io.BytesIO; one in five also on the extracted models (exact results), the '
              'zlib decisions being recorded and passed as oracle; random 14-30 step programs on objects up to 1.3 MB through the public API. '
              'PARTIAL: for the Zlib decompresser (with/without LazyLooseStream) and CallbackStreamWrapper the executable model exists '
              '(Streams.zsd_step) and is checked by correspondence, but its simulation theorem is not proved yet; zlib itself is an oracle '
              'whose laws are validated against the real module on every run.'),
        design='4/C07'),
}

NOT_YET = {}


def main():
    props = [json.loads(l) for l in open(os.path.join(VERIF, 'properties.jsonl'))]
    checks = []
    na = []
    for p in props:
        pid = p['id']
        if pid in CLAIMS:
            c = CLAIMS[pid]
            checks.append({
                'property_id': pid,
                'quick_cmd': f'./check {pid} --tier quick',
                'thorough_cmd': f'./check {pid} --tier thorough',
                'evidence_file': f'/verif/evidence/{pid}.json',
                'replay_cmd_template': f'./check {pid} --replay {{path}}',
                'engine': 'coq-model+correspondence',
                'level_claimed': {'category': 'proof', 'text': c['text'], 'design_ref': 'DESIGN.md section ' + c['design']},
                'level_note': TB.format(pid=pid) + (' ' + c['note'] if c.get('note') else ''),
                'technique': c['technique'],
            })
        else:
            na.append({'property_id': pid, 'reason': NOT_YET.get(pid, 'check under construction in this session; not claimed until its theorem and correspondence run')})
    m = {
        'version': 1,
        'setup_cmd': './setup.sh',
        'hooks': {
            'guard': 'DISK_OBJECTSTORE_VERIF',
            'enable': 'no source hooks: all interception is done from outside (module-level open, os.*, fcntl, SQLAlchemy engine events)',
            'baseline_off_cmd': 'cd /repo && /venv/bin/python -m pytest -ra -q -p no:cacheprovider --timeout=900 --continue-on-collection-errors',
            'source_commits': [],
            'add_only': True,
        },
        'engines': [
            {'name': 'coq-model+correspondence', 'path': '/verif/coq', 'serves_properties': sorted(CLAIMS),
             'kind_free_text': 'Gallina model + Coq proofs (coq/theories), extracted OCaml driver (ocaml/), Python differential harness (harness/)'},
        ],
        'checks': checks,
        'not_applicable': na,
        'notes': 'See DESIGN.md. known_findings.json lists genuine defects found (fixed ones suppress nothing).',
    }
    if not na:
        del m['not_applicable']
    with open(os.path.join(VERIF, 'MANIFEST.json'), 'w') as f:
        json.dump(m, f, indent=1)
    print('MANIFEST.json written:', len(checks), 'checks,', len(na), 'not claimed')


if __name__ == '__main__':
    main()
