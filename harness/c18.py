"""C18 - bounded resources: no descriptor leaks, one open file, chunked I/O."""
from __future__ import annotations

import io
import json
import os
import shutil
import subprocess
import sys

import common
import hist
import store
from common import Check


class ZeroBig:
    """a stream of pseudo-random-ish bytes of a given length that never holds more than one block in memory"""

    def __init__(self, n, compressible):
        self.n, self.p = n, 0
        self.block = (b'0123456789abcdef' * 4096) if compressible else os.urandom(65536)

    def read(self, k=-1):
        if k is None or k < 0:
            k = self.n - self.p
        k = min(k, self.n - self.p, len(self.block))
        self.p += k
        return self.block[:k]

    def seek(self, t, w=0):
        assert w == 0
        self.p = t
        return t

    def tell(self):
        return self.p

    mode = 'rb'


def memory_child(path_kind, size_mb, root):
    """run one streaming path on an object of size_mb MiB; print the tracemalloc peak"""
    import tracemalloc
    common.use_repo()
    from disk_objectstore import CompressMode, Container
    from disk_objectstore.utils import ZeroStream
    n = size_mb * 1024 * 1024
    d = os.path.join(root, 'm')
    c = Container(d)
    c.init_container(clear=True)
    src = None
    key = None
    if path_kind in ('read_chunked', 'repack', 'validate', 'pack', 'import', 'read_chunked_z'):
        # prepare without measuring
        if path_kind in ('pack',):
            key = c.add_streamed_object(ZeroBig(n, False))
        elif path_kind == 'read_chunked_z':
            key = c.add_streamed_object_to_pack(ZeroBig(n, True), compress=True)
        elif path_kind == 'import':
            src = Container(os.path.join(root, 's'))
            src.init_container(clear=True)
            key = src.add_streamed_object_to_pack(ZeroBig(n, False))
        else:
            key = c.add_streamed_object_to_pack(ZeroBig(n, False))
    tracemalloc.start()
    if path_kind == 'add_streamed':
        c.add_streamed_object(ZeroBig(n, False))
    elif path_kind == 'add_streamed_to_pack_z':
        c.add_streamed_object_to_pack(ZeroBig(n, True), compress=True)
    elif path_kind == 'pack':
        c.pack_all_loose(compress=CompressMode.AUTO)
    elif path_kind in ('read_chunked', 'read_chunked_z'):
        with c.get_object_stream(key) as s:
            while s.read(65536):
                pass
    elif path_kind == 'repack':
        c.repack(compress_mode=CompressMode.KEEP)
    elif path_kind == 'validate':
        assert c.validate().is_valid()
    elif path_kind == 'import':
        c.import_objects([key], src, target_memory_bytes=1024 * 1024)
    cur, peak = tracemalloc.get_traced_memory()
    tracemalloc.stop()
    c.close()
    if src:
        src.close()
    print(json.dumps({'peak': peak}))


def fd_and_open_files(ck):
    """descriptor census across repeated operations; at most one data file open during bulk reads; lazy inputs"""
    common.use_repo()
    from pathlib import Path
    from disk_objectstore import Container
    from disk_objectstore.utils import LazyOpener
    root = common.scratch_root()
    d = os.path.join(root, 'c')
    c = Container(d)
    c.init_container(clear=True, pack_size_target=500)
    truth = {}
    base = len(os.listdir('/proc/self/fd'))
    counts = []
    for i in range(60):
        objs = [b'fd-%d-%d-' % (i, j) * 20 for j in range(3)]
        for k, b in zip(c.add_objects_to_pack(objs, compress=(i % 2 == 0)), objs):
            truth[k] = b
        truth[c.add_object(b'loose-%d' % i)] = b'loose-%d' % i
        if i % 5 == 0:
            c.pack_all_loose(clean_loose_per_pack=(i % 10 == 0))
        if i % 15 == 0:
            c.clean_storage()
        counts.append(len(os.listdir('/proc/self/fd')))
        ck.count(('fd-rep', i), nontrivial=True)
    if max(counts[30:]) > max(counts[:30]) + 1:
        ck.fail(f'open descriptors grow with the number of operations/packs: {counts[0]} after the first round, {counts[29]} after 30, {counts[-1]} after 60',
                {'kind': 'fd-growth', 'counts': counts}, 'C18:fd-growth')
    # bulk read: number of data files open at the same time
    keys = sorted(truth)
    max_open = 0
    with c.get_objects_stream_and_meta(keys) as trip:
        for k, s, m in trip:
            if m['pack_compressed']:
                s.seek(-1, 2)  # forces the re-loosened cache of a compressed object
                s.read()
            else:
                s.read(1)
            data_files = [f for f in store.fd_census(d) if f.startswith(('packs/', 'loose/'))]
            max_open = max(max_open, len(data_files))
            if len(data_files) > 2 or (len(data_files) == 2 and not m['pack_compressed']):
                ck.fail(f'bulk read keeps {len(data_files)} data files open at once: {data_files}', {'kind': 'open-files', 'files': data_files}, 'C18:open-files')
                break
    ck.cov['max_data_files_open_during_bulk_read'] = max_open
    left = [f for f in store.fd_census(d) if f.startswith(('packs/', 'loose/'))]
    if left:
        ck.fail(f'after a bulk read finished, data files are still open: {left[:3]}', {'kind': 'open-files-after', 'files': left}, 'C18:open-after-bulk')
    # lazily opened inputs are open only while being consumed
    inputs = []
    for j in range(12):
        p = os.path.join(root, f'in{j}')
        with open(p, 'wb') as f:
            f.write(b'lazy-%d' % j * 10)
        inputs.append(LazyOpener(Path(p)))
    opened = {'max': 0}
    orig_enter = LazyOpener.__enter__

    def counting_enter(self):
        r = orig_enter(self)
        n = sum(1 for x in inputs if x._fhandle is not None)
        opened['max'] = max(opened['max'], n)
        return r
    LazyOpener.__enter__ = counting_enter
    try:
        c.add_streamed_objects_to_pack(inputs, open_streams=True)
    finally:
        LazyOpener.__enter__ = orig_enter
    if opened['max'] > 1 or any(x._fhandle is not None for x in inputs):
        ck.fail(f'lazily opened input streams: {opened["max"]} open at the same time, {sum(1 for x in inputs if x._fhandle is not None)} left open',
                {'kind': 'lazy-inputs'}, 'C18:lazy')
    c.close()
    left = store.fd_census(d)
    if left:
        ck.fail(f'after close() the process holds descriptors inside the container: {left[:4]}', {'kind': 'fd-after-close', 'files': left}, 'C18:after-close')
    shutil.rmtree(root, ignore_errors=True)


def chunk_sizes(ck):
    """every write/read the streaming paths issue is bounded by the chunk constants"""
    common.use_repo()
    import instr
    from disk_objectstore import Container
    instr.install()
    root = common.scratch_root()
    d = os.path.join(root, 'c')
    c = Container(d)
    c.init_container(clear=True)
    instr.ROOT = os.path.abspath(d)
    instr.ARMED = True
    try:
        k = c.add_streamed_object(ZeroBig(3 * 1024 * 1024, False))
        c.pack_all_loose()
        c.repack()
    finally:
        instr.ARMED = False
    consts = ck.constants or {}
    bound = max(consts.get('ADD_READ_CHUNK', 524288), consts.get('CHUNKSIZE', 65536), consts.get('ZLIB_CHUNKSIZE', 524288))
    big = [e for e in instr.LOG if e[1] == 'write' and e[3] > bound]
    ck.cov['largest_write'] = max([e[3] for e in instr.LOG if e[1] == 'write'] or [0])
    if big:
        ck.fail(f'a streaming path wrote {big[0][3]} bytes in one call (chunk bound {bound})', {'kind': 'chunk', 'event': list(big[0][:4])}, 'C18:chunk')
    c.close()
    shutil.rmtree(root, ignore_errors=True)


def main(tier, seed, replay=None):
    ck = Check('C18', tier, seed)
    ck.cov['rule'] = ('descriptor census (/proc/self/fd entries resolving inside the container) after every step of random histories and after close(); '
                      '60 rounds of direct-to-pack/add/pack/clean with the total descriptor count recorded; data files open during a bulk read with seeks '
                      'on compressed objects; open-counters on LazyOpener inputs; write sizes of the streaming paths from the intercepted trace; '
                      'tracemalloc peak of each streaming path (add streamed, direct-to-pack compressed, pack AUTO, chunked read plain/compressed, '
                      'repack, validate, import) at 4 and 16 MiB (thorough: 16 and 64 MiB), required < 12 MiB and not growing with size')
    ck.coq()
    import tracecheck
    tracecheck.check_traces(ck, 'C18', names=['add', 'add_big', 'pack_small', 'topack_multi', 'repack'])
    hist.run_histories(ck, 'C18', [('mixed', 60 if tier == 'quick' else 1500, 18, False)])
    try:
        import lookupcorr
        lookupcorr.run(ck, tier, ncont=4 if tier == 'quick' else 30)   # ties LookupFd.lookup_events (C18_bulk_read_*) to the generator
    except Exception as e:
        ck.obligation('lookup-generator correspondence executed', False, f'{type(e).__name__}: {e}', kind='correspondence')
    try:
        fd_and_open_files(ck)
        chunk_sizes(ck)
    except Exception as e:
        import traceback
        ck.obligation('resource harness executed', False, f'{type(e).__name__}: {e} {traceback.format_exc()[-500:]}', kind='correspondence')
    sizes = (4, 16) if tier == 'quick' else (16, 64)
    paths = ['add_streamed', 'add_streamed_to_pack_z', 'pack', 'read_chunked', 'read_chunked_z', 'repack', 'validate', 'import']
    from concurrent.futures import ThreadPoolExecutor

    def meas(args):
        pk, mb = args
        root = common.scratch_root()
        try:
            r = subprocess.run([common.PY, os.path.join(common.VERIF, 'harness', 'c18.py'), '--mem', pk, str(mb), root],
                               capture_output=True, text=True, env=common.child_env(), timeout=900)
            return (pk, mb, json.loads(r.stdout.strip().splitlines()[-1])['peak'] if r.returncode == 0 else None, r.stderr[-300:])
        finally:
            shutil.rmtree(root, ignore_errors=True)
    with ThreadPoolExecutor(8) as ex:
        res = list(ex.map(meas, [(p, mb) for p in paths for mb in sizes]))
    peaks = {}
    for pk, mb, peak, err in res:
        ck.count(('mem', pk, mb), nontrivial=True)
        if peak is None:
            ck.obligation(f'memory measurement {pk}@{mb}MiB ran', False, err, kind='correspondence')
            continue
        peaks[f'{pk}@{mb}MiB'] = round(peak / 2 ** 20, 2)
    ck.cov['tracemalloc_peak_MiB'] = peaks
    for pk in paths:
        small, large = peaks.get(f'{pk}@{sizes[0]}MiB'), peaks.get(f'{pk}@{sizes[1]}MiB')
        if small is None or large is None:
            continue
        if large > 12 or large > 1.5 * small + 1.0:
            ck.fail(f'peak memory of {pk} grows with object size: {small} MiB at {sizes[0]} MiB, {large} MiB at {sizes[1]} MiB',
                    {'kind': 'memory', 'path': pk, 'peaks': peaks}, f'C18:mem-{pk}')
    ck.sample({'peaks_MiB': peaks})
    ck.assumptions += ['CPython refcounting finalises abandoned generators promptly (the census runs right after each call returns)',
                       'tracemalloc sees Python-level allocations only (zlib/sqlite internal buffers are outside)']
    import tracecheck as _tc
    return ck.finish(search=_tc.crash_search(ck, ck.pid))


if __name__ == '__main__':
    if len(sys.argv) > 4 and sys.argv[1] == '--mem':
        sys.path.insert(0, os.path.dirname(os.path.abspath(__file__)))
        memory_child(sys.argv[2], int(sys.argv[3]), sys.argv[4])
