"""what a user does after a crash, through a new handle: retry maintenance.  followup_child.py <dir>
Each operation may refuse (raise); none may damage the container.  Prints one JSON line with what each did."""
import glob
import json
import os
import sys

d = sys.argv[1]
from disk_objectstore import CompressMode, Container  # noqa: E402

for lk in glob.glob(os.path.join(d, 'packs', '*.lock')):
    os.remove(lk)
out = {}
c = Container(d)
for name, f in (('repack', lambda: c.repack(compress_mode=CompressMode.KEEP)), ('pack_all_loose', lambda: c.pack_all_loose()),
                ('clean_storage', lambda: c.clean_storage())):
    try:
        f()
        out[name] = 'ok'
    except BaseException as e:  # noqa: BLE001
        out[name] = f'{type(e).__name__}: {str(e)[:80]}'
try:
    c.close()
except Exception:
    pass
print(json.dumps(out))
