"""child process of the sweeps: sweep_child.py <scenario> <dir> <mode none|kill|fault> <n> <snapdir> [payload]"""
import glob
import json
import os
import sys

name, d, mode, n, snap = sys.argv[1], sys.argv[2], sys.argv[3], int(sys.argv[4]), sys.argv[5]
payload = len(sys.argv) > 6 and sys.argv[6] == 'payload'
import instr  # noqa: E402
import scen  # noqa: E402
from disk_objectstore import Container  # noqa: E402

truth, op, targets = scen.SCEN[name](d)
instr.install()
instr.ROOT = os.path.abspath(d)
instr.SNAPDIR = snap
instr.PAYLOAD = payload
if mode == 'kill':
    instr.KILL_AT = n
if mode == 'fault':
    instr.FAULT_AT = n
c = Container(d)
c.get_folder()
_ = c.loose_prefix_len  # load the configuration before arming
instr.snapshot_existing(d)


def dump_raw(fname):
    import store
    raw = store.raw_state(d, 'sha256')
    with open(os.path.join(snap, fname), 'w') as f:
        json.dump({'rows': raw['rows'], 'packs': {str(k): v.hex() for k, v in raw['packs'].items()}, 'loose': {k: v.hex() for k, v in raw['loose'].items()},
                   'sandbox': {k: v.hex() for k, v in raw['sandbox'].items()}, 'dups': {k: v.hex() for k, v in raw['dups'].items()},
                   'stored': {k: v.hex() for k, v in raw['stored'].items()}}, f)


if payload:
    dump_raw('pre_raw.json')
out = {'truth': {k: v.hex() for k, v in truth.items()}, 'targets': sorted(targets)}
with open(os.path.join(snap, 'truth.json'), 'w') as f:
    json.dump(out, f)
instr.ARMED = True
try:
    r = op(c)
    out['result'] = 'ok'
    try:
        out['retval'] = json.loads(json.dumps(r, default=str))
    except Exception:
        out['retval'] = str(r)
except BaseException as e:
    out['result'] = 'exc:' + type(e).__name__ + ':' + str(e)[:100]
instr.ARMED = False
out['n'] = instr.N
out['log'] = json.loads(json.dumps(instr.LOG, default=lambda b: b.hex() if isinstance(b, (bytes, bytearray)) else str(b)))
if mode == 'fault':
    # what a user would do after an I/O error: drop the handle, remove stale lock files, start again with a new handle
    try:
        c.close()
    except Exception:
        pass
    import store
    if payload:
        dump_raw('post_raw.json')
    raw = store.raw_state(d, 'sha256')
    out['raw_after_fault'] = {'problems': raw['problems'], 'stored': {k: v.hex() for k, v in raw['stored'].items()}, 'locks': raw['locks'],
                              'has_repack_pack': -1 in raw['packs']}
    if 'repack' not in name:
        for lk in glob.glob(os.path.join(d, 'packs', '*.lock')):
            os.remove(lk)
        c = Container(d)
        try:
            op(c)
            out['rerun'] = 'ok'
        except BaseException as e:
            out['rerun'] = 'exc:' + type(e).__name__ + ':' + str(e)[:100]
        try:
            out['final'] = {k: c.get_object_content(k).hex() for k in c.list_all_objects()}
            out['valid'] = c.validate().is_valid()
        except BaseException as e:
            out['final_exc'] = repr(e)[:200]
if mode == 'none':
    out['final'] = {k: c.get_object_content(k).hex() for k in c.list_all_objects()}
try:
    c.close()
except Exception as e:
    out['close_exc'] = str(e)
if payload and mode != 'fault':
    dump_raw('post_raw.json')
with open(os.path.join(snap, 'out.json'), 'w') as f:
    json.dump(out, f)
