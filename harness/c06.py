"""C06 - publish only after durable; remove only after the replacement is durable (power-loss image at every kill point)."""
import c05


def main(tier, seed, replay=None):
    return c05.main(tier, seed, replay, pid='C06', mode='kill', powerloss=True)
