"""C01 - content-addressed round trip on every write path (size/path/configuration grid, oracle hashlib + the bytes)."""
import io
import multiprocessing as mp
import os
import shutil

import common
import store
from common import Check

SIZES = [0, 1, 2, 65535, 65536, 65537, 131071, 131072, 131073, 524287, 524288, 524289, 1048577]
KINDS = ['zeros', 'random', 'half', 'text', 'gz']
PATHS = ['add_object', 'add_streamed_object', 'pack_plain', 'pack_z', 'pack_one_plain', 'pack_one_z', 'pack_streamed_bytesio',
         'pack_streamed_lazy', 'loose_then_pack', 'loose_then_pack_z', 'loose_then_pack_auto', 'pack_then_repack_auto', 'pack_streamed_offset']


def content(kind, size, seed):
    import random
    r = random.Random(seed)
    if kind == 'zeros':
        return bytes(size)
    if kind == 'random':
        return r.randbytes(size)
    if kind == 'half':
        return bytes(size // 2) + r.randbytes(size - size // 2)
    if kind == 'gz':   # an already compressed payload: a gzip stream (its signature first), cut or padded with noise to the size
        import gzip
        z = gzip.compress(r.randbytes(max(size, 16)), mtime=0)
        return (z + r.randbytes(max(0, size - len(z))))[:size]
    return (b'The quick brown fox %d. ' % seed * (size // 20 + 1))[:size]


def run_cell(cell):
    common.use_repo()
    from pathlib import Path
    from disk_objectstore import Container
    from disk_objectstore.utils import LazyOpener
    root = common.scratch_root()
    try:
        cfg = cell['cfg']
        c = Container(os.path.join(root, 'c'))
        c.init_container(clear=True, **cfg)
        ht = cfg['hash_type']
        b = content(cell['kind'], cell['size'], cell['seed'])
        other = [b'neighbour-before', b'neighbour-after' * 3]
        path = cell['path']
        if path == 'add_object':
            k = c.add_object(b)
        elif path == 'add_streamed_object':
            k = c.add_streamed_object(store.ShortReader(b, cell['chunk']))
        elif path in ('pack_plain', 'pack_z'):
            k = c.add_objects_to_pack([other[0], b, other[1]], compress=path.endswith('z'))[1]
        elif path in ('pack_one_plain', 'pack_one_z'):
            k = c.add_streamed_object_to_pack(io.BytesIO(b), compress=path.endswith('z'))
        elif path == 'pack_streamed_bytesio':
            k = c.add_streamed_objects_to_pack([io.BytesIO(other[0]), io.BytesIO(b)], compress=cell['seed'] % 2 == 0)[1]
        elif path == 'pack_streamed_lazy':
            p = os.path.join(root, 'input')
            with open(p, 'wb') as f:
                f.write(b)
            k = c.add_streamed_objects_to_pack([LazyOpener(Path(p))], open_streams=True, compress=cell['seed'] % 2 == 1,
                                               no_holes=cell['seed'] % 3 == 0, no_holes_read_twice=cell['seed'] % 5 != 0)[0]
        elif path == 'pack_streamed_offset':
            # a seekable stream handed over at a non-zero position (the caller consumed a header): whichever bytes the library stores for
            # it (all of them after a rewind, or the rest), the key handed back must be the digest of exactly the bytes stored under it
            pos = min(len(b), 1 + cell['seed'] % 7)
            st = io.BytesIO(b)
            st.seek(pos)
            k = c.add_streamed_object_to_pack(st, compress=cell['seed'] % 2 == 0, no_holes=cell['seed'] % 3 != 0, no_holes_read_twice=cell['seed'] % 5 != 0)
            got = c.get_object_content(k)
            if store.H(ht, got) != k:
                return f'{path}: the key {k[:10]} handed back for a stream passed at position {pos} is not the digest of the {len(got)} bytes stored under it'
            if got not in (b, b[pos:]):
                return f'{path}: stream passed at position {pos}: stored {len(got)} bytes that are neither the whole stream nor its rest'
            b = got
        elif path == 'pack_then_repack_auto':
            from disk_objectstore import CompressMode
            k = c.add_objects_to_pack([other[0], b, other[1]], compress=cell['seed'] % 2 == 0)[1]
            c.repack(compress_mode=CompressMode.AUTO)
        else:
            from disk_objectstore import CompressMode
            k = c.add_object(b)
            c.add_object(other[0])
            c.pack_all_loose(compress=CompressMode.AUTO if path.endswith('auto') else path.endswith('z'), validate_objects=cell['seed'] % 3 != 0)
            if cell['seed'] % 2:
                c.clean_storage()
        exp = store.H(ht, b)
        if k != exp:
            return f'{path}: returned key {k[:10]} but the {ht} digest of the {len(b)} stored bytes is {exp[:10]}'
        # read plans
        got = c.get_object_content(k)
        if got != b:
            return f'{path}: whole read returns {len(got)} bytes, first difference at {next((i for i, (x, y) in enumerate(zip(got, b)) if x != y), min(len(got), len(b)))}; stored {len(b)}'
        for n in (1, 7, 65536, 70000) if len(b) < 200000 else (65536, 70000):
            if n == 1 and len(b) > 3000:
                continue
            with c.get_object_stream(k) as s:
                parts = []
                while True:
                    x = s.read(n)
                    if not x:
                        break
                    parts.append(x)
                if b''.join(parts) != b:
                    return f'{path}: chunked read (n={n}) differs from the stored bytes'
        bulk = c.get_objects_content([k, store.H(ht, other[0])], skip_if_missing=True)
        if bulk.get(k) != b:
            return f'{path}: bulk read differs'
        with c.get_object_stream_and_meta(k) as (s, m):
            if m.size != len(b) or s.read() != b:
                return f'{path}: stream+meta reports size {m.size} for {len(b)} bytes or wrong bytes'
        if c.get_object_meta(k).size != len(b):
            return f'{path}: get_object_meta size'
        raw = store.raw_state(os.path.join(root, 'c'), ht)
        if raw['problems'] or raw['stored'].get(k) != b:
            return f'{path}: raw reader cannot recover the object: {raw["problems"][:2]}'
        c.close()
        return None
    finally:
        shutil.rmtree(root, ignore_errors=True)


def _one(cell):
    try:
        return run_cell(cell)
    except Exception as e:
        import traceback
        return f'EXC {type(e).__name__}: {e} {traceback.format_exc()[-300:]}'


def main(tier, seed, replay=None):
    ck = Check('C01', tier, seed)
    ck.cov['rule'] = (f'grid: sizes {SIZES} x content kinds {KINDS} x write paths {PATHS} x hash {{sha1,sha256}} x loose_prefix_len {{0,1,2,3}} x zlib '
                      'level {1,6,9} (thorough 1..9) x pack_size_target {1 KiB, 4 GiB}; quick = a pseudo-random slice of ~320 cells containing every '
                      'size x path pair at least once, thorough = every size x kind x path with rotating configurations (~3100 cells); oracle hashlib '
                      'and the bytes; reads: whole, chunked n in {1,7,65536,70000}, bulk, stream+meta, raw recovery; a cell is non-trivial if size > 0')
    ck.coq()
    rnd = ck.rng
    cells = []

    def cfg():
        return {'hash_type': rnd.choice(['sha1', 'sha256']), 'loose_prefix_len': rnd.choice([0, 1, 2, 3]),
                'compression_algorithm': f'zlib+{rnd.choice([1, 6, 9]) if tier == "quick" else rnd.randint(1, 9)}',
                'pack_size_target': rnd.choice([1024, 4 * 1024 ** 3])}
    if tier == 'quick':
        for size in SIZES:
            for path in PATHS:
                for kind in rnd.sample(KINDS, 2 if size < 600000 else 1):
                    cells.append({'size': size, 'kind': kind, 'path': path, 'cfg': cfg(), 'seed': rnd.randrange(1000), 'chunk': rnd.choice([1, 4096, 65536, 10 ** 7]) if size < 70000 else rnd.choice([65536, 10 ** 7])})
    else:
        for size in SIZES:
            for path in PATHS:
                for kind in KINDS:
                    for rep in range(6):
                        cells.append({'size': size, 'kind': kind, 'path': path, 'cfg': cfg(), 'seed': rnd.randrange(1000), 'chunk': rnd.choice([7, 4096, 65536, 10 ** 7]) if size < 70000 else rnd.choice([65536, 10 ** 7])})
    with mp.get_context('fork').Pool(min(common.NPROC, 14)) as pool:
        results = pool.map(_one, cells, chunksize=2)
    nf = 0
    for cell, r in zip(cells, results):
        ck.count(cell, nontrivial=cell['size'] > 0)
        if r:
            nf += 1
            if nf <= 2:
                ck.fail(f'size {cell["size"]} ({cell["kind"]}), cfg {cell["cfg"]}: {r}', {'kind': 'roundtrip-cell', 'cell': cell}, f'C01:{cell["path"]}')
    ck.sample(cells[0])
    ck.sample(cells[len(cells) // 2])
    import hist
    import tracecheck
    tracecheck.check_traces(ck, 'C01', names=['add', 'add_flat', 'add_dup', 'add_big', 'topack', 'pack_clean'])
    hist.run_histories(ck, 'C01', [('mixed', 40 if tier == 'quick' else 600, 15, False)])
    import tracecheck as _tc
    return ck.finish(search=_tc.crash_search(ck, ck.pid))
