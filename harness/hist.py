"""Run generated histories (store.Runner) in parallel and attribute failures to properties."""
from __future__ import annotations

import json
import multiprocessing as mp
import os
import random

import common
import store


def _one(args):
    case, checks = args
    try:
        res = store.run_case(case, checks)
    except Exception as e:  # harness problem: report as such
        return {'harness_error': f'{type(e).__name__}: {e}'}
    if res is None:
        return None
    tags, msg, step, allf = res
    return {'tags': sorted(tags), 'msg': msg, 'step': step, 'all': allf}


def corpus_cases(pid: str) -> list[dict]:
    d = os.path.join(common.VERIF, 'corpus', pid)
    out = []
    if os.path.isdir(d):
        for f in sorted(os.listdir(d)):
            if f.endswith('.json'):
                with open(os.path.join(d, f)) as fh:
                    doc = json.load(fh)
                if doc.get('kind', 'history') == 'history':
                    out.append((f, doc['case']))
    return out


def run_histories(ck, pid: str, plan: list[tuple[str, int, int, bool]], shrink=True, key_prefix='hist'):
    """plan: list of (profile, count, nsteps, big).  Failures tagged with pid become concrete failures of ck;
    failures tagged otherwise are noted (they belong to another property's check)."""
    rnd = random.Random(ck.seed * 7919 + int(pid[1:]) * 104729)
    cases = []
    for name, case in corpus_cases(pid):
        cases.append(('corpus:' + name, case))
    for profile, count, nsteps, big in plan:
        for i in range(count):
            cases.append((f'{profile}#{i}', store.gen_history(rnd, nsteps, profile, big)))
    ctx = mp.get_context('fork')
    with ctx.Pool(min(common.NPROC, 14)) as pool:
        results = pool.map(_one, [(c, 'full') for _, c in cases], chunksize=1)
    opstats = {}
    nfail = 0
    other = {}
    for (name, case), res in zip(cases, results):
        kinds = tuple(o['op'] for o in case['ops'])
        ck.count((name, case['pool_seed'], kinds), nontrivial=len(case['ops']) > 0)
        for o in case['ops']:
            opstats[o['op']] = opstats.get(o['op'], 0) + 1
        if res is None:
            continue
        if 'harness_error' in res:
            ck.obligation('history runner executed', False, res['harness_error'], kind='correspondence')
            continue
        if pid in res['tags'] or ('EXC' in res['tags'] and pid == 'C02'):
            nfail += 1
            if nfail <= 2:
                small = store.shrink(case, {pid} | ({'EXC'} if pid == 'C02' else set())) if shrink else case
                r2 = store.run_case(small)
                msg = r2[1] if r2 else res['msg']
                for tg, m in (r2[3] if r2 else res['all']):
                    if pid in tg:
                        msg = m
                        break
                op = small['ops'][r2[2]] if r2 and 0 <= r2[2] < len(small['ops']) else None
                ck.fail(f'history {name} ({len(small["ops"])} steps after shrinking): {msg}',
                        {'kind': 'history', 'case': small, 'failing_step': r2[2] if r2 else res['step'], 'failing_op': op},
                        finding_key(pid, op, msg))
        else:
            for t in res['tags']:
                other[t] = other.get(t, 0) + 1
    ck.cov.setdefault('operation_distribution', {})
    for k, v in opstats.items():
        ck.cov['operation_distribution'][k] = ck.cov['operation_distribution'].get(k, 0) + v
    ck.cov['histories'] = ck.cov.get('histories', 0) + len(cases)
    if other:
        ck.notes.append(f'failures attributed to other properties while running {pid} histories: {other}')
    if cases:
        name, case = cases[min(len(cases) - 1, 3)]
        ck.sample({'history': name, 'cfg': case['cfg'], 'ops': case['ops'][:6], 'nsteps': len(case['ops'])})
    return nfail


def finding_key(pid, op, msg):
    """stable identity of a failure: property + failing call site/options (not the random contents)"""
    if op is None:
        return f'{pid}:unknown'
    k = op['op']
    if k.startswith('topack'):
        return f'{pid}:{k}[no_holes={op["no_holes"]},read_twice={op["read_twice"]}]'
    if k == 'import':
        return f'{pid}:import[iterable={op["iterable"]},callback={op["callback"]}]'
    return f'{pid}:{k}'
