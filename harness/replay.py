"""./check <Cxx> --replay <file>: re-execute a replay file against the working tree; prints REPRODUCED or NOT-REPRODUCED."""
from __future__ import annotations

import json
import os

import common


def replay(pid: str, path: str) -> int:
    with open(path) as f:
        doc = json.load(f)
    case = doc.get('case') or {}
    kind = case.get('kind')
    print(f'replay {path}: property={doc.get("property")} kind={kind or doc.get("kind")} what={str(doc.get("what"))[:200]}')
    if not doc.get('concrete') or not kind:
        print('this replay names broken proof obligations / correspondences, not an input:')
        for o in doc.get('broken_obligations', []):
            print(f"  - [{o['kind']}] {o['name']}: {o['detail'][:300]}")
        print('re-run the check itself to see whether they still break: ./check', pid)
        return 2
    common.use_repo()
    res = None
    if kind == 'history':
        import store
        r = store.run_case(case['case'])
        res = None if r is None else f'{sorted(r[0])}: {r[1]}'
        if r is not None and pid not in r[0] and not (pid == 'C02' and 'EXC' in r[0]):
            print(f'(the history fails, but for other properties: {sorted(r[0])})')
    elif kind in ('stream-program', 'stream-program-large'):
        import c07
        if kind == 'stream-program':
            root = common.scratch_root()
            content = bytes(case['content'])
            forms = c07.Forms(root, [bytes(range(48, 48 + n)) for n in range(0, 6)])
            try:
                base = content[1:] if case['form'] in ('zsd', 'zsd_nolazy', 'cb_zsd', 'loose') else content
                key, stored = forms.key_for(case['form'], base)
                prog = []
                for o in case['program']:
                    if o == 't':
                        prog.append(('t',))
                    elif o[0] == 'r':
                        prog.append(('r', int(o[1:])))
                    else:
                        t, w = o[1:].split(':')
                        prog.append(('s', int(t), int(w)))
                results, _ = c07.run_program(forms, case['form'], key, prog, chunk=3 if 'zsd' in case['form'] else None)
                res = c07.judge(stored, prog, results, allow_notimpl=(case['form'] == 'zsd_nolazy'))
            finally:
                forms.close()
        else:
            print('large-object programs are regenerated from the seed: run the check with VERIF_SEED =', case.get('seed'))
            return 2
    elif kind in ('kill', 'kill+powerloss', 'fault'):
        import sweep
        mode = 'fault' if kind == 'fault' else 'kill'
        r = sweep.one(case['scenario'], mode, case['n'], powerloss=kind.endswith('powerloss'))
        probs = list(r.get('probs') or [])
        if mode == 'fault' and 'repack' not in case['scenario'] and r.get('rerun') not in (None, 'ok'):
            probs.append(f'rerun: {r.get("rerun")}')
        res = probs[0] if probs else None
    elif kind == 'schedule':
        import c04
        r = c04._child(case['case'])
        res = str(r['errs'][0]) if r.get('errs') else None
    elif kind == 'multi-handle-history':
        import c08
        r = c08.run_case(case['case'])
        res = r[0] if r else None
    elif kind == 'backup-schedule':
        import c15
        r = c15.run_case(case['case'])
        res = r[0] if r else None
    elif kind == 'roundtrip-cell':
        import c01
        res = c01.run_cell(case['cell'])
    elif kind in ('dws', 'merge', 'chunks'):
        from disk_objectstore import utils
        import c16
        if kind == 'dws':
            got = c16.impl_dws(utils, [tuple(x) for x in case['L']], case['R'], case['left_key'])
            srt = c16.strictly_sorted([k for k, _ in case['L']]) and c16.strictly_sorted(case['R'])
            exp = c16.oracle_dws([tuple(x) for x in case['L']], case['R']) if srt else None
            res = None if (got == exp if srt else not got.startswith('ok')) else f'got {got}, expected {exp or "a ValueError"}'
        else:
            print('re-run the check: ./check C16')
            return 2
    elif kind == 'page-boundary':
        import c16

        class _Ck:
            pid = pid_ = None
            cov = {}

            def __init__(self):
                self.fails = []

            def count(self, *a, **k):
                pass

            def fail(self, what, case, key=None):
                self.fails.append(what)
        ckk = _Ck()
        c16.page_boundaries(ckk, pid=pid)
        res = ckk.fails[0] if ckk.fails else None
    elif kind in ('layout', 'import-plan'):
        # differential cases against the extracted model: re-run the differential part of the check on the working tree
        import c02

        class _Ck2:
            def __init__(self, pid):
                import random
                self.pid, self.cov, self.constants, self.fails, self.obls = pid, {}, None, [], []
                self.rng = random.Random(doc.get('seed', 0))

            def count(self, *a, **k):
                pass

            def sample(self, *a, **k):
                pass

            def fail(self, what, case, key=None):
                self.fails.append(what)

            def obligation(self, name, ok, detail='', kind=''):
                if not ok:
                    self.obls.append(f'{name}: {detail}')
        ck2 = _Ck2(pid)
        (c02._layout if kind == 'layout' else c02._import_plan)(ck2, doc.get('tier', 'quick'))
        res = (ck2.fails + ck2.obls or [None])[0]
    elif kind == 'damage':
        import c12
        r = c12.sweep_container((case['container_seed'], case['big'], 0, 1))
        res = r['missed'][0] if r['missed'] else None
    else:
        print(f'no replayer for kind {kind}; re-run the check')
        return 2
    if res:
        print(f'REPRODUCED: {str(res)[:400]}')
        return 1
    print('NOT-REPRODUCED')
    return 0
