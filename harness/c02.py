"""C02 - any history of operations is equivalent to a key->bytes map."""
import hist
from common import Check

PLANS = {
    'C02': {'quick': [('mixed', 150, 22, False), ('mixed', 6, 12, True), ('import', 30, 14, False)],
            'thorough': [('mixed', 4000, 30, False), ('mixed', 100, 150, False), ('mixed', 60, 15, True), ('import', 600, 20, False), ('delete', 500, 25, False)]},
    'C03': {'quick': [('mixed', 150, 22, False), ('dedup', 40, 15, False), ('delete', 30, 18, False)],
            'thorough': [('mixed', 3000, 30, False), ('dedup', 800, 25, False), ('delete', 600, 25, False), ('mixed', 40, 15, True)]},
    'C09': {'quick': [('dedup', 150, 18, False), ('mixed', 40, 15, False)],
            'thorough': [('dedup', 4000, 25, False), ('mixed', 800, 25, False)]},
    'C10': {'quick': [('modes', 120, 16, False), ('modes', 10, 10, True)],
            'thorough': [('modes', 3000, 25, False), ('modes', 120, 12, True), ('mixed', 500, 25, False)]},
    'C11': {'quick': [('delete', 150, 18, False)],
            'thorough': [('delete', 4000, 25, False), ('mixed', 500, 25, False)]},
    'C13': {'quick': [('norepack', 160, 22, False), ('norepack', 6, 12, True)],
            'thorough': [('norepack', 4000, 30, False), ('norepack', 60, 15, True)]},
    'C14': {'quick': [('import', 160, 14, False), ('import', 8, 8, True)],
            'thorough': [('import', 4000, 20, False), ('import', 100, 10, True), ('mixed', 400, 25, False)]},
}
RULES = {
    'C02': 'random histories over 14 operation kinds (loose add from bytes/short-read stream, direct-to-pack from bytes / LazyOpener with every no_holes/'
           'read_twice/compress combination, pack_all_loose with every mode/clean_per_pack/validate/do_fsync, clean_storage(vacuum), repack(mode), '
           'delete, loosen, import from a second container (other hash type, all iterable kinds, callback), reopen, refused re-init) from an empty '
           'container of random configuration (hash, prefix 0-3, zlib level 1-9, pack target 50/300/4GiB); contents from a pool of 10-16 so that '
           'repeats are frequent (plus 66-70 kB objects in the "big" histories); after EVERY step all views are compared with a dict, the folder is '
           'read raw, validate() is run, descriptors are counted; a history is non-trivial if it has steps, distinct by (pool seed, operation kinds)',
}


def main(tier, seed, replay=None, pid='C02'):
    ck = Check(pid, tier, seed)
    ck.cov['rule'] = RULES['C02'] + {'C03': ' | C03: judged by the library-free raw reader (sqlite3 + byte slices + zlib) after every step',
                                     'C09': ' | C09: repeat-biased pool and batches, damaged-loose injector, pack growth vs newly referenced bytes for no_holes',
                                     'C10': ' | C10: mode chains (pack/repack with NO/YES/KEEP/AUTO/bools), flags per row, sizes, totals',
                                     'C11': ' | C11: delete-heavy endings with stray duplicates, repack: each pack = concatenation of live stored bytes',
                                     'C13': ' | C13: repack-free histories incl. reopened and parallel handles; every pack compared before/after every step',
                                     'C14': ' | C14: import-heavy histories, sizes straddling target_memory_bytes, one-shot iterables, callbacks'}.get(pid, '')
    ck.coq()
    hist.run_histories(ck, pid, PLANS[pid][tier])
    extra = EXTRA.get(pid)
    if extra:
        extra(ck, tier)
    ck.assumptions += ['hash collisions do not occur on the inputs met', 'operations are issued one at a time (no concurrency in this check)']
    return ck.finish(search=tracecheck.crash_search(ck, pid))


def _pick_pack(ck, tier):
    """differential: Container._get_pack_id_to_write_to vs PickPack.pick (extracted) on planted pack files"""
    import os
    import shutil
    import subprocess
    import common
    common.use_repo()
    from disk_objectstore import Container
    rnd = ck.rng
    root = common.scratch_root()
    lines, got = [], []
    try:
        for case in range(150 if tier == 'quick' else 1500):
            target = rnd.choice([1, 10, 50, 300])
            n = rnd.randint(0, 5)
            sizes = [rnd.choice([target, target + rnd.randint(0, 20)]) for _ in range(max(0, n - 1))] + ([rnd.choice([0, target - 1, target, target + 5])] if n else [])
            if rnd.random() < 0.15 and n > 1:
                sizes[rnd.randrange(n - 1)] = max(0, target - 1)   # a hole in the layout: outside the theorem, still compared
            d = os.path.join(root, f'c{case}')
            c = Container(d)
            c.init_container(clear=True, pack_size_target=target)
            for i, sz in enumerate(sizes):
                with open(os.path.join(d, 'packs', str(i)), 'wb') as f:
                    f.write(b'x' * sz)
            cached = rnd.randint(0, n)
            c._current_pack_id = cached if rnd.random() < 0.8 else None
            start = c._current_pack_id or 0
            known = None
            if rnd.random() < 0.5 and n:
                kid = min(start, n - 1)
                known = (kid, sizes[kid] + rnd.choice([0, 1, target, 2 * target]))
            r = c._get_pack_id_to_write_to({known[0]: known[1]} if known else None)
            c.close()
            shutil.rmtree(d, ignore_errors=True)
            lines.append(f"pick {target} {start} | {','.join(map(str, sizes))} | {f'{known[0]}:{known[1]}' if known else '-'}")
            got.append(str(r))
            ck.count(('pick', target, tuple(sizes), start, known), nontrivial=n > 0)
        out = subprocess.run([os.path.join(common.OCAML, 'driver')], input='\n'.join(lines) + '\n', capture_output=True, text=True, timeout=300).stdout.splitlines()
        bad = [(l, g, m) for l, g, m in zip(lines, got, out) if g != m]
        ck.obligation('correspondence: Container._get_pack_id_to_write_to == PickPack.pick (extracted) on planted pack files, cached ids, known_sizes',
                      not bad and len(out) == len(lines), str(bad[:3]), kind='correspondence')
        ck.sample({'pick_case': lines[0], 'result': got[0]})
    finally:
        shutil.rmtree(root, ignore_errors=True)


def _estimate(ck, tier):
    """differential: the seeks utils.estimate_compression performs vs Compress.estimate (extracted)"""
    import io
    import os
    import subprocess
    import common
    common.use_repo()
    from disk_objectstore import utils
    consts = ck.constants or {}
    sample, maxs = consts.get('EST_SAMPLE_SIZE', 1024), consts.get('EST_MAX_SAMPLED', 131072)

    class Rec(io.BytesIO):
        def __init__(self, b):
            super().__init__(b)
            self.seeks = []

        def seek(self, t, w=0):
            r = super().seek(t, w)
            self.seeks.append(self.tell())
            return r
    rnd = ck.rng
    lines, got = [], []
    sizes = [0, 1, 1023, 1024, 1025, 5000, 131071, 131072, 131073, 200000, 300001, 1048577]
    for size in sizes:
        for pos0 in sorted({0, size // 3, size}):
            data = rnd.choice([bytes(size), rnd.randbytes(size),
                               (rnd.choice([b'\x1f\x8b\x08', b'PK\x03\x04', b'\x89PNG\r\n\x1a\n', b'BZh9', b'\xfd7zXZ\x00', b'\x28\xb5\x2f\xfd', b'\xff\xd8\xff'])
                                + rnd.randbytes(size))[:size]])   # zeros, noise, noise behind the signature of a compressed format
            s = Rec(data)
            s.seek(pos0)
            s.seeks.clear()
            utils.estimate_compression(s, size)
            got.append(','.join(map(str, s.seeks)) + f'|{s.tell()}')
            lines.append(f'estimate {size} {size} {sample} {maxs} {pos0}')
            ck.count(('estimate', size, pos0), nontrivial=size > 0)
    out = subprocess.run([os.path.join(common.OCAML, 'driver')], input='\n'.join(lines) + '\n', capture_output=True, text=True, timeout=300).stdout.splitlines()
    bad = [(l, g[:60], m[:60]) for l, g, m in zip(lines, got, out) if g != m]
    ck.obligation('correspondence: seek targets and final position of utils.estimate_compression == Compress.estimate (extracted), sizes straddling the sample window',
                  not bad and len(out) == len(lines), str(bad[:3]), kind='correspondence')


def _import_plan(ck, tier):
    """differential: the grouping of import_objects into add_streamed_object_to_pack / add_objects_to_pack calls vs ImportPlan.plan
    (extracted), on generated source containers and budgets straddling the object sizes; the order in which the source yields the
    objects is observed at source.get_objects_stream_and_meta (an oracle of the model)"""
    import contextlib
    import os
    import shutil
    import subprocess
    import common
    common.use_repo()
    from disk_objectstore import Container
    rnd = ck.rng
    ncases = 40 if tier == 'quick' else 400
    root = common.scratch_root()
    lines, got, cases = [], [], []
    try:
        for ci in range(ncases):
            ht_s, ht_d = rnd.choice([('sha256', 'sha256'), ('sha256', 'sha1'), ('sha1', 'sha1')])
            ds, dd = os.path.join(root, f's{ci}'), os.path.join(root, f'd{ci}')
            src, dst = Container(ds), Container(dd)
            src.init_container(clear=True, hash_type=ht_s, pack_size_target=rnd.choice([50, 10 ** 6]))
            dst.init_container(clear=True, hash_type=ht_d, pack_size_target=rnd.choice([40, 10 ** 6]))
            n = rnd.randint(0, 9)
            contents = []
            for i in range(n):
                ln = rnd.choice([0, 1, 2, 5, 9, 10, 11, 20, 35])
                contents.append((b'%d:' % i + bytes(rnd.randrange(97, 123) for _ in range(ln)))[:max(ln, 0)] if ln else (b'' if i == 0 else b'%d' % i))
            contents = list(dict.fromkeys(contents))
            keys = []
            for c in contents:
                keys.append(src.add_object(c) if rnd.random() < 0.5 else src.add_objects_to_pack([c], compress=rnd.random() < 0.5)[0])
            for c in contents:
                if rnd.random() < 0.2:
                    dst.add_object(c)   # already present in the destination (same-hash path filters these out)
            budget = rnd.choice([1, 5, 10, 11, 21, 50, 1000])
            yielded, calls = [], []
            by_content = {c: i for i, c in enumerate(contents)}
            orig_gosm = src.get_objects_stream_and_meta

            @contextlib.contextmanager
            def gosm(hashkeys, skip_if_missing=True):
                with orig_gosm(hashkeys, skip_if_missing=skip_if_missing) as trip:
                    def gen():
                        for k, st, m in trip:
                            yielded.append((k, m.size))
                            yield k, st, m
                    yield gen()
            src.get_objects_stream_and_meta = gosm
            o_bulk, o_one = dst.add_objects_to_pack, dst.add_streamed_object_to_pack

            def bulk(data, **kw):
                data = list(data)
                calls.append(('B', [by_content[bytes(x)] for x in data], kw.get('do_commit', True)))
                return o_bulk(data, **kw)

            def one(stream, **kw):
                pos = stream.tell()
                b = stream.read()
                stream.seek(pos)
                calls.append(('D', [by_content[b]], kw.get('do_commit', True)))
                return o_one(stream, **kw)
            dst.add_objects_to_pack, dst.add_streamed_object_to_pack = bulk, one
            req = list(keys) + (['0' * len(keys[0])] if keys and rnd.random() < 0.3 else [])
            rnd.shuffle(req)
            mapping = dst.import_objects(req, src, target_memory_bytes=budget, compress=rnd.random() < 0.5)
            idx_of_key = {k: i for i, k in enumerate(keys)}
            order = [idx_of_key[k] for k, _ in yielded]
            sizes = [sz for _, sz in yielded]
            lines.append(f"plan {budget} | {','.join(map(str, sizes))}")
            got.append(' '.join(('D%d' % order.index(ix[0])) if t == 'D' else 'B' + ','.join(str(order.index(i)) for i in ix) for t, ix, _ in calls))
            if any(dc for _, _, dc in calls):
                got[-1] += ' COMMIT-INSIDE'
            big = sum(1 for sz in sizes if sz > budget)
            cases.append({'budget': budget, 'sizes': sizes, 'hash': [ht_s, ht_d], 'requested': len(req)})
            ck.count(('import-plan', budget, tuple(sizes)), nontrivial=len(sizes) > 1)
            ck.cov.setdefault('import_plan_shapes', {}).setdefault(f'direct={min(big, 2)},calls={min(len(calls), 3)}', 0)
            ck.cov['import_plan_shapes'][f'direct={min(big, 2)},calls={min(len(calls), 3)}'] += 1
            # the mapping mentions exactly the yielded source keys
            if set(mapping) != {k for k, _ in yielded}:
                ck.fail(f'import_objects: the returned mapping has keys {sorted(mapping)[:3]}.. but the source yielded {len(yielded)} objects',
                        {'kind': 'import-plan', 'budget': budget, 'sizes': sizes}, 'C14:mapping-keys')
            src.close()
            dst.close()
            shutil.rmtree(ds, ignore_errors=True)
            shutil.rmtree(dd, ignore_errors=True)
    finally:
        shutil.rmtree(root, ignore_errors=True)
    out = subprocess.run([os.path.join(common.OCAML, 'driver')], input='\n'.join(lines) + '\n', capture_output=True, text=True, timeout=300).stdout.split('\n')
    bad = [(l, g, m) for l, g, m in zip(lines, got, out) if g.strip() != m.strip()]
    ck.obligation('correspondence: the calls import_objects makes on the destination (one streamed object / one bulk flush, all with do_commit=False) '
                  '== ImportPlan.plan (extracted) on the sizes the source yields, budgets straddling the sizes',
                  not bad and len(out) >= len(lines), str(bad[:3]), kind='correspondence')
    ck.cov['import_plan_cases'] = len(lines)
    if cases:
        ck.sample(cases[0])


def _layout(ck, tier):
    """differential: how pack_all_loose / add_objects_to_pack / add_streamed_objects_to_pack distribute the objects of ONE call over packs
    vs Layout.segs (extracted), given the stored lengths in write order (recovered from the new index rows: the set-iteration order is an
    oracle), the target and the size the first pack written had before the call"""
    import io
    import os
    import shutil
    import sqlite3
    import subprocess
    import common
    common.use_repo()
    from disk_objectstore import Container
    rnd = ck.rng
    ncases = 30 if tier == 'quick' else 300
    root = common.scratch_root()
    lines, got, metas = [], [], []
    try:
        for ci in range(ncases):
            d = os.path.join(root, f'l{ci}')
            target = rnd.choice([1, 20, 50, 120, 400])
            c = Container(d)
            c.init_container(clear=True, pack_size_target=target)
            uid = 0
            for call in range(rnd.randint(1, 4)):
                con = sqlite3.connect(os.path.join(d, 'packs.idx'))
                before = {r[0] for r in con.execute('select id from db_object')}
                con.close()
                sizes_before = {int(f): os.path.getsize(os.path.join(d, 'packs', f)) for f in os.listdir(os.path.join(d, 'packs')) if f.lstrip('-').isdigit()}
                n = rnd.randint(0, 9)
                objs = []
                for _ in range(n):
                    uid += 1
                    objs.append(b'%d|' % uid + bytes(rnd.choice([97, 98]) for _ in range(rnd.choice([0, 1, 5, 30, 60, 150]))))
                kind = rnd.choice(['pack', 'topack', 'topack_stream'])
                comp = rnd.random() < 0.4
                if kind == 'pack':
                    for o in objs:
                        c.add_object(o)
                    c.pack_all_loose(compress=comp)
                    c.clean_storage()
                elif kind == 'topack':
                    c.add_objects_to_pack(objs, compress=comp)
                else:
                    c.add_streamed_objects_to_pack([io.BytesIO(o) for o in objs], compress=comp)
                con = sqlite3.connect(os.path.join(d, 'packs.idx'))
                rows = [r for r in con.execute('select id, pack_id, offset, length from db_object order by pack_id, offset, id') if r[0] not in before]
                con.close()
                if not rows:
                    continue
                # write order within a pack = offset order (zero-length rows share an offset: they are adjacent either way); packs in id order
                lens = [r[3] for r in rows]
                size0 = sizes_before.get(rows[0][1], 0)
                groups = {}
                for i, r in enumerate(rows):
                    groups.setdefault(r[1], []).append(i)
                got.append(' '.join(','.join(map(str, g)) for _, g in sorted(groups.items())))
                lines.append(f"segs {target} {size0} | {','.join(map(str, lens))}")
                metas.append({'target': target, 'size0': size0, 'lens': lens, 'call': kind, 'compress': comp})
                ck.count(('layout', target, size0, tuple(lens)), nontrivial=len(lens) > 1)
                ck.cov.setdefault('layout_shapes', {}).setdefault(f'packs={min(len(groups), 4)}', 0)
                ck.cov['layout_shapes'][f'packs={min(len(groups), 4)}'] += 1
            c.close()
            shutil.rmtree(d, ignore_errors=True)
    finally:
        shutil.rmtree(root, ignore_errors=True)
    out = subprocess.run([os.path.join(common.OCAML, 'driver')], input='\n'.join(lines) + '\n', capture_output=True, text=True, timeout=300).stdout.split('\n')
    bad = [(m, g, o) for m, g, o in zip(metas, got, out) if g.strip() != o.strip()]
    ck.obligation('correspondence: distribution of the objects of one call over packs (pack_all_loose / add_objects_to_pack / add_streamed_objects_to_pack, '
                  'targets 1..400, existing packs) == Layout.segs (extracted) on the stored lengths in write order',
                  not bad and len(out) >= len(lines), str(bad[:2])[:900], kind='correspondence')
    for m, g, o in bad[:1]:
        ck.fail(f'one {m["call"]} call with target {m["target"]} distributed its objects over packs as [{g}], the fill-order model gives [{o.strip()}] '
                f'(stored lengths {m["lens"]}, first pack had {m["size0"]} bytes)', {'kind': 'layout', **m}, 'C13:layout')
    ck.cov['layout_calls'] = len(lines)


def _traces(names):
    def f(ck, tier):
        import scen
        import tracecheck
        common_names = list(names) if names else list(scen.SCEN)
        # generated scenarios (random pre-state, options and inputs), of the kinds the property is about
        kinds = RAND_KINDS_BY_PID.get(ck.pid, scen.RAND_KINDS)
        per = 1 if tier == 'quick' else 12
        gen = [n for n in tracecheck.random_names(ck.rng, per) if n.split('_')[1] in kinds]
        ck.cov['generated_scenarios'] = len(gen)
        tracecheck.check_traces(ck, ck.pid, names=common_names + gen)
    return f


import tracecheck  # noqa: E402

RAND_KINDS_BY_PID = {'C09': ['add', 'topack', 'import'], 'C10': ['pack', 'repack'], 'C11': ['delete', 'repack'], 'C13': ['add', 'pack', 'clean', 'topack', 'import'],
                     'C14': ['import'], 'C01': ['add', 'topack', 'pack']}

def _pages(ck, tier):
    import c16
    c16.page_boundaries(ck, pid=ck.pid)


def _interrupted_repack(ck, tier):
    """C03 speaks of ANY sequence of operations: also one in which an operation failed half-way (I/O error) or was killed, and maintenance
    was retried afterwards through a new handle - the raw state must still satisfy the invariant (sweep.one: follow-up stage)"""
    import sweep
    names = ['repack', 'repack_keep'] + ([n for n in tracecheck.random_names(ck.rng, 3) if n.startswith('rnd_repack_')] if tier != 'quick' else [])
    total, _ = sweep.sweep(ck, ck.pid, names, 'fault')
    total2, _ = sweep.sweep(ck, ck.pid, names[:1], 'kill')
    ck.cov['interrupted_repack_points'] = total + total2


def _large_call_crashes(ck, tier):
    """C13 for a call far larger than any internal batching threshold, interrupted: after a kill at the boundaries around every non-write call
    (and a sample of the writes) no index entry may designate bytes beyond its pack - a later append would overwrite referenced bytes"""
    import sweep
    total, _ = sweep.sweep(ck, ck.pid, ['topack_many'] + (['pack_many'] if tier != 'quick' else []), 'kill')
    ck.cov['large_call_kill_points'] = total


EXTRA = {'C02': _traces(None), 'C03': (lambda ck, tier: (_traces(None)(ck, tier), _interrupted_repack(ck, tier))),
         'C09': (lambda ck, tier: (_traces(['add_dup', 'topack', 'topack_nh', 'topack_nh_rt0', 'topack_multi', 'import_same'])(ck, tier), _pages(ck, tier))),
         'C10': (lambda ck, tier: (_traces(['pack_clean', 'pack_auto', 'repack', 'repack_keep'])(ck, tier), _estimate(ck, tier))), 'C11': _traces(['delete', 'repack', 'repack_keep']),
         'C13': (lambda ck, tier: (_traces(tracecheck.NOREPACK_SCENARIOS)(ck, tier), _pick_pack(ck, tier), _layout(ck, tier), _large_call_crashes(ck, tier))), 'C14': (lambda ck, tier: (_traces(['import_same', 'import_diff', 'import_same_stream', 'import_diff_stream'])(ck, tier), _import_plan(ck, tier)))}
