"""Interception of every I/O-relevant call of disk_objectstore from OUTSIDE the library (no source hook):
module-level `open` of container/utils, os.* mutators, fcntl, SQLAlchemy engine events.

Each intercepted call is an event (n, kind, ...).  The same hook is the gate used to kill the process before the
n-th event (crash), to raise an I/O error at the n-th event (fault), to hand control to a scheduler (interleavings),
and to snapshot file contents at every fsync (power-loss image).
"""
from __future__ import annotations

import builtins
import errno
import json
import os
import threading

ROOT = None          # absolute container folder; only paths below it are events
EXTRA_ROOTS = []     # further folders whose paths count (e.g. an import source)
ARMED = False
N = 0
KILL_AT = None
FAULT_AT = None
LOG = []             # list of event tuples
PAYLOAD = False      # keep written bytes / inserted rows in the log
SNAPDIR = None       # where fsync snapshots (ino<inode>) and the log are written
SCHED = None         # object with .gate(kind, info) for forced interleavings
OBSERVE_READS = False
_orig = {}
_installed = False
_lock = threading.Lock()


def rel(p):
    try:
        p = os.fspath(p)
    except TypeError:
        return None
    if isinstance(p, bytes):
        p = p.decode()
    if isinstance(p, int):
        return None
    p = os.path.abspath(p)
    if ROOT and (p == ROOT or p.startswith(ROOT + os.sep)):
        return os.path.relpath(p, ROOT)
    for i, r in enumerate(EXTRA_ROOTS):
        if p == r or p.startswith(r + os.sep):
            return f'@{i}/' + os.path.relpath(p, r)
    return None


def gate(kind, *info):
    global N
    if not ARMED:
        return
    if SCHED is not None:
        SCHED.gate(kind, info)
    with _lock:
        N += 1
        n = N
        LOG.append((n, kind) + info)
    if KILL_AT is not None and n == KILL_AT:
        flush_log()
        os._exit(99)
    if FAULT_AT is not None and n == FAULT_AT:
        with _lock:
            LOG[-1] = (n, 'fault', kind) + info[:2]   # the call is about to fail: it does not happen
        if kind == 'sql':
            from sqlalchemy.exc import OperationalError
            raise OperationalError('injected', None, Exception('disk I/O error'))
        raise OSError(errno.EIO, 'injected fault', str(info[:1]))


def flush_log():
    if SNAPDIR:
        with _orig['open'](os.path.join(SNAPDIR, 'log.json'), 'w') as f:
            json.dump(LOG, f, default=lambda b: b.hex() if isinstance(b, (bytes, bytearray)) else str(b))


def _snapshot(path, fd=None):
    if SNAPDIR and os.path.isfile(path):
        st = os.stat(path)
        with _orig['open'](path, 'rb') as src, _orig['open'](os.path.join(SNAPDIR, f'ino{st.st_ino}'), 'wb') as dst:
            dst.write(src.read())


class FProxy:
    """file object proxy: gates write/flush/close/truncate (and optionally reads), forwards everything else"""

    def __init__(self, f, name, mode):
        self.__dict__.update(_f=f, _n=name, _m=mode)

    def write(self, b):
        if PAYLOAD:
            gate('write', self._n, len(b), bytes(b))
        else:
            gate('write', self._n, len(b))
        return self._f.write(b)

    def flush(self):
        if 'r' not in self._m:
            gate('flush', self._n)
        return self._f.flush()

    def close(self):
        if not self._f.closed and 'r' not in self._m:
            gate('close', self._n)
        return self._f.close()

    def truncate(self, *a):
        gate('truncate', self._n, self._f.tell() if not a else a[0])
        return self._f.truncate(*a)

    def seek(self, *a):
        if 'r' not in self._m:
            gate('seek', self._n, a[0])
        return self._f.seek(*a)

    def read(self, *a):
        if OBSERVE_READS:
            gate('read', self._n)
        return self._f.read(*a)

    def __getattr__(self, k):
        return getattr(self._f, k)

    def __enter__(self):
        return self

    def __exit__(self, *a):
        self.close()

    def __iter__(self):
        return iter(self._f)


def my_open(path, mode='r', *a, **k):
    n = rel(path)
    if n is None or not ARMED:
        return _orig['open'](path, mode, *a, **k)
    if 'r' in mode and '+' not in mode:
        if OBSERVE_READS or SCHED is not None:
            gate('open', n, mode)
    else:
        gate('open', n, mode)
    f = _orig['open'](path, mode, *a, **k)
    return FProxy(f, n, mode) if 'b' in mode else f


def install():
    """idempotent; call after `import disk_objectstore` resolved to the tree under test"""
    global _installed
    if _installed:
        return
    _installed = True
    import fcntl

    import disk_objectstore.container as C
    import disk_objectstore.utils as U
    from sqlalchemy import event
    from sqlalchemy.engine import Engine
    _orig['open'] = builtins.open
    C.open = my_open
    U.open = my_open

    def wrap1(name, observe_only=False):
        o = getattr(os, name)
        _orig[name] = o

        def w(p, *a, **k):
            r = rel(p)
            if r is not None and (not observe_only or OBSERVE_READS or SCHED is not None):
                gate(name, r)
            return o(p, *a, **k)
        setattr(os, name, w)
    for nm in ['remove', 'unlink', 'mkdir']:
        wrap1(nm)
    for nm in ['stat', 'listdir']:
        wrap1(nm, observe_only=True)

    def wrap2(name):
        o = getattr(os, name)
        _orig[name] = o

        def w(s, d, *a, **k):
            if rel(s) is not None or rel(d) is not None:
                gate(name, rel(s), rel(d))
            return o(s, d, *a, **k)
        setattr(os, name, w)
    for nm in ['rename', 'replace', 'link']:
        wrap2(nm)
    ofs = os.fsync
    _orig['fsync'] = ofs

    def fs(fd):
        try:
            p = os.readlink(f'/proc/self/fd/{fd}')
        except OSError:
            p = None
        r = rel(p) if p else None
        if r is not None:
            gate('fsync', r)
            if ARMED:
                _snapshot(p)
        return ofs(fd)
    os.fsync = fs
    ofc = fcntl.fcntl
    _orig['fcntl'] = ofc

    def fc(fd, cmd, *a):
        try:
            p = os.readlink(f'/proc/self/fd/{fd}')
        except (OSError, TypeError):
            p = None
        if p and rel(p) is not None:
            gate('fcntl', rel(p), cmd)
            if ARMED and cmd == getattr(fcntl, 'F_FULLFSYNC', -12345):
                _snapshot(p)
        return ofc(fd, cmd, *a)
    fcntl.fcntl = fc

    @event.listens_for(Engine, 'before_cursor_execute')
    def bce(conn, cursor, statement, parameters, context, executemany):
        w = statement.split()[0].upper()
        if w in ('INSERT', 'UPDATE', 'DELETE', 'VACUUM') or w == 'COMMIT':
            if PAYLOAD:
                gate('sql', w, statement[:400], _params(parameters))
            else:
                gate('sql', w)
        elif w == 'SELECT' and (OBSERVE_READS or SCHED is not None):
            gate('sql', 'SELECT')

    @event.listens_for(Engine, 'commit')
    def cm(conn):
        gate('sql', 'COMMIT')

    @event.listens_for(Engine, 'rollback')
    def rb(conn):
        if OBSERVE_READS or SCHED is not None:
            gate('sql', 'ROLLBACK')


def _params(p):
    try:
        if isinstance(p, (list, tuple)) and p and isinstance(p[0], (list, tuple, dict)):
            return [list(x.values()) if isinstance(x, dict) else list(x) for x in p][:2000]
        if isinstance(p, dict):
            return [list(p.values())]
        return [list(p)]
    except Exception:
        return None


def snapshot_existing(d):
    """pre-existing regular files count as durable: snapshot them by inode before arming"""
    for sub in ['loose', 'packs', 'sandbox', 'duplicates']:
        for root, _, files in os.walk(os.path.join(d, sub)):
            for f in files:
                _snapshot(os.path.join(root, f))
