"""Operation scenarios for the crash / power-loss / fault sweeps: setup(dir) -> (truth, op, targets).
truth: key -> bytes that must survive; op(container) runs the operation under test; targets: keys a deletion removes
(or keys whose pre-state is deliberately damaged)."""
import hashlib
import os
import tempfile

from disk_objectstore import CompressMode, Container


def H(b, ht='sha256'):
    return hashlib.new(ht, b).hexdigest()


A = [b'alpha' * 30, b'beta' * 40, b'gamma' * 25, b'', b'delta' * 10]
NEW = [b'new1' * 30, b'new2' * 50, b'new3' * 20]
BIG = (b'big-compressible-' * 5000)[:70001]


def base(d, target=200, prefix=2):
    c = Container(d)
    c.init_container(clear=True, pack_size_target=target, loose_prefix_len=prefix)
    ks = c.add_objects_to_pack(A[:2], compress=True) + [c.add_object(x) for x in A[2:]]
    c.close()
    return dict(zip(ks, A))


def s_add(d): return base(d), (lambda c: c.add_object(NEW[0])), set()
def s_add_flat(d): return base(d, prefix=0), (lambda c: c.add_object(NEW[0])), set()
def s_add_dup(d): return base(d), (lambda c: c.add_object(A[2])), set()
def s_add_big(d):
    import io
    return base(d), (lambda c: c.add_streamed_object(io.BytesIO(BIG))), set()
def s_pack(d): return base(d), (lambda c: c.pack_all_loose()), set()
def s_pack_clean(d): return base(d), (lambda c: c.pack_all_loose(compress=True, clean_loose_per_pack=True)), set()
def s_pack_small(d): return base(d, target=60), (lambda c: c.pack_all_loose(clean_loose_per_pack=True)), set()
def s_pack_auto(d): return base(d, target=100), (lambda c: c.pack_all_loose(compress=CompressMode.AUTO, clean_loose_per_pack=True)), set()
def s_pack_nofsync(d): return base(d, target=100), (lambda c: c.pack_all_loose(do_fsync=False)), set()
def s_pack_nofsync_clean(d): return base(d, target=60), (lambda c: c.pack_all_loose(do_fsync=False, clean_loose_per_pack=True, compress=True)), set()
def s_topack_nofsync(d): return base(d, target=100), (lambda c: c.add_objects_to_pack(NEW + [A[2]], do_fsync=False)), set()
def s_pack_novalidate(d): return base(d, target=100), (lambda c: c.pack_all_loose(validate_objects=False)), set()


def s_pending_pack_clean(d):
    """index rows still PENDING in the handle's session (do_commit=False) for content that is also loose, then pack_all_loose with per-pack
    cleaning through the same handle: whatever the packer's queries see of the uncommitted rows, a kill must not cost a loose object"""
    def op(c):
        c.add_objects_to_pack([A[2], NEW[0]], do_commit=False)
        c.pack_all_loose(clean_loose_per_pack=True)
    return base(d), op, set()


def s_pending_all_pack_clean(d):
    """the same with EVERY loose object covered by a pending row: the packer has nothing to pack (and may never commit)"""
    def op(c):
        c.add_objects_to_pack(A[2:], do_commit=False)
        c.pack_all_loose(clean_loose_per_pack=True)
    return base(d), op, set()


def s_clean(d):
    t = base(d)
    c = Container(d); c.pack_all_loose(); c.close()
    return t, (lambda c: c.clean_storage(vacuum=True)), set()


def s_pack_then_clean(d):
    def op(c):
        c.pack_all_loose(compress=True)
        c.clean_storage()
    return base(d, target=120), op, set()


def s_topack(d): return base(d), (lambda c: c.add_objects_to_pack(NEW + [A[0]], compress=True)), set()
def s_topack_multi(d): return base(d, target=100), (lambda c: c.add_objects_to_pack(NEW + [A[2], NEW[0]], compress=False)), set()
def s_topack_nh(d): return base(d, target=120), (lambda c: c.add_objects_to_pack([NEW[0], A[0], NEW[1], A[1], NEW[2]], no_holes=True)), set()
def s_topack_nh_rt0(d): return base(d, target=120), (lambda c: c.add_objects_to_pack([NEW[0], A[0], NEW[1], A[1], NEW[2]], no_holes=True, no_holes_read_twice=False)), set()


def s_delete(d):
    t = base(d)
    ks = [H(A[0]), H(A[2])]
    return t, (lambda c: c.delete_objects(ks)), set(ks)


def s_repack(d):
    t = base(d, target=150)
    c = Container(d); c.pack_all_loose(); c.clean_storage(); c.delete_objects([H(A[1])]); c.close()
    del t[H(A[1])]
    return t, (lambda c: c.repack(compress_mode=CompressMode.YES)), set()


def s_repack_keep(d):
    t = base(d, target=60)
    c = Container(d); c.pack_all_loose(); c.clean_storage(); c.delete_objects([H(A[2])]); c.close()
    del t[H(A[2])]
    return t, (lambda c: c.repack(compress_mode=CompressMode.KEEP)), set()


def s_loosen(d):
    t = base(d)
    return t, (lambda c: c.loosen_object(H(A[0]))), set()


def _src(ht='sha256'):
    d2 = tempfile.mkdtemp(prefix='verif-src', dir='/dev/shm')
    s = Container(d2)
    s.init_container(clear=True, hash_type=ht, pack_size_target=150)
    ks = [s.add_object(x) for x in NEW] + s.add_objects_to_pack([A[0], b'srcpacked' * 20], compress=True)
    return s, ks


def s_import_same(d):
    t = base(d, target=150)
    s, ks = _src()
    return t, (lambda c: c.import_objects(ks, s, target_memory_bytes=100)), set()


def s_import_diff(d):
    t = base(d, target=150)
    s, ks = _src('sha1')
    return t, (lambda c: c.import_objects(ks, s, compress=True, target_memory_bytes=150)), set()


def s_import_same_stream(d):
    t = base(d, target=150)
    s, ks = _src()
    return t, (lambda c: c.import_objects(ks, s, target_memory_bytes=1)), set()


def s_import_diff_stream(d):
    t = base(d, target=10 ** 9)
    s, ks = _src('sha1')
    return t, (lambda c: c.import_objects((k for k in ks), s, target_memory_bytes=1, callback=lambda action, value: None)), set()


def s_topack_many(d):
    # one direct-to-pack call with far more objects than any internal batching threshold could plausibly be (crash/power-loss sweeps visit
    # only the boundaries around the non-write calls of such a long trace: sweep.sparse_points)
    objs = [b'm%d' % i for i in range(12000)]
    return base(d, target=10 ** 9), (lambda c: c.add_objects_to_pack(objs)), set()


def s_pack_many(d):
    t = base(d, target=10 ** 9)
    c = Container(d)
    for i in range(2500):
        b = b'pm%d' % i
        t[c.add_object(b)] = b
    c.close()
    return t, (lambda c: c.pack_all_loose()), set()


def s_clean_dups(d):
    t = base(d)
    k = H(A[2])
    c = Container(d)
    p = c._get_loose_path_from_hashkey(k)
    open(p, 'wb').write(b'damaged')
    open(os.path.join(d, 'duplicates', k + '.aaaa'), 'wb').write(b'bad dup')
    open(os.path.join(d, 'duplicates', k + '.bbbb'), 'wb').write(A[2])
    c.close()
    return t, (lambda c: c.clean_storage()), {k}


def s_add_damaged(d):
    t = base(d)
    k = H(A[2])
    c = Container(d)
    p = c._get_loose_path_from_hashkey(k)
    open(p, 'wb').write(b'damaged')
    c.close()
    return t, (lambda c: c.add_object(A[2])), {k}



# ---- generated scenarios: rnd_<kind>_<seed>, kind in RAND_KINDS; everything is derived from the name ----
RAND_KINDS = ['add', 'pack', 'topack', 'import', 'delete', 'clean', 'repack', 'loosen']


def _rand_content(r, tag):
    n = r.choice([0, 1, 3, 17, 60, 150])
    if n == 0:
        return b''
    body = bytes([r.choice([65, 66, 67])]) * n if r.random() < 0.6 else r.randbytes(n)
    return (b'%s|' % tag.encode() + body)[:max(n, 1)] if r.random() < 0.85 else body


def rand_spec(name):
    """the parameters of a generated scenario (also read by tracecheck for the program inputs)"""
    import random
    _, kind, seed = name.split('_', 2)
    r = random.Random(f'{kind}:{seed}')
    sp = {'kind': kind, 'target': r.choice([60, 100, 200, 10 ** 9]), 'prefix': r.choice([0, 1, 2]),
          'npacked': r.randint(0, 4), 'nloose': r.randint(0, 4), 'pre_compress': r.random() < 0.5, 'seed': f'{kind}:{seed}'}
    if kind == 'add':
        sp['mode'] = r.choice(['new', 'dup_loose', 'dup_packed', 'stream'])
        sp['nloose'] = max(sp['nloose'], 1)
        sp['npacked'] = max(sp['npacked'], 1)
    elif kind == 'pack':
        sp.update(compress=r.choice(['true', 'false', 'auto']), clean=r.random() < 0.5, do_fsync=r.random() < 0.7, validate=r.random() < 0.7)
        sp['nloose'] = max(sp['nloose'], 1)
    elif kind == 'topack':
        nh = r.random() < 0.5
        sp.update(compress=r.random() < 0.5, nh=nh, twice=(r.random() < 0.5) if nh else True, do_fsync=r.random() < 0.7, nnew=r.randint(1, 4),
                  nold=r.randint(0, 2), repeat=r.random() < 0.4)
    elif kind == 'import':
        sp.update(same=r.random() < 0.5, compress=r.random() < 0.5, tmb=r.choice([1, 40, 100, 10 ** 6]), nsrc=r.randint(1, 5), overlap=r.randint(0, 2),
                  do_fsync=True)
    elif kind == 'delete':
        sp.update(ndel=r.randint(1, 3))
        sp['npacked'] = max(sp['npacked'], 1)
        sp['nloose'] = max(sp['nloose'], 1)
    elif kind == 'clean':
        sp.update(vacuum=r.random() < 0.5, pack_first=True)
        sp['nloose'] = max(sp['nloose'], 1)
    elif kind == 'repack':
        sp.update(mode=r.choice(['keep', 'yes', 'no', 'auto']), ndel=r.randint(0, 2))
        sp['npacked'] = max(sp['npacked'], 2)
    elif kind == 'loosen':
        # re-loosening of a packed object: directly, or through a seeking read of a compressed packed object
        sp.update(via=r.choice(['call', 'seek_end', 'seek_back']), big=r.random() < 0.5)
        sp['npacked'] = max(sp['npacked'], 1)
        sp['pre_compress'] = True
    return sp


def rand_scenario(name):
    import io
    import random
    sp = rand_spec(name)

    def setup(d):
        r = random.Random(sp['seed'] + ':content')
        c = Container(d)
        c.init_container(clear=True, pack_size_target=sp['target'], loose_prefix_len=sp['prefix'])
        packed = list(dict.fromkeys(_rand_content(r, f'p{i}') for i in range(sp['npacked'])))
        loose = [x for x in dict.fromkeys(_rand_content(r, f'l{i}') for i in range(sp['nloose'])) if x not in packed]
        truth = {}
        if packed:
            truth.update(zip(c.add_objects_to_pack(packed, compress=sp['pre_compress']), packed))
        for b in loose:
            truth[c.add_object(b)] = b
        kind = sp['kind']
        targets = set()
        if kind == 'add':
            new = b'fresh|' + r.randbytes(r.choice([1, 20, 200]))
            b = {'new': new, 'dup_loose': (loose or [new])[0], 'dup_packed': (packed or [new])[0], 'stream': new}[sp['mode']]
            op = (lambda cc: cc.add_streamed_object(io.BytesIO(b))) if sp['mode'] == 'stream' else (lambda cc: cc.add_object(b))
        elif kind == 'pack':
            comp = {'true': True, 'false': False, 'auto': CompressMode.AUTO}[sp['compress']]
            op = lambda cc: cc.pack_all_loose(compress=comp, clean_loose_per_pack=sp['clean'], do_fsync=sp['do_fsync'], validate_objects=sp['validate'])
        elif kind == 'topack':
            objs = [b'tp%d|' % i + r.randbytes(r.choice([0, 5, 80])) for i in range(sp['nnew'])] + r.sample(packed + loose, min(sp['nold'], len(packed + loose)))
            if sp['repeat']:
                objs = objs + objs[:1]
            r.shuffle(objs)
            op = lambda cc: cc.add_objects_to_pack(objs, compress=sp['compress'], no_holes=sp['nh'], no_holes_read_twice=sp['twice'], do_fsync=sp['do_fsync'])
        elif kind == 'import':
            d2 = tempfile.mkdtemp(prefix='verif-src', dir='/dev/shm')
            src = Container(d2)
            src.init_container(clear=True, hash_type='sha256' if sp['same'] else 'sha1', pack_size_target=150)
            sobjs = [b'src%d|' % i + r.randbytes(r.choice([0, 10, 70, 200])) for i in range(sp['nsrc'])] + r.sample(packed + loose, min(sp['overlap'], len(packed + loose)))
            ks = []
            for b in sobjs:
                ks.append(src.add_object(b) if r.random() < 0.5 else src.add_objects_to_pack([b], compress=r.random() < 0.5)[0])
            op = lambda cc: cc.import_objects(ks, src, compress=sp['compress'], target_memory_bytes=sp['tmb'])
        elif kind == 'delete':
            ks = r.sample(sorted(truth), min(sp['ndel'], len(truth)))
            targets = set(ks)
            op = lambda cc: cc.delete_objects(ks)
        elif kind == 'clean':
            c.pack_all_loose(compress=r.random() < 0.5)
            op = lambda cc: cc.clean_storage(vacuum=sp['vacuum'])
        elif kind == 'loosen':
            big = (b'loosen-me ' * 30000)[:200001] if sp['big'] else b'loosen-me ' * 9
            kb = c.add_objects_to_pack([big], compress=True)[0]
            truth[kb] = big

            def op(cc, kb=kb, big=big):
                if sp['via'] == 'call':
                    cc.loosen_object(kb)
                else:
                    with cc.get_object_stream(kb) as st:
                        if sp['via'] == 'seek_end':
                            st.seek(0, 2)
                        else:
                            st.read(7)
                            st.seek(-3, 1)
                        st.read(5)
        else:  # repack
            c.pack_all_loose()
            c.clean_storage()
            ks = r.sample(sorted(truth), min(sp['ndel'], max(0, len(truth) - 1)))
            c.delete_objects(ks)
            for k in ks:
                del truth[k]
            op = lambda cc: cc.repack(compress_mode=CompressMode(sp['mode']))
        c.close()
        return truth, op, targets
    return setup


class _Scen(dict):
    def __missing__(self, name):
        if name.startswith('rnd_'):
            return rand_scenario(name)
        raise KeyError(name)


class _NonDefaultFsync(set):
    def __contains__(self, name):
        if isinstance(name, str) and name.startswith('rnd_'):
            return rand_spec(name).get('do_fsync', True) is False
        return set.__contains__(self, name)


SCEN = _Scen({k[2:]: v for k, v in list(globals().items()) if k.startswith('s_')})
QUICK = ['add', 'add_dup', 'loosen', 'topack_many', 'pack', 'pack_small', 'pending_pack_clean', 'pending_all_pack_clean', 'pack_nofsync_clean', 'pack_then_clean', 'topack_nh_rt0', 'topack_nofsync', 'delete', 'repack', 'import_diff', 'import_same_stream', 'clean']
# scenarios that switch the fsync defaults off are outside C06 ("with the default fsync settings")
NON_DEFAULT_FSYNC = _NonDefaultFsync({'pack_nofsync', 'pack_nofsync_clean', 'topack_nofsync'})
# scenarios that keep the default fsync settings and start from an undamaged state (C06)
DAMAGED_PRE = {'clean_dups', 'add_damaged'}
# long traces: swept sparsely, not replayed through the extracted model (unary naturals)
HEAVY = {'topack_many', 'pack_many'}
