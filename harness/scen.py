"""Operation scenarios for the crash / power-loss / fault sweeps: setup(dir) -> (truth, op, targets).
truth: key -> bytes that must survive; op(container) runs the operation under test; targets: keys a deletion removes
(or keys whose pre-state is deliberately damaged)."""
import hashlib
import os
import tempfile

from disk_objectstore import CompressMode, Container


def H(b, ht='sha256'):
    return hashlib.new(ht, b).hexdigest()


A = [b'alpha' * 30, b'beta' * 40, b'gamma' * 25, b'', b'delta' * 10]
NEW = [b'new1' * 30, b'new2' * 50, b'new3' * 20]
BIG = (b'big-compressible-' * 5000)[:70001]


def base(d, target=200, prefix=2):
    c = Container(d)
    c.init_container(clear=True, pack_size_target=target, loose_prefix_len=prefix)
    ks = c.add_objects_to_pack(A[:2], compress=True) + [c.add_object(x) for x in A[2:]]
    c.close()
    return dict(zip(ks, A))


def s_add(d): return base(d), (lambda c: c.add_object(NEW[0])), set()
def s_add_flat(d): return base(d, prefix=0), (lambda c: c.add_object(NEW[0])), set()
def s_add_dup(d): return base(d), (lambda c: c.add_object(A[2])), set()
def s_add_big(d):
    import io
    return base(d), (lambda c: c.add_streamed_object(io.BytesIO(BIG))), set()
def s_pack(d): return base(d), (lambda c: c.pack_all_loose()), set()
def s_pack_clean(d): return base(d), (lambda c: c.pack_all_loose(compress=True, clean_loose_per_pack=True)), set()
def s_pack_small(d): return base(d, target=60), (lambda c: c.pack_all_loose(clean_loose_per_pack=True)), set()
def s_pack_auto(d): return base(d, target=100), (lambda c: c.pack_all_loose(compress=CompressMode.AUTO, clean_loose_per_pack=True)), set()
def s_pack_nofsync(d): return base(d, target=100), (lambda c: c.pack_all_loose(do_fsync=False)), set()
def s_pack_nofsync_clean(d): return base(d, target=60), (lambda c: c.pack_all_loose(do_fsync=False, clean_loose_per_pack=True, compress=True)), set()
def s_topack_nofsync(d): return base(d, target=100), (lambda c: c.add_objects_to_pack(NEW + [A[2]], do_fsync=False)), set()
def s_pack_novalidate(d): return base(d, target=100), (lambda c: c.pack_all_loose(validate_objects=False)), set()


def s_clean(d):
    t = base(d)
    c = Container(d); c.pack_all_loose(); c.close()
    return t, (lambda c: c.clean_storage(vacuum=True)), set()


def s_pack_then_clean(d):
    def op(c):
        c.pack_all_loose(compress=True)
        c.clean_storage()
    return base(d, target=120), op, set()


def s_topack(d): return base(d), (lambda c: c.add_objects_to_pack(NEW + [A[0]], compress=True)), set()
def s_topack_multi(d): return base(d, target=100), (lambda c: c.add_objects_to_pack(NEW + [A[2], NEW[0]], compress=False)), set()
def s_topack_nh(d): return base(d, target=120), (lambda c: c.add_objects_to_pack([NEW[0], A[0], NEW[1], A[1], NEW[2]], no_holes=True)), set()
def s_topack_nh_rt0(d): return base(d, target=120), (lambda c: c.add_objects_to_pack([NEW[0], A[0], NEW[1], A[1], NEW[2]], no_holes=True, no_holes_read_twice=False)), set()


def s_delete(d):
    t = base(d)
    ks = [H(A[0]), H(A[2])]
    return t, (lambda c: c.delete_objects(ks)), set(ks)


def s_repack(d):
    t = base(d, target=150)
    c = Container(d); c.pack_all_loose(); c.clean_storage(); c.delete_objects([H(A[1])]); c.close()
    del t[H(A[1])]
    return t, (lambda c: c.repack(compress_mode=CompressMode.YES)), set()


def s_repack_keep(d):
    t = base(d, target=60)
    c = Container(d); c.pack_all_loose(); c.clean_storage(); c.delete_objects([H(A[2])]); c.close()
    del t[H(A[2])]
    return t, (lambda c: c.repack(compress_mode=CompressMode.KEEP)), set()


def s_loosen(d):
    t = base(d)
    return t, (lambda c: c.loosen_object(H(A[0]))), set()


def _src(ht='sha256'):
    d2 = tempfile.mkdtemp(prefix='verif-src', dir='/dev/shm')
    s = Container(d2)
    s.init_container(clear=True, hash_type=ht, pack_size_target=150)
    ks = [s.add_object(x) for x in NEW] + s.add_objects_to_pack([A[0], b'srcpacked' * 20], compress=True)
    return s, ks


def s_import_same(d):
    t = base(d, target=150)
    s, ks = _src()
    return t, (lambda c: c.import_objects(ks, s, target_memory_bytes=100)), set()


def s_import_diff(d):
    t = base(d, target=150)
    s, ks = _src('sha1')
    return t, (lambda c: c.import_objects(ks, s, compress=True, target_memory_bytes=150)), set()


def s_import_same_stream(d):
    t = base(d, target=150)
    s, ks = _src()
    return t, (lambda c: c.import_objects(ks, s, target_memory_bytes=1)), set()


def s_import_diff_stream(d):
    t = base(d, target=10 ** 9)
    s, ks = _src('sha1')
    return t, (lambda c: c.import_objects((k for k in ks), s, target_memory_bytes=1, callback=lambda action, value: None)), set()


def s_clean_dups(d):
    t = base(d)
    k = H(A[2])
    c = Container(d)
    p = c._get_loose_path_from_hashkey(k)
    open(p, 'wb').write(b'damaged')
    open(os.path.join(d, 'duplicates', k + '.aaaa'), 'wb').write(b'bad dup')
    open(os.path.join(d, 'duplicates', k + '.bbbb'), 'wb').write(A[2])
    c.close()
    return t, (lambda c: c.clean_storage()), {k}


def s_add_damaged(d):
    t = base(d)
    k = H(A[2])
    c = Container(d)
    p = c._get_loose_path_from_hashkey(k)
    open(p, 'wb').write(b'damaged')
    c.close()
    return t, (lambda c: c.add_object(A[2])), {k}


SCEN = {k[2:]: v for k, v in list(globals().items()) if k.startswith('s_')}
QUICK = ['add', 'add_dup', 'pack', 'pack_small', 'pack_nofsync_clean', 'pack_then_clean', 'topack_nh_rt0', 'topack_nofsync', 'delete', 'repack', 'import_diff', 'import_same_stream', 'clean']
# scenarios that switch the fsync defaults off are outside C06 ("with the default fsync settings")
NON_DEFAULT_FSYNC = {'pack_nofsync', 'pack_nofsync_clean', 'topack_nofsync'}
# scenarios that keep the default fsync settings and start from an undamaged state (C06)
DAMAGED_PRE = {'clean_dups', 'add_damaged'}
