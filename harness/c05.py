"""C05 - a process crash at any point never loses or tears an object."""
import common
import scen
import sweep
from common import Check


def main(tier, seed, replay=None, pid='C05', mode='kill', powerloss=False):
    ck = Check(pid, tier, seed)
    names = list(scen.QUICK) if tier == 'quick' else list(scen.SCEN)
    # generated scenarios (random pre-state, options, inputs): every crash / power-loss / fault point of each
    import random as _random
    import tracecheck as _tcn
    names += _tcn.random_names(_random.Random(f'{pid}:{seed}'), 1 if tier == 'quick' else 6)
    if pid == 'C06':
        names = [n for n in names if n not in scen.DAMAGED_PRE and n not in scen.NON_DEFAULT_FSYNC]
    if pid == 'C17' and tier == 'quick':
        names = [n for n in names if n not in scen.HEAVY]   # fault + rerun on the 12000-object call: thorough tier only
    what = {'C05': 'the process is killed (os._exit: user-space buffers and open SQL transactions are lost) before its n-th gated call',
            'C06': 'the process is killed before its n-th gated call and every regular file under loose/ packs/ sandbox/ duplicates/ is replaced by '
                   'its content at its last fsync (snapshot taken by the fsync hook; empty if never synced; directory entries and SQLite files kept)',
            'C17': 'the n-th gated call raises OSError(EIO) (sqlalchemy OperationalError for SQL); afterwards the handle is dropped, stale lock '
                   'files removed, the state examined, the operation rerun through a new handle and compared with an uninterrupted run'}[pid]
    ck.cov['rule'] = (f'for every scenario (operation variant x pre-state) in {names} and EVERY n from 1 to the number of gated calls of the operation '
                      f'(open-for-write/write/flush/close/truncate/seek, fsync, rename/replace/link/unlink/mkdir, SQL INSERT/UPDATE/DELETE/VACUUM/COMMIT): {what}; '
                      'then the folder is read raw (sqlite3+zlib) and through a new Container, maintenance (repack, pack_all_loose, clean_storage - each may '
                      'refuse) is retried through a further handle and the folder examined again; every (scenario, n) is a distinct non-trivial case; '
                      'exhaustive over n for the scenarios listed, except the 12000-object / 2500-object calls (traces of more than 600 calls), where the '
                      'boundaries around every non-write call and an even sample of the writes are visited (sweep.sparse_points)')
    ck.cov['exhaustive'] = not any(n in scen.HEAVY for n in names)
    ck.coq()
    common.use_repo()
    total, baselines = sweep.sweep(ck, pid, names, mode, powerloss=powerloss)
    ck.cov['injection_points'] = total
    ck.cov['scenarios'] = {n: b['total'] for n, b in baselines.items()}
    for n, b in list(baselines.items())[:2]:
        ck.sample({'scenario': n, 'gated_calls': [e[1:4] for e in b['log']][:40]})
    extra(ck, pid, baselines)
    ck.assumptions += ['a kill between two gated calls is equivalent to a kill at the boundary (the library does nothing observable in between)',
                       'SQLite WAL commits are atomic and durable; directory operations are atomic and survive the fault model of C06']
    import tracecheck as _tc
    return ck.finish(search=_tc.crash_search(ck, pid, powerloss=(pid == 'C06')))


def extra(ck, pid, baselines):
    """model correspondence over the uninterrupted traces (filled in by the container model)"""
    try:
        import tracecheck
    except ImportError:
        return
    tracecheck.check_traces(ck, pid, baselines)
    if pid == 'C17':
        tracecheck.check_fault_traces(ck, pid)
