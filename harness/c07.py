"""C07 - every returned stream behaves like an in-memory file over the object."""
from __future__ import annotations

import io
import itertools
import os
import subprocess
import zlib

import common
from common import Check

EXC = {ValueError: 'E', OSError: 'E', AssertionError: 'A', NotImplementedError: 'N'}


def _driver(lines):
    r = subprocess.run(['/bin/sh', '-c', 'ulimit -s unlimited 2>/dev/null; exec ' + os.path.join(common.OCAML, 'driver')],
                       input='\n'.join(lines) + '\n', capture_output=True, text=True, timeout=900)
    out = r.stdout.splitlines()
    if len(out) != len(lines):
        raise RuntimeError(f'driver returned {len(out)} lines for {len(lines)} commands: {r.stderr[-300:]}')
    return out


def op_s(o):
    return 't' if o[0] == 't' else (f'r{o[1]}' if o[0] == 'r' else f's{o[1]}:{o[2]}')


def apply(stream, o):
    """returns ('b', bytes) | ('p', int) | ('x', code)"""
    try:
        if o[0] == 't':
            return ('p', stream.tell())
        if o[0] == 'r':
            return ('b', stream.read(o[1]) if o[1] != 'all' else stream.read())
        r = stream.seek(o[1], o[2])
        return ('p', r)
    except tuple(EXC) as e:
        for k, v in EXC.items():
            if isinstance(e, k):
                return ('x', v)
        raise


def res_s(r):
    if r[0] == 'b':
        return 'b' + '.'.join(str(x) for x in r[1])
    if r[0] == 'p':
        return f'p{r[1]}'
    return r[1]


def judge(content: bytes, prog, results, allow_notimpl=False):
    """direct oracle: io.BytesIO.  Returns None or a description of the first deviation."""
    ref = io.BytesIO(content)
    L = len(content)
    for i, (o, r) in enumerate(zip(prog, results)):
        if o[0] == 't':
            if r != ('p', ref.tell()):
                return f'op {i} tell: got {res_s(r)[:60]}, in-memory file says p{ref.tell()}'
        elif o[0] == 'r':
            exp = ref.read(o[1])
            if r != ('b', exp):
                return f'op {i} read({o[1]}) at position {ref.tell() - len(exp)}: got {res_s(r)[:80]!r}, in-memory file returns {len(exp)} bytes {exp[:20]!r}'
        else:
            t, w = o[1], o[2]
            resolved = t if w == 0 else (ref.tell() + t if w == 1 else L + t)
            in_range = 0 <= resolved <= L
            if in_range:
                if r != ('p', resolved):
                    if allow_notimpl and r == ('x', 'N') and w == 2:
                        continue  # state unchanged
                    return f'op {i} seek({t},{w}) in range (-> {resolved}): got {res_s(r)[:40]}, in-memory file returns {resolved}'
                ref.seek(resolved)
            else:
                if r[0] == 'x':
                    continue  # rejected: position must be unchanged, later operations are compared at the old position
                if r[0] == 'p' and isinstance(r[1], int) and r[1] >= 0:
                    ref.seek(r[1])  # accepted or clamped: later operations must behave as positioned there
                else:
                    return f'op {i} out-of-range seek({t},{w}): returned {res_s(r)[:40]}'
    return None


class Forms:
    """builds streams of every storage form for a given object inside one container"""

    def __init__(self, root, contents, compress_level=1):
        common.use_repo()
        from disk_objectstore import Container
        self.c = Container(os.path.join(root, 'c07'))
        self.c.init_container(clear=True, compression_algorithm=f'zlib+{compress_level}')
        pre, post = b'A' * 5, b'B' * 7
        self.objs = {}
        batch = []
        for c in contents:
            batch += [pre + b'%d' % len(batch), c, post + b'%d' % len(batch)]
        # plain pack entries
        keys = self.c.add_objects_to_pack(batch, compress=False)
        self.plain = dict(zip(keys, batch))
        keys_z = self.c.add_objects_to_pack([b'z' + x for x in batch], compress=True)
        self.zipped = dict(zip(keys_z, [b'z' + x for x in batch]))
        self.loose = {}
        for c in contents:
            self.loose[self.c.add_object(b'l' + c)] = b'l' + c
        self.meta = {k: m for k, m in self.c.get_objects_meta(list(self.plain) + list(self.zipped))}
        self._open = []

    def close(self):
        for f in self._open:
            try:
                f.close()
            except Exception:
                pass
        self._open = []
        self.c.close()

    def key_for(self, form, content):
        d = {'por': self.plain, 'zsd': self.zipped, 'zsd_nolazy': self.zipped, 'loose': self.loose, 'cb_por': self.plain, 'cb_zsd': self.zipped}[form]
        want = {'por': content, 'cb_por': content, 'loose': b'l' + content}.get(form, b'z' + content)
        for k, v in d.items():
            if v == want:
                return k, want
        raise KeyError

    def open(self, form, key, chunk=None, recorder=None):
        """direct construction, as Container._get_objects_stream_meta_generator does it"""
        from disk_objectstore import utils
        c = self.c
        if form == 'loose':
            f = open(c._get_loose_path_from_hashkey(key), 'rb')
            self._open.append(f)
            return f
        m = self.meta[key]
        f = open(c._get_pack_path_from_pack_id(m['pack_id']), 'rb')
        self._open.append(f)
        por = utils.PackedObjectReader(f, m['pack_offset'], m['pack_length'])
        if form == 'por':
            return por
        if form == 'cb_por':
            return utils.CallbackStreamWrapper(por, callback=lambda action, value: None, total_length=m['size'])
        cls = c._get_stream_decompresser()
        if chunk is not None or recorder is not None:
            base = cls

            class Rec(base):  # same class, smaller chunk, recorded decompress calls
                _CHUNKSIZE = chunk or base._CHUNKSIZE

                @property
                def decompressobj_class(self):
                    inner = base.decompressobj_class.fget(self)
                    if recorder is None:
                        return inner

                    def make():
                        return RecDec(inner(), recorder)
                    return make
            cls = Rec
        lazy = None if form == 'zsd_nolazy' else c.get_lazy_loose_stream(key)
        z = cls(por, lazy_uncompressed_stream=lazy)
        self._lazy = lazy
        if form == 'cb_zsd':
            return utils.CallbackStreamWrapper(z, callback=lambda action, value: None, total_length=m['size'])
        return z

    def close_stream(self):
        lz = getattr(self, '_lazy', None)
        if lz is not None and not lz.closed:
            lz.close_stream()
        self._lazy = None
        for f in self._open:
            f.close()
        self._open = []


class RecDec:
    """proxy around a zlib decompressobj recording (bytes returned, stalled?) per decompress() call"""

    def __init__(self, d, rec):
        self._d, self._rec = d, rec

    def decompress(self, data, max_length=0):
        prev_tail = len(self._d.unconsumed_tail)
        out = self._d.decompress(data, max_length)
        new_input = len(data) - prev_tail
        stall = (new_input == 0 and len(self._d.unconsumed_tail) == 0)
        self._rec.append((len(out), 1 if stall else 0))
        return out

    def __getattr__(self, k):
        return getattr(self._d, k)


def gen_ops(L):
    ops = [('t',)] + [('r', n) for n in (-1, 0, 1, 2, 5)]
    ops += [('s', t, w) for w in (0, 1, 2) for t in range(-3, L + 4)]
    return ops


def run_program(forms, form, key, prog, chunk=None, record=False):
    rec = [] if record else None
    s = forms.open(form, key, chunk=chunk, recorder=rec)
    try:
        results = [apply(s, o) for o in prog]
    finally:
        forms.close_stream()
    return results, rec


def model_line(form, forms, key, content, prog, rec, consts, chunk):
    ops = ' '.join(op_s(o) for o in prog)
    if form in ('por', 'cb_por'):
        m = forms.meta[key]
        with open(forms.c._get_pack_path_from_pack_id(m['pack_id']), 'rb') as f:
            pk = f.read()
        return f"por v1 {m['pack_offset']} {m['pack_length']} | {','.join(map(str, pk))} | {ops}"
    if form == 'loose':
        return f"fio {','.join(map(str, content))} | {ops}"
    lazy = 0 if form == 'zsd_nolazy' else 1
    orc = ','.join(f'{k}:{s}' for k, s in rec)
    return f"zsd {lazy} {chunk or consts['ZLIB_CHUNKSIZE']} {consts['ZLIB_SEEK_READ_CHUNK']} | {','.join(map(str, content))} | {orc} | {ops}"


def exhaustive(ck: Check, tier):
    root = common.scratch_root()
    contents = [bytes(range(48, 48 + n)) for n in range(0, 6)]
    forms = Forms(root, contents)
    maxlen = 3 if tier == 'thorough' else 2
    form_list = ['por', 'zsd', 'zsd_nolazy', 'loose', 'cb_por', 'cb_zsd']
    nprog = 0
    ndis = 0
    lines, expect = [], []
    try:
        for content in contents:
            L = len(content)
            ops = gen_ops(L)
            progs = [list(p) for n in range(1, maxlen + 1) for p in itertools.product(ops, repeat=n)] if maxlen == 2 else None
            if progs is None:
                progs = [list(p) for n in range(1, 3) for p in itertools.product(ops, repeat=n)]
                rng = ck.rng
                progs += [[rng.choice(ops) for _ in range(3)] for _ in range(6000)]
            for form in form_list:
                key, stored = forms.key_for(form, content)
                chunk = 3 if form.startswith('zsd') or form == 'cb_zsd' else None
                # every 7th program (all for thorough) also goes to the model
                for pi, prog in enumerate(progs):
                    to_model = form in ('por', 'zsd', 'zsd_nolazy', 'loose') and (pi % 5 == 0 or len(prog) == 1)
                    results, rec = run_program(forms, form, key, prog, chunk=chunk, record=to_model and form.startswith('zsd'))
                    nprog += 1
                    ck.count((form, L, [op_s(o) for o in prog]), nontrivial=True)
                    bad = judge(stored, prog, results, allow_notimpl=(form == 'zsd_nolazy'))
                    if bad:
                        ck.fail(f'{form} stream over a {len(stored)}-byte object deviates from an in-memory file: {bad}',
                                {'kind': 'stream-program', 'form': form, 'content': list(stored), 'program': [op_s(o) for o in prog],
                                 'results': [res_s(r)[:80] for r in results]}, f'stream-{form}')
                        if len(ck.concrete) > 12:
                            return nprog, ndis
                    if to_model:
                        lines.append(model_line(form, forms, key, stored, prog, rec or [], ck.constants or {'ZLIB_CHUNKSIZE': 524288, 'ZLIB_SEEK_READ_CHUNK': 262144}, chunk))
                        expect.append((';'.join(res_s(r) for r in results), form, [op_s(o) for o in prog], list(stored)))
        ck.sample({'form': expect[100][1], 'program': expect[100][2], 'object': expect[100][3], 'impl_results': expect[100][0]})
        mo = _driver(lines)
        ck.disagreements = getattr(ck, 'disagreements', [])
        for m, (e, form, prog, st) in zip(mo, expect):
            if m != e:
                ndis += 1
                ck.disagreements.append((form, st, prog))
                if ndis <= 3:
                    ck.notes.append(f'stream model disagreement form={form} prog={prog} object={st}: impl={e[:100]} model={m[:100]}')
        ck.cov['model_programs'] = len(lines)
    finally:
        forms.close()
    return nprog, ndis


def randomised(ck: Check, tier):
    """long random programs on large objects through the public API (get_object_stream / get_objects_stream_and_meta)"""
    root = common.scratch_root()
    common.use_repo()
    from disk_objectstore import Container
    rng = ck.rng
    sizes = [0, 1, 65535, 65536, 65537, 524287, 524288, 524289, 1300000] if tier == 'thorough' else [0, 1, 65537, 524289, 700001]
    c = Container(os.path.join(root, 'big'))
    c.init_container(clear=True)
    objs = {}
    for i, sz in enumerate(sizes):
        comp = (bytes([i]) * 37 + b'xyz') * (sz // 40 + 1)
        objs[f'comp{sz}'] = comp[:sz]
        objs[f'rand{sz}'] = rng.randbytes(sz)
    keys = {}
    names = list(objs)
    for form in ('loose', 'packed', 'zipped'):
        data = [bytes([{'loose': 1, 'packed': 2, 'zipped': 3}[form]]) + objs[n] for n in names]
        if form == 'loose':
            ks = [c.add_object(d) for d in data]
        else:
            ks = c.add_objects_to_pack(data, compress=(form == 'zipped'))
        for n, k, d in zip(names, ks, data):
            keys[(form, n)] = (k, d)
    nprog = 0
    try:
        reps = 6 if tier == 'thorough' else 2
        for (form, n), (k, d) in keys.items():
            L = len(d)
            for rep in range(reps):
                prog = []
                for _ in range(30 if tier == 'thorough' else 14):
                    x = rng.random()
                    if x < 0.45:
                        prog.append(('r', rng.choice([-1, 0, 1, 7, 4096, 65536, 70000, 600000])))
                    elif x < 0.9:
                        w = rng.choice([0, 1, 2])
                        base = rng.choice([0, L, L // 2, rng.randint(0, L)])
                        t = base + rng.choice([-2, -1, 0, 0, 1, 2])
                        if w == 2:
                            t = t - L
                        if w == 1:
                            t = rng.choice([-3, -1, 0, 1, 5, 65536, -65536, t // 3])
                        prog.append(('s', t, w))
                    else:
                        prog.append(('t',))
                via_bulk = rep % 2 == 1
                if via_bulk:
                    with c.get_objects_stream_and_meta([k]) as trip:
                        for kk, s, meta in trip:
                            results = [apply(s, o) for o in prog]
                            if meta.size != L:
                                ck.fail(f'meta.size {meta.size} != {L}', {'kind': 'meta', 'form': form}, 'stream-meta-size')
                else:
                    with c.get_object_stream(k) as s:
                        results = [apply(s, o) for o in prog]
                nprog += 1
                ck.count((form, n, rep, [op_s(o) for o in prog]), nontrivial=L > 0)
                bad = judge(d, prog, results)
                if bad:
                    ck.fail(f'{form} stream ({n}, {L} bytes) via {"bulk" if via_bulk else "single"} API deviates from an in-memory file: {bad}',
                            {'kind': 'stream-program-large', 'form': form, 'object': n, 'size': L, 'seed': ck.seed,
                             'program': [op_s(o) for o in prog], 'results': [res_s(r)[:60] for r in results]}, f'stream-large-{form}')
                    if len(ck.concrete) > 12:
                        return nprog
        # clean up re-loosened caches
        c.clean_storage()
    finally:
        c.close()
    return nprog


def zlib_assumptions(ck: Check, tier):
    """validate the oracle laws of the decompressor model against the real zlib module"""
    rng = ck.rng
    n = 0
    bad = 0
    for level in range(1, 10):
        for _ in range(12 if tier == 'quick' else 60):
            size = rng.choice([0, 1, 5, 100, 3000, 70000])
            data = rng.randbytes(size) if rng.random() < 0.5 else (b'ab' * size)[:size]
            comp = zlib.compress(data, level)
            d = zlib.decompressobj()
            out = b''
            pos = 0
            tail = b''
            calls = 0
            while True:
                step = rng.choice([1, 2, 7, 100, 100000])
                chunk = comp[pos:pos + step]
                pos += len(chunk)
                maxl = rng.choice([1, 3, 50, 100000])
                o = d.decompress(tail + chunk, maxl)
                tail = d.unconsumed_tail
                calls += 1
                # laws: at most max_length; output is the next bytes of the plain stream
                if len(o) > maxl or data[len(out):len(out) + len(o)] != o:
                    bad += 1
                out += o
                if not chunk and not tail:
                    # stall: eof iff everything produced
                    if d.eof != (out == data):
                        bad += 1
                    break
                if calls > 500000:
                    bad += 1
                    break
            n += 1
            # truncated stream never reports eof
            if len(comp) > 3:
                d2 = zlib.decompressobj()
                d2.decompress(comp[:-2])
                if d2.eof:
                    bad += 1
    ck.cov['zlib_assumption_cases'] = n
    ck.obligation('assumption check: real zlib decompressobj satisfies the oracle laws of Streams.zev (prefix output, <= max_length, '
                  'eof <-> all produced, truncated stream never eof)', bad == 0, f'{bad} law violations in {n} streams', kind='assumption')


def extended_search(ck):
    """a model/implementation disagreement is not yet a violation: extend the disagreeing programs by every further operation
    (and by every pair, within a budget) and judge them against io.BytesIO"""
    def search(broken):
        dis = getattr(ck, 'disagreements', [])
        if not dis:
            return None
        root = common.scratch_root()
        contents = sorted({bytes(st)[1:] if False else bytes(st) for _, st, _ in dis}, key=len)
        forms = Forms(root, [bytes(range(48, 48 + n)) for n in range(0, 6)])
        try:
            budget = 40000
            for form, st, prog in dis:
                stored = bytes(st)
                base = stored[1:] if form.startswith(('zsd', 'cb_zsd', 'loose')) else stored
                try:
                    key, stored2 = forms.key_for(form, base)
                except KeyError:
                    continue
                ops = gen_ops(len(stored2))
                parsed = []
                for o in prog:
                    if o == 't':
                        parsed.append(('t',))
                    elif o[0] == 'r':
                        parsed.append(('r', int(o[1:])))
                    else:
                        t, w = o[1:].split(':')
                        parsed.append(('s', int(t), int(w)))
                chunk = 3 if 'zsd' in form else None
                cands = [parsed + [a] for a in ops] + [parsed + [a, b] for a in ops[:12] for b in ops[:12]] + [[a] + parsed + [b] for a in ops[:8] for b in ops[:8]]
                for cand in cands:
                    budget -= 1
                    if budget < 0:
                        return None
                    results, _ = run_program(forms, form, key, cand, chunk=chunk)
                    bad = judge(stored2, cand, results, allow_notimpl=(form == 'zsd_nolazy'))
                    if bad:
                        return (f'{form} stream over a {len(stored2)}-byte object deviates from an in-memory file: {bad} (found by extending a program on which '
                                f'the implementation and the Coq model disagree)',
                                {'kind': 'stream-program', 'form': form, 'content': list(stored2), 'program': [op_s(o) for o in cand],
                                 'results': [res_s(r)[:80] for r in results]})
        finally:
            forms.close()
        return None
    return search


def main(tier, seed, replay=None):
    ck = Check('C07', tier, seed)
    ck.cov['rule'] = ('exhaustive: every program of length <= 2 (thorough: plus 6000 random of length 3 per object) over read n in {-1,0,1,2,5}, '
                      'seek t in [-3,L+3] x whence {0,1,2}, tell, on objects of length 0..5 stored between two neighbours, in six forms '
                      '(PackedObjectReader, Zlib decompresser with LazyLooseStream (_CHUNKSIZE lowered to 3), without, loose file, '
                      'CallbackStreamWrapper over both); random programs of 14 (thorough 30) operations on objects up to 700001 (1.3M) '
                      'bytes through get_object_stream / get_objects_stream_and_meta; every program is distinct and counted non-trivial '
                      'unless the object is empty in the large set; oracle io.BytesIO; one in five small programs also run on the extracted model')
    ck.coq()
    try:
        nprog, ndis = exhaustive(ck, tier)
        ck.obligation('correspondence: stream classes == Streams.v models (extracted) on the small-program set, results compared exactly',
                      ndis == 0, f'{ndis} disagreements', kind='correspondence')
        ck.cov['programs'] = nprog
        n2 = randomised(ck, tier)
        ck.cov['large_programs'] = n2
        zlib_assumptions(ck, tier)
    except Exception as e:
        import traceback
        ck.obligation('stream harness executed', False, f'{type(e).__name__}: {e} {traceback.format_exc()[-800:]}', kind='correspondence')
    ck.assumptions += ['in-range = the seek target resolves inside [0, len]; out-of-range seeks may raise or clamp, later operations must then '
                       'agree with an in-memory file at the old / returned position',
                       'zlib decisions (bytes per decompress call, stalls) are recorded from the run and given to the model as oracle']
    return ck.finish(search=extended_search(ck))
