"""Correspondence of Lookup.lookup_bulk (Coq, extracted) with Container._get_objects_stream_meta_generator.

For each case the model gets what the implementation is about to observe - the index as the reader's own session sees it (d1, possibly a
stale pinned snapshot), the loose folder and the committed index (d2) - and must produce the generator's answers: the packed entries with
all their fields as one run per pack in offset order, the loose entries with their sizes, the entries found only after the session
refresh, the MISSING ones.  Canonical form on both sides (set iteration orders are not modelled): maximal runs of packed entries of one
pack compared as a multiset of runs (each run in exact order, ties on the offset ordered by length), loose and missing entries as sets,
the shape of the whole answer (packed* loose* packed* missing*) exact.
A disagreement is a broken correspondence obligation; the same run is judged by a direct oracle (ground truth computed from the raw
folder) and a wrong answer is reported as a concrete failure."""
from __future__ import annotations

import os
import sqlite3
import subprocess

import common

SEL = 'SELECT hashkey, pack_id, offset, length, compressed, size FROM db_object ORDER BY id'


def _driver(lines):
    r = subprocess.run([os.path.join(common.OCAML, 'driver')], input='\n'.join(lines) + '\n', capture_output=True, text=True, timeout=600)
    out = r.stdout.splitlines()
    if len(out) != len(lines):
        raise RuntimeError(f'driver returned {len(out)} lines for {len(lines)} commands: {r.stderr[-300:]}')
    return out


def session_rows(h):
    from sqlalchemy import text
    return [tuple(r) for r in h._get_operation_session().execute(text(SEL))]


def raw_rows(d):
    con = sqlite3.connect(f'file:{os.path.join(d, "packs.idx")}?mode=ro', uri=True)
    try:
        return [tuple(r) for r in con.execute(SEL).fetchall()]
    finally:
        con.close()


def loose_sizes(d):
    out = {}
    ldir = os.path.join(d, 'loose')
    for root, _, files in os.walk(ldir):
        for f in files:
            out[os.path.relpath(os.path.join(root, f), ldir).replace(os.sep, '')] = os.path.getsize(os.path.join(root, f))
    return out


def canon(entries):
    """entries: list of ('P', key, pack, off, len, comp, size) | ('L', key, size) | ('M', key)  ->  canonical form"""
    shape = []
    runs, loose, missing = [], [], []
    cur = None
    for e in entries:
        t = e[0]
        if not shape or shape[-1] != t:
            shape.append(t)
        if t == 'P':
            if cur is not None and cur[0] == e[2]:
                cur[1].append(e[1:])
            else:
                cur = (e[2], [e[1:]])
                runs.append(cur)
        else:
            cur = None
            (loose if t == 'L' else missing).append(e[1:])
    # All packed entries, per pack in offset order (ties on the offset - a zero-length object and its neighbour - by length).  The run
    # structure (one block per pack and per phase) is compared in canon_events, where the session reset separates the two phases: here
    # two runs of one pack (before / after the refresh) may or may not be adjacent depending on the set iteration order.
    packed = sorted((e for _pid, rs in runs for e in rs), key=lambda r: (r[1], r[2], r[3], r[0]))
    runs_sorted = all(rs[i][2] <= rs[i + 1][2] for _pid, rs in runs for i in range(len(rs) - 1))   # every run in offset order
    return {'shape': ''.join(shape), 'packed': packed, 'loose': sorted(loose), 'missing': sorted(missing), 'runs_in_offset_order': runs_sorted}


class _Proxy:
    """a file object that reports its close(); everything else is forwarded"""
    def __init__(self, f, log, tag):
        self._f, self._log, self._tag = f, log, tag

    def close(self):
        if not self._f.closed:
            self._log.append(('c',) + self._tag)
        return self._f.close()

    @property
    def closed(self):
        return self._f.closed

    def __enter__(self):
        return self

    def __exit__(self, *a):
        self.close()

    def __iter__(self):
        return iter(self._f)

    def __getattr__(self, n):
        return getattr(self._f, n)


def _entry(k, m):
    t = m['type'].value
    if t == 'packed':
        return ('P', k, m['pack_id'], m['pack_offset'], m['pack_length'], 1 if m['pack_compressed'] else 0, m['size'])
    if t == 'loose':
        return ('L', k, m['size'])
    return ('M', k)


def impl_entries(h, d, req, skip, streams, log):
    """runs the bulk call; returns the entries in generator order; `log` receives the opens/closes of pack and loose files made by
    container.py (module-level open shadowed for the duration of the call), the session resets and the yields, in order"""
    import builtins
    import disk_objectstore.container as cont
    pdir, ldir = os.path.join(d, 'packs') + os.sep, os.path.join(d, 'loose') + os.sep

    def classify(path):
        path = os.fspath(path)
        if path.startswith(pdir) and path[len(pdir):].lstrip('-').isdigit():
            return ('p', int(path[len(pdir):]))
        if path.startswith(ldir):
            return ('l', path[len(ldir):].replace(os.sep, ''))
        return None

    def wopen(path, mode='r', *a, **k):
        cls = classify(path)
        try:
            f = builtins.open(path, mode, *a, **k)
        except FileNotFoundError:
            if cls and cls[0] == 'l':
                log.append(('ms', cls[1]))
            raise
        if cls is None:
            return f
        log.append(('o',) + cls)
        return _Proxy(f, log, cls)
    orig_reset = h._close_operation_session

    def wreset():
        log.append(('reset',))
        return orig_reset()
    res = []
    cont.open = wopen
    h._close_operation_session = wreset
    try:
        if streams:
            with h.get_objects_stream_and_meta(req, skip_if_missing=skip) as it:
                for k, s, m in it:
                    e = _entry(k, m)
                    log.append(('y', e))
                    res.append(e)
                    if s is not None:
                        s.read()            # sequential consumption: no seek, the re-loosened cache is never asked for
        else:
            for k, m in h.get_objects_meta(req, skip_if_missing=skip):
                e = _entry(k, m)
                log.append(('y', e))
                res.append(e)
    finally:
        del cont.open
        del h._close_operation_session
    return res


def canon_events(log, rank=None):
    """(depth problems, canonical form): blocks (file, entries yielded while it was open) per phase (before / after the session reset),
    entries yielded with no file open, failed opens"""
    rk = (lambda k: rank[k]) if rank else (lambda k: k)
    phases = [{'blocks': [], 'bare': []}]
    misses, problems = [], []
    cur, depth = None, 0

    def ent(e):
        return (e[0], rk(e[1])) + tuple(e[2:])
    for ev in log:
        if ev[0] == 'o':
            depth += 1
            if depth > 1:
                problems.append(f'{depth} files open at once')
            cur = [(ev[1], ev[2] if ev[1] == 'p' else rk(ev[2])), []]
        elif ev[0] == 'c':
            depth -= 1
            if cur is not None:
                ys = cur[1]
                out, i = [], 0
                while i < len(ys):        # ties on the offset inside a pack block: order by length
                    j = i
                    while j < len(ys) and ys[j][0] == 'P' and ys[i][0] == 'P' and ys[j][3] == ys[i][3]:
                        j += 1
                    j = max(j, i + 1)
                    out += sorted(ys[i:j], key=lambda r: (r[4] if r[0] == 'P' else 0, r[1]))
                    i = j
                phases[-1]['blocks'].append((cur[0], tuple(out)))
                cur = None
        elif ev[0] == 'ms':
            misses.append(rk(ev[1]))
        elif ev[0] == 'reset':
            phases.append({'blocks': [], 'bare': []})
        elif ev[0] == 'y':
            (cur[1] if cur is not None else phases[-1]['bare']).append(ent(ev[1]))
    if depth != 0:
        problems.append(f'{depth} files still open when the call ended')
    return problems, {'phases': [{'blocks': sorted(p['blocks']), 'bare': sorted(p['bare'])} for p in phases], 'misses': sorted(misses)}


def parse_model_events(line):
    st, _, rest = line.partition(' ')
    log = []
    for tok in rest.split(',') if rest else []:
        if tok.startswith('op'):
            log.append(('o', 'p', int(tok[2:])))
        elif tok.startswith('cp'):
            log.append(('c', 'p', int(tok[2:])))
        elif tok.startswith('ol'):
            log.append(('o', 'l', int(tok[2:])))
        elif tok.startswith('cl'):
            log.append(('c', 'l', int(tok[2:])))
        elif tok.startswith('ms'):
            log.append(('ms', int(tok[2:])))
        elif tok == 'reset':
            log.append(('reset',))
        elif tok.startswith('y'):
            f = tok[1:].split(':')
            log.append(('y', (f[0],) + tuple(int(x) for x in f[1:])))
        else:
            raise ValueError(tok)
    return st, log


def model_line(in_max, iter_max, skip, d1, ls, d2, ks, rank):
    def rows(d):
        return ','.join(f'{rank[k]}:{p}:{o}:{l}:{1 if c else 0}:{s}' for k, p, o, l, c, s in d)
    return (f'lookup {in_max} {iter_max} {1 if skip else 0} | {rows(d1)} | ' + ','.join(f'{rank[k]}:{sz}' for k, sz in ls.items())
            + f' | {rows(d2)} | ' + ','.join(str(rank[k]) for k in ks))


def parse_model(line, unrank):
    st, _, rest = line.partition(' ')
    ents = []
    for it in rest.split(',') if rest else []:
        f = it.split(':')
        if f[0] == 'P':
            ents.append(('P', unrank[int(f[1])], int(f[2]), int(f[3]), int(f[4]), int(f[5]), int(f[6])))
        elif f[0] == 'L':
            ents.append(('L', unrank[int(f[1])], int(f[2])))
        else:
            ents.append(('M', unrank[int(f[1])]))
    return st, ents


def fake_key(i):
    import hashlib
    return hashlib.sha256(b'missing-%d' % i).hexdigest()


def run(ck, tier, ncont=None):
    """returns the number of cases compared; registers obligations / failures on ck"""
    common.use_repo()
    from disk_objectstore import Container
    C = Container
    saved = (C._IN_SQL_MAX_LENGTH, C._MAX_CHUNK_ITERATE_LENGTH)
    rng = ck.rng
    ncont = ncont or (6 if tier == 'quick' else 30)
    pending = []     # (case, impl canonical, model line, direct-oracle verdict)
    evpending = []   # (case, canonical implementation events, model line, streams)
    dist = {'stale_snapshot': 0, 'refresh_needed': 0, 'scan': 0, 'chunked': 0, 'streams': 0, 'skip': 0, 'with_ties': 0, 'cases': 0}
    try:
        for ci in range(ncont):
            thr = rng.choice([(3, 7), (2, 5), (1, 3), (4, 4), saved])
            C._IN_SQL_MAX_LENGTH, C._MAX_CHUNK_ITERATE_LENGTH = thr
            root = common.scratch_root()
            d = os.path.join(root, 'c')
            w = Container(d)
            w.init_container(clear=True, pack_size_target=rng.choice([40, 120, 4 * 1024 ** 3]), loose_prefix_len=rng.choice([0, 2]))
            pool = [b'obj-%d-' % i * (1 + i % 7) for i in range(26)] + [b'']
            truth = {}

            def add_loose(n):
                for b in rng.sample(pool, n):
                    truth[w.add_object(b)] = b
            # some packs, the empty object among them half of the time (same offset as its neighbour)
            first = rng.sample(pool[:26], rng.randint(3, 8)) + ([b''] if rng.random() < 0.6 else [])
            rng.shuffle(first)
            for k, b in zip(w.add_objects_to_pack(first, compress=rng.random() < 0.5), first):
                truth[k] = b
            add_loose(rng.randint(0, 4))
            r = Container(d)            # the reader: pins its snapshot now
            session_rows(r)
            for phase in range(3):
                # the world moves on through the writer handle
                x = rng.random()
                if x < 0.5:
                    add_loose(rng.randint(1, 4))
                    if rng.random() < 0.7:
                        w.pack_all_loose(compress=rng.random() < 0.5)
                        if rng.random() < 0.8:
                            w.clean_storage()
                elif x < 0.8:
                    add_loose(rng.randint(1, 3))
                for _ in range(3 if tier == 'quick' else 5):
                    present = list(truth)
                    size = rng.randint(0, 12)
                    req = rng.sample(present, min(len(present), rng.randint(0, size)))
                    if rng.random() < 0.6:
                        req += [fake_key(rng.randrange(5)) for _ in range(size - len(req))]
                    if len(req) > 2 and rng.random() < 0.6:
                        req[rng.randrange(len(req))] = req[rng.randrange(len(req))]
                    rng.shuffle(req)
                    skip = rng.random() < 0.4
                    streams = rng.random() < 0.4
                    d1 = session_rows(r)
                    ls = loose_sizes(d)
                    d2 = raw_rows(d)
                    log = []
                    try:
                        ents = impl_entries(r, d, req, skip, streams, log)
                    except Exception as e:
                        ck.fail(f'bulk lookup raised {type(e).__name__}: {e}', {'kind': 'lookup', 'thresholds': thr, 'request': len(req)}, 'lookup-exception')
                        continue
                    ks = list(dict.fromkeys(req))
                    allk = sorted(set(ks) | {x[0] for x in d1} | {x[0] for x in d2} | set(ls))
                    rank = {k: i for i, k in enumerate(allk)}
                    case = {'kind': 'lookup', 'thresholds': thr, 'skip': skip, 'streams': streams, 'request': [rank[k] for k in req],
                            'd1': [(rank[a],) + tuple(b) for a, *b in d1], 'loose': {rank[k]: v for k, v in ls.items()},
                            'd2': [(rank[a],) + tuple(b) for a, *b in d2]}
                    # direct oracle: ground truth from the raw folder (sequential run: everything acknowledged is stored)
                    dk = set(ks)
                    seen = [e[1] for e in ents]
                    problems = []
                    if len(seen) != len(set(seen)):
                        problems.append('a key is reported twice')
                    if set(seen) - dk:
                        problems.append('a key that was not requested is reported')
                    for e in ents:
                        if e[1] in truth:
                            sz = e[6] if e[0] == 'P' else (e[2] if e[0] == 'L' else None)
                            if e[0] == 'M' or sz != len(truth[e[1]]):
                                problems.append(f'stored object {e[1][:8]} reported as {e[0]} size {sz}')
                        elif e[0] != 'M':
                            problems.append(f'absent key {e[1][:8]} reported as {e[0]}')
                    want = {k for k in dk if (k in truth or not skip)}
                    if set(seen) != want:
                        problems.append(f'{len(want - set(seen))} requested keys not reported, {len(set(seen) - want)} reported that should be skipped')
                    if problems:
                        ck.fail(f'bulk lookup ({"streams" if streams else "meta"}, thresholds {thr}, {len(dk)} distinct keys): ' + '; '.join(problems[:3]),
                                case, 'lookup-oracle')
                    ci_ = canon([(e[0], rank[e[1]]) + tuple(e[2:]) for e in ents])
                    ml = model_line(thr[0], thr[1], skip, d1, ls, d2, ks, rank)
                    fdp, cev = canon_events(log, rank)
                    if not streams and any(e[0] == 'o' for e in log):
                        fdp.append('a file is opened by a metadata-only bulk call')
                    if fdp:
                        ck.fail(f'bulk read ({"streams" if streams else "meta"}, {len(dk)} distinct keys over {len({x[1] for x in d2})} packs): ' + '; '.join(fdp[:2]),
                                case, 'lookup-fd')
                    pending.append((case, ci_, ml, allk))
                    evpending.append((case, cev, ml.replace('lookup ', 'lookup_events ' if streams else 'lookup_events_meta ', 1), streams))
                    dist['cases'] += 1
                    dist['stale_snapshot'] += d1 != d2
                    dist['refresh_needed'] += any(k not in {x[0] for x in d1} and k not in ls for k in dk)
                    dist['scan' if len(dk) > thr[1] else 'chunked'] += 1
                    dist['streams'] += streams
                    dist['skip'] += skip
                    offs = [(x[1], x[2]) for x in d2]
                    dist['with_ties'] += len(offs) != len(set(offs))
                    ck.count(('lookup', thr, skip, streams, tuple(case['request']), len(d1), len(d2)), nontrivial=len(req) > 0)
            r.close()
            w.close()
    finally:
        C._IN_SQL_MAX_LENGTH, C._MAX_CHUNK_ITERATE_LENGTH = saved
    bad = []
    if pending:
        outs = _driver([p[2] for p in pending])
        for (case, ci_, _line, allk), mo in zip(pending, outs):
            if mo.startswith('ERROR'):
                bad.append((case, f'driver: {mo[:200]}'))
                continue
            st, ments = parse_model(mo, list(range(len(allk))))
            cm = canon(ments)
            if st != 'ok':
                bad.append((case, f'model status {st}'))
            elif cm != ci_:
                diff = [k for k in cm if cm[k] != ci_[k]]
                bad.append((case, f'answers differ in {diff}: model {str({k: cm[k] for k in diff})[:300]} implementation {str({k: ci_[k] for k in diff})[:300]}'))
    ck.obligation(f'Lookup.lookup_bulk == _get_objects_stream_meta_generator on {len(pending)} requests (pinned/stale snapshots, loose folder, refreshed index)',
                  not bad, bad[0][1] if bad else str(dist), kind='correspondence')
    badev = []
    if evpending:
        outs = _driver([p[2] for p in evpending])
        for (case, cev, _line, streams), mo in zip(evpending, outs):
            if mo.startswith('ERROR'):
                badev.append((case, f'driver: {mo[:200]}'))
                continue
            st, mlog = parse_model_events(mo)
            if not streams:     # stat() failures of a metadata-only call are not intercepted: compare without the failed opens
                mlog = [e for e in mlog if e[0] != 'ms']
            _, cm = canon_events(mlog)
            if not streams:
                cev = dict(cev, misses=[])
            if cm != cev:
                diff = [k for k in cm if cm[k] != cev[k]]
                badev.append((case, f'events differ in {diff}: model {str({k: cm[k] for k in diff})[:300]} implementation {str({k: cev[k] for k in diff})[:300]}'))
    ck.obligation(f'LookupFd.lookup_events == opens/closes/yields/session resets of the generator on {len(evpending)} bulk calls',
                  not badev, badev[0][1] if badev else f'{sum(1 for p in evpending if p[3])} with streams', kind='correspondence')
    bad = bad + badev
    ck.sample({'lookup_model_cases': dist})
    ck.lookup_disagreements = bad
    return len(pending)
