#!/venv/bin/python
"""rsync wrapper used by the C15 check as BackupManager(rsync_exe=...).

Runs the real rsync, but lets the harness place concurrent container operations *before* a given rsync call of the
backup or *in the middle* of it (the transfer is then split into two real rsync invocations over a file list computed
once at the start of the call, which is how rsync behaves: list first, transfer afterwards).
Plan and counters are in the JSON file named by VERIF_BK_CTL.
"""
import fcntl
import json
import os
import subprocess
import sys

REAL = '/usr/bin/rsync'


def main():
    args = sys.argv[1:]
    ctl_path = os.environ.get('VERIF_BK_CTL')
    if '--version' in args or not ctl_path:
        os.execv(REAL, [REAL] + args)
    with open(ctl_path) as f:
        ctl = json.load(f)
    ctl['calls'] = ctl.get('calls', 0) + 1
    k = ctl['calls']
    srcp = args[-2]
    base = os.path.basename(srcp.rstrip('/'))
    ctl.setdefault('steps', []).append('rest' if srcp.endswith('/') else 'copydump' if base == 'packs.idx' else base)
    with open(ctl_path, 'w') as f:
        json.dump(ctl, f)
    todo = [p for p in ctl['plan'] if p['call'] == k]
    for p in todo:
        if p['when'] == 'before':
            act(ctl, p['action'])
    mids = [p for p in todo if p['when'] == 'mid']
    afters = [p for p in todo if p['when'] == 'after']   # right after this call returned: before whatever the backup does next
    if not mids:
        rc = subprocess.run([REAL] + args).returncode
        for p in afters:
            act(ctl, p['action'])
        sys.exit(rc)
    # split transfer
    src, dest = args[-2], args[-1]
    opts = args[:-2]
    excludes = []
    i = 0
    while i < len(opts):
        if opts[i] == '--exclude':
            excludes.append(opts[i + 1])
            i += 2
        else:
            i += 1
    if src.endswith('/'):
        root = src
        top = ''
    else:
        root = os.path.dirname(src.rstrip('/')) + '/'
        top = os.path.basename(src.rstrip('/'))
    if os.path.isfile(src):
        rc = subprocess.run([REAL] + args).returncode
        for p in mids + afters:
            act(ctl, p['action'])
        sys.exit(rc)
    entries = []
    base = os.path.join(root, top)
    if top:
        entries.append(top + '/')
    for dp, dns, fns in os.walk(base):
        dns[:] = sorted(d for d in dns if d not in excludes)
        rel = os.path.relpath(dp, root)
        for d in dns:
            entries.append(os.path.normpath(os.path.join(rel, d)) + '/')
        for fn in sorted(fns):
            if fn in excludes:
                continue
            entries.append(os.path.normpath(os.path.join(rel, fn)))
    files = [e for e in entries if not e.endswith('/')]
    dirs = [e for e in entries if e.endswith('/')]
    half = len(files) // 2
    lists = [dirs + files[:half], files[half:]]
    rc_all = 0
    for n, lst in enumerate(lists):
        lf = ctl_path + f'.list{k}.{n}'
        with open(lf, 'w') as f:
            f.write('\n'.join(lst) + ('\n' if lst else ''))
        if lst:
            rc = subprocess.run([REAL] + opts + ['--files-from=' + lf, root, dest]).returncode
            rc_all = rc_all or rc
        os.remove(lf)
        if n == 0:
            for p in mids:
                act(ctl, p['action'])
    for p in afters:
        act(ctl, p['action'])
    sys.exit(rc_all)


def act(ctl, action):
    """a concurrent client step, in a process of its own"""
    code = r'''
import sys, json, hashlib
from disk_objectstore import Container
a = json.loads(sys.argv[2])
c = Container(sys.argv[1])
try:
    if a['kind'] == 'add':
        for i in a['ids']:
            c.add_object(b'bk-new-%d-' % i * (3 + i))
    elif a['kind'] == 'pack':
        c.pack_all_loose(compress=a.get('compress', False), clean_loose_per_pack=a.get('clean_per_pack', False))
    elif a['kind'] == 'clean':
        c.clean_storage()
    elif a['kind'] == 'topack':
        c.add_objects_to_pack([b'bk-direct-%d-' % i * (4 + i) for i in a['ids']], compress=a.get('compress', False))
finally:
    c.close()
'''
    env = dict(os.environ)
    env.pop('VERIF_BK_CTL', None)
    r = subprocess.run([sys.executable, '-c', code, ctl['container'], json.dumps(action)], env=env, capture_output=True, text=True)
    with open(ctl['log'], 'a') as f:
        f.write(json.dumps({'action': action, 'rc': r.returncode, 'err': r.stderr[-300:]}) + '\n')


if __name__ == '__main__':
    main()
