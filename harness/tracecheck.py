"""Tie between the implementation's I/O trace and the Coq event model (Store.v):
 - the intercepted trace (with payloads) of an uninterrupted run is translated into model events;
 - the extracted, verified monitor (Store.monitor, soundness: StoreProofs.monitor_sound) checks the C03 invariant and the preservation
   of every stored object at EVERY crash point of that trace, and on the power-loss image of every crash point;
 - the model's final world must equal the real folder read raw afterwards (validates the event semantics against the OS/SQLite).
"""
from __future__ import annotations

import json
import os
import re
import shutil
import subprocess
import zlib

import common
import store
import sweep

HT = 'sha256'


class Keys:
    def __init__(self):
        self.ids = {}

    def id(self, k):
        if k not in self.ids:
            self.ids[k] = len(self.ids) + 1
        return self.ids[k]


def loose_key(path):
    return path[len('loose/'):].replace('/', '')


def hx(b: bytes) -> str:
    return b.hex() if b else '-'


def translate(log, keys: Keys):
    """returns (events as text lines, sandbox contents by number, notes about ignored events)"""
    sand = {}
    sand_data = {}
    ev = []
    ignored = {}

    def ign(kind):
        ignored[kind] = ignored.get(kind, 0) + 1
    unknown = []
    for e in log:
        kind = e[1]
        a = e[2:]
        if kind == 'open':
            path, mode = a[0], a[1]
            if path.startswith('sandbox/'):
                n = sand.setdefault(path, len(sand) + 1)
                sand_data[n] = b''
                ev.append(f'opensand {n}')
            elif path.startswith('packs/') and path.endswith('.lock'):
                ign('lock')
            elif path.startswith('packs/'):
                ev.append(f'openpack {int(path[6:])}')
            else:
                unknown.append(e[:4])
        elif kind in ('write', 'flush', 'close', 'fsync', 'truncate', 'seek'):
            path = a[0]
            if path.startswith('sandbox/') and path in sand:
                h = f's {sand[path]}'
            elif path.startswith('packs/') and not path.endswith('.lock') and path[6:].lstrip('-').isdigit():
                h = f'p {int(path[6:])}'
            elif kind == 'fsync':
                ign('fsync-dir')
                continue
            elif path.endswith('.lock'):
                ign('lock')
                continue
            else:
                unknown.append(e[:4])
                continue
            if kind == 'write':
                data = bytes.fromhex(a[2]) if len(a) > 2 and isinstance(a[2], str) else b''
                if h.startswith('s '):
                    sand_data[sand[path]] += data
                ev.append(f'write {h} {hx(data)}')
            elif kind == 'truncate':
                ev.append(f'truncate {h[2:]} {a[1]}')
            elif kind == 'seek':
                ign('seek')
            else:
                ev.append(f'{kind} {h}')
        elif kind in ('rename', 'replace'):
            src, dst = a[0], a[1]
            if src and src.startswith('sandbox/') and dst and dst.startswith('loose/'):
                ev.append(f'publish {sand[src]} {keys.id(loose_key(dst))}')
            else:
                unknown.append(e[:4])
        elif kind in ('remove', 'unlink'):
            path = a[0]
            if path.startswith('sandbox/'):
                if path in sand:
                    ev.append(f'unlinksand {sand[path]}')
            elif path.startswith('loose/'):
                ev.append(f'unlinkloose {keys.id(loose_key(path))}')
            elif path.endswith('.lock'):
                ign('lock')
            elif path.startswith('packs/'):
                ev.append(f'unlinkpack {int(path[6:])}')
            else:
                unknown.append(e[:4])
        elif kind == 'link':
            ev.append(f'link {int(a[0][6:])} {int(a[1][6:])}')
        elif kind == 'mkdir':
            ign('mkdir')
        elif kind == 'fault':
            ign('fault')
        elif kind == 'fcntl':
            ign('fcntl')
        elif kind == 'sql':
            w = a[0]
            if w == 'COMMIT':
                ev.append('commit')
            elif w == 'VACUUM':
                ign('vacuum')
            elif w == 'INSERT':
                stmt, params = a[1], a[2]
                cols = [c.strip().strip('"') for c in re.search(r'\(([^)]*)\)\s*VALUES', stmt).group(1).split(',')]
                rows = []
                for p in params:
                    r = dict(zip(cols, p))
                    rows.append(f"{keys.id(r['hashkey'])},{r['pack_id']},{r['offset']},{r['length']},{1 if r['compressed'] else 0},{r['size']}")
                ev.append(f"insert {1 if 'OR IGNORE' in stmt else 0} {';'.join(rows)}".rstrip())
            elif w == 'DELETE':
                stmt, params = a[1], a[2]
                ks = [keys.id(k) for p in params for k in p]
                ev.append(('delete ' + ','.join(map(str, ks))).rstrip())
            elif w == 'UPDATE':
                stmt, params = a[1], a[2]
                m = re.search(r'SET (.*) WHERE (.*)', stmt)
                setcols = [c.split('=')[0].strip().strip('"') for c in m.group(1).split(',')]
                if setcols == ['pack_id'] and 'pack_id' in m.group(2):
                    for p in params:
                        ev.append(f'repoint {p[1]} {p[0]}')
                else:
                    rows = []
                    for p in params:
                        r = dict(zip(setcols, p))
                        rows.append(f"{keys.id(r['hashkey'])},{r['pack_id']},{r['offset']},{r['length']},{1 if r['compressed'] else 0},{r['size']}")
                    ev.append('updaterows ' + ';'.join(rows))
            else:
                unknown.append(e[:3])
        else:
            unknown.append(e[:4])
    return ev, sand_data, ignored, unknown


def run_scenario(name):
    """uninterrupted run with payload capture; returns dict with pre/post raw state and log"""
    d, snap = sweep._dirs()
    try:
        cmd = [common.PY, os.path.join(common.VERIF, 'harness', 'sweep_child.py'), name, d, 'none', '0', snap, 'payload']
        r = subprocess.run(cmd, capture_output=True, text=True, env=common.child_env(), timeout=600)
        if r.returncode != 0:
            return {'error': r.stderr[-500:]}
        out = json.load(open(os.path.join(snap, 'out.json')))
        pre = json.load(open(os.path.join(snap, 'pre_raw.json')))
        post = json.load(open(os.path.join(snap, 'post_raw.json')))
        tr = json.load(open(os.path.join(snap, 'truth.json')))
        return {'log': out['log'], 'pre': pre, 'post': post, 'truth': tr['truth'], 'targets': tr['targets'], 'result': out['result']}
    finally:
        shutil.rmtree(d, ignore_errors=True)
        shutil.rmtree(snap, ignore_errors=True)


def build_block(run):
    keys = Keys()
    ev, sand_data, ignored, unknown = translate(run['log'], keys)
    lines = ['trace_begin']
    contents = set()
    pre, post = run['pre'], run['post']
    for st in (pre, post):
        for k, v in st['stored'].items():
            contents.add(bytes.fromhex(v))
        for k, v in st['loose'].items():
            contents.add(bytes.fromhex(v))
    for v in run['truth'].values():
        contents.add(bytes.fromhex(v))
    for v in sand_data.values():
        contents.add(v)
    for c in contents:
        lines.append(f'H {keys.id(store.H(HT, c))} {hx(c)}')
    # inflate table from every compressed row of both states
    seen = set()
    for st in (pre, post):
        for r in st['rows']:
            if r[5]:
                data = bytes.fromhex(st['packs'].get(str(r[2]), ''))
                blob = data[r[3]:r[3] + r[4]]
                if blob in seen:
                    continue
                seen.add(blob)
                try:
                    lines.append(f'Z {hx(blob)} {hx(zlib.decompress(blob))}')
                except zlib.error:
                    pass
    for k, v in pre['loose'].items():
        lines.append(f'L {keys.id(k)} {hx(bytes.fromhex(v))}')
    for pid, v in pre['packs'].items():
        lines.append(f'P {pid} {hx(bytes.fromhex(v))}')
    for r in pre['rows']:
        lines.append(f'R {keys.id(r[1])},{r[2]},{r[3]},{r[4]},{1 if r[5] else 0},{r[6]}')
    for k, v in run['truth'].items():
        lines.append(f'T {keys.id(k)} {hx(bytes.fromhex(v))}')
    for k in run['targets']:
        lines.append(f'G {keys.id(k)}')
    for e in ev:
        lines.append('E ' + e)
    lines.append('trace_end')
    return lines, keys, ev, ignored, unknown


def expected_final(run, keys):
    post = run['post']
    ls = sorted(f"{keys.id(k)}:{hx(bytes.fromhex(v))}" for k, v in post['loose'].items())
    ps = sorted(f"{pid}:{hx(bytes.fromhex(v))}" for pid, v in post['packs'].items())
    rs = [f"{keys.id(r[1])},{r[2]},{r[3]},{r[4]},{1 if r[5] else 0},{r[6]}" for r in post['rows']]
    return ls, ps, rs


def parse_final(s):
    parts = dict(p.split(' ', 1) if ' ' in p else (p, '') for p in s.split('|'))

    def items(x, with_sync=True):
        out = []
        for it in [i for i in x.split(';') if i]:
            k, f = it.split(':', 1)
            data, synced = f.split('/')
            out.append((k, data, synced))
        return out
    return {'L': items(parts.get('L', '')), 'P': items(parts.get('P', '')), 'S': items(parts.get('S', '')), 'R': [r for r in parts.get('R', '').split(';') if r]}


def merge_writes(evs):
    out = []
    for e in evs:
        t = e.split(' ')
        if t[0] == 'write' and out and out[-1].split(' ')[:3] == t[:3]:
            a = out[-1].split(' ')[3]
            b = t[3]
            out[-1] = ' '.join(t[:3] + [(('' if a == '-' else a) + ('' if b == '-' else b)) or '-'])
        elif t[0] == 'write' and t[3] == '-':
            # an empty write changes nothing; keep one empty write only if it is the sole write of the handle (normal form: dropped)
            continue
        else:
            out.append(e)
    return out


def drop_noop_commits(evs):
    """normal form: a COMMIT with no statement since the previous COMMIT changes nothing in the model (Store.apply_ev folds an empty
    list) and is not observable on the implementation side either (SQLAlchemy emits no COMMIT when no transaction was begun) - except the
    two commits around VACUUM, which appear on both sides and are dropped from both"""
    out, dirty = [], False
    for e in evs:
        k = e.split(' ')[0]
        if k in ('insert', 'delete', 'updaterows', 'repoint'):
            dirty = True
        if k == 'commit':
            if not dirty:
                continue
            dirty = False
        out.append(e)
    return out


PROGRAM_SCENARIOS = {'add': 'add', 'add_flat': 'add', 'add_dup': 'add', 'add_big': 'add', 'loosen': 'add',
                     'pack': 'pack', 'pack_clean': 'pack', 'pack_small': 'pack', 'pack_auto': 'pack', 'pack_nofsync': 'pack',
                     'pack_nofsync_clean': 'pack', 'pack_novalidate': 'pack', 'pack_then_clean': 'pack', 'clean': 'clean', 'delete': 'delete',
                     'repack': 'repack', 'repack_keep': 'repack',
                     'topack': 'addpack', 'topack_multi': 'addpack', 'topack_nofsync': 'addpack', 'topack_nh': 'addpack', 'topack_nh_rt0': 'addpack',
                     'import_same': 'import', 'import_diff': 'import', 'import_same_stream': 'import', 'import_diff_stream': 'import'}
ADDPACK_FLAGS = {'topack': (0, 0), 'topack_multi': (0, 0), 'topack_nofsync': (0, 0), 'topack_nh': (1, 1), 'topack_nh_rt0': (1, 0),
                 'import_same': (0, 0), 'import_diff': (1, 1), 'import_same_stream': (0, 0), 'import_diff_stream': (1, 1)}


def program_lines(name, ev, run, keys):
    """inputs of the model programs (Programs.v) recovered from the implementation run: contents, orders, blobs are oracles"""
    kind = PROGRAM_SCENARIOS.get(name)
    rspec = None
    if name.startswith('rnd_'):
        import scen
        rspec = scen.rand_spec(name)
        kind = {'add': 'add', 'pack': 'pack', 'topack': 'addpack', 'import': 'import', 'delete': 'delete', 'clean': 'clean', 'repack': 'repack', 'loosen': 'add'}[rspec['kind']]
    if not kind:
        return None
    post = run['post']
    lines = []
    if kind == 'add':
        chunks = [e.split(' ')[3] for e in ev if e.startswith('write s 1 ')]
        chunks = [c for c in chunks if c != '-']
        lines.append('X add 1 ' + ';'.join(chunks) if chunks else 'X add 1')
        return lines
    if kind == 'delete':
        ks = [e.split(' ')[1] for e in ev if e.startswith('unlinkloose ')]
        lines.append('X delete ' + ','.join(ks))
        return lines
    if kind == 'clean':
        ks = [e.split(' ')[1] for e in ev if e.startswith('unlinkloose ')]
        vac = 1 if ev[:2] == ['commit', 'commit'] else 0
        lines.append((f'X clean {vac} ' + ','.join(ks)).rstrip())
        return lines
    if kind in ('addpack', 'import'):
        if rspec is not None:
            nh, twice = (int(rspec['nh']), int(rspec['twice'])) if rspec['kind'] == 'topack' else ((0, 0) if rspec['same'] else (1, 1))
        else:
            nh, twice = ADDPACK_FLAGS[name]
        pre_packs = {k: bytes.fromhex(v) for k, v in run['pre']['packs'].items()}
        cur = {}
        segs = []
        seg = None
        for e in ev:
            t = e.split(' ')
            if t[0] == 'openpack':
                seg = {'id': t[1], 'rows': [], 'dups': [], 'fsync': False}
                segs.append(seg)
                cur[t[1]] = bytearray(cur.get(t[1], pre_packs.get(t[1], b'')))
            elif seg is None:
                continue
            elif t[0] == 'write' and t[1] == 'p':
                cur[t[2]] += bytes.fromhex(t[3]) if t[3] != '-' else b''
            elif t[0] == 'truncate':
                pos = int(t[2])
                tail = bytes(cur[t[1]][pos:])
                cur[t[1]] = cur[t[1]][:pos]
                seg['dups'].append((pos, tail))   # every truncation, in trace order; the last one of a no_holes call is the final truncate()
            elif t[0] == 'insert' and len(t) > 2:
                seg['rows'] += t[2].split(';')
            elif t[0] == 'fsync':
                seg['fsync'] = True
        for sg in segs:
            items = []
            comp_flag = None
            for r in sg['rows']:
                k, pid, off, ln, comp, size = r.split(',')
                comp_flag = comp
                data = bytes.fromhex(post['packs'].get(pid, ''))
                # the row's bytes may have been cut away again if the row was IGNOREd? no: rows are only collected for objects kept in the pack
                items.append((int(off), 1, f'{k},{hx(data[int(off):int(off) + int(ln)])},{comp},{size}'))
            dups = sg['dups'][:-1] if (nh and sg['dups']) else sg['dups']   # drop the final truncate() at the end of the call
            for seq, (pos, tail) in enumerate(dups):
                # (a truncation with nothing to cut is a zero-length duplicate written uncompressed: the known empty object)
                comp = comp_flag if comp_flag is not None else ('1' if (name in ('topack',) or (rspec is not None and rspec.get('compress') is True)) else '0')
                try:
                    content = zlib.decompress(tail) if comp == '1' else tail
                except zlib.error:
                    content = tail
                k = keys.id(store.H(HT, content))
                items.append((pos, 0, seq, f'{k},{hx(tail)},{comp},{len(content)}'))   # a duplicate written at pos precedes the new object that ends up there
            items = [(x[0], x[1], x[2] if len(x) == 4 else 0, x[-1]) for x in items]
            items.sort(key=lambda x: (x[0], x[1], x[2]))
            items = [(x[0], x[1], x[3]) for x in items]
            sg['items'] = items
            if kind == 'addpack':
                lines.append(f"X addpack {sg['id']} {nh} {twice} {1 if sg['fsync'] else 0} {';'.join(x[2] for x in items)}")
        if kind == 'import' and segs:
            # Programs.p_import: all do_commit=False batches, then the one COMMIT
            fs = 1 if all(sg['fsync'] for sg in segs) else 0
            lines.append(f"X import {nh} {twice} {fs} " + '|'.join(f"{sg['id']}=" + ';'.join(x[2] for x in sg['items']) for sg in segs))
        elif kind == 'import':
            lines.append('X import %d %d 1 ' % (nh, twice))
        return lines
    if kind == 'repack':
        # one program per pack in the order the implementation visited them (listdir order = oracle), then the final VACUUM
        i = 0
        n = len(ev)
        while i < n:
            t = ev[i].split(' ')
            if t[0] == 'unlinkpack' and (i + 1 >= n or not ev[i + 1].startswith('link ')) and t[1] != '-1':
                # either an empty pack being removed, or the old pack removal inside a repack (then a link follows)
                lines.append(f'X repack {t[1]}')
                i += 1
            elif t[0] == 'openpack' and t[1] == '-1':
                j = i
                rows = []
                pid = None
                while j < n and not (ev[j] == 'unlinkpack -1'):
                    tt = ev[j].split(' ')
                    if tt[0] == 'updaterows':
                        rows = tt[1].split(';')
                    if tt[0] == 'repoint':
                        pid = tt[2]
                    j += 1
                objs = []
                data = bytes.fromhex(post['packs'].get(pid, ''))
                for r in rows:
                    k, _p, off, ln, comp, size = r.split(',')
                    objs.append(f'{k},{hx(data[int(off):int(off) + int(ln)])},{comp},{size}')
                lines.append(f"X repack {pid} {';'.join(objs)}")
                i = j + 1
            elif ev[i] == 'commit' and i + 1 < n and ev[i + 1] == 'commit':
                lines.append('X vacuum')
                i += 2
            else:
                i += 1
        return lines
    # pack: one program per openpack segment, a trailing clean_storage if loose files are unlinked after the last commit
    segs = []
    cur = None
    for e in ev:
        t = e.split(' ')
        if t[0] == 'openpack':
            cur = {'id': t[1], 'rows': [], 'fsync': False, 'unlinks': [], 'committed': False}
            segs.append(cur)
        elif cur is not None:
            if t[0] == 'insert' and len(t) > 2:
                cur['rows'] += t[2].split(';')
            elif t[0] == 'fsync':
                cur['fsync'] = True
            elif t[0] == 'commit':
                cur['committed'] = True
            elif t[0] == 'unlinkloose':
                cur['unlinks'].append(t[1])
    for i, sg in enumerate(segs):
        objs = []
        row_keys = []
        for r in sg['rows']:
            k, pid, off, ln, comp, size = r.split(',')
            data = bytes.fromhex(post['packs'].get(pid, ''))
            blob = data[int(off):int(off) + int(ln)]
            objs.append(f'{k},{hx(blob)},{comp},{size}')
            row_keys.append(k)
        per_pack_clean = sg['unlinks'][:len(row_keys)] == row_keys and len(row_keys) > 0
        lines.append(f"X pack {sg['id']} {1 if sg['fsync'] else 0} {1 if per_pack_clean else 0} {';'.join(objs)}")
        rest = sg['unlinks'][len(row_keys):] if per_pack_clean else sg['unlinks']
        if rest:
            lines.append('X clean 0 ' + ','.join(rest))
    return lines


def check_scenario(name, power_loss_expected=True):
    run = run_scenario(name)
    if 'error' in run:
        return {'name': name, 'error': run['error']}
    lines, keys, ev, ignored, unknown = build_block(run)
    plines = program_lines(name, ev, run, keys)
    if plines:
        lines = lines[:-1] + plines + [lines[-1]]
    r = subprocess.run([os.path.join(common.OCAML, 'driver')], input='\n'.join(lines) + '\n', capture_output=True, text=True, timeout=600)
    out = r.stdout.strip().splitlines()
    if not out or out[-1].startswith('ERROR'):
        return {'name': name, 'error': 'driver: ' + (out[-1] if out else r.stderr[-300:]), 'events': ev[:50]}
    m = re.match(r'crash=(\S+) pl=(\S+) mono=(\S+) c13=(\S+) prog=(.*) final=(.*)$', out[-1])
    fin = parse_final(m.group(6))
    prog_model = drop_noop_commits(merge_writes([e for e in m.group(5).split('/') if e]))
    prog_impl = drop_noop_commits(merge_writes(ev))
    prog_diff = None
    if plines:
        if prog_model != prog_impl:
            i = next((i for i, (a, b) in enumerate(zip(prog_model, prog_impl)) if a != b), min(len(prog_model), len(prog_impl)))
            prog_diff = {'at': i, 'model': (prog_model[i][:80] if i < len(prog_model) else None), 'impl': (prog_impl[i][:80] if i < len(prog_impl) else None),
                         'len_model': len(prog_model), 'len_impl': len(prog_impl)}
    els, eps, ers = expected_final(run, keys)
    got_ls = sorted(f'{k}:{d}' for k, d, _ in fin['L'])
    got_ps = sorted(f'{k}:{d}' for k, d, _ in fin['P'])
    # row order: the model keeps insertion order = id order
    diffs = []
    if got_ls != els:
        diffs.append(f'loose files differ: model {len(got_ls)} vs disk {len(els)}')
    if got_ps != eps:
        diffs.append('pack files differ: ' + '; '.join(f'{a[:40]} vs {b[:40]}' for a, b in zip(got_ps, eps) if a != b)[:300] + f' ({len(got_ps)} vs {len(eps)})')
    if sorted(fin['R']) != sorted(ers):
        diffs.append(f'index rows differ: model {sorted(fin["R"])[:3]} vs disk {sorted(ers)[:3]}')
    unsynced = [k for k, d, s in fin['P'] if d != s]
    return {'name': name, 'crash': m.group(1), 'pl': m.group(2), 'mono': m.group(3), 'c13': m.group(4), 'program': bool(plines), 'prog_diff': prog_diff, 'world_diffs': diffs, 'n_events': len(ev), 'ignored': ignored, 'unknown': unknown[:5],
            'events': ev, 'unsynced_packs_at_end': unsynced}


MONO_SCENARIOS = ['add', 'add_flat', 'add_dup', 'add_big', 'pack', 'pack_clean', 'pack_small', 'pack_auto', 'pack_nofsync', 'pack_nofsync_clean',
                  'pack_novalidate', 'clean', 'pack_then_clean', 'loosen', 'topack', 'topack_multi', 'import_same', 'import_same_stream']
NOREPACK_SCENARIOS = MONO_SCENARIOS + ['topack_nofsync', 'topack_nh', 'topack_nh_rt0', 'import_diff', 'import_diff_stream']


class _Names(list):
    """scenario name lists that also answer for generated scenarios (rnd_<kind>_<seed>) by their kind"""
    def __init__(self, items, kinds):
        super().__init__(items)
        self.kinds = kinds

    def __contains__(self, name):
        if isinstance(name, str) and name.startswith('rnd_'):
            import scen
            sp = scen.rand_spec(name)
            return self.kinds(sp)
        return list.__contains__(self, name)


# monotone steps: no deletion, no repack, no truncation (no_holes without read-twice truncates)
MONO_SCENARIOS = _Names(MONO_SCENARIOS, lambda sp: sp['kind'] in ('add', 'pack', 'clean', 'loosen') or (sp['kind'] == 'topack' and not sp['nh']) or (sp['kind'] == 'import' and sp['same']))
NOREPACK_SCENARIOS = _Names(NOREPACK_SCENARIOS, lambda sp: sp['kind'] in ('add', 'pack', 'clean', 'topack', 'import', 'loosen'))


def random_names(rnd, per_kind):
    import scen
    return [f'rnd_{k}_{rnd.randrange(10 ** 6)}' for k in scen.RAND_KINDS for _ in range(per_kind)]


def check_traces(ck, pid, baselines=None, names=None):
    import scen
    from concurrent.futures import ThreadPoolExecutor
    names = names or list(baselines or {})
    names = [n for n in names if n not in scen.DAMAGED_PRE and n not in scen.HEAVY]
    with ThreadPoolExecutor(common.NPROC) as ex:
        results = list(ex.map(check_scenario, names))
    bad_sem, bad_mon, bad_pl, bad_mono, bad_c13, bad_fd, bad_prog = [], [], [], [], [], [], []
    nprog = 0
    total_events = 0

    def at(r, key):
        n = int(r[key].split('@')[1])
        return f"{r['name']}: rejected at event {n} ({r['events'][n - 1] if 0 < n <= len(r['events']) else 'initial state'})"
    for r in results:
        if 'error' in r:
            bad_sem.append(f"{r['name']}: {r['error'][:200]}")
            continue
        total_events += r['n_events']
        if r['world_diffs'] or r['unknown']:
            bad_sem.append(f"{r['name']}: {r['world_diffs']} unknown events {r['unknown']}")
        if r.get('program'):
            nprog += 1
            if r['prog_diff']:
                bad_prog.append(f"{r['name']}: {r['prog_diff']}")
        if r['crash'] != 'ok':
            bad_mon.append(at(r, 'crash'))
        if r['pl'] != 'ok' and r['name'] not in scen.NON_DEFAULT_FSYNC:
            bad_pl.append(at(r, 'pl'))
        if r['name'] in MONO_SCENARIOS and r['mono'] != 'ok':
            bad_mono.append(at(r, 'mono'))
        if r['name'] in NOREPACK_SCENARIOS and r['c13'] != 'ok':
            bad_c13.append(at(r, 'c13'))
    rej = getattr(ck, 'rejected_scenarios', set())
    for r in results:
        if 'error' not in r and (r['crash'] != 'ok' or r['world_diffs'] or (r['pl'] != 'ok' and r['name'] not in scen.NON_DEFAULT_FSYNC)):
            rej.add(r['name'])
    ck.rejected_scenarios = rej
    ck.cov['traces_validated_against_impl'] = ck.cov.get('traces_validated_against_impl', 0) + len(results)
    ck.cov['trace_events'] = ck.cov.get('trace_events', 0) + total_events
    ck.obligation('correspondence: Store.apply_ev over the intercepted trace of each scenario ends in exactly the folder read raw (event semantics vs OS/SQLite), no unknown event',
                  not bad_sem, '; '.join(bad_sem)[:1200], kind='correspondence')
    if nprog:
        ck.obligation(f'correspondence: the Gallina programs (Programs.p_add_loose / p_pack_one / p_clean / p_delete / p_repack_one / p_vacuum / p_add_to_pack / p_import), run on the inputs recovered from '
                      f'the implementation run, generate exactly the implementation\'s event trace ({nprog} scenarios)', not bad_prog, '; '.join(bad_prog)[:1200], kind='correspondence')
        for r in results:
            if r.get('prog_diff'):
                getattr(ck, 'rejected_scenarios', set()).add(r['name'])
    if pid in ('C05', 'C17', 'C03', 'C02', 'C09', 'C11', 'C10', 'C14', 'C01'):
        ck.obligation('discipline: verified monitor (Store.monitor / monitor_sound) accepts every crash point of every implementation trace',
                      not bad_mon, '; '.join(bad_mon)[:1200], kind='correspondence')
    if pid == 'C06':
        ck.obligation('discipline: verified monitor accepts the power-loss image of every crash point of every implementation trace (default fsync settings)',
                      not bad_pl, '; '.join(bad_pl)[:1200], kind='correspondence')
    if pid in ('C04', 'C08', 'C15'):
        ck.obligation('discipline: every step of the writer/packer traces satisfies the side conditions of MonoStep.mono_step (all_ok_b)',
                      not bad_mono, '; '.join(bad_mono)[:1200], kind='correspondence')
    if pid == 'C13':
        ck.obligation('discipline: every step of every repack-free implementation trace keeps referenced pack bytes (c13_all_b / c13_all_sound)',
                      not bad_c13, '; '.join(bad_c13)[:1200], kind='correspondence')
    good = [r for r in results if 'events' in r]
    if good:
        ck.sample({'scenario': good[0]['name'], 'model_events': [e[:70] for e in good[0]['events'][:25]]})
    return results


def crash_search(ck, pid, powerloss=False):
    """extended search used when the monitor / the event semantics reject an implementation trace: kill the real process at every
    gated call of the rejected scenarios and examine the folder (raw + new handle)"""
    def search(broken):
        import sweep
        names = sorted(getattr(ck, 'rejected_scenarios', set()))
        if not names:
            return None
        before = len(ck.concrete)
        for pl in ([True] if powerloss else [False]):
            sweep.sweep(ck, pid, names, 'kill', powerloss=pl)
            if len(ck.concrete) > before:
                c = ck.concrete[before]
                return (c['what'] + ' (found by killing the process at every gated call of the scenario whose trace the verified monitor rejects)', c['case'])
        return None
    return search


def check_fault_traces(ck, pid):
    """C17: every run with an injected fault is a trace too (events before the fault + what the handlers did): the verified monitor
    must accept every boundary of it and the model must end in the folder the failed operation left behind"""
    import scen
    from concurrent.futures import ThreadPoolExecutor
    runs = [(n, r) for n, r in getattr(ck, 'fault_runs', []) if n not in scen.DAMAGED_PRE and n not in scen.HEAVY]

    tails = []

    def one(item):
        name, r = item
        run = r['trace_run']
        try:
            lines, keys, ev, ignored, unknown = build_block(run)
            p = subprocess.run([os.path.join(common.OCAML, 'driver')], input='\n'.join(lines) + '\n', capture_output=True, text=True, timeout=600)
            out = p.stdout.strip().splitlines()
            if not out or out[-1].startswith('ERROR'):
                return (name, r['n'], 'driver: ' + (out[-1] if out else p.stderr[-200:]))
            m = re.match(r'crash=(\S+) pl=(\S+) mono=(\S+) c13=(\S+) prog=(.*) final=(.*)$', out[-1])
            fin = parse_final(m.group(6))
            els, eps, ers = expected_final(run, keys)
            bad = []
            if sorted(f'{k}:{d}' for k, d, _ in fin['L']) != els:
                bad.append('loose differ')
            # a write handle whose close() was the faulted call is flushed later by the interpreter's finaliser: the real pack may
            # carry an unreferenced tail the model does not have (harmless: C03_tolerates_unreferenced_tail); anything else is a difference
            real = dict(x.split(':', 1) for x in eps)
            mod = {k: d for k, d, _ in fin['P']}
            if set(real) != set(mod) or any(not (real[k].replace('-', '')).startswith(mod[k].replace('-', '')) for k in mod):
                bad.append('packs differ')
            if sorted(fin['R']) != sorted(ers):
                bad.append('rows differ')
            if unknown:
                bad.append(f'unknown events {unknown[:2]}')
            if m.group(1) != 'ok':
                bad.append(f'monitor {m.group(1)}')
            # the hypothesis of the C17 program theorems (FaultProofs.handler_ev): what the implementation does after the failed call is
            # handler work only - closing/flushing handles, removing the sandbox file, rolling the session back
            fi = next((i for i, e in enumerate(run['log']) if len(e) > 1 and e[1] == 'fault'), None)
            if fi is not None:
                pre_ev = build_block(dict(run, log=run['log'][:fi]))[2]
                tail = ev[len(pre_ev):]
                if ev[:len(pre_ev)] != pre_ev:
                    bad.append('translation of the trace is not prefix-stable')
                nonh = [e for e in tail if e.split(' ')[0] not in ('close', 'flush', 'unlinksand', 'rollback')]
                if nonh:
                    bad.append(f'after the fault the implementation performed non-handler events {nonh[:3]}')
                tails.append(len(tail))
            return (name, r['n'], '; '.join(bad) if bad else None)
        except Exception as e:
            return (name, r['n'], f'{type(e).__name__}: {e}')
    with ThreadPoolExecutor(common.NPROC) as ex:
        res = list(ex.map(one, runs))
    bad = [f'{n}@{k}: {b}' for n, k, b in res if b]
    ck.cov['fault_traces_monitored'] = len(res)
    ck.cov['fault_handler_events'] = sum(tails)
    ck.obligation(f'discipline+semantics on fault runs: the verified monitor accepts every boundary of each of the {len(res)} traces with an injected fault, the model '
                  f'ends in the folder the failed operation left behind, and what follows the failed call are handler events only (FaultProofs.handler_ev: '
                  f'close/flush/sandbox removal/rollback; {sum(tails)} such events seen)', not bad, '; '.join(bad)[:1200], kind='correspondence')
    for n, k, b in res:
        if b:
            getattr(ck, 'rejected_scenarios', set()).add(n)
