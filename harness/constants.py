"""Re-extract the source-level constants the theorems depend on from /repo's AST into coq/theories/Generated.v.

Fail closed: any shape this extractor does not recognise raises ConstantsError, which the checks report as a
broken obligation ("constants"), never as a default value.
"""
from __future__ import annotations

import ast
import os


class ConstantsError(Exception):
    pass


def _ev(node):
    """evaluate an int/bool/str/float constant expression made of literals and * + - //"""
    if isinstance(node, ast.Constant) and isinstance(node.value, (int, bool, str, float)):
        return node.value
    if isinstance(node, ast.UnaryOp) and isinstance(node.op, ast.USub):
        return -_ev(node.operand)
    if isinstance(node, ast.BinOp) and isinstance(node.op, (ast.Mult, ast.Add, ast.Sub, ast.FloorDiv)):
        a, b = _ev(node.left), _ev(node.right)
        if isinstance(node.op, ast.Mult):
            return a * b
        if isinstance(node.op, ast.Add):
            return a + b
        if isinstance(node.op, ast.Sub):
            return a - b
        return a // b
    raise ConstantsError(f'unsupported constant expression: {ast.dump(node)[:120]}')


def _find(body, kind, name):
    for n in body:
        if isinstance(n, kind) and n.name == name:
            return n
    raise ConstantsError(f'{kind.__name__} {name} not found')


def _assign(body, name, walk=False):
    nodes = body
    if walk:
        nodes = [x for n in body for x in ast.walk(n)]
    found = []
    for n in nodes:
        if isinstance(n, ast.Assign) and len(n.targets) == 1 and isinstance(n.targets[0], ast.Name) and n.targets[0].id == name:
            found.append(n.value)
        if isinstance(n, ast.AnnAssign) and isinstance(n.target, ast.Name) and n.target.id == name and n.value is not None:
            found.append(n.value)
    if len(found) != 1:
        raise ConstantsError(f'expected exactly one assignment to {name}, found {len(found)}')
    return _ev(found[0])


def _default(fn: ast.FunctionDef, arg: str):
    args = fn.args.args
    defaults = fn.args.defaults
    off = len(args) - len(defaults)
    for i, a in enumerate(args):
        if a.arg == arg:
            if i < off:
                raise ConstantsError(f'{fn.name}: {arg} has no default')
            return _ev(defaults[i - off])
    raise ConstantsError(f'{fn.name}: no argument {arg}')


def _calls(fn, fname):
    out = []
    for n in ast.walk(fn):
        if isinstance(n, ast.Call):
            f = n.func
            nm = f.id if isinstance(f, ast.Name) else (f.attr if isinstance(f, ast.Attribute) else None)
            if nm == fname:
                out.append(n)
    out.sort(key=lambda n: (n.lineno, n.col_offset))
    return out


def _kw(call, name):
    for k in call.keywords:
        if k.arg == name:
            return _ev(k.value)
    return None


def extract(repo: str) -> dict:
    src = os.path.join(repo, 'disk_objectstore')
    with open(os.path.join(src, 'container.py'), encoding='utf8') as f:
        ct = ast.parse(f.read())
    with open(os.path.join(src, 'utils.py'), encoding='utf8') as f:
        ut = ast.parse(f.read())
    with open(os.path.join(src, 'backup_utils.py'), encoding='utf8') as f:
        bt = ast.parse(f.read())
    c = {}
    cont = _find(ct.body, ast.ClassDef, 'Container')
    c['CHUNKSIZE'] = _assign(cont.body, '_CHUNKSIZE')
    c['REPACK_PACK_ID'] = _assign(cont.body, '_REPACK_PACK_ID')
    c['IN_SQL_MAX_LENGTH'] = _assign(cont.body, '_IN_SQL_MAX_LENGTH')
    c['MAX_CHUNK_ITERATE_LENGTH'] = _assign(cont.body, '_MAX_CHUNK_ITERATE_LENGTH')
    c['ADD_READ_CHUNK'] = _assign(_find(cont.body, ast.FunctionDef, 'add_streamed_object').body, '_read_chunk_size')
    c['LIST_YIELD_PER'] = _assign(_find(cont.body, ast.FunctionDef, 'list_all_objects').body, 'yield_per_size')
    asp = _find(cont.body, ast.FunctionDef, 'add_streamed_objects_to_pack')
    c['PACK_YIELD_PER'] = _assign(asp.body, 'yield_per_size')
    pal = _find(cont.body, ast.FunctionDef, 'pack_all_loose')
    c['PACK_ALL_LOOSE_DO_FSYNC'] = _default(pal, 'do_fsync')
    c['PACK_ALL_LOOSE_VALIDATE'] = _default(pal, 'validate_objects')
    c['PACK_ALL_LOOSE_CLEAN_PER_PACK'] = _default(pal, 'clean_loose_per_pack')
    c['ADD_TO_PACK_DO_FSYNC'] = _default(asp, 'do_fsync')
    c['ADD_TO_PACK_DO_COMMIT'] = _default(asp, 'do_commit')
    c['ADD_TO_PACK_NO_HOLES'] = _default(asp, 'no_holes')
    c['ADD_TO_PACK_READ_TWICE'] = _default(asp, 'no_holes_read_twice')
    imp = _find(cont.body, ast.FunctionDef, 'import_objects')
    c['IMPORT_DO_FSYNC'] = _default(imp, 'do_fsync')
    c['IMPORT_TARGET_MEMORY'] = _default(imp, 'target_memory_bytes')
    # use_fullsync flags passed at the safe_flush_to_disk call sites
    for fn, key in ((pal, 'PACK_ALL_LOOSE_FULLSYNC'), (asp, 'ADD_TO_PACK_FULLSYNC')):
        calls = _calls(fn, 'safe_flush_to_disk')
        if len(calls) != 1:
            raise ConstantsError(f'{fn.name}: expected one safe_flush_to_disk call, found {len(calls)}')
        c[key] = bool(_kw(calls[0], 'use_fullsync'))
    rp = _find(cont.body, ast.FunctionDef, 'repack_pack')
    calls = _calls(rp, 'safe_flush_to_disk')
    if len(calls) != 1:
        raise ConstantsError('repack_pack: expected one safe_flush_to_disk call')
    c['REPACK_FULLSYNC'] = bool(_kw(calls[0], 'use_fullsync'))
    init = _find(cont.body, ast.FunctionDef, 'init_container')
    c['DEFAULT_PACK_SIZE_TARGET'] = _default(init, 'pack_size_target')
    c['DEFAULT_LOOSE_PREFIX_LEN'] = _default(init, 'loose_prefix_len')

    zl = _find(ut.body, ast.ClassDef, 'ZlibLikeBaseStreamDecompresser')
    c['ZLIB_CHUNKSIZE'] = _assign(zl.body, '_CHUNKSIZE')
    c['ZLIB_SEEK_READ_CHUNK'] = _assign(_find(zl.body, ast.FunctionDef, '_seek_internal').body, 'read_chunk_size')
    lls = _find(ut.body, ast.ClassDef, 'LazyLooseStream')
    c['MAX_RETRIES'] = _assign(_find(lls.body, ast.FunctionDef, 'open_stream').body, 'MAX_RETRIES')
    c['HASH_FILE_CHUNK'] = _assign(_find(ut.body, ast.FunctionDef, '_compute_hash_for_file').body, '_chunksize')
    c['HASH_CHUNK'] = _assign(_find(ut.body, ast.FunctionDef, 'compute_hash_and_size').body, '_hash_chunksize')
    est = _find(ut.body, ast.FunctionDef, 'estimate_compression')
    c['EST_SAMPLE_SIZE'] = _assign(est.body, 'sample_size')
    c['EST_MAX_SAMPLED'] = _assign(est.body, 'max_sampled_data_size')
    sc = _find(ut.body, ast.FunctionDef, 'should_compress')
    thr = _assign(sc.body, 'compression_threshold')
    c['COMPRESSION_THRESHOLD_PERMILLE'] = int(round(thr * 1000))
    c['MACOS_ALWAYS_USE_FULLSYNC'] = bool(_assign(ut.body, '_MACOS_ALWAYS_USE_FULLSYNC'))
    sfd = _find(ut.body, ast.FunctionDef, 'safe_flush_to_disk')
    c['SAFE_FLUSH_DEFAULT_FULLSYNC'] = bool(_default(sfd, 'use_fullsync'))

    # backup: exclude list of the last rsync step
    bc = _find(bt.body, ast.FunctionDef, 'backup_container')
    calls = _calls(bc, 'call_rsync')
    if len(calls) != 4:
        raise ConstantsError(f'backup_container: expected 4 call_rsync calls, found {len(calls)}')
    last = calls[-1]
    extra = None
    for k in last.keywords:
        if k.arg == 'extra_args':
            extra = k.value
    if not isinstance(extra, ast.List):
        raise ConstantsError('backup_container: extra_args of the last rsync call is not a list literal')
    excludes = []
    elts = extra.elts
    i = 0
    while i < len(elts):
        e = elts[i]
        if isinstance(e, ast.Constant) and e.value == '--exclude':
            v = elts[i + 1]
            if isinstance(v, ast.Constant) and isinstance(v.value, str):
                excludes.append(v.value)
            elif isinstance(v, ast.Call) and isinstance(v.func, ast.Name) and v.func.id == 'str' and isinstance(v.args[0], ast.Name):
                excludes.append({'loose_path_rel': 'loose', 'packs_path_rel': 'packs'}.get(v.args[0].id, '?' + v.args[0].id))
            else:
                raise ConstantsError('backup_container: unrecognised --exclude argument')
            i += 2
        else:
            raise ConstantsError('backup_container: unrecognised extra arg')
    if any(x.startswith('?') for x in excludes):
        raise ConstantsError(f'backup_container: unknown exclude variable {excludes}')
    c['BACKUP_EXCLUDES'] = excludes
    return c


# index side files that SQLite keeps next to packs.idx in WAL mode
INDEX_FILES = ['packs.idx', 'packs.idx-wal', 'packs.idx-shm']
_EXCL_CODES = {'loose': 0, 'packs': 1, 'packs.idx': 2, 'packs.idx-wal': 3, 'packs.idx-shm': 4}


def render(c: dict) -> str:
    def z(v):
        return f'({int(v)})%Z'

    def b(v):
        return 'true' if v else 'false'

    lines = ['(* Generated.v - GENERATED by harness/constants.py from the AST of /repo on every run. Do not edit. *)',
             'From Coq Require Import ZArith List Bool.', 'Import ListNotations.', '']
    for k in sorted(c):
        v = c[k]
        if k == 'BACKUP_EXCLUDES':
            codes = []
            for x in v:
                if x not in _EXCL_CODES:
                    raise ConstantsError(f'unknown backup exclude {x!r}')
                codes.append(str(_EXCL_CODES[x]))
            lines.append(f'(* excludes of the last rsync step: {v}; codes loose=0 packs=1 packs.idx=2 -wal=3 -shm=4 *)')
            lines.append(f'Definition BACKUP_EXCLUDES : list nat := [{"; ".join(codes)}]%nat.')
        elif isinstance(v, bool):
            lines.append(f'Definition {k} : bool := {b(v)}.')
        elif isinstance(v, int):
            lines.append(f'Definition {k} : Z := {z(v)}.')
        else:
            raise ConstantsError(f'cannot render {k}={v!r}')
    return '\n'.join(lines) + '\n'


def regenerate(repo: str, coq_dir: str) -> tuple[dict, bool]:
    """returns (constants, changed)"""
    c = extract(repo)
    text = render(c)
    path = os.path.join(coq_dir, 'theories', 'Generated.v')
    old = None
    if os.path.exists(path):
        with open(path, encoding='utf8') as f:
            old = f.read()
    if old != text:
        with open(path, 'w', encoding='utf8') as f:
            f.write(text)
        return c, True
    return c, False


if __name__ == '__main__':
    import json
    import sys
    print(json.dumps(extract(sys.argv[1] if len(sys.argv) > 1 else '/repo'), indent=1))
