"""Shared machinery of the checks: locations, scratch space, Coq build/obligations, verdict protocol, evidence."""
from __future__ import annotations

import atexit
import fcntl
import hashlib
import json
import os
import random
import re
import shutil
import subprocess
import sys
import tempfile
import time

VERIF = os.path.dirname(os.path.dirname(os.path.abspath(__file__)))
REPO = os.path.abspath(os.environ.get('VERIF_REPO', '/repo'))
COQ = os.path.join(VERIF, 'coq')
OCAML = os.path.join(VERIF, 'ocaml')
PY = '/venv/bin/python'
NPROC = min(16, os.cpu_count() or 4)

os.environ.setdefault('PYTHONHASHSEED', '0')

_SCRATCH = []


def scratch_root() -> str:
    base = '/dev/shm' if os.path.isdir('/dev/shm') and os.access('/dev/shm', os.W_OK) else tempfile.gettempdir()
    d = tempfile.mkdtemp(prefix='verif-', dir=base)
    _SCRATCH.append(d)
    return d


def _cleanup():
    for d in _SCRATCH:
        shutil.rmtree(d, ignore_errors=True)


atexit.register(_cleanup)


def use_repo():
    """make `import disk_objectstore` resolve to REPO's working tree"""
    if sys.path[0] != REPO:
        sys.path.insert(0, REPO)
    for m in list(sys.modules):
        if m == 'disk_objectstore' or m.startswith('disk_objectstore.'):
            f = getattr(sys.modules[m], '__file__', '') or ''
            if not f.startswith(REPO + os.sep):
                del sys.modules[m]
    import disk_objectstore  # noqa
    assert disk_objectstore.__file__.startswith(REPO + os.sep), disk_objectstore.__file__
    return disk_objectstore


def child_env(extra_path: str | None = None) -> dict:
    env = dict(os.environ)
    pp = [REPO, os.path.join(VERIF, 'harness')]
    if extra_path:
        pp.append(extra_path)
    env['PYTHONPATH'] = os.pathsep.join(pp)
    env['PYTHONHASHSEED'] = '0'
    env['VERIF_REPO'] = REPO
    return env


def repo_head() -> str:
    try:
        return subprocess.run(['git', '-C', REPO, 'rev-parse', 'HEAD'], capture_output=True, text=True, timeout=20).stdout.strip()
    except Exception:
        return 'unknown'


# ----------------------------------------------------------------------------------------------
# Coq side
# ----------------------------------------------------------------------------------------------
ALLOWED_AXIOMS: set[str] = set()  # nothing: every property theorem must be closed under the global context

FORBIDDEN = re.compile(r'\b(Admitted|admit|Axiom|Axioms|Parameter|Parameters|Conjecture|Unset\s+Guard|bypass_check|'
                       r'Admit\s+Obligations|type-in-type|impredicative-set)\b')


class Lock:
    def __init__(self, path):
        self.path = path

    def __enter__(self):
        self.f = open(self.path, 'w')
        fcntl.flock(self.f, fcntl.LOCK_EX)

    def __exit__(self, *a):
        fcntl.flock(self.f, fcntl.LOCK_UN)
        self.f.close()


def run(cmd, timeout, cwd=None, env=None, input=None):
    t0 = time.time()
    try:
        r = subprocess.run(cmd, cwd=cwd, env=env, capture_output=True, text=True, timeout=timeout, input=input)
        return r.returncode, r.stdout, r.stderr, time.time() - t0
    except subprocess.TimeoutExpired as e:
        return 124, (e.stdout or b'').decode() if isinstance(e.stdout, bytes) else (e.stdout or ''), 'TIMEOUT', time.time() - t0


def coq_build(check=None) -> dict:
    """regenerate Generated.v from REPO, make the development, rebuild the extracted driver when stale.
    Returns {'ok': bool, 'constants': dict|None, 'errors': [...]}"""
    from constants import regenerate, ConstantsError
    res = {'ok': True, 'constants': None, 'errors': []}
    with Lock(os.path.join(COQ, '.build.lock')):
        try:
            consts, changed = regenerate(REPO, COQ)
            res['constants'] = consts
        except (ConstantsError, SyntaxError, OSError) as e:
            res['ok'] = False
            res['errors'].append(('constants', f'{type(e).__name__}: {e}'))
            # fall back to the last good Generated.v so the rest of the development can still be checked
        os.makedirs(os.path.join(COQ, 'extracted'), exist_ok=True)
        if not os.path.exists(os.path.join(COQ, 'Makefile')):
            run(['coq_makefile', '-f', '_CoqProject', '-o', 'Makefile'], 60, cwd=COQ)
        rc, out, err, dt = run(['make', f'-j{NPROC}'], 1500, cwd=COQ)
        res['make_s'] = round(dt, 1)
        if rc != 0:
            res['ok'] = False
            m = re.findall(r'File "\./theories/([^"]+)", line (\d+)[^\n]*\n(Error:[^\n]*(?:\n[^\n]+){0,6})', out + err)
            detail = '; '.join(f'{a}:{b} {c.strip()[:300]}' for a, b, c in m) or (err[-600:] or out[-600:])
            res['errors'].append(('make', detail))
        else:
            ok, msg = build_driver()
            if not ok:
                res['ok'] = False
                res['errors'].append(('driver', msg))
    return res


def build_driver() -> tuple[bool, str]:
    """extracted OCaml + driver.ml -> ocaml/driver (only when sources are newer than the binary)"""
    ext = os.path.join(COQ, 'extracted')
    drv = os.path.join(OCAML, 'driver')
    srcs = []
    if os.path.isdir(ext):
        srcs = [os.path.join(OCAML, f) for f in sorted(os.listdir(OCAML)) if f.endswith('.ml')] + \
               [os.path.join(ext, f) for f in sorted(os.listdir(ext)) if f.endswith(('.ml', '.mli'))]
    if not srcs or not os.path.exists(os.path.join(OCAML, 'driver.ml')):
        return True, 'no driver sources yet'
    if os.path.exists(drv) and all(os.path.getmtime(s) <= os.path.getmtime(drv) for s in srcs):
        return True, 'up to date'
    bdir = os.path.join(OCAML, '_build')
    shutil.rmtree(bdir, ignore_errors=True)
    os.makedirs(bdir)
    for s in srcs:
        shutil.copy(s, bdir)
    mods = _ocaml_order(bdir)
    rc, out, err, _ = run(['ocamlfind', 'ocamlopt', '-inline', '100', '-w', '-a', '-package', 'str', '-linkpkg'] + mods + ['-o', drv],
                          600, cwd=bdir)
    if rc != 0:
        return False, (err or out)[-800:]
    return True, 'built'


def _ocaml_order(bdir):
    """dependency order via ocamldep -sort"""
    files = sorted(f for f in os.listdir(bdir) if f.endswith(('.ml', '.mli')))
    rc, out, err, _ = run(['ocamlfind', 'ocamldep', '-sort'] + files, 60, cwd=bdir)
    return out.split()


def scan_forbidden() -> list[str]:
    bad = []
    for root, _, files in os.walk(os.path.join(COQ, 'theories')):
        for f in files:
            if f.endswith('.v'):
                p = os.path.join(root, f)
                with open(p, encoding='utf8') as fh:
                    txt = fh.read()
                txt = re.sub(r'\(\*.*?\*\)', '', txt, flags=re.S)
                for m in FORBIDDEN.finditer(txt):
                    bad.append(f'{os.path.relpath(p, COQ)}: {m.group(0)}')
    return bad


def check_property_file(pid: str) -> dict:
    """compile theories/Properties/<pid>.v afresh, collect theorem names and the Print Assumptions verdicts"""
    src = os.path.join(COQ, 'theories', 'Properties', f'{pid}.v')
    res = {'theorems': [], 'closed': 0, 'axioms': [], 'ok': False, 'detail': ''}
    if not os.path.exists(src):
        res['detail'] = f'{src} missing'
        return res
    with open(src, encoding='utf8') as f:
        txt = f.read()
    body = re.sub(r'\(\*.*?\*\)', '', txt, flags=re.S)
    res['theorems'] = re.findall(r'^\s*(?:Theorem|Corollary)\s+(\w+)', body, flags=re.M)
    nprint = len(re.findall(r'^\s*Print Assumptions', body, flags=re.M))
    with Lock(os.path.join(COQ, '.build.lock')):
        out_vo = src[:-2] + '.vo'
        rc, out, err, dt = run(['coqc', '-Q', 'theories', 'DOS', src], 900, cwd=COQ)
    res['coqc_s'] = round(dt, 1)
    if rc != 0:
        res['detail'] = (err or out)[-800:]
        return res
    res['closed'] = out.count('Closed under the global context')
    ax = re.findall(r'^Axioms:\n((?:.+\n)+?)(?=\n|\Z)', out, flags=re.M)
    for blk in ax:
        for line in blk.splitlines():
            m = re.match(r'^(\S+)\s*:', line)
            if m:
                res['axioms'].append(m.group(1))
    res['axioms'] = sorted(set(res['axioms']))
    unexpected = [a for a in res['axioms'] if a not in ALLOWED_AXIOMS]
    res['ok'] = (not unexpected) and res['closed'] + (1 if res['axioms'] else 0) >= 1 and nprint >= len(res['theorems']) and len(res['theorems']) > 0
    if res['closed'] != nprint and not res['axioms']:
        res['ok'] = False
        res['detail'] = f'{nprint} Print Assumptions but {res["closed"]} closed'
    if unexpected:
        res['detail'] = 'unexpected axioms: ' + ', '.join(unexpected)
    return res


# ----------------------------------------------------------------------------------------------
# Known findings
# ----------------------------------------------------------------------------------------------
def known_findings() -> list[dict]:
    p = os.path.join(VERIF, 'known_findings.json')
    if not os.path.exists(p):
        return []
    with open(p, encoding='utf8') as f:
        return json.load(f).get('findings', [])


# ----------------------------------------------------------------------------------------------
# Verdict
# ----------------------------------------------------------------------------------------------
TRUSTED_BASE_COMMON = [
    'Coq 8.16.1 kernel (coqc); vm_compute used in Examples and in the cases.v correspondence route; no native_compute',
    'no axioms: Print Assumptions under every property theorem must say "Closed under the global context"',
    'Section hypotheses (universally quantified in the theorems): hash injective/incremental, zlib codec laws, '
    'SQLite commit atomic+durable with snapshot isolation, POSIX atomic rename/replace/link/unlink and O_APPEND',
    'Coq extraction (ExtrOcamlBasic only: Extract Inductive bool/option/unit/list/prod/sumbool/sumor, '
    'Extract Inlined Constant andb/orb/negb/fst/snd... as that library declares; N/Z/nat stay Coq datatypes) '
    'and ocaml/driver.ml (OCaml 4.13.1) - for the correspondence only',
    'Python harness: interception layer, raw disk reader, generators, oracles, AST constant extractor (fail-closed)',
    'MODELLED NOT VERIFIED: disk_objectstore itself (hand-written Gallina model tied by differential execution), '
    'CPython io buffering/finalisation, SQLAlchemy/SQLite, the kernel, zlib, rsync',
]


class Check:
    def __init__(self, pid: str, tier: str, seed: int):
        self.pid, self.tier, self.seed = pid, tier, seed
        self.t0 = time.time()
        self.rng = random.Random(seed * 1000003 + int(pid[1:]))
        self.obligations: list[dict] = []
        self.concrete: list[dict] = []  # failing inputs found on the implementation
        self.cov: dict = {'evaluations': 0, 'distinct_nontrivial': 0, 'rule': '', 'samples': []}
        self.assumptions: list[str] = []
        self.notes: list[str] = []
        self._distinct: set = set()
        self.known_hits: list[str] = []
        self.outdir = os.environ.get('VERIF_OUT_DIR', VERIF)  # seeded-defect self-tests write elsewhere
        os.makedirs(os.path.join(self.outdir, 'replays'), exist_ok=True)
        os.makedirs(os.path.join(self.outdir, 'evidence'), exist_ok=True)

    # -- bookkeeping
    def obligation(self, name: str, ok: bool, detail: str = '', kind: str = 'theorem'):
        self.obligations.append({'name': name, 'kind': kind, 'ok': bool(ok), 'detail': str(detail)[:1500]})
        if not ok:
            print(f'[{self.pid}] obligation BROKEN: {kind}:{name}: {str(detail)[:400]}', flush=True)

    def count(self, key=None, nontrivial=True, n=1):
        self.cov['evaluations'] += n
        if key is not None and nontrivial:
            if not isinstance(key, (str, bytes)):
                key = json.dumps(key, sort_keys=True, default=str)
            self._distinct.add(hashlib.sha1(key.encode() if isinstance(key, str) else key).digest()[:8])

    def sample(self, s, limit=6):
        if len(self.cov['samples']) < limit:
            self.cov['samples'].append(s)

    def fail(self, what: str, case: dict, finding_key: str | None = None):
        """a concrete failing input on the implementation"""
        self.concrete.append({'what': what, 'case': case, 'key': finding_key or what})
        print(f'[{self.pid}] concrete failure: {what}', flush=True)

    # -- standard Coq obligations
    def coq(self):
        b = coq_build()
        self.constants = b.get('constants')
        for kind, detail in b['errors']:
            self.obligation(kind, False, detail, kind='build' if kind != 'constants' else 'constants')
        if not any(k == 'constants' for k, _ in b['errors']):
            self.obligation('Generated.v regenerated from the AST of the working tree', True, kind='constants')
        if not any(k == 'make' for k, _ in b['errors']):
            self.obligation('coq development builds (make, full .vo)', True, f"{b.get('make_s')}s", kind='build')
        bad = scan_forbidden()
        self.obligation('no Admitted/admit/Axiom/Parameter/Conjecture/disabled checks in theories/', not bad, '; '.join(bad[:8]), kind='hygiene')
        pf = check_property_file(self.pid)
        self.property_file = pf
        if pf['theorems']:
            for t in pf['theorems']:
                self.obligation(f'Properties/{self.pid}.v: {t}', pf['ok'], pf['detail'], kind='theorem')
        else:
            self.obligation(f'Properties/{self.pid}.v', False, pf['detail'] or 'no theorems found', kind='theorem')
        return b['ok'] and pf['ok'] and not bad

    # -- finish
    def finish(self, search=None) -> int:
        broken = [o for o in self.obligations if not o['ok']]
        kf = known_findings()
        open_keys = {f['key']: f for f in kf if f.get('property') == self.pid and f.get('status') == 'open'}
        lines = []
        nviol = 0
        reported = set()
        for c in self.concrete:
            if c['key'] in open_keys:
                if c['key'] not in reported:
                    lines.append(f"KNOWN-FINDING: property={self.pid} {open_keys[c['key']]['what']}")
                    reported.add(c['key'])
                continue
            if ('V', c['key']) in reported:
                continue
            reported.add(('V', c['key']))
            path = self._write_replay(c['what'], c['case'], concrete=True, broken=broken)
            lines.append(f'VIOLATION property={self.pid} replay={path}')
            nviol += 1
        if broken and nviol == 0:
            found = None
            if search is not None:
                try:
                    found = search(broken)
                except Exception as e:  # the search itself must never hide the broken obligation
                    self.notes.append(f'extended search crashed: {type(e).__name__}: {e}')
            if found:
                what, case = found
                path = self._write_replay(what, case, concrete=True, broken=broken)
                lines.append(f'VIOLATION property={self.pid} replay={path}')
            else:
                path = self._write_replay('broken obligation, no failing input found', {}, concrete=False, broken=broken)
                lines.append(f'VIOLATION property={self.pid} replay={path} no-failing-input-found')
            nviol += 1
        self._write_evidence(nviol)
        for l in lines:
            print(l, flush=True)
        ok = nviol == 0
        print(f'[{self.pid}] {"OK" if ok else "FAILED"} tier={self.tier} seed={self.seed} evaluations={self.cov["evaluations"]} '
              f'obligations={len(self.obligations)} discharged={len(self.obligations) - len(broken)} wall={time.time() - self.t0:.1f}s', flush=True)
        return 0 if ok else 1

    def _write_replay(self, what, case, concrete, broken):
        h = hashlib.sha1(json.dumps([what, case], sort_keys=True, default=str).encode()).hexdigest()[:10]
        path = os.path.join(self.outdir, 'replays', f'{self.pid}-{h}.json')
        doc = {'property': self.pid, 'tier': self.tier, 'seed': self.seed, 'repo_head': repo_head(), 'repo': REPO,
               'kind': 'input' if concrete else 'proof-or-correspondence', 'what': what, 'case': case,
               'broken_obligations': [{'name': o['name'], 'kind': o['kind'], 'detail': o['detail']} for o in broken],
               'concrete': concrete}
        with open(path, 'w', encoding='utf8') as f:
            json.dump(doc, f, indent=1, default=str)
        return path

    def _write_evidence(self, nviol):
        cov = dict(self.cov)
        cov['distinct_nontrivial'] = max(cov.get('distinct_nontrivial', 0), len(self._distinct))
        cov['obligations'] = len(self.obligations)
        cov['discharged'] = sum(1 for o in self.obligations if o['ok'])
        cov['checker_cmd'] = (f'cd {VERIF}/coq && make && coqc -Q theories DOS theories/Properties/{self.pid}.v '
                              f'(Print Assumptions under every theorem); then ./check {self.pid} --tier {self.tier}')
        pf = getattr(self, 'property_file', {}) or {}
        tb = list(TRUSTED_BASE_COMMON)
        tb.append('Print Assumptions for this run: ' + (f"{pf.get('closed', 0)} theorems closed under the global context"
                                                         + (f"; axioms: {pf.get('axioms')}" if pf.get('axioms') else '')))
        cov['trusted_base'] = tb + getattr(self, 'extra_trusted', [])
        cov['obligation_list'] = [{'name': o['name'], 'kind': o['kind'], 'ok': o['ok']} for o in self.obligations]
        cov['theorems'] = pf.get('theorems', [])
        if self.notes:
            cov['notes'] = self.notes
        if not cov['samples']:
            cov['samples'] = ['(no dynamic case was run)']
        doc = {'property_id': self.pid, 'tier': self.tier, 'seed': self.seed, 'level': 'proof', 'coverage': cov,
               'assumptions': self.assumptions, 'wall_s': round(time.time() - self.t0, 2), 'violations': nviol,
               'repo_head': repo_head()}
        with open(os.path.join(self.outdir, 'evidence', f'{self.pid}.json'), 'w', encoding='utf8') as f:
            json.dump(doc, f, indent=1, default=str)


def parse_args(argv):
    import argparse
    ap = argparse.ArgumentParser()
    ap.add_argument('pid')
    ap.add_argument('--tier', default=os.environ.get('VERIF_TIER', 'quick'), choices=['quick', 'thorough'])
    ap.add_argument('--replay', default=None)
    a = ap.parse_args(argv)
    seed = int(os.environ.get('VERIF_SEED', '0') or 0)
    return a.pid.upper(), a.tier, seed, a.replay
