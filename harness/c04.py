"""C04 - readers and loose writers are never disturbed by a concurrent packer: forced interleavings of real Container
calls at the granularity of the library's file-system calls and SQL statements."""
from __future__ import annotations

import hashlib
import json
import os
import random
import shutil
import subprocess
import sys
import threading
import time

import common
from common import Check


class Sched:
    """hands the single 'turn' to one actor thread at a time; every gated call of the library blocks until chosen"""

    def __init__(self, policy):
        self.policy = policy
        self.cv = threading.Condition()
        self.waiting = {}
        self.done = set()
        self.trace = []
        self.names = {}
        self.turn = None
        self.choices = []

    def register(self, name):
        self.names[threading.get_ident()] = name

    def gate(self, kind, info=()):
        name = self.names.get(threading.get_ident())
        if name is None:
            return
        with self.cv:
            self.waiting[name] = (kind,) + tuple(str(x)[:40] for x in info[:2])
            self.cv.notify_all()
            while self.turn != name:
                self.cv.wait()
            self.turn = None
            ev = self.waiting.pop(name)
            self.trace.append((name,) + ev)
            self.cv.notify_all()

    def finish(self):
        name = self.names.get(threading.get_ident())
        with self.cv:
            self.done.add(name)
            self.names.pop(threading.get_ident(), None)  # calls made after this point (close()) are not scheduled
            self.cv.notify_all()

    def drive(self, actors, timeout=90):
        t0 = time.time()
        with self.cv:
            while len(self.done) < len(actors):
                if time.time() - t0 > timeout:
                    raise RuntimeError(f'scheduler timeout; waiting={self.waiting} done={self.done}')
                live = [a for a in actors if a not in self.done]
                if not all(a in self.waiting for a in live):
                    self.cv.wait(0.05)
                    continue
                pick = self.policy(live, self.waiting, self.trace)
                self.choices.append(pick)
                self.turn = pick
                self.cv.notify_all()
                while self.turn is not None and pick not in self.done:
                    self.cv.wait(0.05)


def policy_random(rnd, stick=0.7):
    state = {'cur': None}

    def pol(live, waiting, trace):
        if state['cur'] in live and rnd.random() < stick:
            return state['cur']
        state['cur'] = rnd.choice(live)
        return state['cur']
    return pol


def policy_targeted(rnd, reader, stop_kind, stop_sub, then):
    """run `reader` until it is about to perform a call whose (kind, info) contains stop_kind/stop_sub, then run the actors in
    `then` to completion (in that order), then everything else randomly"""
    state = {'phase': 0}
    fallback = policy_random(rnd)

    def pol(live, waiting, trace):
        if state['phase'] == 0:
            if reader in live:
                ev = waiting[reader]
                if ev[0] == stop_kind and any(stop_sub in x for x in ev[1:]):
                    state['phase'] = 1
                else:
                    return reader
            else:
                state['phase'] = 1
        if state['phase'] == 1:
            for a in then:
                if a in live:
                    return a
            state['phase'] = 2
        return fallback(live, waiting, trace)
    return pol


def H(b):
    return hashlib.sha256(b).hexdigest()


def run_case(case):
    """one scenario + schedule in this (fresh) process; prints a JSON result"""
    common.use_repo()
    import instr
    from disk_objectstore import CompressMode, Container
    instr.install()
    rnd = random.Random(case['seed'])
    root = common.scratch_root()
    d = os.path.join(root, 'c')
    instr.ROOT = os.path.abspath(d)
    c = Container(d)
    c.init_container(clear=True, pack_size_target=case['target'], loose_prefix_len=case['prefix'])
    pre_loose = [b'loose-%d-' % i * rnd.randint(1, 20) for i in range(case['nloose'])]
    pre_packed = [b'packed-%d-' % i * rnd.randint(5, 40) for i in range(case['npacked'])]
    truth = {}
    for b in pre_loose:
        truth[c.add_object(b)] = b
    for k, b in zip(c.add_objects_to_pack(pre_packed, compress=True), pre_packed):
        truth[k] = b
    c.close()
    errs = []
    acked = []
    lock = threading.Lock()
    keys0 = sorted(truth)
    S = None

    def known():
        with lock:
            return dict(list(truth.items()) + acked)

    def mk_reader(name, kind, pinned, nkeys):
        h = Container(d)
        _ = h.loose_prefix_len
        if pinned:
            h.count_objects()  # an old snapshot stays pinned in this handle

        def run():
            S.register(name)
            try:
                for rep in range(case.get('reader_reps', 1)):
                    kn = known()
                    ks = rnd.sample(sorted(kn), min(len(kn), nkeys))
                    if kind == 'get':
                        for k in ks:
                            got = h.get_object_content(k)
                            if got != kn[k]:
                                errs.append((name, f'single read of {k[:8]} returned {len(got)} bytes, stored were {len(kn[k])}'))
                    elif kind == 'bulk':
                        got = h.get_objects_content(ks, skip_if_missing=False)
                        for k in ks:
                            if got.get(k) != kn[k]:
                                errs.append((name, f'bulk read: {k[:8]} -> {"missing" if got.get(k) is None else "wrong bytes"}'))
                    elif kind == 'meta':
                        r = h.has_objects(ks)
                        if not all(r):
                            errs.append((name, f'has_objects reports an acknowledged object as absent: {r}'))
                        for k, m in h.get_objects_meta(ks, skip_if_missing=False):
                            if m.type.value == 'missing' or m.size != len(kn[k]):
                                errs.append((name, f'metadata of {k[:8]}: {m.type.value}/{m.size}'))
                    elif kind == 'seek':
                        with h.get_objects_stream_and_meta(ks) as trip:
                            seen = set()
                            for k, s, m in trip:
                                seen.add(k)
                                b = kn[k]
                                if len(b) >= 4:
                                    s.read(3)
                                    s.seek(-2, 1)
                                    x = s.read()
                                    if x != b[1:]:
                                        errs.append((name, f'seeking read of {k[:8]} wrong after seek(-2,1)'))
                                    s.seek(-3, 2)
                                    y = s.read()
                                    if y != b[-3:]:
                                        errs.append((name, f'seeking read of {k[:8]} wrong after seek(-3,2)'))
                                elif s.read() != b:
                                    errs.append((name, f'read of {k[:8]} wrong'))
                            if seen != set(ks):
                                errs.append((name, f'bulk stream misses {len(set(ks) - seen)} acknowledged objects'))
            except BaseException as e:
                errs.append((name, f'EXC {type(e).__name__}: {str(e)[:150]}'))
            finally:
                S.finish()
                try:
                    h.close()
                except Exception:
                    pass
        return run

    def mk_writer(name, contents):
        def run():
            S.register(name)
            h = Container(d)
            try:
                for b in contents:
                    k = h.add_object(b)
                    if k != H(b):
                        errs.append((name, f'add_object returned {k[:8]} for digest {H(b)[:8]}'))
                    with lock:
                        acked.append((k, b))
            except BaseException as e:
                errs.append((name, f'EXC {type(e).__name__}: {str(e)[:150]}'))
            finally:
                S.finish()
                h.close()
        return run

    pk = case['packer']

    def packer():
        S.register('P')
        h = Container(d)
        try:
            comp = {'true': True, 'false': False, 'auto': CompressMode.AUTO}[pk['compress']]
            h.pack_all_loose(compress=comp, clean_loose_per_pack=pk['clean_per_pack'])
            h.clean_storage()
        except BaseException as e:
            errs.append(('P', f'EXC {type(e).__name__}: {str(e)[:150]}'))
        finally:
            S.finish()
            h.close()

    runs = {'P': packer}
    for i, w in enumerate(case['writers']):
        contents = [b'new-%d-%d-' % (i, j) * (3 + j) for j in range(w['new'])] + [rnd.choice(pre_loose + pre_packed) for _ in range(w['dup'])]
        runs[f'W{i}'] = mk_writer(f'W{i}', contents)
    for i, r in enumerate(case['readers']):
        runs[f'R{i}'] = mk_reader(f'R{i}', r['kind'], r['pinned'], r['nkeys'])
    pol = case['policy']
    if pol['kind'] == 'random':
        policy = policy_random(rnd, pol.get('stick', 0.7))
    else:
        policy = policy_targeted(rnd, pol['reader'], pol['stop_kind'], pol['stop_sub'], pol['then'])
    S = Sched(policy)
    instr.SCHED = S
    instr.ARMED = True
    ts = [threading.Thread(target=f, daemon=True) for f in runs.values()]
    for t in ts:
        t.start()
    try:
        S.drive(list(runs))
    except RuntimeError as e:
        errs.append(('SCHED', str(e)[:300]))
    for t in ts:
        t.join(5)
    instr.ARMED = False
    instr.SCHED = None
    f = Container(d)
    for k, b in list(truth.items()) + acked:
        try:
            if f.get_object_content(k) != b:
                errs.append(('final', f'{k[:8]} reads wrong bytes after all actors finished'))
        except BaseException as e:
            errs.append(('final', f'{k[:8]}: {type(e).__name__}'))
    f.close()
    shutil.rmtree(root, ignore_errors=True)
    return {'errs': errs[:6], 'events': len(S.trace), 'trace_tail': S.trace[-80:] if errs else [], 'choices': ''.join(a[0] + a[1:] + ' ' for a in S.choices[:400]) if errs else '',
            'reader_fallbacks': sum(1 for i, e in enumerate(S.trace) if e[0].startswith('R') and e[1] == 'open' and 'loose' in str(e[2:]))}


def gen_cases(rnd, n, tier):
    cases = []
    kinds = ['get', 'bulk', 'meta', 'seek']
    # targeted: reader stopped right before opening the loose file (after its index lookup said "not packed"), packer runs to completion
    for kind in kinds:
        for pinned in (False, True):
            for cpp in (False, True):
                cases.append({'seed': rnd.randrange(1 << 30), 'target': 10 ** 9, 'prefix': 2, 'nloose': 3, 'npacked': 2,
                              'writers': [{'new': 1, 'dup': 1}], 'readers': [{'kind': kind, 'pinned': pinned, 'nkeys': 5}],
                              'packer': {'compress': 'true' if kind == 'seek' else 'false', 'clean_per_pack': cpp},
                              'policy': {'kind': 'targeted', 'reader': 'R0', 'stop_kind': 'open' if kind != 'meta' else 'stat', 'stop_sub': 'loose/', 'then': ['P']}})
    # targeted: seeking reader stopped before re-opening the re-loosened cache, packer cleans it away (retry loop of LazyLooseStream)
    for cpp in (False, True):
        cases.append({'seed': rnd.randrange(1 << 30), 'target': 100, 'prefix': 2, 'nloose': 2, 'npacked': 3,
                      'writers': [], 'readers': [{'kind': 'seek', 'pinned': False, 'nkeys': 5}],
                      'packer': {'compress': 'true', 'clean_per_pack': cpp},
                      'policy': {'kind': 'targeted', 'reader': 'R0', 'stop_kind': 'replace', 'stop_sub': 'loose/', 'then': ['R0', 'P']}})
    while len(cases) < n:
        nr = rnd.randint(1, 3)
        cases.append({'seed': rnd.randrange(1 << 30), 'target': rnd.choice([100, 10 ** 9]), 'prefix': rnd.choice([0, 2]),
                      'nloose': rnd.randint(1, 4), 'npacked': rnd.randint(1, 3),
                      'writers': [{'new': rnd.randint(0, 2), 'dup': rnd.randint(0, 1)} for _ in range(rnd.randint(1, 2))],
                      'readers': [{'kind': rnd.choice(kinds), 'pinned': rnd.random() < 0.5, 'nkeys': rnd.randint(1, 6)} for _ in range(nr)],
                      'reader_reps': rnd.choice([1, 2]),
                      'packer': {'compress': rnd.choice(['true', 'false', 'auto']), 'clean_per_pack': rnd.random() < 0.5},
                      'policy': {'kind': 'random', 'stick': rnd.choice([0.5, 0.7, 0.9])}})
    return cases


def _child(case):
    r = subprocess.run([common.PY, os.path.join(common.VERIF, 'harness', 'c04.py'), '--case', json.dumps(case)],
                       capture_output=True, text=True, env=common.child_env(), timeout=300)
    try:
        return json.loads(r.stdout.strip().splitlines()[-1])
    except Exception:
        return {'errs': [('HARNESS', f'child rc={r.returncode} {r.stderr[-300:]}')], 'events': 0, 'harness': True}


def main(tier, seed, replay=None):
    from concurrent.futures import ThreadPoolExecutor
    ck = Check('C04', tier, seed)
    ck.cov['rule'] = ('real Container calls in threads of one process (one handle per actor), every gated call (open/stat/listdir/unlink/rename/replace/mkdir, '
                      'every SQL statement and commit) blocks until the scheduler picks its actor; 18 targeted schedules place a reader between its index '
                      'lookup and its loose open (or before re-opening the re-loosened cache) while the packer commits and unlinks; the rest are random '
                      'bursty schedules over 1-2 writers (new + duplicate content), 1-3 readers (single/bulk/metadata/seeking, fresh or pinned snapshot), '
                      'one packer (pack_all_loose with/without per-pack clean, any compression, then clean_storage); distinct by scenario seed')
    ck.coq()
    import tracecheck
    tracecheck.check_traces(ck, ck.pid, names=tracecheck.MONO_SCENARIOS)
    n = 300 if tier == "quick" else 8000
    cases = gen_cases(ck.rng, n, tier)
    with ThreadPoolExecutor(common.NPROC) as ex:
        results = list(ex.map(_child, cases))
    events = 0
    nf = 0
    fallbacks = 0
    for case, r in zip(cases, results):
        ck.count(case, nontrivial=True)
        events += r.get('events', 0)
        fallbacks += r.get('reader_fallbacks', 0)
        if r.get('harness'):
            ck.obligation('scheduler child ran', False, str(r['errs'])[:400], kind='correspondence')
            continue
        if r['errs']:
            nf += 1
            if nf <= 2:
                ck.fail(f'schedule {case["policy"]["kind"]} (seed {case["seed"]}): {r["errs"][0][0]}: {r["errs"][0][1]}',
                        {'kind': 'schedule', 'case': case, 'errors': r['errs'], 'trace_tail': r.get('trace_tail'), 'choices': r.get('choices')}, 'C04:schedule')
    try:
        import lookupcorr
        lookupcorr.run(ck, tier, ncont=4 if tier == 'quick' else 30)   # ties Lookup.lookup_bulk (C04_bulk_reader_under_concurrency) to the generator
    except Exception as e:
        ck.obligation('lookup-generator correspondence executed', False, f'{type(e).__name__}: {e}', kind='correspondence')
    ck.cov['gated_events'] = events
    ck.cov['schedules'] = len(cases)
    ck.cov['reader_loose_opens'] = fallbacks
    ck.sample(cases[0])
    ck.sample(cases[-1])
    ck.assumptions += ['threads with separate SQLite connections stand for processes (same isolation); a single file-system call or SQL statement is atomic',
                       'one packer at a time, as the documentation requires']
    import tracecheck as _tc
    return ck.finish(search=_tc.crash_search(ck, ck.pid))


if __name__ == '__main__':
    if len(sys.argv) > 2 and sys.argv[1] == '--case':
        sys.path.insert(0, os.path.dirname(os.path.abspath(__file__)))
        print(json.dumps(run_case(json.loads(sys.argv[2])), default=str))
