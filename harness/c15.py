"""C15 - a backup taken while the container is in use is complete and consistent."""
from __future__ import annotations

import itertools
import json
import multiprocessing as mp
import os
import random
import shutil
import stat

import common
import store
from common import Check

ACTIONS = [
    {'kind': 'add', 'ids': [0, 1]},
    {'kind': 'pack', 'clean_per_pack': False},
    {'kind': 'pack', 'clean_per_pack': True, 'compress': True},
    {'kind': 'clean'},
    {'kind': 'topack', 'ids': [0, 1, 2], 'compress': True},
]
# rsync calls of backup_container: 1 = loose, 2 = dumped index, 3 = packs, 4 = everything else; 'after' = right after the call returned,
# i.e. before whatever the backup does next (after call 1: before the index is dumped)
POSITIONS = [(1, 'before'), (1, 'mid'), (1, 'after'), (2, 'before'), (2, 'after'), (3, 'before'), (3, 'mid'), (3, 'after'), (4, 'before'), (4, 'mid')]


def run_case(case) -> tuple[str, dict] | None:
    common.use_repo()
    from pathlib import Path
    from disk_objectstore import Container
    from disk_objectstore import backup_utils
    root = common.scratch_root()
    try:
        d = os.path.join(root, 'live')
        c = Container(d)
        c.init_container(clear=True, pack_size_target=case.get('target', 400))
        truth = {}
        packed = [b'bk-packed-%d-' % i * (5 + i) for i in range(5)]
        for k, b in zip(c.add_objects_to_pack(packed, compress=True), packed):
            truth[k] = b
        for i in range(6):
            b = b'bk-loose-%d-' % i * (2 + i)
            truth[c.add_object(b)] = b
        if case.get('both'):
            c.pack_all_loose()
            for i in range(6, 9):
                b = b'bk-loose-%d-' % i * (2 + i)
                truth[c.add_object(b)] = b
        # a long-open client keeps a connection (and hence the WAL) alive during the backup
        live = Container(d)
        live.count_objects()
        if case.get('pinned', True):
            # the handle the backup is taken through has read the index before (its session keeps that snapshot open)
            c.count_objects()
            c.has_objects(sorted(truth)[:2])
        ctl = os.path.join(root, 'ctl.json')
        log = os.path.join(root, 'actions.log')
        with open(ctl, 'w') as f:
            json.dump({'plan': case['plan'], 'container': d, 'log': log, 'calls': 0}, f)
        os.environ['VERIF_BK_CTL'] = ctl
        wrapper = os.path.join(common.VERIF, 'harness', 'rsync_wrap.py')
        dest = os.path.join(root, 'backups')
        os.makedirs(dest)
        orig_dump0 = backup_utils._sqlite_backup
        order_seen = []

        def logged_dump(src, dst):
            # whatever dump function is installed at that moment (the same-second variant below replaces it) plus a record of the instant
            cur(src, dst)
            with open(ctl) as f:
                cj = json.load(f)
            cj.setdefault('steps', []).append('dump')
            with open(ctl, 'w') as f:
                json.dump(cj, f)
        cur = orig_dump0
        try:
            manager = backup_utils.BackupManager(dest, keep=2, rsync_exe=wrapper)
            nback = 2 if case.get('incremental') else 1
            for n in range(nback):
                if n == 1:
                    # second, incremental backup on top of the first; the plan applies again (call counter restarts)
                    with open(ctl, 'w') as f:
                        json.dump({'plan': case.get('plan2', case['plan']), 'container': d, 'log': log, 'calls': 0}, f)
                    if case.get('same_second'):
                        # the second backup is taken moments after the first: its index dump gets the same modification time (at the
                        # resolution rsync compares) as the dump of the first one; made deterministic by setting it on the temporary dump
                        first = os.path.realpath(os.path.join(dest, 'last-backup'))
                        mt = os.stat(os.path.join(first, 'packs.idx')).st_mtime_ns
                        def dump(src, dst, _o=orig_dump0, _mt=mt):
                            _o(src, dst)
                            os.utime(dst, ns=(_mt, _mt))
                        cur = dump
                backup_utils._sqlite_backup = logged_dump
                try:
                    manager.backup_auto_folders(lambda path, prev: backup_utils.backup_container(manager, c, path, prev))
                    with open(ctl) as f:
                        order_seen.append(json.load(f).get('steps', []))
                finally:
                    backup_utils._sqlite_backup = orig_dump0
                    cur = orig_dump0
        except backup_utils.BackupError as e:
            return None  # the backup did not complete successfully: outside the property
        finally:
            os.environ.pop('VERIF_BK_CTL', None)
        live.close()
        c.close()
        # every concurrent step must have run
        if os.path.exists(log):
            for line in open(log):
                r = json.loads(line)
                if r['rc'] != 0:
                    return (f'harness: concurrent action failed: {r}', {'harness': True})
        last = os.path.join(dest, 'last-backup')
        bdir = os.path.realpath(last)
        # make the backup writable for opening (sqlite may create side files)
        b = Container(bdir)
        try:
            for k, v in truth.items():
                try:
                    got = b.get_object_content(k)
                except Exception as e:
                    return (f'object {k[:8]} that existed when the backup started cannot be read from the backup: {type(e).__name__}: {str(e)[:80]}', {})
                if got != v:
                    return (f'object {k[:8]} that existed when the backup started reads {len(got)} bytes from the backup, stored were {len(v)}', {})
            keys = list(b.list_all_objects())
            for k in keys:
                try:
                    got = b.get_object_content(k)
                except Exception as e:
                    return (f'the backup exposes key {k[:8]} which cannot be read: {type(e).__name__}: {str(e)[:80]}', {})
                if store.H('sha256', got) != k:
                    return (f'the backup exposes key {k[:8]} which reads back as {len(got)} bytes with another digest', {})
            if len(set(keys)) != len(keys):
                return ('the backup lists a key twice', {})
            v = b.validate()
            if not v.is_valid():
                return (f'validation of the backup is not clean: { {k: len(x) for k, x in store.dataclass_items(v) if x} }', {})
        finally:
            b.close()
        raw = store.raw_state(bdir, 'sha256')
        if raw['problems']:
            return ('raw check of the backup: ' + '; '.join(raw['problems'][:2]), {})
        for steps in order_seen:
            if steps != case.get('expected_order', steps):
                return ('the backup completed and is right, but its steps ran in the order ' + ','.join(steps), {'order': True})
        return None
    finally:
        shutil.rmtree(root, ignore_errors=True)


def _one(case):
    try:
        return run_case(case)
    except Exception as e:
        import traceback
        return (f'EXC {type(e).__name__}: {e} {traceback.format_exc()[-500:]}', {'exc': True})


def main(tier, seed, replay=None):
    ck = Check('C15', tier, seed)
    ck.cov['rule'] = ('the real backup_container with the real rsync 3.2.7 behind a wrapper; concurrent client steps (add loose, pack, pack+per-pack clean '
                      'with compression, clean_storage, direct-to-pack batch) placed before each of the four rsync calls (loose, index dump, packs, rest) '
                      'or in the middle of the loose/packs/rest transfers; a long-open client keeps the WAL alive; all single placements, random '
                      'double/triple placements, incremental second backups; the backup folder is then opened as a Container; distinct by plan')
    ck.coq()
    import tracecheck
    tracecheck.check_traces(ck, ck.pid, names=['add', 'pack', 'pack_clean', 'clean', 'topack', 'pack_then_clean'])
    rnd = ck.rng
    cases = []
    cdir = os.path.join(common.VERIF, 'corpus', 'C15')
    for fn in sorted(os.listdir(cdir)) if os.path.isdir(cdir) else []:
        try:
            cs = json.load(open(os.path.join(cdir, fn))).get('case')
            if isinstance(cs, dict) and 'plan' not in cs and isinstance(cs.get('case'), dict):
                cs = cs['case']   # replay files nest the case one level deeper
            if isinstance(cs, dict) and 'plan' in cs:
                cases.append(cs)   # minimised failures of earlier findings run first
        except Exception:
            pass
    ck.cov['corpus_cases'] = len(cases)
    for (call, when), a in itertools.product(POSITIONS, ACTIONS):
        cases.append({'plan': [{'call': call, 'when': when, 'action': a}], 'both': (call + len(a)) % 2 == 0})
    # incremental backups taken moments apart (finding F7): objects are packed (and cleaned) between the two index dumps
    for a in ACTIONS[1:3] + [ACTIONS[4]]:
        for (call, when) in [(1, 'before'), (1, 'mid'), (2, 'before')]:
            cases.append({'plan': [{'call': 4, 'when': 'before', 'action': {'kind': 'add', 'ids': [7, 8]}}],
                          'plan2': [{'call': call, 'when': when, 'action': a}] + ([{'call': 2, 'when': 'before', 'action': {'kind': 'clean'}}] if a['kind'] == 'pack' and not a.get('clean_per_pack') else []),
                          'both': False, 'incremental': True, 'same_second': True})
    nrand = 30 if tier == 'quick' else 500
    for i in range(nrand):
        n = rnd.choice([2, 2, 3, 4])
        plan = []
        for j in range(n):
            call, when = rnd.choice(POSITIONS)
            a = dict(rnd.choice(ACTIONS))
            if 'ids' in a:
                a['ids'] = [10 * (j + 1) + x for x in a['ids']]
            plan.append({'call': call, 'when': when, 'action': a})
        # a typical maintenance sequence spread over the backup: add ... pack ... clean
        case = {'plan': plan, 'both': rnd.random() < 0.5, 'target': rnd.choice([100, 400, 10 ** 9])}
        if tier == 'thorough' or i % 5 == 0:
            case['incremental'] = True
            case['same_second'] = rnd.random() < 0.5
        cases.append(case)
    # the order of the backup's steps the run model of Backup.v assumes (from the extracted constant)
    import subprocess
    pr = subprocess.run([os.path.join(common.OCAML, 'driver')], input='backup_phases\n', capture_output=True, text=True, timeout=60)
    expected_order = pr.stdout.strip().split(',') if pr.returncode == 0 and pr.stdout.strip() and not pr.stdout.startswith('ERROR') else None
    ck.obligation('Backup.backup_phases available from the extracted model', expected_order is not None, pr.stdout[:100] + pr.stderr[:100], kind='correspondence')
    for i, cs in enumerate(cases):
        if expected_order:
            cs['expected_order'] = expected_order
        cs.setdefault('pinned', i % 3 != 0)   # two thirds of the backups go through a handle that has read the index before
    with mp.get_context('fork').Pool(min(common.NPROC, 12)) as pool:
        results = pool.map(_one, cases, chunksize=1)
    nf = 0
    completed = 0
    order_bad = []
    for case, r in zip(cases, results):
        ck.count(case['plan'], nontrivial=True)
        if r is None:
            completed += 1
            continue
        msg, info = r
        if info.get('order'):
            order_bad.append(msg)
            continue
        if info.get('harness') or info.get('exc'):
            ck.obligation('backup harness executed', False, msg, kind='correspondence')
            continue
        nf += 1
        if nf <= 2:
            where = ','.join(f"{p['action']['kind']}@{p['when']}-call{p['call']}" for p in case['plan'])
            if case.get('incremental'):
                where += ' | second, incremental backup' + (' taken within the same second' if case.get('same_second') else '') + ': ' + \
                         ','.join(f"{p['action']['kind']}@{p['when']}-call{p['call']}" for p in case.get('plan2', case['plan']))
            ck.fail(f'backup with concurrent steps [{where}]: {msg}', {'kind': 'backup-schedule', 'case': case}, 'C15:backup')
    ck.obligation(f'steps of backup_container occur in the order of Backup.backup_phases ({expected_order}) in every completed backup',
                  not order_bad, order_bad[0] if order_bad else f'{completed} backups', kind='correspondence')
    ck.cov['backups_run'] = len(cases)
    ck.sample(cases[3])
    ck.sample(cases[-1])
    ck.assumptions += ['rsync builds its file list first and transfers afterwards; a transfer is split at entry granularity only',
                       'sqlite3.Connection.backup yields a transactionally consistent copy of the index']
    import tracecheck as _tc
    return ck.finish(search=_tc.crash_search(ck, ck.pid))
