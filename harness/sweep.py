"""Crash / power-loss / single-fault sweeps over the scenarios of scen.py (shared by C05, C06, C17)."""
from __future__ import annotations

import glob
import json
import os
import shutil
import subprocess
import tempfile
from concurrent.futures import ThreadPoolExecutor

import common
import store

HT = 'sha256'


def _dirs():
    base = '/dev/shm' if os.path.isdir('/dev/shm') else tempfile.gettempdir()
    return tempfile.mkdtemp(prefix='verif-sw', dir=base), tempfile.mkdtemp(prefix='verif-sn', dir=base)


def examine(d, truth, targets, allow_loud=True):
    """state of the folder after a kill / fault, judged with the raw reader and with a fresh handle"""
    common.use_repo()
    from disk_objectstore import Container
    from disk_objectstore.exceptions import NotExistent
    probs = []
    raw = store.raw_state(d, HT)
    for p in raw['problems']:
        # a scenario may start from a deliberately damaged copy of a target key: that damage is not the operation's doing
        if any(k[:8] in p for k in targets):
            continue
        probs.append('raw: ' + p)
    for k, v in truth.items():
        if k in targets:
            continue
        if raw['stored'].get(k) != v:
            probs.append(f'object {k[:8]} stored before the operation is no longer complete on disk where the index/loose folder says')
    repack_interrupted = any(r[2] == -1 for r in raw['rows'])
    for lk in glob.glob(os.path.join(d, 'packs', '*.lock')):
        os.remove(lk)
    c = Container(d)
    try:
        for k, v in truth.items():
            try:
                got = c.get_object_content(k)
                if got != v and not (k in targets and got == b'damaged'):  # scen.py damages target copies with exactly these bytes
                    probs.append(f'a new handle reads wrong bytes for {k[:8]}: {len(got)} bytes {got[:12]!r}')
            except AssertionError:
                if not (allow_loud and repack_interrupted):
                    probs.append(f'a new handle fails with AssertionError on {k[:8]} although no repack was interrupted')
            except NotExistent:
                if k not in targets:
                    probs.append(f'a new handle reports {k[:8]} as not existent')
            except Exception as e:
                if k not in targets:
                    probs.append(f'a new handle raises {type(e).__name__} reading {k[:8]}')
        try:
            for k in list(c.list_all_objects()):
                try:
                    got = c.get_object_content(k)
                    if store.H(HT, got) != k and k not in targets:
                        probs.append(f'visible key {k[:8]} reads back as {len(got)} bytes with another digest (partial or wrong object)')
                except AssertionError:
                    if not repack_interrupted:
                        probs.append(f'visible key {k[:8]}: AssertionError')
                except NotExistent:
                    pass
                except Exception as e:
                    probs.append(f'visible key {k[:8]} cannot be read by a new handle: {type(e).__name__}: {str(e)[:80]}')
        except AssertionError:
            if not repack_interrupted:
                probs.append('listing fails with AssertionError')
    finally:
        c.close()
    return probs


def power_loss_image(d, snap):
    """every regular file under loose/ packs/ sandbox/ duplicates/ falls back to its content at its last fsync"""
    for sub in ['loose', 'packs', 'sandbox', 'duplicates']:
        for root, _, files in os.walk(os.path.join(d, sub)):
            for f in files:
                if f.endswith('.lock'):
                    continue
                p = os.path.join(root, f)
                ino = os.stat(p).st_ino
                sp = os.path.join(snap, f'ino{ino}')
                data = b''
                if os.path.exists(sp):
                    with open(sp, 'rb') as fh:
                        data = fh.read()
                # hard links (repack) share the inode: rewriting one name must not change the other before we read it
                os.unlink(p)
                with open(p, 'wb') as fh:
                    fh.write(data)


def one(name, mode, n, powerloss=False, payload=False):
    d, snap = _dirs()
    try:
        payload = payload or mode == 'fault'
        cmd = [common.PY, os.path.join(common.VERIF, 'harness', 'sweep_child.py'), name, d, mode, str(n), snap] + (['payload'] if payload else [])
        r = subprocess.run(cmd, capture_output=True, text=True, env=common.child_env(), timeout=600)
        out = None
        if os.path.exists(os.path.join(snap, 'out.json')):
            with open(os.path.join(snap, 'out.json')) as f:
                out = json.load(f)
        tr = None
        if os.path.exists(os.path.join(snap, 'truth.json')):
            with open(os.path.join(snap, 'truth.json')) as f:
                tr = json.load(f)
        res = {'name': name, 'mode': mode, 'n': n, 'rc': r.returncode, 'total': out['n'] if out else None,
               'result': out['result'] if out else ('killed' if r.returncode == 99 else 'died')}
        if r.returncode not in (0, 99):
            res['stderr'] = r.stderr[-500:]
            res['probs'] = []
            return res
        truth = {k: bytes.fromhex(v) for k, v in tr['truth'].items()}
        targets = set(tr['targets'])
        probs = examine(d, truth, targets)
        if powerloss and mode == 'kill':
            power_loss_image(d, snap)
            probs = ['after power loss: ' + x for x in examine(d, truth, targets)]
        if mode in ('kill', 'fault') and not probs:
            # the crash left a consistent folder: a user now retries maintenance through a new handle (repack, pack_all_loose,
            # clean_storage - each may refuse); whatever they do, nothing stored may be lost and the folder must stay consistent
            fr = subprocess.run([common.PY, os.path.join(common.VERIF, 'harness', 'followup_child.py'), d], capture_output=True, text=True,
                                env=common.child_env(), timeout=600)
            did = fr.stdout.strip().splitlines()[-1] if fr.stdout.strip() else f'rc={fr.returncode} {fr.stderr[-200:]}'
            after = examine(d, truth, targets)
            probs = [('after power loss, ' if powerloss else ('after the I/O error, ' if mode == 'fault' else 'after the crash, ')) + f'maintenance retried through a new handle ({did}): ' + x for x in after]
            res['followup'] = did
        res['probs'] = probs
        if out:
            for k in ('final', 'rerun', 'valid', 'final_exc', 'raw_after_fault', 'retval'):
                if k in out:
                    res[k] = out[k]
            if mode != 'kill':
                res['log'] = out['log']
            if mode == 'fault' and os.path.exists(os.path.join(snap, 'pre_raw.json')) and os.path.exists(os.path.join(snap, 'post_raw.json')):
                with open(os.path.join(snap, 'pre_raw.json')) as f:
                    pre = json.load(f)
                with open(os.path.join(snap, 'post_raw.json')) as f:
                    post = json.load(f)
                res['trace_run'] = {'log': out['log'], 'pre': pre, 'post': post, 'truth': tr['truth'], 'targets': tr['targets'], 'result': out['result']}
        elif mode == 'kill' and os.path.exists(os.path.join(snap, 'log.json')):
            with open(os.path.join(snap, 'log.json')) as f:
                lg = json.load(f)
            res['last_event'] = lg[-1] if lg else None
        return res
    finally:
        shutil.rmtree(d, ignore_errors=True)
        shutil.rmtree(snap, ignore_errors=True)
        for s in glob.glob('/dev/shm/verif-src*'):
            # import sources created by the child
            try:
                if os.path.getmtime(s) < os.path.getmtime('/proc/self') - 3600:
                    shutil.rmtree(s, ignore_errors=True)
            except OSError:
                pass


def sparse_points(log, T):
    """long traces (thousands of writes): the boundaries before and after every call that is not a plain write - opens, flushes, fsyncs,
    closes, truncations, renames/links/unlinks, every SQL statement and COMMIT - plus the first and last boundaries and an even sample of
    the writes"""
    pts = {1, 2, T, T + 1}
    for i, e in enumerate(log, start=1):
        if len(e) > 1 and e[1] != 'write':
            pts |= {i, i + 1}
    writes = [i for i, e in enumerate(log, start=1) if len(e) > 1 and e[1] == 'write']
    step = max(1, len(writes) // 12)
    pts |= set(writes[::step])
    return sorted(p for p in pts if 1 <= p <= T + 1)


def sweep(ck, pid, names, mode, powerloss=False, limit_per_scenario=None):
    """returns (number of injection points explored, list of baselines)"""
    total = 0
    baselines = {}
    for name in names:
        base = one(name, 'none', 0)
        if base['rc'] != 0 or base['result'] != 'ok' or base['probs']:
            ck.obligation(f'scenario {name} runs cleanly without injection', False, json.dumps({k: base.get(k) for k in ("rc", "result", "probs", "stderr")})[:600], kind='correspondence')
            continue
        T = base['total']
        baselines[name] = base
        # n = T + 1: the operation runs to completion and the process dies (loses power) right afterwards
        points = list(range(1, T + 2))
        if T > 600:
            points = sparse_points(base['log'], T)
        if limit_per_scenario and len(points) > limit_per_scenario:
            step = len(points) / limit_per_scenario
            points = sorted({points[int(i * step)] for i in range(limit_per_scenario)} | {1, T, T + 1})
        with ThreadPoolExecutor(common.NPROC) as ex:
            results = list(ex.map(lambda n: one(name, mode, n, powerloss=powerloss), points))
        if mode == 'fault':
            ck.fault_runs = getattr(ck, 'fault_runs', []) + [(name, r) for r in results if r.get('trace_run')]
        for res in results:
            total += 1
            ck.count((name, mode, res['n'], powerloss), nontrivial=True)
            ev = base['log'][res['n'] - 1] if res['n'] - 1 < len(base['log']) else None
            if res['rc'] not in (0, 99):
                ck.obligation(f'sweep child {name}@{res["n"]} ran', False, res.get('stderr', '')[-300:], kind='correspondence')
                continue
            probs = list(res['probs'])
            if mode == 'fault':
                raf = res.get('raw_after_fault') or {}
                if res.get('result') == 'ok' and base.get('final') is not None and raf.get('stored') is not None:
                    # "the operation either completes correctly or raises": it returned normally, so its effect must be there
                    missing = [k for k, v in base['final'].items() if raf['stored'].get(k) != v]
                    if missing:
                        probs.append(f'the operation returned normally although a call failed, but {len(missing)} object(s) it should have stored/kept '
                                     f'are not in place afterwards (e.g. {missing[0][:8]})')
                    dups = raf.get('dups')
                if 'repack' not in name:
                    if res.get('rerun') != 'ok':
                        probs.append(f'rerun through a new handle after the fault cleared did not complete: {res.get("rerun")}')
                    elif res.get('final') != base.get('final'):
                        probs.append('rerun after the fault ended in a different key->bytes map than an uninterrupted run')
                    elif not res.get('valid'):
                        probs.append(f'validation after fault+rerun is not clean ({res.get("final_exc")})')
            if probs:
                what = {'kill': 'process killed', 'fault': 'I/O error injected'}[mode]
                ck.fail(f'{name}: {what} at gated call #{res["n"]} of {T} ({ev[1:4] if ev else "after the last call"}): {probs[0]}',
                        {'kind': mode + ('+powerloss' if powerloss else ''), 'scenario': name, 'n': res['n'], 'of': T, 'event': ev, 'problems': probs[:6],
                         'result': res.get('result')}, f'{pid}:{name}')
    return total, baselines
