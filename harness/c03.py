"""C03 - decided over the shared history runner (store.Runner) with property-specific generators; see c02.py"""
import c02


def main(tier, seed, replay=None):
    return c02.main(tier, seed, replay, pid='C03')
