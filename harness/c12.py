"""C12 - validate() is clean on every reachable state and never clean on a damaged one."""
import multiprocessing as mp
import os
import random
import shutil
import sqlite3

import common
import hist
import store
from common import Check


def build(root, seed, big=False):
    common.use_repo()
    from disk_objectstore import Container
    rnd = random.Random(seed)
    d = os.path.join(root, 'c')
    c = Container(d)
    # a small target spreads the objects over several packs (damage in any pack, not only the last one validated, must be reported)
    c.init_container(clear=True, pack_size_target=(60 if seed % 4 != 3 else 10 ** 9), compression_algorithm=f'zlib+{rnd.randint(1, 9)}')
    objs = [b'hello world ' * 5, rnd.randbytes(40), b'', b'z' * 44, b'q', rnd.randbytes(17) * 3]
    if big:
        objs.append((b'compressible text ' * 5000)[:66000])
    ks = c.add_objects_to_pack(objs[:2] + objs[6:], compress=True) + c.add_objects_to_pack(objs[2:4], compress=False)
    # objects that are packed (compressed) AND still loose - packed without a following clean_storage: a seeking reader of the packed
    # copy is served the loose copy - and, after that, loose-only objects
    both = [b'both-forms ' * 6, rnd.randbytes(23) * 2]
    ks_both = [c.add_object(b) for b in both]
    c.pack_all_loose(compress=True)
    ks += ks_both
    ks += [c.add_object(objs[4]), c.add_object(objs[5])]
    order = objs[:2] + objs[6:] + objs[2:4] + both + [objs[4], objs[5]]
    npacks = len(list(c._list_packs()))
    c.close()
    assert seed % 4 == 3 or npacks >= 2, npacks
    return d, dict(zip(ks, order))


def readable_right(c, truth):
    try:
        for k, o in truth.items():
            if c.get_object_content(k) != o:
                return False
            m = c.get_object_meta(k)
            if m.size != len(o):
                return False
            # random access: for a compressed packed object this is served from its loose copy when there is one (only then: the read
            # must not create files in the container under examination)
            if m.type.value == 'packed' and m.pack_compressed and os.path.exists(c._get_loose_path_from_hashkey(k)):
                with c.get_object_stream(k) as st:
                    st.seek(0, 2)
                    st.seek(0)
                    if st.read() != o:
                        return False
        return True
    except Exception:
        return False


def clean(c):
    try:
        return c.validate().is_valid()
    except Exception:
        return False


def damages(d, truth, rnd, sample_big):
    """yields (description, apply(), undo())"""
    raw = store.raw_state(d, 'sha256')
    for pid, orig in raw['packs'].items():
        p = os.path.join(d, 'packs', str(pid))
        ref = set()
        for r in raw['rows']:
            if r[2] == pid:
                ref.update(range(r[3], r[3] + r[4]))
        bits = [(i, b) for i in sorted(ref) for b in range(8)]
        if sample_big and len(bits) > 6000:
            head = [x for x in bits if x[0] < 64 or x[0] >= len(orig) - 64]
            bits = head + rnd.sample(bits, 3000)
        for i, b in bits:
            def ap(i=i, b=b, p=p, orig=orig):
                x = bytearray(orig)
                x[i] ^= 1 << b
                open(p, 'wb').write(x)
            yield (f'bit {b} of byte {i} of pack {pid} flipped', ap, lambda p=p, orig=orig: open(p, 'wb').write(orig))
        cuts = list(range(len(orig)))
        if sample_big and len(cuts) > 1500:
            cuts = cuts[:200] + rnd.sample(cuts, 800) + cuts[-200:]
        for t in cuts:
            if any(x >= t for x in ref):
                yield (f'pack {pid} truncated to {t} bytes', lambda p=p, orig=orig, t=t: open(p, 'wb').write(orig[:t]),
                       lambda p=p, orig=orig: open(p, 'wb').write(orig))
    for k, orig in raw['loose'].items():
        p = None
        for root, _, files in os.walk(os.path.join(d, 'loose')):
            for f in files:
                if os.path.relpath(os.path.join(root, f), os.path.join(d, 'loose')).replace(os.sep, '') == k:
                    p = os.path.join(root, f)
        for i in range(len(orig) * 8):
            def ap(i=i, p=p, orig=orig):
                x = bytearray(orig)
                x[i // 8] ^= 1 << (i % 8)
                open(p, 'wb').write(x)
            yield (f'bit {i} of loose file {k[:8]} flipped', ap, lambda p=p, orig=orig: open(p, 'wb').write(orig))
        for t in range(len(orig)):
            yield (f'loose file {k[:8]} truncated to {t}', lambda p=p, orig=orig, t=t: open(p, 'wb').write(orig[:t]), lambda p=p, orig=orig: open(p, 'wb').write(orig))
    idx = os.path.join(d, 'packs.idx')
    for r in raw['rows']:
        cols = {'offset': r[3], 'length': r[4], 'size': r[6], 'compressed': r[5], 'pack_id': r[2]}
        for col, val in cols.items():
            for delta in [-2, -1, 1, 2, 7]:
                if col == 'compressed':
                    if delta != 1:
                        continue
                    nv = 1 - val
                else:
                    nv = val + delta

                def ap(col=col, nv=nv, rid=r[0]):
                    con = sqlite3.connect(idx)
                    con.execute(f'update db_object set {col}=? where id=?', (nv, rid))
                    con.commit()
                    con.close()

                def un(col=col, val=val, rid=r[0]):
                    con = sqlite3.connect(idx)
                    con.execute(f'update db_object set {col}=? where id=?', (val, rid))
                    con.commit()
                    con.close()
                yield (f'index row {r[0]} ({r[1][:8]}): {col} {val} -> {nv}', ap, un)


def scan_line_and_impl(d):
    """(driver line for ValidateScan.validate_f on the raw state of d, the report of the real validate() in the same form) or None when a
    field is negative (outside the model's nat domain)"""
    import dataclasses
    import hashlib
    from disk_objectstore import Container
    from disk_objectstore.utils import PackedObjectReader, compute_hash_and_size
    con = sqlite3.connect(f'file:{os.path.join(d, "packs.idx")}?mode=ro', uri=True)
    rows = con.execute('select hashkey,pack_id,offset,length,compressed,size from db_object order by id').fetchall()
    con.close()
    if any(min(r[2], r[3], r[5]) < 0 or r[1] < 0 for r in rows):
        return None
    loose = {}
    ldir = os.path.join(d, 'loose')
    for root, _, files in os.walk(ldir):
        for f in files:
            loose[os.path.relpath(os.path.join(root, f), ldir).replace(os.sep, '')] = hashlib.sha256(open(os.path.join(root, f), 'rb').read()).hexdigest()
    c = Container(d)
    try:
        allk = sorted({r[0] for r in rows} | set(loose))
        rk = {k: i for i, k in enumerate(allk)}
        extra = {}

        def rank(h):
            if h in rk:
                return rk[h]
            return extra.setdefault(h, len(allk) + len(extra))
        parts = []
        for k, p, o, l, comp, sz in rows:
            hk, cs = -1, 0
            try:
                # what _validate_hashkeys_pack computes for this entry, through the library's own stream classes (tied by C07)
                with open(os.path.join(d, 'packs', str(p)), 'rb') as fh:
                    rd = PackedObjectReader(fhandle=fh, offset=o, length=l)
                    if comp:
                        rd = c._get_stream_decompresser()(rd)
                    h, n = compute_hash_and_size(rd, 'sha256')
                    hk, cs = rank(h), n
            except Exception:
                hk = -1
            parts.append(f'{rk[k]}:{p}:{o}:{l}:{1 if comp else 0}:{sz}:{hk}:{cs}')
        line = 'vscan | ' + ','.join(parts) + ' | ' + ','.join(f'{rk[k]}:{rank(h)}' for k, h in loose.items())
        try:
            v = c.validate()
            dd = {f.name: sorted(rk.get(x, -1) for x in getattr(v, f.name)) for f in dataclasses.fields(v)}
            impl = ';'.join(','.join(map(str, dd.get(n, []))) for n in ('invalid_hashes_packed', 'invalid_sizes_packed', 'overlapping_packed', 'invalid_hashes_loose'))
            other = {n: x for n, x in dd.items() if x and n not in ('invalid_hashes_packed', 'invalid_sizes_packed', 'overlapping_packed', 'invalid_hashes_loose')}
            if other:
                impl += f' other={other}'
        except Exception:
            impl = 'raises'
        return line, impl
    finally:
        c.close()


def sweep_container(args):
    seed, big, shard, nshards = args
    common.use_repo()
    from disk_objectstore import Container
    root = common.scratch_root()
    missed, n, harmless = [], 0, 0
    try:
        d, truth = build(root, seed, big)
        c = Container(d)
        assert readable_right(c, truth) and clean(c), 'undamaged container must be clean'
        c.close()
        rnd = random.Random(seed + 1)
        scans = [('undamaged',) + scan_line_and_impl(d)] if shard == 0 else []
        for j, (desc, ap, un) in enumerate(damages(d, truth, rnd, big)):
            if j % nshards != shard:
                continue
            ap()
            if not big and (desc.startswith('index row') or j % 24 == shard % 24):
                li = scan_line_and_impl(d)
                if li is not None:
                    scans.append((desc,) + li)
            c = Container(d)
            ok = readable_right(c, truth)
            cl = clean(c)
            c.close()
            un()
            n += 1
            if ok:
                harmless += 1
            if not ok and cl:
                missed.append(desc)
        bad = []
        if scans:
            import subprocess
            pr = subprocess.run([os.path.join(common.OCAML, 'driver')], input='\n'.join(x[1] for x in scans) + '\n', capture_output=True, text=True, timeout=600)
            outs = pr.stdout.splitlines()
            if len(outs) != len(scans):
                bad.append(('driver', f'{len(outs)} lines for {len(scans)} commands {pr.stderr[-200:]}', ''))
            for (desc, _line, impl), mo in zip(scans, outs):
                if mo != 'raises':
                    mo = ';'.join(','.join(map(str, sorted(int(x) for x in f.split(',') if x))) for f in mo.split(';'))
                if mo != impl:
                    bad.append((desc, mo, impl))
        return {'n': n, 'missed': missed[:5], 'harmless': harmless, 'seed': seed, 'big': big, 'scans': len(scans), 'scan_bad': bad[:3]}
    finally:
        shutil.rmtree(root, ignore_errors=True)


def page_boundary(ck):
    """one pack with >= 1000 entries and the zero-length object (which shares its offset with its neighbour) exactly at a multiple of 1000
    in offset order: damage to the entries around that position must be reported (any paging of the per-pack scan must not lose a row)"""
    common.use_repo()
    from disk_objectstore import Container
    for n, epos in ((1003, 999), (2003, 1999), (1003, 1000)):
        root = common.scratch_root()
        try:
            d = os.path.join(root, 'c')
            c = Container(d)
            c.init_container(clear=True, pack_size_target=10 ** 9)
            objs = [b'pb-%06d-payload' % i for i in range(n)]
            objs[epos] = b''
            keys = c.add_objects_to_pack(objs, compress=False)
            truth = dict(zip(keys, objs))
            if not clean(c):
                ck.fail(f'validate() reports issues on an undamaged pack of {n} objects', {'kind': 'page-boundary', 'n': n, 'empty_at': epos}, 'C12:false-positive')
            c.close()
            raw = store.raw_state(d, 'sha256')
            rows = sorted((r for r in raw['rows']), key=lambda r: (r[3], r[4]))
            orig = raw['packs'][0]
            p = os.path.join(d, 'packs', '0')
            idx = os.path.join(d, 'packs.idx')
            for pos in sorted({epos - 1, epos + 1, epos + 2, 999, 1000, 1001} & set(range(n))):
                r = rows[pos]
                if r[4] == 0:
                    continue
                x = bytearray(orig)
                x[r[3]] ^= 1
                open(p, 'wb').write(x)
                c = Container(d)
                cl = clean(c)
                c.close()
                open(p, 'wb').write(orig)
                ck.count(('page-boundary', n, epos, pos, 'flip'))
                if cl:
                    ck.fail(f'validate() is clean although the first byte of entry #{pos} (offset order) of a pack of {n} entries is flipped '
                            f'(zero-length object at #{epos})', {'kind': 'page-boundary', 'n': n, 'empty_at': epos, 'damaged': pos}, 'C12:false-negative')
                con = sqlite3.connect(idx)
                con.execute('update db_object set size=? where id=?', (r[6] + 1, r[0]))
                con.commit()
                con.close()
                c = Container(d)
                cl = clean(c)
                c.close()
                con = sqlite3.connect(idx)
                con.execute('update db_object set size=? where id=?', (r[6], r[0]))
                con.commit()
                con.close()
                ck.count(('page-boundary', n, epos, pos, 'size'))
                if cl:
                    ck.fail(f'validate() is clean although the recorded size of entry #{pos} of a pack of {n} entries is wrong '
                            f'(zero-length object at #{epos})', {'kind': 'page-boundary', 'n': n, 'empty_at': epos, 'damaged': pos}, 'C12:false-negative')
        finally:
            shutil.rmtree(root, ignore_errors=True)


def main(tier, seed, replay=None):
    ck = Check('C12', tier, seed)
    ck.cov['rule'] = ('no false positives: validate() after every step of random histories (shared runner); no false negatives: on containers with loose, '
                      'plain-packed and compressed-packed objects (several packs, zlib level random), EVERY single-bit flip of every referenced pack '
                      'byte and of every loose byte, every truncation cutting a referenced byte, and perturbations {-2,-1,+1,+2,+7} of offset/length/'
                      'size, flips of compressed and changes of pack_id for every index row; ground truth = reading every object through a new handle; '
                      'a damage is non-trivial if it makes some object unreadable/different/mis-sized; quick: 1 small container exhaustively, thorough: 12 '
                      'small + 2 with a 66 kB compressed object (bit flips sampled there, exhaustive on the first/last 64 bytes); plus packs of 1003/2003 entries with the '
                      'zero-length object at a multiple of 1000 in offset order, damage around that position')
    ck.coq()
    import tracecheck
    tracecheck.check_traces(ck, 'C12', names=['pack_clean', 'topack', 'repack'])
    hist.run_histories(ck, 'C12', [('mixed', 60 if tier == 'quick' else 1500, 18, False)])
    nsh = 14
    jobs = [(ck.seed * 100 + 1, False, s, nsh) for s in range(nsh)]
    if tier == 'thorough':
        for i in range(2, 13):
            jobs += [(ck.seed * 100 + i, False, s, 4) for s in range(4)]
        for i in (50, 51):
            jobs += [(ck.seed * 100 + i, True, s, nsh) for s in range(nsh)]
    with mp.get_context('fork').Pool(min(common.NPROC, 14)) as pool:
        results = pool.map(sweep_container, jobs, chunksize=1)
    total = sum(r['n'] for r in results)
    harmless = sum(r['harmless'] for r in results)
    ck.cov['damages'] = total
    ck.cov['harmless_damages'] = harmless
    ck.count('damage-sweep', nontrivial=False, n=total)
    ck.cov['distinct_nontrivial'] = total - harmless
    for r in results:
        if r['missed']:
            ck.fail(f'validate() returns a clean report although an object is unreadable/different/mis-sized after: {r["missed"][0]}',
                    {'kind': 'damage', 'container_seed': r['seed'], 'big': r['big'], 'damages': r['missed']}, 'C12:false-negative')
            break
    ck.sample({'container_seed': jobs[0][0], 'damages_tried': total, 'harmless': harmless})
    nsc = sum(r.get('scans', 0) for r in results)
    sb = [b for r in results for b in r.get('scan_bad', [])]
    ck.obligation(f'ValidateScan.validate_f == the report of validate() (four issue lists, or raising) on {nsc} damaged / undamaged states',
                  not sb and nsc > 0, f'after {sb[0][0]}: model {sb[0][1]} implementation {sb[0][2]}' if sb else '', kind='correspondence')
    try:
        page_boundary(ck)
    except Exception as e:
        ck.fail(f'page-boundary validation run raised {type(e).__name__}: {e}', {'kind': 'page-boundary'}, 'C12:page-boundary-exception')
    import tracecheck as _tc
    return ck.finish(search=_tc.crash_search(ck, ck.pid))
