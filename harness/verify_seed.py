"""Confirm a seeded defect independently: verify_seed.py <name> <dir with patch.diff demo.py meta.json> [--no-tests]
 - fresh scratch worktree of /repo HEAD; demo passes without the patch, fails with it; the stable baseline tests still pass with it.
 Writes /verif/seeded/<name>/{patch.diff, demo.*, meta.json}.  The worktree is removed afterwards."""
import json
import os
import shutil
import subprocess
import sys
import xml.etree.ElementTree as ET

name, src = sys.argv[1], sys.argv[2]
run_tests = '--no-tests' not in sys.argv
wt = f'/tmp/mutv/{name}'
os.makedirs('/tmp/mutv', exist_ok=True)
subprocess.run(['git', '-C', '/repo', 'worktree', 'remove', '--force', wt], capture_output=True)
subprocess.run(['git', '-C', '/repo', 'worktree', 'add', '-f', wt, 'HEAD'], check=True, capture_output=True)
out = {'name': name}
try:
    demo = [f for f in os.listdir(src) if f.startswith(('demo', 'test_demo'))][0]
    env = dict(os.environ, PYTHONPATH=wt, PYTHONHASHSEED='0')

    def run_demo():
        if demo.startswith('test_'):
            cmd = ['/venv/bin/python', '-m', 'pytest', '-q', '-p', 'no:cacheprovider', os.path.join(src, demo)]
        else:
            cmd = ['/venv/bin/python', os.path.join(src, demo)]
        r = subprocess.run(cmd, cwd=wt, env=env, capture_output=True, text=True, timeout=900)
        return r.returncode, (r.stdout + r.stderr)[-400:]
    out['demo_without_patch'] = run_demo()
    r = subprocess.run(['git', '-C', wt, 'apply', os.path.join(src, 'patch.diff')], capture_output=True, text=True)
    out['patch_applies'] = r.returncode == 0
    out['apply_err'] = r.stderr[-300:]
    out['demo_with_patch'] = run_demo()
    if run_tests and out['patch_applies']:
        xml = f'/tmp/mutv/{name}.xml'
        subprocess.run(['/venv/bin/python', '-m', 'pytest', '-q', '-p', 'no:cacheprovider', '--timeout=900', '--continue-on-collection-errors',
                        f'--junitxml={xml}'], cwd=wt, env=env, capture_output=True, text=True, timeout=3600)
        b = json.load(open('/root/.vp/BASELINE.json'))
        res = {}
        for tc in ET.parse(xml).iter('testcase'):
            st = 'pass'
            for ch in tc:
                if ch.tag in ('failure', 'error'):
                    st = 'fail'
                if ch.tag == 'skipped':
                    st = 'skip'
            res[tc.get('classname') + '::' + tc.get('name')] = st
        out['stable_pass_broken'] = [n for n in b['stable_pass'] if res.get(n) != 'pass']
        os.remove(xml)
    ok = out['patch_applies'] and out['demo_without_patch'][0] == 0 and out['demo_with_patch'][0] != 0 and not out.get('stable_pass_broken')
    out['confirmed'] = bool(ok)
    dst = f'/verif/seeded/{name}'
    os.makedirs(dst, exist_ok=True)
    shutil.copy(os.path.join(src, 'patch.diff'), dst)
    shutil.copy(os.path.join(src, demo), dst)
    meta = {}
    if os.path.exists(os.path.join(src, 'meta.json')):
        try:
            meta = json.load(open(os.path.join(src, 'meta.json')))
        except Exception:
            meta = {'raw': open(os.path.join(src, 'meta.json')).read()[:2000]}
    old = {}
    if os.path.exists(os.path.join(dst, 'meta.json')):
        old = json.load(open(os.path.join(dst, 'meta.json')))
    meta['verification'] = out
    for k in ('caught_by', 'missed_by', 'notes'):
        if k in old:
            meta[k] = old[k]
    json.dump(meta, open(os.path.join(dst, 'meta.json'), 'w'), indent=1)
    print(json.dumps(out, indent=1))
finally:
    subprocess.run(['git', '-C', '/repo', 'worktree', 'remove', '--force', wt], capture_output=True)
