"""Raw disk reader (alpha / C03 oracle), dict oracle, history generator and runner shared by the container checks."""
from __future__ import annotations

import hashlib
import io
import os
import random
import shutil
import sqlite3
import zlib

import common


def H(ht: str, b: bytes) -> str:
    return hashlib.new(ht, b).hexdigest()


# --------------------------------------------------------------------------------------------------
# alpha: the container folder read with sqlite3 / open / zlib only
# --------------------------------------------------------------------------------------------------
def raw_state(d: str, ht: str, prefix_len: int | None = None) -> dict:
    """returns {'rows': [...], 'packs': {id: bytes}, 'loose': {key: bytes}, 'dups': {...}, 'sandbox': {...}, 'locks': [...],
    'stored': {key: bytes} (objects recoverable without the library), 'problems': [C03 violations]}"""
    probs = []
    idx = os.path.join(d, 'packs.idx')
    rows = []
    if os.path.exists(idx):
        con = sqlite3.connect(f'file:{idx}?mode=ro', uri=True)
        try:
            rows = con.execute('select id,hashkey,pack_id,offset,length,compressed,size from db_object order by id').fetchall()
        finally:
            con.close()
    packs, locks = {}, []
    pdir = os.path.join(d, 'packs')
    for f in sorted(os.listdir(pdir)) if os.path.isdir(pdir) else []:
        p = os.path.join(pdir, f)
        if f.endswith('.lock'):
            locks.append(f)
        elif f.lstrip('-').isdigit():
            with open(p, 'rb') as fh:
                packs[int(f)] = fh.read()
    loose = {}
    ldir = os.path.join(d, 'loose')
    for root, _, files in os.walk(ldir):
        for f in files:
            k = os.path.relpath(os.path.join(root, f), ldir).replace(os.sep, '')
            with open(os.path.join(root, f), 'rb') as fh:
                loose[k] = fh.read()
    dups, sandbox = {}, {}
    for name, tgt in (('duplicates', dups), ('sandbox', sandbox)):
        dd = os.path.join(d, name)
        for f in sorted(os.listdir(dd)) if os.path.isdir(dd) else []:
            with open(os.path.join(dd, f), 'rb') as fh:
                tgt[f] = fh.read()
    stored = {}
    keys = [r[1] for r in rows]
    if len(set(keys)) != len(keys):
        probs.append('a key is indexed twice')
    bypack = {}
    for r in rows:
        bypack.setdefault(r[2], []).append(r)
    for pid, rs in bypack.items():
        if pid not in packs:
            probs.append(f'index entries designate missing pack {pid}')
            continue
        data = packs[pid]
        rs = sorted(rs, key=lambda r: r[3])
        pos = 0
        for _id, k, _, off, ln, comp, size in rs:
            if off < pos:
                probs.append(f'entries overlap in pack {pid} at offset {off} ({k[:8]})')
            pos = max(pos, off + ln)
            if off < 0 or ln < 0 or off + ln > len(data):
                probs.append(f'entry {k[:8]} designates [{off},{off + ln}) outside pack {pid} of {len(data)} bytes')
                continue
            blob = data[off:off + ln]
            try:
                content = zlib.decompress(blob) if comp else blob
            except zlib.error as e:
                probs.append(f'entry {k[:8]} flagged compressed does not inflate: {e}')
                continue
            if H(ht, content) != k:
                probs.append(f'entry {k[:8]}: digest of the designated range is {H(ht, content)[:8]}')
                continue
            if len(content) != size:
                probs.append(f'entry {k[:8]}: recorded size {size}, content length {len(content)}')
            if not comp and ln != size:
                probs.append(f'entry {k[:8]}: uncompressed but length {ln} != size {size}')
            stored[k] = content
    for k, b in loose.items():
        if all(ch in '0123456789abcdef' for ch in k):
            if H(ht, b) != k:
                probs.append(f'loose file {k[:8]} holds bytes with digest {H(ht, b)[:8]}')
            else:
                stored.setdefault(k, b)
    return {'rows': rows, 'packs': packs, 'loose': loose, 'dups': dups, 'sandbox': sandbox, 'locks': locks, 'stored': stored, 'problems': probs}


# --------------------------------------------------------------------------------------------------
# History generation (serialisable) and execution
# --------------------------------------------------------------------------------------------------
MODES = ['no', 'yes', 'keep', 'auto']


def make_pool(seed: int, big: bool = False) -> list[bytes]:
    rnd = random.Random(seed)
    pool = []
    for i in range(rnd.randint(10, 16)):
        base = bytes([65 + i]) * rnd.choice([0, 1, 3, 10, 40, 200])
        tail = rnd.randbytes(rnd.choice([0, 0, 5, 30]))
        pool.append(base + tail)
    pool.append(b'')
    if big:
        pool.append((b'compressible ' * 6000)[:70001])
        pool.append(rnd.randbytes(66000))
    # contents that already are in a compressed format (the typical incompressible payload): real gzip/zlib/bz2/lzma streams and the
    # signatures of zip, png, jpeg, zstd, 7z in front of noise; appended last so that the indices of older corpus cases keep their meaning
    import bz2
    import gzip
    import lzma
    pool.append(gzip.compress(b'payload ' * rnd.randint(1, 40), mtime=0))
    pool.append(zlib.compress(b'zz' * rnd.randint(1, 30)))
    pool.append(rnd.choice([bz2.compress(b'bz' * 20), lzma.compress(b'xz' * 20)]))
    pool.append(rnd.choice([b'PK\x03\x04', b'\x89PNG\r\n\x1a\n', b'\xff\xd8\xff\xe0', b'\x28\xb5\x2f\xfd', b"7z\xbc\xaf'\x1c"]) + rnd.randbytes(rnd.choice([0, 3, 40])))
    if big:
        pool.append(gzip.compress(rnd.randbytes(3000), mtime=0)[:2500] + rnd.randbytes(1500))
    return list(dict.fromkeys(pool))


def gen_history(rnd: random.Random, nsteps: int, profile: str = 'mixed', big: bool = False) -> dict:
    """profile: mixed | norepack (C13) | dedup (C09) | delete (C11) | modes (C10) | import (C14)"""
    cfg = {'hash_type': rnd.choice(['sha1', 'sha256']), 'loose_prefix_len': rnd.choice([0, 1, 2, 3]),
           'compression_algorithm': f'zlib+{rnd.randint(1, 9)}', 'pack_size_target': rnd.choice([50, 300, 4 * 1024 ** 3])}
    src = {'hash_type': rnd.choice(['sha1', 'sha256']), 'pack_size_target': rnd.choice([40, 10 ** 9])}
    pool_seed = rnd.randrange(1 << 30)
    pool = make_pool(pool_seed, big)
    lowered = rnd.choice([None, None, (2, 5), (3, 7)])
    n = len(pool)
    weights = {
        'mixed': dict(add=3, adds=2, topack=4, topack_stream=1, pack=3, clean=2, repack=2, delete=2, loosen=1, imp=2, reopen=1, reinit=1),
        'norepack': dict(add=3, adds=1, topack=5, topack_stream=1, pack=4, clean=2, imp=2, reopen=2, newhandle=2, loosen=1),
        'dedup': dict(add=4, adds=1, topack=6, pack=2, clean=1, reopen=1, damage_loose=2, imp=2, src_add=1),   # imports of content the destination holds (loose or packed)
        'delete': dict(add=3, topack=3, pack=2, clean=1, delete=3, repack=2, plant_dup=1),
        'modes': dict(add=3, topack=2, pack=4, repack=5, clean=1, imp=2, src_add=2),
        'import': dict(add=1, topack=1, pack=1, imp=6, src_add=3, src_pack=1, reopen=1),
    }[profile]
    kinds = [k for k, w in weights.items() for _ in range(w)]
    ops = []
    for _ in range(nsteps):
        k = rnd.choice(kinds)
        if k in ('add', 'adds'):
            ops.append({'op': k, 'i': rnd.randrange(n), 'chunk': rnd.choice([1, 7, 4096, 10 ** 6])})
        elif k in ('topack', 'topack_stream'):
            m = rnd.randint(1, 5)
            idx = [rnd.randrange(n) for _ in range(m)]
            if profile == 'dedup' and rnd.random() < 0.5:
                idx = idx + idx[:2]
            nh = rnd.random() < (0.7 if profile == 'dedup' else 0.5)
            ops.append({'op': k, 'idx': idx, 'compress': rnd.random() < 0.5, 'no_holes': nh,
                        'read_twice': rnd.random() < 0.5, 'do_fsync': rnd.random() < 0.7})
        elif k == 'pack':
            ops.append({'op': 'pack', 'compress': rnd.choice(MODES + ['true', 'false']), 'clean_per_pack': rnd.random() < 0.5,
                        'validate': rnd.random() < 0.5, 'do_fsync': rnd.random() < 0.8})
        elif k == 'clean':
            ops.append({'op': 'clean', 'vacuum': rnd.random() < 0.5})
        elif k == 'repack':
            ops.append({'op': 'repack', 'mode': rnd.choice(MODES)})
        elif k == 'delete':
            if profile in ('delete', 'modes', 'mixed') and rnd.random() < 0.2:
                # a pack whose only live objects are zero-length: pack the empty object (alone or with neighbours), delete every
                # non-empty object, repack - the pack file must survive with its live (empty) entry readable
                ops.append({'op': 'topack', 'idx': [pool.index(b'')] + [rnd.randrange(n) for _ in range(rnd.randint(0, 2))], 'compress': rnd.random() < 0.5,
                            'no_holes': False, 'read_twice': True})
                ops.append({'op': 'delete', 'idx': [], 'all_nonempty': True})
                ops.append({'op': 'repack', 'mode': rnd.choice(MODES)})
            else:
                ops.append({'op': 'delete', 'idx': [rnd.randrange(n) for _ in range(rnd.randint(1, 9 if lowered else 4))]})
        elif k == 'loosen':
            ops.append({'op': 'loosen', 'i': rnd.randrange(n)})
        elif k == 'imp':
            ops.append({'op': 'import', 'add': [(rnd.randrange(n), rnd.choice(['loose', 'pack', 'packz'])) for _ in range(rnd.randint(0, 4))],
                        'src_pack': rnd.random() < 0.3, 'frac': rnd.random(), 'sel_seed': rnd.randrange(1 << 30), 'compress': rnd.random() < 0.5,
                        'tmb': rnd.choice([1, 20, 100, 10 ** 6]), 'iterable': rnd.choice(['list', 'tuple', 'set', 'generator']),
                        'callback': rnd.random() < 0.4, 'absent': rnd.random() < 0.5, 'repeat': rnd.random() < 0.4, 'do_fsync': rnd.random() < 0.7})
            if rnd.random() < 0.25:
                # the zero-length object: requested alone, or together with objects that all bypass the cache (budget 1)
                ops[-1]['empty'] = rnd.choice(['alone', 'streamed_rest'])
                ops[-1]['empty_form'] = rnd.choice(['loose', 'pack', 'packz'])
                if ops[-1]['empty'] == 'streamed_rest':
                    ops[-1]['tmb'] = 1
        elif k == 'src_add':
            ops.append({'op': 'src_add', 'i': rnd.randrange(n), 'form': rnd.choice(['loose', 'pack', 'packz'])})
        elif k == 'src_pack':
            ops.append({'op': 'src_pack'})
        elif k == 'damage_loose':
            ops.append({'op': 'damage_loose', 'i': rnd.randrange(n), 'same_len': rnd.random() < 0.5})
        elif k == 'plant_dup':
            ops.append({'op': 'plant_dup', 'i': rnd.randrange(n), 'good': rnd.random() < 0.5})
        else:
            ops.append({'op': k})
    case = {'cfg': cfg, 'src': src, 'pool_seed': pool_seed, 'big': big, 'ops': ops, 'profile': profile}
    if lowered:
        case['lowered'] = list(lowered)
    return case


class ShortReader:
    """a stream that returns at most `chunk` bytes per read (exercises short reads)"""

    def __init__(self, b, chunk):
        self._b, self._c, self._p = b, chunk, 0

    def read(self, n=-1):
        if n is None or n < 0:
            n = len(self._b) - self._p
        n = min(n, self._c)
        r = self._b[self._p:self._p + n]
        self._p += len(r)
        return r


def fd_census(root: str) -> list[str]:
    out = []
    for f in os.listdir('/proc/self/fd'):
        try:
            t = os.readlink(f'/proc/self/fd/{f}')
        except OSError:
            continue
        if t.startswith(root + os.sep) or t == root:
            out.append(os.path.relpath(t, root))
    return sorted(out)


class Fail(Exception):
    def __init__(self, tags, msg):
        super().__init__(msg)
        self.tags, self.msg = set(tags), msg


class Runner:
    """executes a history against the real Container and a dict; raises Fail(tags, msg) at the first deviation"""

    def __init__(self, case: dict, root: str, on_step=None, checks: str = 'full'):
        common.use_repo()
        from disk_objectstore import Container
        self.Container = Container
        self.case = case
        self.root = root
        self.d = os.path.join(root, 'dst')
        self.d2 = os.path.join(root, 'src')
        self.on_step = on_step
        self.checks = checks
        self.cfg = case['cfg']
        self.ht = self.cfg['hash_type']
        self.ht2 = case['src']['hash_type']
        self.pool = make_pool(case['pool_seed'], case.get('big', False))
        self.model: dict[str, bytes] = {}
        self.srcmodel: dict[str, bytes] = {}
        self.c = Container(self.d)
        self.c.init_container(clear=True, **self.cfg)
        self.src = Container(self.d2)
        self.src.init_container(clear=True, **case['src'])
        self.extra = []
        self.repacked = False
        self.soft = []
        self.stats = {'ops': {}, 'forms': {'loose': 0, 'packed': 0, 'packedz': 0}, 'import_branches': set()}
        # lowered internal thresholds (batch size of SQL IN lists / switch to the full sorted scan): requests of a handful of keys then
        # exercise every chunk boundary of the bulk paths (runs in this forked process only; restored in close())
        self._saved_thresholds = None
        if case.get('lowered'):
            self._saved_thresholds = (Container._IN_SQL_MAX_LENGTH, Container._MAX_CHUNK_ITERATE_LENGTH)
            Container._IN_SQL_MAX_LENGTH, Container._MAX_CHUNK_ITERATE_LENGTH = case['lowered']

    def close(self):
        for h in [self.c, self.src] + self.extra:
            try:
                h.close()
            except Exception:
                pass
        if self._saved_thresholds:
            self.Container._IN_SQL_MAX_LENGTH, self.Container._MAX_CHUNK_ITERATE_LENGTH = self._saved_thresholds

    # ---- individual operations
    def key(self, i):
        return H(self.ht, self.pool[i])

    def do(self, op):
        from disk_objectstore import CompressMode
        from disk_objectstore.utils import LazyOpener
        c, ht, pool = self.c, self.ht, self.pool
        k = op['op']
        self.stats['ops'][k] = self.stats['ops'].get(k, 0) + 1
        if k == 'add':
            b = pool[op['i']]
            r = c.add_object(b)
            if r != H(ht, b):
                raise Fail({'C01', 'C09'}, f'add_object returned {r[:8]} for content with digest {H(ht, b)[:8]}')
            self.model[r] = b
        elif k == 'adds':
            b = pool[op['i']]
            r = c.add_streamed_object(ShortReader(b, op['chunk']))
            if r != H(ht, b):
                raise Fail({'C01', 'C09'}, f'add_streamed_object returned {r[:8]} for digest {H(ht, b)[:8]}')
            self.model[r] = b
        elif k in ('topack', 'topack_stream'):
            bs = [pool[i] for i in op['idx']]
            kw = dict(compress=op['compress'], no_holes=op['no_holes'], no_holes_read_twice=op['read_twice'], do_fsync=op.get('do_fsync', True))
            if k == 'topack':
                r = c.add_objects_to_pack(bs, **kw)
            else:
                tdir = os.path.join(self.root, 'inputs')
                os.makedirs(tdir, exist_ok=True)
                from pathlib import Path
                paths = []
                for j, b in enumerate(bs):
                    p = os.path.join(tdir, f'in{j}')
                    with open(p, 'wb') as f:
                        f.write(b)
                    paths.append(LazyOpener(Path(p)))
                r = c.add_streamed_objects_to_pack(paths, open_streams=True, **kw)
                if any(p._fhandle is not None for p in paths):
                    raise Fail({'C18'}, 'a lazily opened input stream is still open after add_streamed_objects_to_pack')
            if r != [H(ht, b) for b in bs]:
                raise Fail({'C01', 'C09'}, f'direct-to-pack returned keys {[x[:6] for x in r]} for digests {[H(ht, b)[:6] for b in bs]}')
            for b in bs:
                self.model[H(ht, b)] = b
        elif k == 'pack':
            cm = op['compress']
            comp = True if cm == 'true' else False if cm == 'false' else CompressMode(cm)
            c.pack_all_loose(compress=comp, clean_loose_per_pack=op['clean_per_pack'], validate_objects=op['validate'], do_fsync=op['do_fsync'])
        elif k == 'clean':
            c.clean_storage(vacuum=op['vacuum'])
        elif k == 'repack':
            self.repacked = True
            c.repack(compress_mode=CompressMode(op['mode']))
        elif k == 'delete':
            ks = [self.key(i) for i in op['idx']]
            if op.get('all_nonempty'):
                ks = sorted(x for x, b in self.model.items() if b)
            if os.listdir(os.path.join(self.d, 'duplicates')):
                # C11 speaks of deleting a SET of keys; a key repeated in the list while stray duplicates/<key>.* files exist (which only the
                # harness plants - the library creates them on Windows only) makes delete_objects try to remove the same stray file twice.
                # Outside the property (see DESIGN.md 10.5): keep repeated keys only when no stray duplicate exists.
                ks = list(dict.fromkeys(ks))
            r = c.delete_objects(ks)
            exp = {x for x in ks if x in self.model}
            if set(r) != exp or len(r) != len(exp):
                raise Fail({'C11', 'C02'}, f'delete_objects returned {sorted(x[:6] for x in r)}, existing requested keys were {sorted(x[:6] for x in exp)}')
            for x in exp:
                del self.model[x]
        elif k == 'loosen':
            kk = self.key(op['i'])
            if kk in self.model:
                c.loosen_object(kk)
        elif k == 'src_add':
            self._src_add(op['i'], op['form'])
        elif k == 'src_pack':
            self.src.pack_all_loose()
        elif k == 'import':
            for i, form in op['add']:
                self._src_add(i, form)
            if op.get('empty'):
                self._src_add(self.pool.index(b''), op['empty_form'])
            if op['src_pack']:
                self.src.pack_all_loose()
            rs = random.Random(op['sel_seed'])
            req = [x for x in sorted(self.srcmodel) if rs.random() < op['frac']]
            if op.get('empty'):
                ek = H(self.ht2, b'')
                req = [ek] if op['empty'] == 'alone' else list(dict.fromkeys(req + [ek]))
            if op['absent']:
                req.append('0' * len(H(self.ht2, b'')))
            if op['repeat'] and req:
                req = req + req[:2]
            rs.shuffle(req)
            distinct_present = {x for x in req if x in self.srcmodel}
            already = {x for x in distinct_present if H(ht, self.srcmodel[x]) in self.model}
            it = {'list': list, 'tuple': tuple, 'set': set, 'generator': (lambda l: (x for x in l))}[op['iterable']](req)
            calls = []
            cb = (lambda action, value: calls.append(action)) if op['callback'] else None
            sizes = [len(self.srcmodel[x]) for x in distinct_present]
            for s in sizes:
                self.stats['import_branches'].add('stream' if s > op['tmb'] else 'cache')
            m = c.import_objects(it, self.src, compress=op['compress'], target_memory_bytes=op['tmb'], callback=cb, do_fsync=op.get('do_fsync', True))
            for ok, nk in m.items():
                if ok not in self.srcmodel or nk != H(ht, self.srcmodel[ok]):
                    raise Fail({'C14'}, f'import mapping sends {ok[:8]} to {nk[:8]}')
            must = distinct_present if self.ht != self.ht2 else distinct_present - already
            if not must <= set(m):
                raise Fail({'C14', 'C02'}, f'import mapping omits {len(must - set(m))} requested keys the source holds '
                                    f'(iterable={op["iterable"]}, callback={op["callback"]}, hash {self.ht2}->{self.ht})')
            for x in distinct_present:
                self.model[H(ht, self.srcmodel[x])] = self.srcmodel[x]
        elif k == 'reopen':
            c.close()
            for h in self.extra:
                h.close()
            self.extra = []
            left = fd_census(self.d)
            if left and not self.soft:
                self.soft.append(Fail({'C18'}, f'after close() descriptors remain open inside the container: {left[:4]}'))
            self.c = self.Container(self.d)
        elif k == 'newhandle':
            h = self.Container(self.d)
            self.extra.append(self.c)
            self.c = h
        elif k == 'reinit':
            try:
                c.init_container()
            except FileExistsError:
                pass
            else:
                raise Fail({'C02'}, 'init_container() on an initialised container was accepted')
        elif k == 'damage_loose':
            kk = self.key(op['i'])
            p = c._get_loose_path_from_hashkey(kk)
            if kk in self.model and os.path.exists(p):
                with open(p, 'wb') as f:
                    orig = pool[op['i']]
                    # damaged in place at the same length (a flipped byte), or replaced by other bytes
                    f.write(bytes([orig[0] ^ 0x5a]) + orig[1:] if (op.get('same_len') and orig) else b'damaged!')
                r = c.add_object(pool[op['i']])
                with open(p, 'rb') as f:
                    now = f.read()
                if r != kk or now != pool[op['i']]:
                    raise Fail({'C09'}, 're-adding content whose loose copy was damaged did not leave a correct copy in place')
        elif k == 'plant_dup':
            kk = self.key(op['i'])
            if kk in self.model:
                with open(os.path.join(self.d, 'duplicates', f'{kk}.{"a" * 32}'), 'wb') as f:
                    f.write(pool[op['i']] if op['good'] else b'bad duplicate')
        else:
            raise ValueError(k)

    def _src_add(self, i, form):
        b = self.pool[i]
        if form == 'loose':
            self.srcmodel[self.src.add_object(b)] = b
        else:
            self.srcmodel[self.src.add_objects_to_pack([b], compress=(form == 'packz'))[0]] = b

    # ---- views and invariants after a step
    def check_views(self, op, before):
        fails = []
        raw = raw_state(self.d, self.ht)
        for name in ('_chk_views', '_chk_raw', '_chk_dedup', '_chk_modes', '_chk_delete_repack', '_chk_validate', '_chk_layout', '_chk_import_src', '_chk_fds'):
            try:
                getattr(self, name)(op, before, raw)
            except Fail as f:
                fails.append(f)
        for r in raw['rows']:
            self.stats['forms']['packedz' if r[5] else 'packed'] += 1
        self.stats['forms']['loose'] += len(raw['loose'])
        if fails:
            tags = set().union(*[f.tags for f in fails])
            e = Fail(tags, fails[0].msg)
            e.all = [(sorted(f.tags), f.msg) for f in fails]
            raise e
        return raw

    def _chk_views(self, op, before, raw):
        from disk_objectstore.exceptions import NotExistent
        c, ht, model, pool = self.c, self.ht, self.model, self.pool
        allk = sorted(model)
        miss = [H(ht, b) for b in pool if H(ht, b) not in model][:6]
        kind = op['op']
        t = {'C02'}
        if kind in ('pack', 'repack'):
            t |= {'C10'}
        if kind in ('delete', 'repack'):
            t |= {'C11'}
        if kind == 'import':
            t |= {'C14'}
        if kind in ('add', 'adds', 'topack', 'topack_stream'):
            t |= {'C01', 'C09'}
        got = c.has_objects(allk + miss)
        if got != [True] * len(allk) + [False] * len(miss):
            raise Fail(t, f'has_objects after {kind}: {sum(1 for x in got[:len(allk)] if not x)} present keys reported absent, '
                          f'{sum(1 for x in got[len(allk):] if x)} absent keys reported present')
        cont = c.get_objects_content(allk + miss, skip_if_missing=False)
        for k in allk:
            if cont.get(k) != model[k]:
                raise Fail(t, f'bulk read after {kind}: key {k[:8]} reads {len(cont.get(k) or b"")} bytes {repr((cont.get(k) or b"")[:12])}, stored were {len(model[k])} bytes {model[k][:12]!r}')
        for k in miss:
            if cont.get(k, 0) is not None:
                raise Fail(t, f'bulk read after {kind}: absent key {k[:8]} returned data')
        # bulk streams consumed unevenly: each stream is skipped, peeked at, read in pieces, or sought into - what one stream returns
        # must not depend on how much of the previous streams was consumed (plans derived from the step, replayable)
        prnd = random.Random(f'{len(allk)}:{kind}:{getattr(self, "step", 0)}')
        with c.get_objects_stream_and_meta(allk, skip_if_missing=False) as trip:
            seen = 0
            for k, st, m in trip:
                seen += 1
                b = model[k]
                plan = prnd.choice(['skip', 'peek', 'full', 'pieces', 'tail'])
                if plan == 'skip':
                    continue
                if plan == 'peek':
                    n = prnd.randint(0, max(0, len(b) // 2))
                    x, exp = st.read(n), b[:n]
                elif plan == 'full':
                    x, exp = st.read(), b
                elif plan == 'pieces':
                    n = prnd.choice([1, 2, 7])
                    x, exp = st.read(n) + st.read(n), b[:2 * n]
                else:
                    off = prnd.randint(0, len(b))
                    st.seek(off)
                    x, exp = st.read(), b[off:]
                if x != exp:
                    raise Fail(t | {'C07', 'C16'}, f'bulk stream after {kind}: stream of key {k[:8]} consumed with plan {plan} returns {len(x)} bytes {x[:12]!r}, '
                                                   f'the stored object gives {len(exp)} bytes {exp[:12]!r} (earlier streams of the same bulk call were consumed unevenly)')
            if seen != len(allk):
                raise Fail(t | {'C16'}, f'bulk stream after {kind}: {seen} streams for {len(allk)} keys')
        metas = dict(c.get_objects_meta(allk, skip_if_missing=False))
        for k in allk:
            if c.get_object_content(k) != model[k]:
                raise Fail(t, f'single read after {kind}: key {k[:8]} differs')
            if metas[k]['size'] != len(model[k]) or metas[k]['type'].value == 'missing':
                raise Fail(t | {'C10'}, f'metadata after {kind}: key {k[:8]} size {metas[k]["size"]} type {metas[k]["type"]}, content length {len(model[k])}')
        for k in miss[:2]:
            try:
                c.get_object_content(k)
            except NotExistent:
                pass
            else:
                raise Fail(t, f'reading absent key {k[:8]} did not raise NotExistent')
        la = sorted(c.list_all_objects())
        if la != allk:
            raise Fail(t | {'C09'}, f'list_all_objects after {kind}: {len(la)} keys ({len(set(la))} distinct), expected {len(allk)}')
        cnt = c.count_objects()
        if cnt['packed'] != len(raw['rows']) or cnt['loose'] != len(raw['loose']):
            raise Fail({'C02'}, f'count_objects {dict(cnt)} vs raw rows {len(raw["rows"])} loose {len(raw["loose"])}')
        if cnt['packed'] + cnt['loose'] < len(allk):
            raise Fail({'C02', 'C09'}, 'count_objects below number of objects')

    def _chk_raw(self, op, before, raw):
        from disk_objectstore.exceptions import NotExistent
        c, ht, model, pool = self.c, self.ht, self.model, self.pool
        allk = sorted(model)
        miss = [H(ht, b) for b in pool if H(ht, b) not in model][:6]
        kind = op['op']
        # C03: raw, library-free consistency
        if raw['problems']:
            raise Fail({'C03'} | ({'C09'} if kind.startswith('topack') else set()), f'after {kind}: ' + '; '.join(raw['problems'][:3]))
        for k in allk:
            if raw['stored'].get(k) != model[k]:
                raise Fail({'C03', 'C02'}, f'after {kind}: key {k[:8]} is not recoverable from the raw files')

    def _chk_dedup(self, op, before, raw):
        from disk_objectstore.exceptions import NotExistent
        c, ht, model, pool = self.c, self.ht, self.model, self.pool
        allk = sorted(model)
        miss = [H(ht, b) for b in pool if H(ht, b) not in model][:6]
        kind = op['op']
        # C09: at most one row / one loose per key is implied by raw checks; no_holes leaves no unreferenced bytes
        if kind.startswith('topack') and op['no_holes'] and before is not None:
            for pid, data in raw['packs'].items():
                ref_before = sum(r[4] for r in before['rows'] if r[2] == pid)
                ref_after = sum(r[4] for r in raw['rows'] if r[2] == pid)
                grown = len(data) - len(before['packs'].get(pid, b''))
                if grown != ref_after - ref_before:
                    raise Fail({'C09'}, f'no_holes add (read_twice={op["read_twice"]}) grew pack {pid} by {grown} bytes for {ref_after - ref_before} newly referenced bytes')

    def _chk_modes(self, op, before, raw):
        from disk_objectstore.exceptions import NotExistent
        c, ht, model, pool = self.c, self.ht, self.model, self.pool
        allk = sorted(model)
        miss = [H(ht, b) for b in pool if H(ht, b) not in model][:6]
        kind = op['op']
        # C10: metas vs rows and totals
        ts = c.get_total_size()
        if ts['total_size_packed'] != sum(r[6] for r in raw['rows']) or ts['total_size_packed_on_disk'] != sum(r[4] for r in raw['rows']) \
                or ts['total_size_loose'] != sum(len(b) for b in raw['loose'].values()) \
                or ts['total_size_packfiles_on_disk'] != sum(len(b) for p, b in raw['packs'].items() if p >= 0):
            raise Fail({'C10'}, f'get_total_size {dict(ts)} differs from the sums over index/loose/packs')
        # the same numbers and count_objects from the extracted model (Totals.totals_of) on the raw state
        nbytes = sum(len(b) for b in raw['packs'].values()) + sum(len(b) for b in raw['loose'].values())
        if nbytes <= 300000 and all(p >= 0 for p in raw['packs']):
            import subprocess
            import common
            allkeys = sorted({r[1] for r in raw['rows']} | set(raw['loose']))
            rk = {k: i for i, k in enumerate(allkeys)}
            line = ('totals | ' + ','.join(f'{rk[r[1]]}:{r[2]}:{r[3]}:{r[4]}:{1 if r[5] else 0}:{r[6]}' for r in raw['rows']) + ' | '
                    + ','.join(f'{p}:{len(b)}' for p, b in sorted(raw['packs'].items())) + ' | ' + ','.join(f'{rk[k]}:{len(b)}' for k, b in raw['loose'].items()))
            pr = subprocess.run([os.path.join(common.OCAML, 'driver')], input=line + '\n', capture_output=True, text=True, timeout=120)
            co = c.count_objects()
            impl = [ts['total_size_packed'], ts['total_size_packed_on_disk'], ts['total_size_packfiles_on_disk'], ts['total_size_loose'],
                    co['packed'], co['loose'], co['pack_files']]
            mod = pr.stdout.split()
            self.totals_compared = getattr(self, 'totals_compared', 0) + 1
            if pr.returncode != 0 or mod != [str(x) for x in impl]:
                raise Fail({'C10', 'C02'}, f'get_total_size/count_objects {impl} differ from Totals.totals_of on the raw state: {pr.stdout.strip()[:120]} {pr.stderr[-120:]}')
            if impl[1] > impl[2]:
                raise Fail({'C10', 'C09'}, f'the index accounts for {impl[1]} stored bytes but the pack files hold only {impl[2]}')
        if kind in ('pack', 'repack'):
            mode = op.get('mode') or {'true': 'yes', 'false': 'no'}.get(op.get('compress'), op.get('compress'))
            prev = {r[1]: r for r in before['rows']} if before else {}
            for r in raw['rows']:
                k, comp = r[1], bool(r[5])
                affected = kind == 'repack' or k not in prev
                if not affected:
                    continue
                if mode == 'yes' and not comp:
                    raise Fail({'C10'}, f'{kind} with mode YES left {k[:8]} uncompressed')
                if mode == 'no' and comp:
                    raise Fail({'C10'}, f'{kind} with mode NO left {k[:8]} compressed')
                if mode == 'keep':
                    was = bool(prev[k][5]) if k in prev else False
                    if comp != was:
                        raise Fail({'C10'}, f'{kind} with mode KEEP changed the form of {k[:8]}')

    def _chk_delete_repack(self, op, before, raw):
        from disk_objectstore.exceptions import NotExistent
        c, ht, model, pool = self.c, self.ht, self.model, self.pool
        allk = sorted(model)
        miss = [H(ht, b) for b in pool if H(ht, b) not in model][:6]
        kind = op['op']
        # C11: repack leaves each pack = concatenation of live stored bytes, no empty packs
        if kind == 'repack':
            for pid, data in raw['packs'].items():
                rs = sorted((r for r in raw['rows'] if r[2] == pid), key=lambda r: r[3])
                if not rs:
                    raise Fail({'C11'}, f'repack left pack {pid} without live objects ({len(data)} bytes)')
                if pid < 0:
                    raise Fail({'C11'}, 'repack left the temporary pack behind')
                pos = 0
                for r in rs:
                    if r[3] != pos:
                        raise Fail({'C11'}, f'after repack pack {pid} has unreferenced bytes before offset {r[3]}')
                    pos += r[4]
                if pos != len(data):
                    raise Fail({'C11'}, f'after repack pack {pid} has {len(data) - pos} unreferenced trailing bytes')
        if kind == 'delete' and before is not None:
            gone = set(before['stored']) - set(model)
            for k in gone:
                if k in raw['loose'] or any(r[1] == k for r in raw['rows']) or any(f.startswith(k + '.') for f in raw['dups']):
                    raise Fail({'C11'}, f'deleted key {k[:8]} is still present (loose/index/duplicates)')
            for pid, data in before['packs'].items():
                if raw['packs'].get(pid) != data:
                    raise Fail({'C11', 'C13'}, f'delete_objects modified pack {pid}')

    def _chk_validate(self, op, before, raw):
        from disk_objectstore.exceptions import NotExistent
        c, ht, model, pool = self.c, self.ht, self.model, self.pool
        allk = sorted(model)
        miss = [H(ht, b) for b in pool if H(ht, b) not in model][:6]
        kind = op['op']
        # C12: no false positives
        v = c.validate()
        if not v.is_valid():
            raise Fail({'C12'}, f'validate() reports issues on a state reached through the public API after {kind}: { {k: len(x) for k, x in dataclass_items(v) if x} }')

    def _chk_layout(self, op, before, raw):
        from disk_objectstore.exceptions import NotExistent
        c, ht, model, pool = self.c, self.ht, self.model, self.pool
        allk = sorted(model)
        miss = [H(ht, b) for b in pool if H(ht, b) not in model][:6]
        kind = op['op']
        # C13: append-only + layout (repack-free histories)
        if not self.repacked and before is not None:
            lastref = {}
            for r in before['rows']:
                lastref[r[2]] = max(lastref.get(r[2], 0), r[3] + r[4])
            for pid, data in before['packs'].items():
                if pid not in raw['packs']:
                    raise Fail({'C13'}, f'pack {pid} vanished without repack')
                nref = lastref.get(pid, 0)
                if raw['packs'][pid][:nref] != data[:nref]:
                    raise Fail({'C13'}, f'referenced bytes of pack {pid} changed during {kind}')
                if len(raw['packs'][pid]) < nref:
                    raise Fail({'C13'}, f'pack {pid} shrank below its last referenced byte during {kind}')
            ids = sorted(raw['packs'])
            if ids != list(range(len(ids))):
                raise Fail({'C13'}, f'pack ids are {ids}, not consecutive from zero')
            tgt = self.cfg['pack_size_target']
            for i in ids[:-1]:
                if len(raw['packs'][i]) < tgt:
                    raise Fail({'C13'}, f'pack {i} ({len(raw["packs"][i])} bytes) is below the target {tgt} but pack {ids[-1]} exists')
                if before['packs'].get(i) is not None and i < max(before['packs']) and raw['packs'][i] != before['packs'][i]:
                    raise Fail({'C13'}, f'full pack {i} was written again during {kind}')

    def _chk_import_src(self, op, before, raw):
        from disk_objectstore.exceptions import NotExistent
        c, ht, model, pool = self.c, self.ht, self.model, self.pool
        allk = sorted(model)
        miss = [H(ht, b) for b in pool if H(ht, b) not in model][:6]
        kind = op['op']
        # C14: source untouched by import
        if kind == 'import':
            for k, b in self.srcmodel.items():
                if self.src.get_object_content(k) != b:
                    raise Fail({'C14'}, 'import modified the source container')
            # the compress option of import_objects is honoured for EVERY transferred object, whichever way it took (memory cache or, for
            # objects above the budget, stream to stream): every newly indexed entry is stored compressed iff compress was asked for
            if before is not None:
                old_ids = {tuple(r) for r in before['rows']}
                wrong = [r for r in raw['rows'] if tuple(r) not in old_ids and bool(r[5]) != bool(op['compress'])]
                if wrong:
                    raise Fail({'C10', 'C14'}, f'import with compress={op["compress"]} (target_memory_bytes={op["tmb"]}) stored {len(wrong)} of the new entries '
                                               f'{"un" if op["compress"] else ""}compressed (e.g. {wrong[0][1][:8]}, size {wrong[0][6]})')
            # objects the destination already holds are not written again (same hash: filtered out beforehand; different hash: no_holes):
            # every pack grew by exactly the bytes of the newly indexed entries
            if before is not None:
                old_rows = set(map(tuple, before['rows']))
                if self.ht2 == self.ht:
                    # same hash algorithm: content the destination held in ANY form (loose included) is not written again at all
                    held = {r[1] for r in before['rows']} | set(before['loose'])
                    again = sorted({r[1] for r in raw['rows'] if tuple(r) not in old_rows} & held)
                    if again:
                        raise Fail({'C14', 'C09'}, f'import (same hash {self.ht}) wrote and indexed {len(again)} objects the destination already held '
                                                   f'(e.g. {again[0][:8]}, held {"loose" if again[0] in before["loose"] else "packed"} before the import)')
                for pid, data in raw['packs'].items():
                    grown = len(data) - len(before['packs'].get(pid, b''))
                    newref = sum(r[4] for r in raw['rows'] if r[2] == pid and tuple(r) not in old_rows)
                    if grown != newref:
                        raise Fail({'C14', 'C09'}, f'import (hash {self.ht2}->{self.ht}) grew pack {pid} by {grown} bytes for {newref} newly indexed bytes: '
                                                   f'content the destination already held was written again')

    def _chk_fds(self, op, before, raw):
        from disk_objectstore.exceptions import NotExistent
        c, ht, model, pool = self.c, self.ht, self.model, self.pool
        allk = sorted(model)
        miss = [H(ht, b) for b in pool if H(ht, b) not in model][:6]
        kind = op['op']
        # C18: descriptors inside the container: only the SQLite files may stay open between operations
        left = [f for f in fd_census(self.d) if not f.startswith('packs.idx')]
        if left and not self.soft:
            self.soft.append(Fail({'C18'}, f'after {kind} the process still holds descriptors inside the container: {left[:4]}'))


    def run(self):
        before = raw_state(self.d, self.ht)
        for i, op in enumerate(self.case['ops']):
            self.step = i
            self.do(op)
            if self.checks == 'full':
                before = self.check_views(op, before)
            if self.on_step:
                self.on_step(self, i, op)
        self.c.close()
        for h in self.extra:
            h.close()
        left = fd_census(self.d)
        if left:
            raise Fail({'C18'}, f'after close() descriptors remain open inside the container: {left[:4]}')
        if self.soft:
            raise self.soft[0]


def dataclass_items(v):
    import dataclasses
    return [(f.name, getattr(v, f.name)) for f in dataclasses.fields(v)]


EXC_BY_OP = {'delete': {'C11'}, 'repack': {'C11', 'C10'}, 'import': {'C14'}, 'src_add': {'C14'}, 'src_pack': {'C14'}, 'topack': {'C09', 'C01'},
             'topack_stream': {'C09', 'C01'}, 'pack': {'C10'}, 'add': {'C01', 'C09'}, 'adds': {'C01', 'C09'}, 'loosen': {'C10'}}
EXC_BY_PROFILE = {'norepack': {'C13'}, 'dedup': {'C09'}, 'delete': {'C11'}, 'modes': {'C10'}, 'import': {'C14'}}


def run_case(case: dict, checks='full') -> tuple[set, str, int] | None:
    """returns None if the history passes, else (tags, message, step)"""
    root = common.scratch_root()
    r = Runner(case, root, checks=checks)
    try:
        r.run()
        return None
    except Fail as f:
        return (f.tags, f.msg, getattr(r, 'step', -1), getattr(f, 'all', [(sorted(f.tags), f.msg)]))
    except Exception as e:  # an unexpected exception of the library is a deviation from the dict: attributed to C02 and to the
        # property the failing step / the profile of the history is about (a repack that makes reads raise is a C11/C10 matter too)
        import traceback
        m = f'{type(e).__name__}: {e} | {traceback.format_exc()[-600:]}'
        step = getattr(r, 'step', -1)
        opk = case['ops'][step]['op'] if 0 <= step < len(case.get('ops', [])) else None
        tags = {'C02', 'EXC'} | EXC_BY_OP.get(opk, set()) | EXC_BY_PROFILE.get(case.get('profile'), set())
        return (tags, m, step, [(sorted(tags), m)])
    finally:
        r.close()
        shutil.rmtree(root, ignore_errors=True)


def shrink(case: dict, tags: set, budget=60) -> dict:
    """drop steps while a failure with an intersecting tag set persists"""
    best = case
    ops = list(case['ops'])
    # truncate after the failing step
    res = run_case(best)
    if res is None:
        return case
    ops = ops[:res[2] + 1]
    best = dict(case, ops=ops)
    i = 0
    tries = 0
    while i < len(ops) and tries < budget:
        cand = dict(case, ops=ops[:i] + ops[i + 1:])
        tries += 1
        r = run_case(cand)
        if r is not None and (r[0] & tags):
            ops = cand['ops']
            best = cand
        else:
            i += 1
    return best
