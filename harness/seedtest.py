"""Run checks against a seeded defect kept under /verif/seeded/<name>/: seedtest.py <name> <pid> [<pid> ...]
The patch is applied to a scratch worktree of /repo (outside /repo and /verif), the checks are pointed at it with VERIF_REPO,
their evidence/replays go to a scratch directory; the worktree is removed afterwards.  Updates meta.json (caught_by / missed_by)."""
import json
import os
import shutil
import subprocess
import sys
import tempfile

name, pids = sys.argv[1], sys.argv[2:]
tier = os.environ.get('SEED_TIER', 'quick')
sd = f'/verif/seeded/{name}'
wt = f'/tmp/mutv/run-{name}'
os.makedirs('/tmp/mutv', exist_ok=True)
subprocess.run(['git', '-C', '/repo', 'worktree', 'remove', '--force', wt], capture_output=True)
subprocess.run(['git', '-C', '/repo', 'worktree', 'add', '-f', wt, 'HEAD'], check=True, capture_output=True)
out = tempfile.mkdtemp(prefix='verif-seedout-', dir='/dev/shm')
try:
    r = subprocess.run(['git', '-C', wt, 'apply', os.path.join(sd, 'patch.diff')], capture_output=True, text=True)
    assert r.returncode == 0, r.stderr
    meta = json.load(open(os.path.join(sd, 'meta.json')))
    caught = dict(meta.get('caught_by', {}))
    missed = set(meta.get('missed_by', []))
    for pid in pids:
        env = dict(os.environ, VERIF_REPO=wt, VERIF_OUT_DIR=out, VERIF_TIER=tier)
        r = subprocess.run(['/verif/check', pid, '--tier', tier], capture_output=True, text=True, env=env, timeout=7200)
        lines = [l for l in r.stdout.splitlines() if l.startswith('VIOLATION')]
        fails = [l[:300] for l in r.stdout.splitlines() if 'concrete failure' in l][:2]
        broken = [l[:300] for l in r.stdout.splitlines() if 'obligation BROKEN' in l][:3]
        print(pid, 'rc', r.returncode, lines[:2], fails[:1])
        if r.returncode == 1 and lines:
            caught[pid] = {'tier': tier, 'violation_lines': [l.replace(out, '<out>') for l in lines[:2]], 'first_failure': fails[:1], 'broken_obligations': broken,
                           'concrete_input_found': not all('no-failing-input-found' in l for l in lines)}
            missed.discard(pid)
        else:
            missed.add(pid)
    meta['caught_by'] = caught
    meta['missed_by'] = sorted(missed - set(caught))
    json.dump(meta, open(os.path.join(sd, 'meta.json'), 'w'), indent=1)
finally:
    subprocess.run(['git', '-C', '/repo', 'worktree', 'remove', '--force', wt], capture_output=True)
    shutil.rmtree(out, ignore_errors=True)
    # the Coq side was regenerated from the mutated tree: bring it back to /repo
    subprocess.run(['/verif/setup.sh'], capture_output=True)
