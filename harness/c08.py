"""C08 - a long-open handle sees everything acknowledged through other handles (sequential multi-handle histories)."""
from __future__ import annotations

import multiprocessing as mp
import os
import random
import shutil

import common
import store
from common import Check

QUERIES = ['has', 'get', 'bulk', 'meta', 'list', 'count', 'total']


def gen(rnd: random.Random, nsteps: int) -> dict:
    k = rnd.randint(2, 4)
    cfg = {'hash_type': 'sha256', 'loose_prefix_len': rnd.choice([0, 2]), 'pack_size_target': rnd.choice([60, 4 * 1024 ** 3])}
    ops = []
    for _ in range(nsteps):
        x = rnd.random()
        if x < 0.3:
            ops.append({'op': 'add', 'h': rnd.randrange(k), 'i': rnd.randrange(13)})
        elif x < 0.42:
            ops.append({'op': 'pack', 'clean_per_pack': rnd.random() < 0.5, 'compress': rnd.random() < 0.5})
        elif x < 0.5:
            ops.append({'op': 'clean'})
        else:
            ops.append({'op': 'query', 'h': rnd.randrange(k), 'q': rnd.choice(QUERIES)})
    # ONE packing handle per history (C08: 'packing and cleaning through the packing handle'), not necessarily the handle that created the container
    return {'handles': k, 'cfg': cfg, 'ops': ops, 'packer': rnd.randrange(k)}


def run_case(case) -> tuple[str, int, dict] | None:
    common.use_repo()
    from disk_objectstore import Container
    root = common.scratch_root()
    d = os.path.join(root, 'c')
    hs = []
    try:
        c0 = Container(d)
        c0.init_container(clear=True, **case['cfg'])
        hs = [c0] + [Container(d) for _ in range(case['handles'] - 1)]
        pool = [b'obj-%d-' % i * (i + 1) for i in range(12)] + [b'']   # index 12: the zero-length object (packing it adds no byte to any pack)
        model = {}
        for step, op in enumerate(case['ops']):
            if op['op'] == 'add':
                b = pool[op['i']]
                model[hs[op['h']].add_object(b)] = b
            elif op['op'] == 'pack':
                hs[case.get('packer', 0)].pack_all_loose(compress=op['compress'], clean_loose_per_pack=op['clean_per_pack'])
            elif op['op'] == 'clean':
                hs[case.get('packer', 0)].clean_storage()
            else:
                h, q = hs[op['h']], op['q']
                keys = sorted(model)
                if q == 'has':
                    got = h.has_objects(keys)
                    if not all(got):
                        return (f'handle {op["h"]}: has_objects reports {got.count(False)} acknowledged objects as absent', step, op)
                elif q == 'get':
                    for k in keys:
                        try:
                            if h.get_object_content(k) != model[k]:
                                return (f'handle {op["h"]}: get_object_content returns wrong bytes for {k[:8]}', step, op)
                        except Exception as e:
                            return (f'handle {op["h"]}: get_object_content({k[:8]}) raised {type(e).__name__}', step, op)
                elif q == 'bulk':
                    got = h.get_objects_content(keys, skip_if_missing=False)
                    bad = [k for k in keys if got.get(k) != model[k]]
                    if bad:
                        return (f'handle {op["h"]}: bulk read misses or corrupts {len(bad)} acknowledged objects', step, op)
                elif q == 'meta':
                    for k, m in h.get_objects_meta(keys, skip_if_missing=False):
                        if m['type'].value == 'missing' or m['size'] != len(model[k]):
                            return (f'handle {op["h"]}: metadata of acknowledged object {k[:8]} is {m["type"].value}/{m["size"]}', step, op)
                elif q == 'list':
                    got = sorted(h.list_all_objects())
                    if got != keys:
                        return (f'handle {op["h"]}: list_all_objects reports {len(got)} keys, {len(set(keys) - set(got))} acknowledged objects missing, '
                                f'{len(got) - len(set(got))} repeated', step, op)
                elif q == 'count':
                    h.count_objects()  # may pin the handle's snapshot; stale counts are outside the property
                else:
                    h.get_total_size()
        return None
    finally:
        for h in hs:
            try:
                h.close()
            except Exception:
                pass
        shutil.rmtree(root, ignore_errors=True)


def _one(case):
    try:
        return run_case(case)
    except Exception as e:
        import traceback
        return (f'EXC {type(e).__name__}: {e} {traceback.format_exc()[-400:]}', -1, {})


def shrink(case):
    ops = list(case['ops'])
    r = run_case(case)
    if r is None:
        return case
    ops = ops[:r[1] + 1]
    i = 0
    while i < len(ops) - 1:
        cand = dict(case, ops=ops[:i] + ops[i + 1:])
        if run_case(cand) is not None:
            ops = cand['ops']
        else:
            i += 1
    return dict(case, ops=ops)


def fixed_cases():
    """the orders the suite cannot force: a query pins the snapshot, another handle packs and cleans, then the first handle queries"""
    out = []
    for q1 in QUERIES:
        for q2 in ['has', 'get', 'bulk', 'meta', 'list']:
            for cpp in (False, True):
                ops = [{'op': 'add', 'h': 1, 'i': 0}, {'op': 'query', 'h': 2, 'q': q1}, {'op': 'add', 'h': 2, 'i': 1},
                       {'op': 'pack', 'clean_per_pack': cpp, 'compress': False}, {'op': 'clean'}, {'op': 'query', 'h': 2, 'q': q2},
                       {'op': 'add', 'h': 0, 'i': 2}, {'op': 'query', 'h': 1, 'q': q2}]
                out.append({'handles': 3, 'cfg': {'hash_type': 'sha256', 'loose_prefix_len': 2, 'pack_size_target': 4 * 1024 ** 3}, 'ops': ops})
    # the handle that CREATED the container (init_container) is the long-open one; another handle adds, packs and cleans
    for q1 in ['has', 'count']:
        for q2 in ['has', 'get', 'bulk', 'meta', 'list']:
            ops = [{'op': 'add', 'h': 1, 'i': 0}, {'op': 'query', 'h': 0, 'q': q1}, {'op': 'add', 'h': 2, 'i': 1},
                   {'op': 'pack', 'clean_per_pack': False, 'compress': False}, {'op': 'clean'}, {'op': 'query', 'h': 0, 'q': q2}]
            out.append({'handles': 3, 'cfg': {'hash_type': 'sha256', 'loose_prefix_len': 2, 'pack_size_target': 4 * 1024 ** 3}, 'ops': ops, 'packer': 1})
    # the same order with the zero-length object as the only thing packed in between (no pack file grows)
    for q1 in ['has', 'count', 'meta']:
        for q2 in ['has', 'get', 'bulk', 'meta']:
            for comp in (False, True):
                ops = [{'op': 'add', 'h': 1, 'i': 0}, {'op': 'pack', 'clean_per_pack': False, 'compress': comp}, {'op': 'clean'},
                       {'op': 'query', 'h': 2, 'q': q1}, {'op': 'add', 'h': 1, 'i': 12},
                       {'op': 'pack', 'clean_per_pack': False, 'compress': comp}, {'op': 'clean'}, {'op': 'query', 'h': 2, 'q': q2}]
                out.append({'handles': 3, 'cfg': {'hash_type': 'sha256', 'loose_prefix_len': 2, 'pack_size_target': 4 * 1024 ** 3}, 'ops': ops})
    return out


def main(tier, seed, replay=None):
    ck = Check('C08', tier, seed)
    ck.cov['rule'] = ('sequential histories over 2-4 Container handles on one folder: adds through any handle, pack(+per-pack clean) and clean_storage '
                      'through handle 0, queries (has/get/bulk/meta/list/count/total) through any handle at any point; 70 fixed histories placing a '
                      'snapshot-pinning query before another handle packs and cleans, plus random ones; distinct by operation sequence')
    ck.coq()
    import tracecheck
    tracecheck.check_traces(ck, ck.pid, names=['add', 'pack', 'pack_clean', 'clean', 'pack_then_clean'])
    rnd = ck.rng
    cases = fixed_cases() + [gen(rnd, rnd.randint(8, 25)) for _ in range(300 if tier == 'quick' else 6000)]
    with mp.get_context('fork').Pool(min(common.NPROC, 14)) as pool:
        results = pool.map(_one, cases, chunksize=4)
    nf = 0
    qdist = {}
    for case, r in zip(cases, results):
        ck.count([(o['op'], o.get('h'), o.get('q')) for o in case['ops']], nontrivial=True)
        for o in case['ops']:
            if o['op'] == 'query':
                qdist[o['q']] = qdist.get(o['q'], 0) + 1
        if r is not None:
            nf += 1
            if nf <= 2:
                small = shrink(case)
                r2 = run_case(small) or r
                ck.fail(f'{r2[0]} (history of {len(small["ops"])} steps over {case["handles"]} handles)',
                        {'kind': 'multi-handle-history', 'case': small, 'failing_step': r2[1]}, f'C08:{(r2[2] or {}).get("q", "exc")}')
    ck.cov['query_distribution'] = qdist
    try:
        import lookupcorr
        lookupcorr.run(ck, tier, ncont=4 if tier == 'quick' else 30)   # ties Lookup.lookup_bulk (C08_bulk_lookup_*) to the generator
    except Exception as e:
        ck.obligation('lookup-generator correspondence executed', False, f'{type(e).__name__}: {e}', kind='correspondence')
    ck.sample(cases[0])
    ck.sample(cases[-1])
    import tracecheck as _tc
    return ck.finish(search=_tc.crash_search(ck, ck.pid))
