"""C16 - bulk operations independent of batch size / lookup strategy; sorted-merge helpers."""
from __future__ import annotations

import hashlib
import itertools
import os
import random
import shutil
import subprocess

import common
from common import Check


def _driver(lines: list[str]) -> list[str]:
    r = subprocess.run([os.path.join(common.OCAML, 'driver')], input='\n'.join(lines) + '\n', capture_output=True, text=True, timeout=600)
    out = r.stdout.splitlines()
    if len(out) != len(lines):
        raise RuntimeError(f'driver returned {len(out)} lines for {len(lines)} commands: {r.stderr[-300:]}')
    return out


def impl_dws(utils, L, R, with_key):
    """run the implementation; L is a list of (key, payload)"""
    if with_key:
        left = [(p, k) for k, p in L]  # payload first: key is x[1], as the callers do with rows
        gen = utils.detect_where_sorted(left, list(R), left_key=lambda x: x[1])
    else:
        left = [k for k, _ in L]
        gen = utils.detect_where_sorted(left, list(R))
    out = []
    status = 'ok'
    try:
        for item, where in gen:
            w = {utils.Location.LEFTONLY: 'L', utils.Location.BOTH: 'B', utils.Location.RIGHTONLY: 'R'}[where]
            if w == 'R':
                out.append(f'{item}:-:R')
            elif with_key:
                out.append(f'{item[1]}:{item[0]}:{w}')
            else:
                out.append(f'{item}:{item}:{w}')
    except ValueError as e:
        status = 'errleft' if 'left iterator' in str(e) else ('errright' if 'right iterator' in str(e) else 'err?')
    return f'{status} {",".join(out)}'


def oracle_dws(L, R):
    """independent oracle for sorted unique inputs: set classification, sorted by key"""
    lk = {k: p for k, p in L}
    rs = set(R)
    out = []
    for k in sorted(set(lk) | rs):
        if k in lk and k in rs:
            out.append(f'{k}:{lk[k]}:B')
        elif k in lk:
            out.append(f'{k}:{lk[k]}:L')
        else:
            out.append(f'{k}:-:R')
    return 'ok ' + ','.join(out)


def strictly_sorted(l):
    return all(a < b for a, b in zip(l, l[1:]))


def helpers(ck: Check, utils, tier):
    U = list(range(6))
    subsets = [list(c) for n in range(len(U) + 1) for c in itertools.combinations(U, n)]
    cases = []  # (L, R, with_key)
    for a in subsets:
        for b in subsets:
            cases.append(([(k, 100 + k) for k in a], b, True))
    # without left_key: payload = key
    for a in subsets[::3]:
        for b in subsets[::2]:
            cases.append(([(k, k) for k in a], b, False))
    # unsorted / duplicated side, length <= 4 (quick: <= 3)
    maxlen = 4 if tier == 'thorough' else 3
    bad = [list(t) for n in range(2, maxlen + 1) for t in itertools.product(range(4), repeat=n) if not strictly_sorted(t)]
    good = [s for s in subsets if len(s) <= 3 and all(x < 4 for x in s)]
    for t in bad:
        for g in good:
            cases.append(([(k, 100 + k) for k in t], g, True))
            cases.append(([(k, 100 + k) for k in g], t, True))
    # random long pairs
    rng = ck.rng
    for _ in range(300 if tier == 'quick' else 3000):
        n, m = rng.randint(0, 60), rng.randint(0, 60)
        a = sorted(rng.sample(range(100), n))
        b = sorted(rng.sample(range(100), m))
        if rng.random() < 0.2 and len(a) > 2:
            i = rng.randrange(len(a) - 1)
            a[i + 1] = a[i] if rng.random() < 0.5 else a[i] - 1
        if rng.random() < 0.2 and len(b) > 2:
            i = rng.randrange(len(b) - 1)
            b[i + 1] = b[i] if rng.random() < 0.5 else b[i] - 1
        wk = rng.random() < 0.7
        cases.append(([(k, 1000 + k if wk else k) for k in a], b, wk))
    lines = []
    for L, R, wk in cases:
        lines.append('dws ' + ','.join(f'{k}:{p}' for k, p in L) + '|' + ','.join(map(str, R)))
    model = _driver(lines)
    nbad = 0
    ndis = 0
    for (L, R, wk), mo in zip(cases, model):
        im = impl_dws(utils, L, R, wk)
        srt = strictly_sorted([k for k, _ in L]) and strictly_sorted(R)
        ck.count(('dws', L, R, wk), nontrivial=bool(L or R))
        if im != mo:
            ndis += 1
            if ndis <= 3:
                ck.notes.append(f'dws disagreement impl={im} model={mo} on L={L} R={R} left_key={wk}')
        # direct oracle on the implementation
        if srt:
            exp = oracle_dws(L, R)
            if im != exp:
                nbad += 1
                if nbad <= 1:
                    ck.fail(f'detect_where_sorted misclassifies sorted unique input: got {im!r} expected {exp!r}',
                            {'kind': 'dws', 'L': L, 'R': R, 'left_key': wk, 'got': im, 'expected': exp}, 'dws-misclassify')
        else:
            if im.startswith('ok'):
                nbad += 1
                if nbad <= 1:
                    ck.fail(f'detect_where_sorted accepts unsorted/non-unique input silently: {im!r}',
                            {'kind': 'dws', 'L': L, 'R': R, 'left_key': wk, 'got': im}, 'dws-accepts-unsorted')
    ck.obligation('correspondence: utils.detect_where_sorted == Merge.dws (extracted) on all sorted pairs over a 6-universe, '
                  'unsorted sides, random long pairs', ndis == 0, f'{ndis} disagreements of {len(cases)}', kind='correspondence')
    ck.sample({'dws': lines[1234][:120], 'model': model[1234][:160]})
    # merge_sorted
    mcases = [(a, b) for a in subsets[::5] for b in subsets[::7]]
    mlines = ['merge ' + ','.join(map(str, a)) + '|' + ','.join(map(str, b)) for a, b in mcases]
    mm = _driver(mlines)
    nd = 0
    for (a, b), mo in zip(mcases, mm):
        im = 'ok ' + ','.join(map(str, utils.merge_sorted(a, b)))
        ck.count(('merge', a, b), nontrivial=bool(a or b))
        if im != mo:
            nd += 1
        exp = 'ok ' + ','.join(map(str, sorted(set(a) | set(b))))
        if im != exp:
            ck.fail(f'merge_sorted wrong: {im} vs {exp}', {'kind': 'merge', 'a': a, 'b': b}, 'merge-sorted-wrong')
    ck.obligation('correspondence: utils.merge_sorted == Merge.merge_sorted (extracted)', nd == 0, f'{nd} disagreements', kind='correspondence')
    # chunk_iterator
    clines, ccases = [], []
    for n in range(1, 8):
        for ln in range(0, 23):
            ccases.append((n, list(range(ln))))
            clines.append(f'chunks {n}|' + ','.join(map(str, range(ln))))
    cm = _driver(clines)
    nd = 0
    for (n, l), mo in zip(ccases, cm):
        im = ';'.join(','.join(map(str, c)) for c in utils.chunk_iterator(l, n))
        ck.count(('chunks', n, len(l)), nontrivial=len(l) > 0)
        if im != mo:
            nd += 1
        flat = [x for c in utils.chunk_iterator(l, n) for x in c]
        sizes = [len(c) for c in utils.chunk_iterator(l, n)]
        if flat != l or any(s == 0 or s > n for s in sizes) or any(s != n for s in sizes[:-1]):
            ck.fail(f'chunk_iterator loses/duplicates/mis-sizes elements for n={n} len={len(l)}', {'kind': 'chunks', 'n': n, 'len': len(l)}, 'chunk-iterator')
    ck.obligation('correspondence: utils.chunk_iterator == Chunks.chunks (extracted)', nd == 0, f'{nd} disagreements', kind='correspondence')


def vm_route(ck: Check, utils):
    """second route for the pure model, without extraction: coqc evaluates dws with vm_compute on a cases file"""
    rng = random.Random(ck.seed + 77)
    cases = []
    for _ in range(120):
        a = sorted(rng.sample(range(12), rng.randint(0, 7)))
        b = sorted(rng.sample(range(12), rng.randint(0, 7)))
        if rng.random() < 0.25 and len(a) > 1:
            a[1] = a[0]
        cases.append(([(k, 50 + k) for k in a], b))
    d = common.scratch_root()
    path = os.path.join(d, 'cases16.v')

    def zl(l):
        return '[' + '; '.join(map(str, l)) + ']'

    with open(path, 'w') as f:
        f.write('From Coq Require Import List ZArith.\nFrom DOS Require Import Merge.\nImport ListNotations.\nOpen Scope Z_scope.\n')
        f.write('Definition st_code (s : status) : Z := match s with Ok => 0 | ErrLeft => 1 | ErrRight => 2 | OutOfFuel => 3 end.\n')
        f.write('Definition loc_code (l : loc) : Z := match l with LEFTONLY => 0 | BOTH => 1 | RIGHTONLY => 2 end.\n')
        f.write('Definition flat (r : list item * status) : list Z := st_code (snd r) :: flat_map (fun i => [fst (fst i); match snd (fst i) with Some p => p | None => -1 end; loc_code (snd i)]) (fst r).\n')
        f.write('Definition cases : list (list (Z*Z) * list Z) := [\n')
        f.write(';\n'.join('(' + '[' + '; '.join(f'({k},{p})' for k, p in L) + '], ' + zl(R) + ')' for L, R in cases))
        f.write('].\nEval vm_compute in map (fun c => flat (dws (fst c) (snd c))) cases.\n')
    rc, out, err, dt = common.run(['coqc', '-Q', os.path.join(common.COQ, 'theories'), 'DOS', path], 300, cwd=d)
    if rc != 0:
        ck.obligation('correspondence (vm_compute route): cases.v evaluates', False, (err or out)[-400:], kind='correspondence')
        return
    import re
    txt = out[out.index('= ') + 2:]
    txt = txt[:txt.rindex(':')]
    lists = re.findall(r'\[([^\[\]]*)\]', txt.replace('\n', ' '))
    got = [[int(x) for x in l.split(';') if x.strip()] for l in lists]
    nd = 0
    for (L, R), g in zip(cases, got):
        im = impl_dws(utils, L, R, True)
        st, items = im.split(' ', 1) if ' ' in im else (im, '')
        flat = [{'ok': 0, 'errleft': 1, 'errright': 2}[st.strip()]]
        for it in [x for x in items.split(',') if x]:
            k, p, w = it.split(':')
            flat += [int(k), -1 if p == '-' else int(p), {'L': 0, 'B': 1, 'R': 2}[w]]
        if flat != g:
            nd += 1
    ck.obligation('correspondence (vm_compute route, no extraction): detect_where_sorted == Merge.dws on 120 cases',
                  nd == 0 and len(got) == len(cases), f'{nd} disagreements, {len(got)} results', kind='correspondence')


def fake_key(i, ht='sha256'):
    return hashlib.new(ht, b'missing-%d' % i).hexdigest()


def page_boundaries(ck: Check, pid='C16'):
    """index sizes exactly at, one below and one above the multiples of the 1000-row page used when the index is walked by primary key
    (list_all_objects, the known-keys listing of no_holes): every packed key is listed once; content that is already packed - the most
    recently packed object included - is recognised by no_holes=True in both modes: the pack does not grow, no row is added"""
    import sqlite3
    common.use_repo()
    from disk_objectstore import Container
    root = common.scratch_root()
    try:
        for n in (999, 1000, 1001, 2000):
            for rt in (True, False):
                d = os.path.join(root, f'p{n}{int(rt)}')
                c = Container(d)
                c.init_container(clear=True, pack_size_target=10 ** 9)
                contents = [b'page-%d-' % i * (1 + i % 3) for i in range(n)]
                keys = c.add_objects_to_pack(contents, compress=False)
                size0 = os.path.getsize(os.path.join(d, 'packs', '0'))
                again = [contents[-1], contents[0], contents[n // 2], contents[-1]]
                k2 = c.add_objects_to_pack(again, no_holes=True, no_holes_read_twice=rt)
                size1 = os.path.getsize(os.path.join(d, 'packs', '0'))
                con = sqlite3.connect(os.path.join(d, 'packs.idx'))
                nrows = con.execute('select count(*) from db_object').fetchone()[0]
                con.close()
                listed = list(c.list_all_objects())
                case = {'kind': 'page-boundary', 'rows': n, 'read_twice': rt}
                ck.count(('page-boundary', n, rt), nontrivial=True)
                if k2 != [keys[-1], keys[0], keys[n // 2], keys[-1]]:
                    ck.fail(f'no_holes re-add of packed content returns other keys (index of {n} rows)', case, f'{pid}:page-keys')
                if size1 != size0 or nrows != n:
                    ck.fail(f'storing content that is already packed with no_holes=True (read_twice={rt}) on an index of exactly {n} rows grew the pack '
                            f'{size0} -> {size1} bytes / rows {n} -> {nrows}', case, f'{pid}:page-noholes')
                if sorted(listed) != sorted(keys):
                    ck.fail(f'list_all_objects lists {len(listed)} ({len(set(listed))} distinct) keys for an index of {n} rows', case, f'{pid}:page-list')
                if c.get_object_content(keys[-1]) != contents[-1]:
                    ck.fail(f'last packed object of an index of {n} rows does not read back', case, f'{pid}:page-read')
                c.close()
                shutil.rmtree(d, ignore_errors=True)
    finally:
        shutil.rmtree(root, ignore_errors=True)
    ck.cov['page_boundary_index_sizes'] = [999, 1000, 1001, 2000]


def bulk_api(ck: Check, dos, tier, lowered: bool):
    from disk_objectstore import Container
    root = common.scratch_root()
    C = Container
    saved = (C._IN_SQL_MAX_LENGTH, C._MAX_CHUNK_ITERATE_LENGTH)
    rng = ck.rng
    try:
        if lowered:
            C._IN_SQL_MAX_LENGTH, C._MAX_CHUNK_ITERATE_LENGTH = 3, 7
        c = Container(os.path.join(root, 'c'))
        c.init_container(clear=True, pack_size_target=2000 if lowered else 40000)
        truth = {}
        npacked = 14 if lowered else 2001
        contents = [b'p%d' % i * (1 + i % 5) for i in range(npacked)]
        keys = c.add_objects_to_pack(contents, compress=False)
        truth.update(zip(keys, contents))
        # both loose and packed
        both = [b'both%d' % i for i in range(5 if lowered else 12)]
        for b in both:
            truth[c.add_object(b)] = b
        c.pack_all_loose(compress=True)
        loose = [b'loose%d' % i * 3 for i in range(6 if lowered else 40)]
        for b in loose:
            truth[c.add_object(b)] = b
        present = list(truth)
        sizes = list(range(0, 13)) if lowered else [0, 1, 949, 950, 951, 1900, 9499, 9500, 9501, 12000]
        for size in sizes:
            for variant in range(3 if lowered else 1):
                # request: a mix of present and missing keys, with repetitions, shuffled
                npres = min(len(present), rng.randint(0, size)) if lowered else min(len(present), size * 2 // 3)
                req = rng.sample(present, npres)
                req += [fake_key(i) for i in range(size - len(req))]
                if size > 2:
                    for _ in range(max(1, size // 10)):
                        req[rng.randrange(size)] = req[rng.randrange(size)]
                rng.shuffle(req)
                distinct = set(req)
                case = {'kind': 'bulk', 'lowered': lowered, 'size': size, 'distinct': len(distinct), 'present': sum(1 for k in distinct if k in truth)}
                ck.count(('bulk', lowered, size, variant), nontrivial=size > 0)
                # has_objects
                got = c.has_objects(req)
                exp = [k in truth for k in req]
                if got != exp:
                    ck.fail(f'has_objects differs from per-key answers for a request of {size} keys (lowered={lowered})', case, 'bulk-has')
                # meta, skip_if_missing both ways
                for skip in (True, False):
                    metas = list(c.get_objects_meta(req, skip_if_missing=skip))
                    ks = [k for k, _ in metas]
                    expk = sorted(k for k in distinct if (k in truth or not skip))
                    if sorted(ks) != expk:
                        ck.fail(f'get_objects_meta reports wrong key multiset (size={size}, skip={skip}, lowered={lowered}): '
                                f'{len(ks)} yielded, {len(expk)} expected, dup={len(ks) - len(set(ks))}', case, 'bulk-meta-keys')
                    for k, m in metas:
                        if k in truth:
                            if m['size'] != len(truth[k]) or m['type'].value == 'missing':
                                ck.fail(f'get_objects_meta wrong size/type for {k[:8]}', case, 'bulk-meta-size')
                                break
                        elif m['type'].value != 'missing':
                            ck.fail(f'get_objects_meta reports a missing key as {m["type"]}', case, 'bulk-meta-missing')
                            break
                # contents
                if size <= 2000:
                    for skip in (True, False):
                        cont = c.get_objects_content(req, skip_if_missing=skip)
                        expc = {k: truth.get(k) for k in distinct if (k in truth or not skip)}
                        if cont != expc:
                            ck.fail(f'get_objects_content differs from per-key reads (size={size}, skip={skip}, lowered={lowered})', case, 'bulk-content')
                    with c.get_objects_stream_and_meta(req, skip_if_missing=False) as trip:
                        seen = []
                        for k, s, m in trip:
                            seen.append(k)
                            data = s.read() if s is not None else None
                            if data != truth.get(k):
                                ck.fail(f'get_objects_stream_and_meta wrong bytes for {k[:8]}', case, 'bulk-stream')
                                break
                        if sorted(seen) != sorted(distinct):
                            ck.fail(f'get_objects_stream_and_meta yields {len(seen)} for {len(distinct)} distinct keys', case, 'bulk-stream-keys')
                # single-key operations on a sample agree with the bulk answers
                for k in rng.sample(req, min(len(req), 25)):
                    if c.has_object(k) != (k in truth):
                        ck.fail('has_object differs from truth', case, 'single-has')
                    if k in truth and c.get_object_content(k) != truth[k]:
                        ck.fail('get_object_content differs from truth', case, 'single-get')
        ck.sample({'bulk_request_sizes': sizes, 'lowered_thresholds': lowered, 'objects': len(truth)})
        # listing with paging (1000-row pages): each key once
        la = list(c.list_all_objects())
        ck.count(('list', lowered), nontrivial=True)
        if sorted(la) != sorted(truth):
            ck.fail(f'list_all_objects: {len(la)} keys listed ({len(set(la))} distinct) for {len(truth)} objects', {'kind': 'list', 'lowered': lowered}, 'list-all')
        # paging model vs implementation order of the packed part
        import sqlite3
        con = sqlite3.connect(os.path.join(root, 'c', 'packs.idx'))
        rows = con.execute('select id, hashkey from db_object order by id').fetchall()
        con.close()
        ids = [r[0] for r in rows]
        mo = _driver([f'paging {int(ck.constants["LIST_YIELD_PER"]) if ck.constants else 1000}|' + ','.join(map(str, ids))])[0]
        ok = mo == ','.join(map(str, ids)) and la[:len(rows)] == [r[1] for r in rows]
        ck.obligation(f'correspondence: list_all_objects packed part == Chunks.paging over the index ids (lowered={lowered})', ok,
                      f'{len(rows)} rows', kind='correspondence')
        # maintenance operations with the merge path: pack_all_loose / clean_storage / import
        c2 = Container(os.path.join(root, 'c2'))
        c2.init_container(clear=True, pack_size_target=3000)
        nloose = 12 if lowered else (9600 if tier == 'thorough' else 0)
        if nloose:
            t2 = {}
            objs = [b'L%d' % i for i in range(nloose)]
            if nloose > 100:
                # plant files directly (cheap), they are valid loose objects
                for o in objs:
                    k = hashlib.sha256(o).hexdigest()
                    p = c2._get_loose_path_from_hashkey(k)
                    os.makedirs(os.path.dirname(p), exist_ok=True)
                    with open(p, 'wb') as f:
                        f.write(o)
                    t2[k] = o
            else:
                for o in objs:
                    t2[c2.add_object(o)] = o
            # some are already packed as well
            c2.add_objects_to_pack(objs[:nloose // 3])
            c2.pack_all_loose()
            cnt = c2.count_objects()
            ck.count(('pack_all', lowered, nloose), nontrivial=True)
            if cnt['packed'] != len(t2):
                ck.fail(f'pack_all_loose over {nloose} loose objects (lowered={lowered}) left {cnt["packed"]} packed of {len(t2)}',
                        {'kind': 'pack_all', 'lowered': lowered, 'nloose': nloose}, 'bulk-pack-all')
            c2.clean_storage()
            cnt = c2.count_objects()
            if cnt['loose'] != 0 or sorted(c2.list_all_objects()) != sorted(t2):
                ck.fail(f'clean_storage over {nloose} loose objects (lowered={lowered}) left {cnt["loose"]} loose',
                        {'kind': 'clean', 'lowered': lowered, 'nloose': nloose}, 'bulk-clean')
            # import: requested keys present/absent/repeated
            c3 = Container(os.path.join(root, 'c3'))
            c3.init_container(clear=True, pack_size_target=3000)
            pre = objs[: nloose // 4]
            for o in pre[: len(pre) // 2]:
                c3.add_object(o)
            c3.pack_all_loose()          # packed and still loose (no clean_storage): the destination lists these keys twice
            c3.add_objects_to_pack(pre[len(pre) // 2:])
            pre = pre + [b'destination-only loose object']
            c3.add_object(pre[-1])
            reqk = list(t2)[: (nloose * 3) // 4] + [fake_key(i) for i in range(5)]
            reqk = reqk + reqk[:3]
            rng.shuffle(reqk)
            mp = c3.import_objects(reqk, c2)
            exp_keys = set(k for k in reqk if k in t2) | {hashlib.sha256(o).hexdigest() for o in pre}
            if sorted(c3.list_all_objects()) != sorted(exp_keys):
                ck.fail(f'import_objects over {len(reqk)} requested keys (lowered={lowered}): wrong key set afterwards',
                        {'kind': 'import', 'lowered': lowered, 'nloose': nloose}, 'bulk-import')
            t2[hashlib.sha256(pre[-1]).hexdigest()] = pre[-1]
            for k in rng.sample(sorted(exp_keys), min(20, len(exp_keys))):
                if c3.get_object_content(k) != t2[k]:
                    ck.fail('import_objects: wrong bytes after import', {'kind': 'import', 'lowered': lowered}, 'bulk-import-bytes')
            c3.close()
        c2.close()
        c.close()
    finally:
        C._IN_SQL_MAX_LENGTH, C._MAX_CHUNK_ITERATE_LENGTH = saved


def main(tier, seed, replay=None):
    ck = Check('C16', tier, seed)
    ck.cov['rule'] = ('helpers: all pairs of strictly sorted subsets of a 6-element universe (with and without left_key), all pairs with '
                      'one unsorted/duplicated side of length <= 3 (thorough 4), random pairs up to length 60; bulk API: request sizes '
                      'straddling 950/9500 at the real thresholds and every size 0..12 with thresholds lowered to (3,7); a case is non-trivial '
                      'when its inputs are non-empty; distinct by input')
    ck.coq()
    dos = common.use_repo()
    from disk_objectstore import utils
    try:
        helpers(ck, utils, tier)
        vm_route(ck, utils)
    except Exception as e:
        ck.obligation('helper correspondence executed', False, f'{type(e).__name__}: {e}', kind='correspondence')
    try:
        import lookupcorr
        lookupcorr.run(ck, tier)
    except Exception as e:
        ck.obligation('lookup-generator correspondence executed', False, f'{type(e).__name__}: {e}', kind='correspondence')
    try:
        bulk_api(ck, dos, tier, lowered=True)
        bulk_api(ck, dos, tier, lowered=False)
        page_boundaries(ck)
    except Exception as e:
        import traceback
        ck.fail(f'bulk API run raised {type(e).__name__}: {e}', {'kind': 'bulk', 'traceback': traceback.format_exc()[-1500:]}, 'bulk-exception')
    ck.assumptions += ['keys are compared as Python str / SQLite TEXT with the same order (hex digests)',
                       'the lookup generator is modelled (Lookup.lookup_bulk) and proved equal to the per-key lookup; the other bulk operations (pack/clean/import) are differential testing against a dict and the single-key operations']
    return ck.finish()
