"""C17 - an I/O error in the middle of an operation leaves the store intact (single fault at every gated call + rerun)."""
import c05


def main(tier, seed, replay=None):
    return c05.main(tier, seed, replay, pid='C17', mode='fault', powerloss=False)
