(* driver_ext.ml - further commands (streams, container model); filled in as the model grows *)
let register (_ : (string * (string -> unit)) list ref) = ()
