(* driver.ml - runs the extracted Gallina model on inputs written by the Python harness.
   One command per line on stdin, one result line per command on stdout.  Integers are decimal. *)
open Model

let rec pos_of_int n = if n = 1 then XH else if n land 1 = 0 then XO (pos_of_int (n lsr 1)) else XI (pos_of_int (n lsr 1))
let z_of_int n = if n = 0 then Z0 else if n > 0 then Zpos (pos_of_int n) else Zneg (pos_of_int (-n))
let rec int_of_pos = function XH -> 1 | XO p -> 2 * int_of_pos p | XI p -> 2 * int_of_pos p + 1
let int_of_z = function Z0 -> 0 | Zpos p -> int_of_pos p | Zneg p -> - (int_of_pos p)
let rec nat_of_int n = if n <= 0 then O else S (nat_of_int (n - 1))
let rec int_of_nat = function O -> 0 | S n -> 1 + int_of_nat n

let split_on c s = if s = "" then [] else String.split_on_char c s
let ints s = List.map int_of_string (split_on ',' s)

let loc_s = function LEFTONLY -> "L" | BOTH -> "B" | RIGHTONLY -> "R"
let status_s = function Ok -> "ok" | ErrLeft -> "errleft" | ErrRight -> "errright" | OutOfFuel -> "outoffuel"

let cmd_dws args =
  (* dws k:p,k:p,... | k,k,... *)
  let l, r = match String.split_on_char '|' args with [a; b] -> a, b | _ -> failwith "dws: bad args" in
  let l = List.map (fun kp -> match String.split_on_char ':' kp with
                               | [k; p] -> (z_of_int (int_of_string k), z_of_int (int_of_string p))
                               | _ -> failwith "dws: bad left") (split_on ',' l) in
  let r = List.map z_of_int (ints r) in
  let (out, st) = dws l r in
  let item ((k, p), w) =
    Printf.sprintf "%d:%s:%s" (int_of_z k) (match p with Some p -> string_of_int (int_of_z p) | None -> "-") (loc_s w) in
  Printf.printf "%s %s\n" (status_s st) (String.concat "," (List.map item out))

let cmd_merge args =
  let l, r = match String.split_on_char '|' args with [a; b] -> a, b | _ -> failwith "merge: bad args" in
  let (out, st) = merge_sorted (List.map z_of_int (ints l)) (List.map z_of_int (ints r)) in
  Printf.printf "%s %s\n" (status_s st) (String.concat "," (List.map (fun k -> string_of_int (int_of_z k)) out))

let cmd_chunks args =
  (* chunks n | x,x,x *)
  let n, l = match String.split_on_char '|' args with [a; b] -> int_of_string a, ints b | _ -> failwith "chunks: bad args" in
  let out = chunks (nat_of_int n) l in
  Printf.printf "%s\n" (String.concat ";" (List.map (fun c -> String.concat "," (List.map string_of_int c)) out))

let cmd_paging args =
  (* paging n | id,id,...   (ids ascending) *)
  let n, l = match String.split_on_char '|' args with [a; b] -> int_of_string a, ints b | _ -> failwith "paging: bad args" in
  let rows = List.map (fun i -> (z_of_int i, ())) l in
  let out = paging (nat_of_int (List.length l + 1)) rows (z_of_int (-1)) (nat_of_int n) in
  Printf.printf "%s\n" (String.concat "," (List.map (fun (i, ()) -> string_of_int (int_of_z i)) out))

(* pick <target> <start> | size,size,... | kid:ksz or - *)
let cmd_pick args =
  match List.map String.trim (String.split_on_char '|' args) with
  | [hd; szs; known] ->
      (match split_on ' ' hd with
       | [target; start] ->
           let arr = Array.of_list (ints szs) in
           let sizes id = let i = int_of_z id in if i >= 0 && i < Array.length arr then Some (z_of_int arr.(i)) else None in
           let kn = if known = "-" then None else (match String.split_on_char ':' known with
                      | [a; b] -> Some (z_of_int (int_of_string a), z_of_int (int_of_string b)) | _ -> failwith "bad known") in
           (match pick (nat_of_int (Array.length arr + 2)) (override sizes kn) (z_of_int (int_of_string target)) (z_of_int (int_of_string start)) with
            | Some r -> Printf.printf "%d\n" (int_of_z r)
            | None -> print_endline "none")
       | _ -> failwith "pick: bad header")
  | _ -> failwith "pick: bad args"

(* estimate <L> <size> <sample> <maxs> <pos0> *)
let cmd_estimate args =
  match List.map int_of_string (split_on ' ' args) with
  | [l; size; sample; maxs; pos0] ->
      (match estimate (z_of_int l) (z_of_int size) (z_of_int sample) (z_of_int maxs) (z_of_int pos0) with
       | Some (targets, fin) -> Printf.printf "%s|%d\n" (String.concat "," (List.map (fun z -> string_of_int (int_of_z z)) targets)) (int_of_z fin)
       | None -> print_endline "outoffuel")
  | _ -> failwith "estimate: bad args"

(* plan <budget> | s0,s1,...  ->  batches of indices: D<i> or B<i>,<j>,... separated by spaces *)
let cmd_plan args =
  match List.map String.trim (String.split_on_char '|' args) with
  | [b; szs] ->
      let sizes = if szs = "" then [] else ints szs in
      let objs = List.mapi (fun i sz -> (i, nat_of_int sz)) sizes in
      let res = plan (fun o -> snd o) (nat_of_int (int_of_string b)) [] (nat_of_int 0) objs in
      print_endline (String.concat " " (List.map (fun bt -> match bt with
        | Direct o -> Printf.sprintf "D%d" (fst o)
        | Bulk os -> "B" ^ String.concat "," (List.map (fun o -> string_of_int (fst o)) os)) res))
  | _ -> failwith "plan: bad args"

(* segs <target> <size0> | l0,l1,...  ->  groups of indices per pack, separated by spaces *)
let cmd_segs args =
  match List.map String.trim (String.split_on_char '|' args) with
  | [hd; ls] ->
      (match split_on ' ' hd with
       | [target; size0] ->
           let lens = if ls = "" then [] else ints ls in
           let objs = List.mapi (fun i l -> (i, nat_of_int l)) lens in
           let res = segs (fun o -> snd o) (nat_of_int (List.length objs + 1)) (nat_of_int (int_of_string target)) (nat_of_int (int_of_string size0)) objs in
           print_endline (String.concat " " (List.map (fun sg -> String.concat "," (List.map (fun o -> string_of_int (fst o)) sg)) res))
       | _ -> failwith "segs: bad header")
  | _ -> failwith "segs: bad args"

(* ---- streams ---- *)
let n_of_int n = if n = 0 then N0 else Npos (pos_of_int n)
let int_of_n = function N0 -> 0 | Npos p -> int_of_pos p
let bytes_of s = List.map n_of_int (ints s)
let parse_op s =
  match s.[0] with
  | 't' -> Tell
  | 'r' -> Read (z_of_int (int_of_string (String.sub s 1 (String.length s - 1))))
  | 's' -> (match String.split_on_char ':' (String.sub s 1 (String.length s - 1)) with
            | [t; w] -> Seek (z_of_int (int_of_string t), z_of_int (int_of_string w))
            | _ -> failwith "bad seek")
  | _ -> failwith "bad op"
let res_s = function
  | RBytes b -> "b" ^ String.concat "." (List.map (fun x -> string_of_int (int_of_n x)) b)
  | RPos p -> "p" ^ string_of_int (int_of_z p)
  | RErr -> "E" | RAssert -> "A" | RNotImpl -> "N" | ROutOfFuel -> "F"
let parts args = List.map String.trim (String.split_on_char '|' args)

(* por <v0|v1> <off> <len> | pack | ops *)
let cmd_por args =
  match parts args with
  | [hd; pk; ops] ->
      (match split_on ' ' hd with
       | [v; off; len] ->
           let s = por_init (bytes_of pk) (z_of_int (int_of_string off)) (z_of_int (int_of_string len)) in
           let step = if v = "v0" then por_step0 else por_step in
           let rs = run_ops step s (List.map parse_op (split_on ' ' ops)) in
           print_endline (String.concat ";" (List.map res_s rs))
       | _ -> failwith "por: bad header")
  | _ -> failwith "por: bad args"

(* bio|fio content | ops *)
let cmd_bio which args =
  match parts args with
  | [c; ops] ->
      let s = { bcontent = bytes_of c; bpos = Z0 } in
      let rs = run_ops (if which then bio_step else fio_step) s (List.map parse_op (split_on ' ' ops)) in
      print_endline (String.concat ";" (List.map res_s rs))
  | _ -> failwith "bio: bad args"

(* zsd <lazy 0|1> <chunk> <seekchunk> | plain | oracle k:s,k:s,... (beyond the list: 0:1) | ops *)
let cmd_zsd args =
  match parts args with
  | [hd; pl; orc; ops] ->
      (match split_on ' ' hd with
       | [lz; ch; sc] ->
           let evs = Array.of_list (List.map (fun e -> match String.split_on_char ':' e with
                        | [k; s] -> (z_of_int (int_of_string k), s = "1") | _ -> failwith "bad ev") (split_on ',' orc)) in
           let orcf n = let i = int_of_nat n in if i < Array.length evs then evs.(i) else (Z0, true) in
           let s = zsd_init (bytes_of pl) (lz = "1") in
           let fuel = nat_of_int 100000 in
           let step = zsd_step orcf (z_of_int (int_of_string ch)) (z_of_int (int_of_string sc)) fuel in
           let rs = run_ops step s (List.map parse_op (split_on ' ' ops)) in
           print_endline (String.concat ";" (List.map res_s rs))
       | _ -> failwith "zsd: bad header")
  | _ -> failwith "zsd: bad args"


(* ---- container traces: verified monitor + event semantics ---- *)
let hex_to_bytes (h : string) =
  if h = "-" then [] else
  let n = String.length h / 2 in
  let rec go i acc = if i < 0 then acc else go (i - 1) (n_of_int (int_of_string ("0x" ^ String.sub h (2 * i) 2)) :: acc) in
  go (n - 1) []
let bytes_to_hex (b : n list) =
  if b = [] then "-" else String.concat "" (List.map (fun x -> Printf.sprintf "%02x" (int_of_n x)) b)
let hid_of kind id = if kind = "s" then HSand (nat_of_int (int_of_string id)) else HPack (z_of_int (int_of_string id))
let parse_row s =
  match String.split_on_char ',' s with
  | [k; p; o; l; c; sz] -> { rkey = n_of_int (int_of_string k); rpack = z_of_int (int_of_string p); roff = nat_of_int (int_of_string o);
                            rlen = nat_of_int (int_of_string l); rcomp = (c = "1"); rsize = nat_of_int (int_of_string sz) }
  | _ -> failwith ("bad row " ^ s)
let parse_rows s = List.map parse_row (split_on ';' s)
let parse_event toks =
  match toks with
  | ["opensand"; n] -> EOpenSand (nat_of_int (int_of_string n))
  | ["openpack"; id] -> EOpenPack (z_of_int (int_of_string id))
  | ["write"; k; id; hx] -> EWrite (hid_of k id, hex_to_bytes hx)
  | ["flush"; k; id] -> EFlush (hid_of k id)
  | ["fsync"; k; id] -> EFsync (hid_of k id)
  | ["close"; k; id] -> EClose (hid_of k id)
  | ["truncate"; id; pos] -> ETruncate (z_of_int (int_of_string id), nat_of_int (int_of_string pos))
  | ["publish"; n; k] -> EPublish (nat_of_int (int_of_string n), n_of_int (int_of_string k))
  | ["unlinksand"; n] -> EUnlinkSand (nat_of_int (int_of_string n))
  | ["unlinkloose"; k] -> EUnlinkLoose (n_of_int (int_of_string k))
  | ["unlinkpack"; id] -> EUnlinkPack (z_of_int (int_of_string id))
  | ["link"; a; b] -> ELinkPack (z_of_int (int_of_string a), z_of_int (int_of_string b))
  | ["insert"; ig; rows] -> ESql (SInsert (ig = "1", parse_rows rows))
  | ["insert"; ig] -> ESql (SInsert (ig = "1", []))
  | ["delete"; ks] -> ESql (SDelete (List.map (fun k -> n_of_int (int_of_string k)) (split_on ',' ks)))
  | ["delete"] -> ESql (SDelete [])
  | ["updaterows"; rows] -> ESql (SUpdateRows (parse_rows rows))
  | ["repoint"; a; b] -> ESql (SRepoint (z_of_int (int_of_string a), z_of_int (int_of_string b)))
  | ["commit"] -> ECommit
  | ["rollback"] -> ERollback
  | _ -> failwith ("bad event " ^ String.concat " " toks)

let hid_s = function HSand n -> Printf.sprintf "s %d" (int_of_nat n) | HPack id -> Printf.sprintf "p %d" (int_of_z id)
let row_s r = Printf.sprintf "%d,%d,%d,%d,%d,%d" (int_of_n r.rkey) (int_of_z r.rpack) (int_of_nat r.roff) (int_of_nat r.rlen)
                (if r.rcomp then 1 else 0) (int_of_nat r.rsize)
let event_s = function
  | EOpenSand n -> Printf.sprintf "opensand %d" (int_of_nat n)
  | EOpenPack id -> Printf.sprintf "openpack %d" (int_of_z id)
  | EWrite (h, b) -> Printf.sprintf "write %s %s" (hid_s h) (bytes_to_hex b)
  | EFlush h -> "flush " ^ hid_s h
  | EFsync h -> "fsync " ^ hid_s h
  | EClose h -> "close " ^ hid_s h
  | ETruncate (id, pos) -> Printf.sprintf "truncate %d %d" (int_of_z id) (int_of_nat pos)
  | EPublish (n, k) -> Printf.sprintf "publish %d %d" (int_of_nat n) (int_of_n k)
  | EUnlinkSand n -> Printf.sprintf "unlinksand %d" (int_of_nat n)
  | EUnlinkLoose k -> Printf.sprintf "unlinkloose %d" (int_of_n k)
  | EUnlinkPack id -> Printf.sprintf "unlinkpack %d" (int_of_z id)
  | ELinkPack (a, b) -> Printf.sprintf "link %d %d" (int_of_z a) (int_of_z b)
  | ESql (SInsert (ig, rs)) -> String.trim (Printf.sprintf "insert %d %s" (if ig then 1 else 0) (String.concat ";" (List.map row_s rs)))
  | ESql (SDelete ks) -> String.trim ("delete " ^ String.concat "," (List.map (fun k -> string_of_int (int_of_n k)) ks))
  | ESql (SUpdateRows rs) -> "updaterows " ^ String.concat ";" (List.map row_s rs)
  | ESql (SRepoint (a, b)) -> Printf.sprintf "repoint %d %d" (int_of_z a) (int_of_z b)
  | ECommit -> "commit"
  | ERollback -> "rollback"

let rec firstn_l n l = if n <= 0 then [] else match l with [] -> [] | x :: t -> x :: firstn_l (n - 1) t

let dump_world (w : world) =
  let f (fl : file) = bytes_to_hex fl.fdata ^ "/" ^ bytes_to_hex fl.fsynced in
  let ls = List.sort compare (List.map (fun (k, fl) -> Printf.sprintf "%d:%s" (int_of_n k) (f fl)) w.loose) in
  let ps = List.sort compare (List.map (fun (k, fl) -> Printf.sprintf "%d:%s" (int_of_z k) (f fl)) w.packs) in
  let ss = List.sort compare (List.map (fun (k, fl) -> Printf.sprintf "%d:%s" (int_of_nat k) (f fl)) w.sandbox) in
  let rs = List.map (fun r -> Printf.sprintf "%d,%d,%d,%d,%d,%d" (int_of_n r.rkey) (int_of_z r.rpack) (int_of_nat r.roff) (int_of_nat r.rlen)
                       (if r.rcomp then 1 else 0) (int_of_nat r.rsize)) w.db in
  Printf.sprintf "L %s|P %s|S %s|R %s" (String.concat ";" ls) (String.concat ";" ps) (String.concat ";" ss) (String.concat ";" rs)

let run_trace_block () =
  let htab : (n list, n) Hashtbl.t = Hashtbl.create 64 in
  let ztab : (n list, n list) Hashtbl.t = Hashtbl.create 64 in
  let loose = ref [] and packs = ref [] and rows = ref [] and truth = ref [] and targets = ref [] and evs = ref [] and progs = ref [] in
  let fin = ref false in
  while not !fin do
    let line = String.trim (input_line stdin) in
    match split_on ' ' line with
    | ["trace_end"] -> fin := true
    | ["H"; k; hx] -> Hashtbl.replace htab (hex_to_bytes hx) (n_of_int (int_of_string k))
    | ["Z"; blob; c] -> Hashtbl.replace ztab (hex_to_bytes blob) (hex_to_bytes c)
    | ["L"; k; hx] -> let d = hex_to_bytes hx in loose := (n_of_int (int_of_string k), { fdata = d; fsynced = d }) :: !loose
    | ["P"; id; hx] -> let d = hex_to_bytes hx in packs := (z_of_int (int_of_string id), { fdata = d; fsynced = d }) :: !packs
    | ["R"; r] -> rows := parse_row r :: !rows
    | ["T"; k; hx] -> truth := (n_of_int (int_of_string k), hex_to_bytes hx) :: !truth
    | ["G"; k] -> targets := n_of_int (int_of_string k) :: !targets
    | "E" :: toks -> evs := parse_event toks :: !evs
    | "X" :: toks -> progs := toks :: !progs
    | [] -> ()
    | _ -> failwith ("bad trace line " ^ line)
  done;
  let h b = match Hashtbl.find_opt htab b with Some k -> k | None -> N0 in
  let inflate b = Hashtbl.find_opt ztab b in
  let w0 = { loose = List.rev !loose; packs = List.rev !packs; sandbox = []; db = List.rev !rows } in
  let s0 = (w0, local0) in
  let tr = List.rev !evs in
  let truth = List.rev !truth and targets = !targets in
  let verdict pl =
    if monitor h inflate pl truth targets s0 tr then "ok"
    else begin
      (* locate the first failing prefix (the monitor itself is the verified checker; this only names the position) *)
      let n = List.length tr in
      let rec find i = if i > n then n else
        if monitor h inflate pl truth targets s0 (firstn_l i tr) then find (i + 1) else i in
      Printf.sprintf "fail@%d" (find 0)
    end in
  let (wf, _) = run_events s0 tr in
  let locate f = if f tr then "ok" else begin
      let n = List.length tr in
      let rec find i = if i > n then n else if f (firstn_l i tr) then find (i + 1) else i in
      Printf.sprintf "fail@%d" (find 0) end in
  (* model programs, each run from the world the previous one left *)
  let prog_events =
    let st = ref s0 and out = ref [] in
    List.iter (fun toks ->
      let (w, _) = !st in
      let evs = match toks with
        | ["add"; n; chunks] -> p_add_loose h w (nat_of_int (int_of_string n)) (List.map hex_to_bytes (split_on ';' chunks))
        | ["add"; n] -> p_add_loose h w (nat_of_int (int_of_string n)) []
        | ["pack"; id; fs; clean; objs] ->
            let po s = (match String.split_on_char ',' s with
              | [k; blob; c; sz] -> { okey = n_of_int (int_of_string k); oblob = hex_to_bytes blob; ocomp = (c = "1"); osize = nat_of_int (int_of_string sz) }
              | _ -> failwith "bad pobj") in
            p_pack_one w (z_of_int (int_of_string id)) (List.map po (split_on ';' objs)) (fs = "1") (clean = "1")
        | ["clean"; v; order] -> p_clean w (v = "1") (List.map (fun k -> n_of_int (int_of_string k)) (split_on ',' order))
        | ["clean"; v] -> p_clean w (v = "1") []
        | ["addpack"; id; nh; twice; fs; objs] ->
            let po s = (match String.split_on_char ',' s with
              | [k; blob; c; sz] -> { okey = n_of_int (int_of_string k); oblob = hex_to_bytes blob; ocomp = (c = "1"); osize = nat_of_int (int_of_string sz) }
              | _ -> failwith "bad pobj") in
            p_add_to_pack w (z_of_int (int_of_string id)) (List.map po (split_on ';' objs)) (nh = "1") (twice = "1") (fs = "1")
        | ["import"; nh; twice; fs; spec] ->
            let po s = (match String.split_on_char ',' s with
              | [k; blob; c; sz] -> { okey = n_of_int (int_of_string k); oblob = hex_to_bytes blob; ocomp = (c = "1"); osize = nat_of_int (int_of_string sz) }
              | _ -> failwith "bad pobj") in
            let batch b = (match String.split_on_char '=' b with
              | [id; ""] -> (z_of_int (int_of_string id), [])
              | [id; objs] -> (z_of_int (int_of_string id), List.map po (split_on ';' objs))
              | _ -> failwith "bad batch") in
            p_import w (nh = "1") (twice = "1") (fs = "1") (List.map batch (String.split_on_char '|' spec))
        | ["import"; nh; twice; fs] -> p_import w (nh = "1") (twice = "1") (fs = "1") []
        | ["addpack"; id; nh; twice; fs] -> p_add_to_pack w (z_of_int (int_of_string id)) [] (nh = "1") (twice = "1") (fs = "1")
        | ["repack"; id; objs] ->
            let po s = (match String.split_on_char ',' s with
              | [k; blob; c; sz] -> { okey = n_of_int (int_of_string k); oblob = hex_to_bytes blob; ocomp = (c = "1"); osize = nat_of_int (int_of_string sz) }
              | _ -> failwith "bad pobj") in
            p_repack_one w (z_of_int (int_of_string id)) (List.map po (split_on ';' objs))
        | ["repack"; id] -> p_repack_one w (z_of_int (int_of_string id)) []
        | ["vacuum"] -> p_vacuum
        | ["delete"; ks] -> p_delete w (List.map (fun k -> n_of_int (int_of_string k)) (split_on ',' ks))
        | _ -> failwith ("bad program " ^ String.concat " " toks) in
      out := !out @ evs;
      st := run_events !st evs) (List.rev !progs);
    !out in
  let mono = locate (fun t -> all_ok_b h inflate s0 t) in
  let c13 = locate (fun t -> c13_all_b h inflate s0 t) in
  Printf.printf "crash=%s pl=%s mono=%s c13=%s prog=%s final=%s\n" (verdict false) (verdict true) mono c13
    (String.concat "/" (List.map event_s prog_events)) (dump_world wf)

(* lookup <in_max> <iter_max> <skip 0|1> | d1 rows k:p:o:l:c:s,... | loose k:size,... | d2 rows | ks k,k,...
   -> status  P:k:p:o:l:c:s / L:k:size / M:k  (generator order) *)
let cmd_lookup_gen streams args =
  match List.map String.trim (String.split_on_char '|' args) with
  | [hd; d1; ls; d2; ks] ->
      let row s = (match List.map int_of_string (String.split_on_char ':' s) with
        | [k; p; o; l; c; sz] -> { rkey = n_of_int k; rpack = z_of_int p; roff = nat_of_int o; rlen = nat_of_int l; rcomp = (c = 1); rsize = nat_of_int sz }
        | _ -> failwith "lookup: bad row") in
      let rows s = List.map row (split_on ',' s) in
      let loose = List.map (fun s -> match List.map int_of_string (String.split_on_char ':' s) with
        | [k; sz] -> (n_of_int k, nat_of_int sz) | _ -> failwith "lookup: bad loose") (split_on ',' ls) in
      (match List.map int_of_string (split_on ' ' hd) with
       | [inm; itm; skip] ->
           let (out, st) = lookup_bulk { in_max = nat_of_int inm; iter_max = nat_of_int itm } (skip = 1) (rows d1) loose (rows d2)
                             (List.map (fun k -> n_of_int k) (ints ks)) in
           let f = function
             | FPacked r -> Printf.sprintf "P:%d:%d:%d:%d:%d:%d" (int_of_n r.rkey) (int_of_z r.rpack) (int_of_nat r.roff) (int_of_nat r.rlen) (if r.rcomp then 1 else 0) (int_of_nat r.rsize)
             | FLoose (k, sz) -> Printf.sprintf "L:%d:%d" (int_of_n k) (int_of_nat sz)
             | FMissing k -> Printf.sprintf "M:%d" (int_of_n k) in
           (match streams with
            | None -> Printf.printf "%s %s\n" (status_s st) (String.concat "," (List.map f out))
            | Some sm ->
                let evs = lookup_events { in_max = nat_of_int inm; iter_max = nat_of_int itm } (skip = 1) sm (rows d1) loose (rows d2)
                            (List.map (fun k -> n_of_int k) (ints ks)) in
                let e = function
                  | ROpenPack p -> Printf.sprintf "op%d" (int_of_z p) | RClosePack p -> Printf.sprintf "cp%d" (int_of_z p)
                  | ROpenLoose k -> Printf.sprintf "ol%d" (int_of_n k) | RCloseLoose k -> Printf.sprintf "cl%d" (int_of_n k)
                  | RMiss k -> Printf.sprintf "ms%d" (int_of_n k) | RReset -> "reset" | RYield x -> "y" ^ f x in
                Printf.printf "%s %s\n" (status_s st) (String.concat "," (List.map e evs)))
       | _ -> failwith "lookup: bad header")
  | _ -> failwith "lookup: bad args"

(* totals | rows k:p:o:l:c:s,... | packs id:len,... | loose k:len,...  ->  the seven numbers of Totals.totals_of *)
let cmd_totals args =
  match List.map String.trim (String.split_on_char '|' args) with
  | [_; rs; ps; ls] ->
      let row s = (match List.map int_of_string (String.split_on_char ':' s) with
        | [k; p; o; l; c; sz] -> { rkey = n_of_int k; rpack = z_of_int p; roff = nat_of_int o; rlen = nat_of_int l; rcomp = (c = 1); rsize = nat_of_int sz }
        | _ -> failwith "totals: bad row") in
      let file n = { fdata = List.init n (fun _ -> N0); fsynced = [] } in
      let pair s = (match List.map int_of_string (String.split_on_char ':' s) with [a; b] -> (a, b) | _ -> failwith "totals: bad pair") in
      let w = { loose = List.map (fun s -> let (k, n) = pair s in (n_of_int k, file n)) (split_on ',' ls);
                packs = List.map (fun s -> let (i, n) = pair s in (z_of_int i, file n)) (split_on ',' ps);
                sandbox = []; db = List.map row (split_on ',' rs) } in
      let t = totals_of w in
      Printf.printf "%d %d %d %d %d %d %d\n" (int_of_nat t.t_packed) (int_of_nat t.t_packed_disk) (int_of_nat t.t_packfiles) (int_of_nat t.t_loose)
        (int_of_nat t.n_packed) (int_of_nat t.n_loose) (int_of_nat t.n_packfiles)
  | _ -> failwith "totals: bad args"

(* vscan | rows k:p:o:l:c:s:hk:cs,... (hk = key the re-read hashes to, cs = its length; hk = -1: the read raises) | loose k:hk,...
   -> raises | ih;is;ov;il (comma separated keys) *)
let cmd_vscan args =
  match List.map String.trim (String.split_on_char '|' args) with
  | [_; rs; ls] ->
      let tab = Hashtbl.create 64 in
      let row s = (match List.map int_of_string (String.split_on_char ':' s) with
        | [k; p; o; l; c; sz; hk; cs] ->
            let r = { rkey = n_of_int k; rpack = z_of_int p; roff = nat_of_int o; rlen = nat_of_int l; rcomp = (c = 1); rsize = nat_of_int sz } in
            Hashtbl.replace tab k (if hk < 0 then None else Some (n_of_int hk, nat_of_int cs)); r
        | _ -> failwith "vscan: bad row") in
      let rows = List.map row (split_on ',' rs) in
      let ltab = Hashtbl.create 16 in
      let names = List.map (fun s -> match List.map int_of_string (String.split_on_char ':' s) with
        | [k; hk] -> Hashtbl.replace ltab k hk; n_of_int k | _ -> failwith "vscan: bad loose") (split_on ',' ls) in
      let rd r = match Hashtbl.find_opt tab (int_of_n r.rkey) with Some x -> x | None -> None in
      let lh k = match Hashtbl.find_opt ltab (int_of_n k) with Some h -> n_of_int h | None -> k in
      let ks l = String.concat "," (List.map (fun k -> string_of_int (int_of_n k)) l) in
      (match validate_f rd rows names lh with
       | None -> print_endline "raises"
       | Some (((ih, is), ov), il) -> Printf.printf "%s;%s;%s;%s\n" (ks ih) (ks is) (ks ov) (ks il))
  | _ -> failwith "vscan: bad args"

let cmd_backup_phases _ =
  print_endline (String.concat "," (List.map (function PhLoose -> "loose" | PhDump -> "dump" | PhCopyDump -> "copydump" | PhPacks -> "packs" | PhRest -> "rest") backup_phases))

let () =
  let extra = ref [("backup_phases", cmd_backup_phases); ("totals", cmd_totals); ("vscan", cmd_vscan); ("lookup", cmd_lookup_gen None); ("lookup_events", cmd_lookup_gen (Some true)); ("lookup_events_meta", cmd_lookup_gen (Some false)); ("pick", cmd_pick); ("estimate", cmd_estimate); ("plan", cmd_plan); ("segs", cmd_segs); ("por", cmd_por); ("bio", cmd_bio true); ("fio", cmd_bio false); ("zsd", cmd_zsd)] in
  try
    while true do
      let line = input_line stdin in
      let line = String.trim line in
      if line <> "" then begin
        let cmd, args = match String.index_opt line ' ' with
          | Some i -> String.sub line 0 i, String.sub line (i + 1) (String.length line - i - 1)
          | None -> line, "" in
        (try
          match cmd with
          | "dws" -> cmd_dws args
          | "merge" -> cmd_merge args
          | "chunks" -> cmd_chunks args
          | "paging" -> cmd_paging args
          | "trace_begin" -> run_trace_block ()
          | _ -> (match List.assoc_opt cmd !extra with
                  | Some f -> f args
                  | None -> Printf.printf "ERROR unknown command %s\n" cmd)
        with e -> Printf.printf "ERROR %s\n" (Printexc.to_string e))
      end
    done
  with End_of_file -> ()
