(* driver.ml - runs the extracted Gallina model on inputs written by the Python harness.
   One command per line on stdin, one result line per command on stdout.  Integers are decimal. *)
open Model

let rec pos_of_int n = if n = 1 then XH else if n land 1 = 0 then XO (pos_of_int (n lsr 1)) else XI (pos_of_int (n lsr 1))
let z_of_int n = if n = 0 then Z0 else if n > 0 then Zpos (pos_of_int n) else Zneg (pos_of_int (-n))
let rec int_of_pos = function XH -> 1 | XO p -> 2 * int_of_pos p | XI p -> 2 * int_of_pos p + 1
let int_of_z = function Z0 -> 0 | Zpos p -> int_of_pos p | Zneg p -> - (int_of_pos p)
let rec nat_of_int n = if n <= 0 then O else S (nat_of_int (n - 1))
let rec int_of_nat = function O -> 0 | S n -> 1 + int_of_nat n

let split_on c s = if s = "" then [] else String.split_on_char c s
let ints s = List.map int_of_string (split_on ',' s)

let loc_s = function LEFTONLY -> "L" | BOTH -> "B" | RIGHTONLY -> "R"
let status_s = function Ok -> "ok" | ErrLeft -> "errleft" | ErrRight -> "errright" | OutOfFuel -> "outoffuel"

let cmd_dws args =
  (* dws k:p,k:p,... | k,k,... *)
  let l, r = match String.split_on_char '|' args with [a; b] -> a, b | _ -> failwith "dws: bad args" in
  let l = List.map (fun kp -> match String.split_on_char ':' kp with
                               | [k; p] -> (z_of_int (int_of_string k), z_of_int (int_of_string p))
                               | _ -> failwith "dws: bad left") (split_on ',' l) in
  let r = List.map z_of_int (ints r) in
  let (out, st) = dws l r in
  let item ((k, p), w) =
    Printf.sprintf "%d:%s:%s" (int_of_z k) (match p with Some p -> string_of_int (int_of_z p) | None -> "-") (loc_s w) in
  Printf.printf "%s %s\n" (status_s st) (String.concat "," (List.map item out))

let cmd_merge args =
  let l, r = match String.split_on_char '|' args with [a; b] -> a, b | _ -> failwith "merge: bad args" in
  let (out, st) = merge_sorted (List.map z_of_int (ints l)) (List.map z_of_int (ints r)) in
  Printf.printf "%s %s\n" (status_s st) (String.concat "," (List.map (fun k -> string_of_int (int_of_z k)) out))

let cmd_chunks args =
  (* chunks n | x,x,x *)
  let n, l = match String.split_on_char '|' args with [a; b] -> int_of_string a, ints b | _ -> failwith "chunks: bad args" in
  let out = chunks (nat_of_int n) l in
  Printf.printf "%s\n" (String.concat ";" (List.map (fun c -> String.concat "," (List.map string_of_int c)) out))

let cmd_paging args =
  (* paging n | id,id,...   (ids ascending) *)
  let n, l = match String.split_on_char '|' args with [a; b] -> int_of_string a, ints b | _ -> failwith "paging: bad args" in
  let rows = List.map (fun i -> (z_of_int i, ())) l in
  let out = paging (nat_of_int (List.length l + 1)) rows (z_of_int (-1)) (nat_of_int n) in
  Printf.printf "%s\n" (String.concat "," (List.map (fun (i, ()) -> string_of_int (int_of_z i)) out))

let () =
  let extra = ref [] in
  Driver_ext.register extra;
  try
    while true do
      let line = input_line stdin in
      let line = String.trim line in
      if line <> "" then begin
        let cmd, args = match String.index_opt line ' ' with
          | Some i -> String.sub line 0 i, String.sub line (i + 1) (String.length line - i - 1)
          | None -> line, "" in
        (try
          match cmd with
          | "dws" -> cmd_dws args
          | "merge" -> cmd_merge args
          | "chunks" -> cmd_chunks args
          | "paging" -> cmd_paging args
          | _ -> (match List.assoc_opt cmd !extra with
                  | Some f -> f args
                  | None -> Printf.printf "ERROR unknown command %s\n" cmd)
        with e -> Printf.printf "ERROR %s\n" (Printexc.to_string e))
      end
    done
  with End_of_file -> ()
