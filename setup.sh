#!/bin/sh
# Build the framework offline from files on disk: Generated.v from /repo's AST, the Coq development (full .vo), the extracted driver.
set -e
cd "$(dirname "$0")"
export PYTHONHASHSEED=0
/venv/bin/python - <<'PY'
import sys
sys.path.insert(0, 'harness')
import common
b = common.coq_build()
print('coq build:', 'ok' if b['ok'] else b['errors'], b.get('make_s'))
sys.exit(0 if b['ok'] else 1)
PY
