(* Mono.v - monotone history: what loose writers and ONE packer can do to the world, and why a reader that follows
   the library's protocol (index snapshot -> loose file -> refreshed index) finds every object that existed when
   its read began, under EVERY interleaving (C04), for EVERY handle however old its snapshot (C08), and why a
   backup taken in the documented order is complete (C15). *)
From Coq Require Import List ZArith NArith Arith Bool Lia.
From DOS Require Import Base Store StoreProofs StoreLemmas.
Import ListNotations.

Section Mono.
Variable H : bytes -> key.
Variable inflate : bytes -> option bytes.
Hypothesis H_inj : forall a b, H a = H b -> a = b.   (* "there will never be a hash collision" (docs/design.md) *)
Notation Inv := (Inv H inflate).
Notation row_ok := (row_ok H inflate).
Notation stored := (stored inflate).
Notation read_row := (read_row inflate).

Definition prefix_of (a b : bytes) : Prop := exists x, b = a ++ x.

(* one or more steps of writers / the packer between two observations *)
Definition Mono (w w' : world) : Prop :=
  (forall r, In r (db w) -> In r (db w')) /\
  (forall id f, get_pack w id = Some f -> exists f', get_pack w' id = Some f' /\ prefix_of (fdata f) (fdata f')) /\
  (forall k f, get_loose w k = Some f ->
      (exists f', get_loose w' k = Some f' /\ fdata f' = fdata f) \/ In k (map rkey (db w'))).

Lemma prefix_refl a : prefix_of a a.
Proof. exists []. rewrite app_nil_r. reflexivity. Qed.
Lemma prefix_trans a b c : prefix_of a b -> prefix_of b c -> prefix_of a c.
Proof. intros [x ->] [y ->]. exists (x ++ y). rewrite app_assoc. reflexivity. Qed.

Lemma Mono_refl w : Mono w w.
Proof.
  clear H_inj. repeat split; auto.
  - intros id f Hp. exists f. split; auto. apply prefix_refl.
  - intros k f Hl. left. exists f. auto.
Qed.

Lemma Mono_trans a b c : Mono a b -> Mono b c -> Mono a c.
Proof.
  intros (R1 & P1 & L1) (R2 & P2 & L2). repeat split.
  - auto.
  - intros id f Hp. destruct (P1 _ _ Hp) as (f1 & Hp1 & Pf1). destruct (P2 _ _ Hp1) as (f2 & Hp2 & Pf2).
    exists f2. split; auto. eapply prefix_trans; eauto.
  - intros k f Hl. destruct (L1 _ _ Hl) as [(f1 & Hl1 & E1)|Hin].
    + destruct (L2 _ _ Hl1) as [(f2 & Hl2 & E2)|Hin]; [left; exists f2; split; congruence|right; auto].
    + right. apply in_map_iff in Hin as (r & Hk & Hr). apply in_map_iff. exists r. split; auto.
Qed.

(* a valid row keeps reading the same bytes while packs only grow *)
Lemma read_row_mono w w' r c : Mono w w' -> read_row w r = Some c -> read_row w' r = Some c.
Proof.
  intros (_ & P & _) Hr. unfold Store.read_row in *.
  destruct (get_pack w (rpack r)) as [f|] eqn:Hp; [|discriminate].
  destruct (Nat.leb_spec (roff r + rlen r) (length (fdata f))); [|discriminate].
  destruct (P _ _ Hp) as (f' & Hp' & x & Hx). rewrite Hp'. rewrite Hx, app_length.
  destruct (Nat.leb_spec (roff r + rlen r) (length (fdata f) + length x)); [|lia].
  rewrite slice_app_l by lia. exact Hr.
Qed.

Lemma inv_row_reads w r : Inv w -> In r (db w) -> exists c, read_row w r = Some c /\ H c = rkey r.
Proof.
  intros (_ & Hok & _) Hin. rewrite Forall_forall in Hok.
  destruct (row_ok_read H inflate w r (Hok r Hin)) as (c & Hr & Hh & _). eauto.
Qed.

Lemma get_loose_in w k f : get_loose w k = Some f -> In (k, f) (loose w).
Proof.
  unfold get_loose. induction (loose w) as [|[a v] t IH]; cbn; [discriminate|].
  destruct (N.eqb_spec k a); intros E; [inversion E; subst; left; reflexivity|right; auto].
Qed.

(* ---- the reader protocol of Container._get_objects_stream_meta_generator ----
   w1  : the index snapshot the handle reads (pinned at its first statement - possibly long ago)
   w1' : when the bytes of a row found in that snapshot are read from the pack
   w2  : when the loose file is opened
   w3  : the refreshed snapshot after _close_operation_session()
   w4  : when the bytes of a row found in the refreshed snapshot are read *)
Definition lookup (w1 w1' w2 w3 w4 : world) (k : key) : option bytes :=
  match find_row (db w1) k with
  | Some r => read_row w1' r
  | None =>
      match get_loose w2 k with
      | Some f => Some (fdata f)
      | None => match find_row (db w3) k with Some r => read_row w4 r | None => None end
      end
  end.

(* C04 / C08: w0 is any world in which the object is stored (its addition has returned, or it existed beforehand).
   The snapshot w1 the handle is pinned to may be OLDER or NEWER than w0 - no relation is needed; bytes are read
   at w1' after w1; the loose folder is looked at w2 after w0; the refreshed snapshot w3 is taken after w2 and read
   at w4.  All steps in between are arbitrary interleavings of Mono steps. *)
Theorem reader_finds w0 w1 w1' w2 w3 w4 k c :
  Inv w0 -> Inv w1 -> Inv w2 -> Inv w3 ->
  Mono w1 w1' -> Mono w0 w2 -> Mono w2 w3 -> Mono w3 w4 ->
  stored w0 k = Some c ->
  lookup w1 w1' w2 w3 w4 k = Some c.
Proof.
  intros I0 I1 I2 I3 M11 M02 M23 M34 Hs.
  assert (Hk : H c = k) by exact (stored_sound H inflate w0 k c I0 Hs).
  unfold lookup.
  destruct (find_row (db w1) k) as [r|] eqn:F1.
  - apply find_row_some in F1 as [Hin Hrk].
    destruct (inv_row_reads w1 r I1 Hin) as (c' & Hr & Hh).
    assert (c' = c) by (apply H_inj; congruence). subst c'.
    eapply read_row_mono; eauto.
  - destruct (get_loose w2 k) as [f2|] eqn:Hl2.
    + destruct I2 as (_ & _ & _ & Hl). rewrite Forall_forall in Hl.
      pose proof (Hl _ (get_loose_in _ _ _ Hl2)) as E. cbn in E.
      f_equal. apply H_inj. congruence.
    + (* no loose file at w2: then a row for k is committed at w2, hence in the refreshed snapshot *)
      assert (Hin2 : In k (map rkey (db w2))).
      { unfold Store.stored in Hs. destruct M02 as (R02 & _ & L02).
        destruct (find_row (db w0) k) as [r|] eqn:F0.
        - apply find_row_some in F0 as [Hin Hrk]. rewrite <- Hrk. apply in_map. auto.
        - destruct (get_loose w0 k) as [f|] eqn:Hl0; [|discriminate].
          destruct (L02 _ _ Hl0) as [(f' & Hl' & _)|Hin]; [congruence|exact Hin]. }
      destruct M23 as (R23 & _ & _).
      apply in_map_iff in Hin2 as (r & Hrk & Hr2).
      assert (Hin3 : In r (db w3)) by auto.
      destruct I3 as (Hnd3 & Hok3 & _).
      rewrite <- Hrk. rewrite (find_row_in _ _ Hnd3 Hin3).
      rewrite Forall_forall in Hok3.
      destruct (row_ok_read H inflate w3 r (Hok3 r Hin3)) as (c' & Hr & Hh & _).
      assert (c' = c) by (apply H_inj; congruence). subst c'.
      eapply read_row_mono; eauto.
Qed.

(* without the session refresh (w3 := the old snapshot w1) the fallback can miss the object: the protocol needs it *)

(* ---- list_all_objects (after the repair of finding F4): loose names listed at wL, index refreshed at wS after wL ---- *)
Definition listing (wL wS : world) : list key :=
  map rkey (db wS) ++ filter (fun k => negb (existsb (N.eqb k) (map rkey (db wS)))) (map fst (loose wL)).

Lemma get_loose_some_in w k f : get_loose w k = Some f -> In k (map fst (loose w)).
Proof. intros Hl. apply get_loose_in in Hl. apply in_map_iff. exists (k, f). auto. Qed.

Theorem listing_complete w0 wL wS k c :
  Mono w0 wL -> Mono wL wS -> stored w0 k = Some c -> In k (listing wL wS).
Proof.
  intros (R0 & _ & L0) (R1 & _ & _) Hs. unfold listing. apply in_or_app.
  destruct (existsb (N.eqb k) (map rkey (db wS))) eqn:E.
  - left. apply existsb_exists in E as (x & Hx & He). apply N.eqb_eq in He. subst. auto.
  - unfold Store.stored in Hs. destruct (find_row (db w0) k) as [r|] eqn:F0.
    + apply find_row_some in F0 as [Hin Hrk]. left. rewrite <- Hrk. apply in_map. auto.
    + destruct (get_loose w0 k) as [f|] eqn:Hl0; [|discriminate].
      destruct (L0 _ _ Hl0) as [(f' & Hl' & _)|Hin].
      * right. apply filter_In. split; [eapply get_loose_some_in; eauto|]. rewrite E. reflexivity.
      * left. apply in_map_iff in Hin as (r & Hrk & Hr). rewrite <- Hrk. apply in_map. auto.
Qed.

Lemma NoDup_app_intro (a b : list key) : NoDup a -> NoDup b -> (forall x, In x a -> In x b -> False) -> NoDup (a ++ b).
Proof.
  induction a as [|x t IH]; intros Na Nb Hd; cbn; [exact Nb|].
  inversion Na; subst. constructor.
  - intros Hin. apply in_app_or in Hin as [Hin|Hin]; [auto|]. apply (Hd x); [left; reflexivity|auto].
  - apply IH; auto. intros y Hy Hy'. apply (Hd y); [right; auto|auto].
Qed.

(* each key is listed once *)
Theorem listing_nodup wL wS : NoDup (map rkey (db wS)) -> NoDup (map fst (loose wL)) -> NoDup (listing wL wS).
Proof.
  intros N1 N2. unfold listing. apply NoDup_app_intro; auto.
  - apply NoDup_filter. exact N2.
  - intros x Hx Hy. apply filter_In in Hy as [_ Hy]. apply negb_true_iff in Hy.
    assert (existsb (N.eqb x) (map rkey (db wS)) = true) by (apply existsb_exists; exists x; split; auto; apply N.eqb_refl).
    congruence.
Qed.

(* ---- C15: a backup in the documented order: loose entries first (each at its own instant), then one atomic dump of
        the index, then the packs (each at its own instant) ---- *)
Theorem backup_complete (w0 w2 B : world) k c :
  Inv w0 -> Inv w2 ->
  db B = db w2 ->
  (forall k, exists wk, Inv wk /\ Mono w0 wk /\ Mono wk w2 /\ get_loose B k = get_loose wk k) ->
  (forall id f, get_pack w2 id = Some f -> exists f', get_pack B id = Some f' /\ prefix_of (fdata f) (fdata f')) ->
  stored w0 k = Some c ->
  stored B k = Some c.
Proof.
  intros I0 I2 Hdb Hloose Hpacks Hs.
  assert (Hk : H c = k) by exact (stored_sound H inflate w0 k c I0 Hs).
  assert (MB : forall r c', read_row w2 r = Some c' -> read_row B r = Some c').
  { intros r c' Hr. unfold Store.read_row in *.
    destruct (get_pack w2 (rpack r)) as [f|] eqn:Hp; [|discriminate].
    destruct (Nat.leb_spec (roff r + rlen r) (length (fdata f))); [|discriminate].
    destruct (Hpacks _ _ Hp) as (f' & Hp' & x & Hx). rewrite Hp'. rewrite Hx, app_length.
    destruct (Nat.leb_spec (roff r + rlen r) (length (fdata f) + length x)); [|lia].
    rewrite slice_app_l by lia. exact Hr. }
  unfold Store.stored. rewrite Hdb.
  destruct (find_row (db w2) k) as [r|] eqn:F2.
  - apply find_row_some in F2 as [Hin Hrk].
    destruct (inv_row_reads w2 r I2 Hin) as (c' & Hr & Hh).
    assert (c' = c) by (apply H_inj; congruence). subst c'. auto.
  - (* no row in the dumped index: the object was loose at w0 and still loose when its entry was copied *)
    destruct (Hloose k) as (wk & Ik & M0k & Mk2 & HB). rewrite HB.
    assert (Hnk : ~ In k (map rkey (db wk))).
    { intros Hin. apply find_row_none in F2. apply F2. destruct Mk2 as (R & _ & _).
      apply in_map_iff in Hin as (r & Hrk & Hr). rewrite <- Hrk. apply in_map. auto. }
    unfold Store.stored in Hs. destruct M0k as (R0 & _ & L0).
    destruct (find_row (db w0) k) as [r|] eqn:F0.
    + exfalso. apply find_row_some in F0 as [Hin Hrk]. apply Hnk. rewrite <- Hrk. apply in_map. auto.
    + destruct (get_loose w0 k) as [f|] eqn:Hl0; [|discriminate]. inversion Hs; subst c.
      destruct (L0 _ _ Hl0) as [(f' & Hl' & E)|Hin]; [|contradiction].
      rewrite Hl'. congruence.
Qed.

End Mono.
