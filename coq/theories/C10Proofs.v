(* C10Proofs.v - the stored FORM of the objects after the completed programs is exactly the form handed to the program (the flag and
   blob the compressor produced for the requested mode - an oracle), their recorded size is the content length, their recorded stored
   length the number of bytes they occupy: for pack_all_loose (one pack), direct-to-pack / import, and repack. *)
From Coq Require Import List ZArith NArith Arith Bool Lia.
From DOS Require Import Base Store StoreProofs StoreLemmas Mono MonoStep Programs ProgramsProofs PackProofs MaintProofs RepackProofs AddPackProofs ImportProofs C02Proofs.
Import ListNotations.

Definition row_of_obj (r : row) (o : pobj) : Prop :=
  rkey r = okey o /\ rcomp r = ocomp o /\ rlen r = length (oblob o) /\ rsize r = osize o.

Lemma rows_from_forms id : forall objs off r, In r (rows_from id off objs) -> exists o, In o objs /\ row_of_obj r o /\ rpack r = id.
Proof.
  induction objs as [|o t IH]; intros off r Hin; [destruct Hin|]. cbn [rows_from] in Hin. destruct Hin as [<-|Hin].
  - exists o. split; [left; reflexivity|]. split; [repeat split|reflexivity].
  - destruct (IH _ r Hin) as (o' & Ho' & Hr). exists o'. split; [right; exact Ho'|exact Hr].
Qed.

Lemma atp_loop_rows_forms id nh twice : forall objs known pos r, In r (snd (atp_loop id nh twice known pos objs)) ->
  exists o, In o objs /\ row_of_obj r o /\ rpack r = id.
Proof.
  induction objs as [|x t IH]; intros known pos r Hin; cbn [atp_loop] in Hin; [destruct Hin|].
  destruct (nh && existsb (N.eqb (okey x)) known).
  - specialize (IH known pos r). destruct (atp_loop id nh twice known pos t) as [es rs].
    assert (Hin' : In r rs) by (destruct twice; exact Hin).
    destruct (IH Hin') as (o & Ho & E). exists o. split; [right; exact Ho|exact E].
  - set (known' := if nh then okey x :: known else known) in *.
    specialize (IH known' (pos + length (oblob x)) r).
    destruct (atp_loop id nh twice known' (pos + length (oblob x)) t) as [es rs]. cbn [snd] in *.
    destruct Hin as [<-|Hin]; [exists x; split; [left; reflexivity|]; split; [repeat split|reflexivity]|].
    destruct (IH Hin) as (o & Ho & E). exists o. split; [right; exact Ho|exact E].
Qed.

Lemma rows_of_batches_forms w nh twice : forall bs known cur r, In r (rows_of_batches w nh twice known cur bs) ->
  exists b o, In b bs /\ In o (snd b) /\ row_of_obj r o /\ rpack r = fst b.
Proof.
  induction bs as [|[id objs] t IH]; intros known cur r Hin; cbn [rows_of_batches] in Hin; [destruct Hin|].
  apply in_app_or in Hin as [Hin|Hin].
  - destruct (atp_loop_rows_forms id nh twice objs known _ r Hin) as (o & Ho & E & Ep).
    exists (id, objs), o. split; [left; reflexivity|]. split; [exact Ho|]. split; [exact E|exact Ep].
  - destruct (IH _ _ r Hin) as (b & o & Hb & Ho & E). exists b, o. split; [right; exact Hb|]. split; [exact Ho|exact E].
Qed.

Section WriteForms.
Variable H : bytes -> key.
Variable inflate : bytes -> option bytes.
Hypothesis H_inj : forall a b, H a = H b -> a = b.

(* pack_all_loose (one pack): the new entries are exactly one per object, with the form handed over; old entries untouched *)
Theorem pack_one_forms w l id objs fs clean :
  Inv H inflate w -> pending l = [] ->
  Forall (obj_ok inflate w) objs -> NoDup (map okey objs) -> (forall o, In o objs -> ~ In (okey o) (map rkey (db w))) ->
  forall r, In r (db (fst (run_events (w, l) (p_pack_one w id objs fs clean)))) ->
    In r (db w) \/ exists o, In o objs /\ row_of_obj r o /\ rpack r = id.
Proof.
  intros HI Hp Ho Hn Hf r Hr.
  destruct (pack_one_final H inflate H_inj w l id objs fs clean HI Hp Ho Hn Hf) as (w' & l' & syn & Er & Edb & _).
  rewrite Er in Hr. cbn [fst] in Hr. rewrite Edb in Hr. apply in_app_or in Hr as [Hr|Hr]; [left; exact Hr|right].
  exact (rows_from_forms id objs _ r Hr).
Qed.

(* direct-to-pack / import: every entry after the call is an old one or has the form of an object of the call *)
Theorem import_forms w l bs nh twice fs :
  Inv H inflate w -> pending l = [] -> Forall (fun b => Forall (aobj_ok H inflate) (snd b)) bs ->
  forall r, In r (db (fst (run_events (w, l) (p_import w nh twice fs bs)))) ->
    In r (db w) \/ exists b o, In b bs /\ In o (snd b) /\ row_of_obj r o /\ rpack r = fst b.
Proof.
  intros HI Hp Hall r Hr.
  destruct (import_final H inflate H_inj w l bs nh twice fs HI Hp Hall) as (w' & l' & Er & Edb & _).
  rewrite Er in Hr. cbn [fst] in Hr. rewrite Edb in Hr. apply insert_rows_in in Hr as [Hr|Hr]; [left; exact Hr|right].
  exact (rows_of_batches_forms w nh twice bs _ _ r Hr).
Qed.

End WriteForms.

Section RepackForms.
Variable H : bytes -> key.
Variable inflate : bytes -> option bytes.
Hypothesis H_inj : forall a b, H a = H b -> a = b.

(* repack: afterwards every index entry of the pack has the form of the object handed over for its key; entries of other packs are
   the old ones *)
Theorem repack_forms w l id objs :
  Inv H inflate w -> pending l = [] -> id <> REPACK -> get_pack w REPACK = None ->
  Forall (robj_ok inflate w id) objs ->
  (forall r, In r (db w) -> rpack r = id -> In (rkey r) (map okey objs)) ->
  rows_of_pack (db w) id <> [] ->
  exists w' l', run_events (w, l) (p_repack_one w id objs) = (w', l') /\
    (forall r, In r (db w') -> rpack r = id -> exists o, In o objs /\ row_of_obj r o) /\
    (forall r, In r (db w') -> rpack r <> id -> In r (db w)).
Proof.
  intros HI Hp Hid Hno Hobjs Hcov Hne.
  destruct (repack_final_state w id objs Hid Hno l Hp Hne) as (w' & l' & Er & _ & _ & Edb & _ & _).
  exists w', l'. split; [exact Er|]. rewrite Edb.
  assert (Hcase : forall r, In r (map (fun r : row => if Z.eqb (rpack r) REPACK then mkRow (rkey r) id (roff r) (rlen r) (rcomp r) (rsize r) else r)
                              (map (fun r : row => match find_row (rows_from REPACK 0 objs) (rkey r) with Some r' => r' | None => r end) (db w))) ->
            (rpack r = id /\ exists o, In o objs /\ row_of_obj r o) \/ (rpack r <> id /\ In r (db w))).
  { intros r Hr. apply in_map_iff in Hr as (r1 & <- & Hr1). apply in_map_iff in Hr1 as (r0 & <- & Hr0).
    destruct (upd_cases H inflate w id objs HI Hobjs Hcov r0 Hr0) as [(E0 & Hin' & _)|(E0 & Eu)].
    - left. destruct (in_R'_pack H inflate w id objs HI Hobjs _ Hin') as (Hrp & _). rewrite Hrp, Z.eqb_refl. cbn [rpack]. split; [reflexivity|].
      destruct (rows_from_forms REPACK objs 0 _ Hin') as (o & Ho & (A & B & C & D) & _). exists o. split; [exact Ho|]. repeat split; assumption.
    - right. rewrite Eu. pose proof (not_repack H inflate w HI Hno r0 Hr0) as Hnr.
      destruct (Z.eqb_spec (rpack r0) REPACK) as [E|_]; [contradiction|]. split; assumption. }
  split.
  - intros r Hr Er'. destruct (Hcase r Hr) as [(_ & Ho)|(Hn & _)]; [exact Ho|contradiction].
  - intros r Hr Er'. destruct (Hcase r Hr) as [(E & _)|(_ & Hin)]; [contradiction|exact Hin].
Qed.

(* hence the modes: when every object was handed over compressed (YES) every entry of the pack is compressed afterwards, when none
   was (NO) none is, and when each kept the flag of its old entry (KEEP) each entry keeps its flag *)
Corollary repack_all_compressed w l id objs (b : bool) :
  Inv H inflate w -> pending l = [] -> id <> REPACK -> get_pack w REPACK = None ->
  Forall (robj_ok inflate w id) objs ->
  (forall r, In r (db w) -> rpack r = id -> In (rkey r) (map okey objs)) ->
  rows_of_pack (db w) id <> [] ->
  (forall o, In o objs -> ocomp o = b) ->
  forall r, In r (db (fst (run_events (w, l) (p_repack_one w id objs)))) -> rpack r = id -> rcomp r = b.
Proof.
  intros HI Hp Hid Hno Hobjs Hcov Hne Hall r Hr Er.
  destruct (repack_forms w l id objs HI Hp Hid Hno Hobjs Hcov Hne) as (w' & l' & Erun & F1 & _). rewrite Erun in Hr. cbn [fst] in Hr.
  destruct (F1 r Hr Er) as (o & Ho & (_ & Hc & _)). rewrite Hc. apply Hall. exact Ho.
Qed.

End RepackForms.
