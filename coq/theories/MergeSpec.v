(* MergeSpec.v - what merge_spec means: the classification is exactly set membership, every key once, in order *)
From Coq Require Import List ZArith Lia Bool Sorting.Sorted RelationClasses.
From DOS Require Import Merge MergeProofs.
Import ListNotations.
Open Scope Z_scope.

Definition ikey (i : item) : Z := fst (fst i).

Lemma merge_spec_cons a l b r : merge_spec (a :: l) (b :: r) =
  if fst a =? b then yl a BOTH :: merge_spec l r
  else if fst a <? b then yl a LEFTONLY :: merge_spec l (b :: r)
  else yr b :: merge_spec (a :: l) r.
Proof. reflexivity. Qed.
Lemma merge_spec_nil_r a l : merge_spec (a :: l) [] = map (fun x => yl x LEFTONLY) (a :: l).
Proof. reflexivity. Qed.

Lemma ext_lt a l : Sorted Z.lt (a :: l) -> Forall (fun x => a < x) l.
Proof. intros H. apply Sorted_extends in H; auto. intros x y z; lia. Qed.

Lemma extL a l : SortedL (a :: l) -> Forall (fun x => fst a < fst x) l.
Proof.
  unfold SortedL; cbn; intros H. apply ext_lt in H.
  rewrite Forall_forall in *. intros x Hx. apply H. apply in_map; auto.
Qed.

Lemma Forall_in {A} (P : A -> Prop) l x : Forall P l -> In x l -> P x.
Proof. rewrite Forall_forall; auto. Qed.

(* all keys of the output are >= min of heads: used for sortedness *)
Lemma merge_spec_lb : forall L R m,
  Forall (fun x => m < fst x) L -> Forall (fun y => m < y) R ->
  Forall (fun i => m < ikey i) (merge_spec L R).
Proof.
  induction L as [|a l IHl]; intros R m HL HR.
  - cbn. rewrite Forall_forall in *. intros i Hi. apply in_map_iff in Hi as [y [<- Hy]]. cbn. auto.
  - induction R as [|b r IHr].
    + rewrite merge_spec_nil_r. rewrite Forall_forall in *. intros i Hi.
      apply in_map_iff in Hi as [y [<- Hy]]. cbn. auto.
    + rewrite merge_spec_cons. inversion HL; inversion HR; subst.
      destruct (fst a =? b); [|destruct (fst a <? b)]; constructor; cbn; auto.
Qed.

Theorem merge_spec_keys_sorted : forall L R, SortedL L -> Sorted Z.lt R ->
  Sorted Z.lt (map ikey (merge_spec L R)).
Proof.
  induction L as [|a l IHl]; intros R SL SR.
  - cbn. rewrite map_map. cbn. rewrite map_id. exact SR.
  - induction R as [|b r IHr].
    + rewrite merge_spec_nil_r. rewrite map_map. cbn. exact SL.
    + rewrite merge_spec_cons.
      pose proof (extL _ _ SL) as EL. pose proof (ext_lt _ _ SR) as ER.
      assert (SL' : SortedL l) by (eapply sortedL_tl; eauto).
      assert (SR' : Sorted Z.lt r) by (eapply sorted_tl; eauto).
      destruct (fst a =? b) eqn:E1; [|destruct (fst a <? b) eqn:E2]; cbn [map].
      * assert (fst a = b) by lia. subst b.
        constructor; [apply IHl; auto|].
        assert (F : Forall (fun i => fst a < ikey i) (merge_spec l r)) by (apply merge_spec_lb; auto).
        destruct (merge_spec l r); cbn; constructor. inversion F; auto.
      * constructor; [apply IHl; auto|].
        assert (F : Forall (fun i => fst a < ikey i) (merge_spec l (b :: r))).
        { apply merge_spec_lb; auto. constructor; [lia|].
          rewrite Forall_forall in *. intros y Hy. specialize (ER y Hy). lia. }
        destruct (merge_spec l (b :: r)); cbn; constructor. inversion F; auto.
      * constructor; [apply IHr; auto|].
        assert (F : Forall (fun i => b < ikey i) (merge_spec (a :: l) r)).
        { apply merge_spec_lb; auto. constructor; [lia|].
          rewrite Forall_forall in *. intros y Hy. specialize (EL y Hy). lia. }
        destruct (merge_spec (a :: l) r); cbn; constructor. inversion F; auto.
Qed.

(* Membership characterisation *)
Theorem merge_spec_in : forall L R, SortedL L -> Sorted Z.lt R -> forall i,
  In i (merge_spec L R) <->
  (exists x, In x L /\ In (fst x) R /\ i = yl x BOTH) \/
  (exists x, In x L /\ ~ In (fst x) R /\ i = yl x LEFTONLY) \/
  (exists y, In y R /\ ~ In y (map fst L) /\ i = yr y).
Proof.
  induction L as [|a l IHl]; intros R SL SR i.
  - cbn. split.
    + intros Hi. apply in_map_iff in Hi as [y [<- Hy]]. right; right. exists y; auto.
    + intros [[x [[] _]]|[[x [[] _]]|[y [Hy [_ ->]]]]]. apply in_map; auto.
  - induction R as [|b r IHr].
    + rewrite merge_spec_nil_r. split.
      * intros Hi. apply in_map_iff in Hi as [x [<- Hx]]. right; left. exists x; auto.
      * intros [[x [_ [[] _]]]|[[x [Hx [_ ->]]]|[y [[] _]]]].
        apply (in_map (fun x => yl x LEFTONLY)) in Hx. exact Hx.
    + pose proof (extL _ _ SL) as EL. pose proof (ext_lt _ _ SR) as ER.
      assert (SL' : SortedL l) by (eapply sortedL_tl; eauto).
      assert (SR' : Sorted Z.lt r) by (eapply sorted_tl; eauto).
      rewrite merge_spec_cons.
      assert (NL : forall x, In x l -> fst a < fst x) by (intros; eapply (Forall_in _ _ _ EL); eauto).
      assert (NR : forall y, In y r -> b < y) by (intros; eapply (Forall_in _ _ _ ER); eauto).
      destruct (fst a =? b) eqn:E1; [|destruct (fst a <? b) eqn:E2].
      * assert (fst a = b) by lia. subst b. cbn [In]. rewrite (IHl r SL' SR' i). clear IHl IHr.
        split.
        -- intros [<-|[[x [Hx [Hr ->]]]|[[x [Hx [Hr ->]]]|[y [Hy [Hn ->]]]]]].
           ++ left. exists a. cbn; auto.
           ++ left. exists x. cbn; auto.
           ++ right; left. exists x. cbn. repeat split; auto.
              intros [E|E]; [specialize (NL x Hx); lia | auto].
           ++ right; right. exists y. cbn. repeat split; auto.
              intros [E|E]; [specialize (NR y Hy); lia | auto].
        -- intros [[x [[<-|Hx] [Hr ->]]]|[[x [[<-|Hx] [Hr ->]]]|[y [[<-|Hy] [Hn ->]]]]].
           ++ left; reflexivity.
           ++ right. left. exists x. repeat split; auto.
              destruct Hr as [E|E]; auto. specialize (NL x Hx); lia.
           ++ exfalso. apply Hr. cbn; auto.
           ++ right. right. left. exists x. repeat split; auto; intros E; apply Hr; cbn; auto.
           ++ exfalso. apply Hn. cbn; auto.
           ++ right. right. right. exists y. repeat split; auto; intros E; apply Hn; cbn; auto.
      * cbn [In]. rewrite (IHl (b :: r) SL' SR i). clear IHl IHr.
        assert (fst a < b) by lia.
        split.
        -- intros [<-|[[x [Hx [Hr ->]]]|[[x [Hx [Hr ->]]]|[y [Hy [Hn ->]]]]]].
           ++ right; left. exists a. cbn. repeat split; auto.
              intros [E|E]; [lia | specialize (NR _ E); lia].
           ++ left. exists x. cbn; auto.
           ++ right; left. exists x. cbn. repeat split; auto.
           ++ right; right. exists y. cbn. repeat split; auto.
              intros [E|E]; [|auto]. destruct Hy as [E'|E']; [lia| specialize (NR _ E'); lia].
        -- intros [[x [[<-|Hx] [Hr ->]]]|[[x [[<-|Hx] [Hr ->]]]|[y [Hy [Hn ->]]]]].
           ++ exfalso. destruct Hr as [E|E]; [lia| specialize (NR _ E); lia].
           ++ right. left. exists x. auto.
           ++ left; reflexivity.
           ++ right. right. left. exists x. auto.
           ++ right. right. right. exists y. repeat split; auto; intros E; apply Hn; cbn; auto.
      * cbn [In]. rewrite (IHr SR'). clear IHl IHr.
        assert (b < fst a) by lia.
        split.
        -- intros [<-|[[x [Hx [Hr ->]]]|[[x [Hx [Hr ->]]]|[y [Hy [Hn ->]]]]]].
           ++ right; right. exists b. cbn. repeat split; auto.
              intros [E|E]; [lia|]. apply in_map_iff in E as [x [E Hx]]. specialize (NL _ Hx); lia.
           ++ left. exists x. cbn; auto.
           ++ right; left. exists x. cbn. repeat split; auto.
              intros [E|E]; [|auto]. destruct Hx as [<-|Hx]; [lia| specialize (NL _ Hx); lia].
           ++ right; right. exists y. cbn. repeat split; auto.
        -- intros [[x [Hx [[Eb|Hr] ->]]]|[[x [Hx [Hr ->]]]|[y [[<-|Hy] [Hn ->]]]]].
           ++ exfalso. destruct Hx as [Hx|Hx]; [subst x; lia| specialize (NL _ Hx); lia].
           ++ right. left. exists x. auto.
           ++ right. right. left. exists x. repeat split; auto; intros E; apply Hr; cbn; auto.
           ++ left; reflexivity.
           ++ right. right. right. exists y. auto.
Qed.
