(* C05 - a process crash at any point never loses or tears an object.  Statements only. *)
From Coq Require Import List ZArith NArith.
From DOS Require Import Base Store StoreProofs StoreLemmas Programs ProgramsProofs PackProofs MaintProofs RepackProofs AddPackProofs ImportProofs History.
Import ListNotations.

Section C05.
Variable H : bytes -> key.
Variable inflate : bytes -> option bytes.
Hypothesis H_inj : forall a b, H a = H b -> a = b.

(* (1) Verified monitor: if the extracted checker accepts a trace, then at EVERY crash point (user-space buffers and the open
   transaction dropped) the folder satisfies the invariant and every object of `truth` not in `targets` is still stored,
   complete, where the index or the loose folder says.  The checker is run on the intercepted trace of every operation variant. *)
Theorem C05_monitor_sound : forall truth targets tr s,
  monitor H inflate false truth targets s tr = true ->
  forall n, Inv H inflate (crash (run_events s (firstn n tr))) /\
            preserved inflate truth targets (crash (run_events s (firstn n tr))).
Proof. intros truth targets tr s Hm n. exact (monitor_sound H inflate false truth targets tr s Hm n). Qed.

(* (2) Program-level, ALL inputs: add_object / add_streamed_object, for every world satisfying the invariant, every content,
   every chunking of the source and every crash point m: invariant kept, every stored object kept (objects being added are
   absent or complete, never partial under their key - that is the invariant's loose clause). *)
Theorem C05_add_loose_every_crash_point : forall w l n chunks m,
  Inv H inflate w ->
  let w' := crash (run_events (w, l) (firstn m (p_add_loose H w n chunks))) in
  Inv H inflate w' /\ (forall k c, stored inflate w k = Some c -> stored inflate w' k = Some c).
Proof.
  intros w l n chunks m HI.
  destruct (add_loose_crash_safe H inflate H_inj w l n chunks m HI) as (A & B & _). split; assumption.
Qed.

(* (2b) pack_all_loose (one pack: open, appends, INSERT, [flush, fsync], close, COMMIT, [per-pack clean]) for ALL object lists,
   orders and stored blobs (compressed or not), with or without fsync and per-pack cleaning, and EVERY crash point m *)
Theorem C05_pack_every_crash_point : forall w l id objs fs clean m,
  Inv H inflate w -> pending l = [] ->
  Forall (obj_ok inflate w) objs -> NoDup (map okey objs) -> (forall o, In o objs -> ~ In (okey o) (map rkey (db w))) ->
  let w' := crash (run_events (w, l) (firstn m (p_pack_one w id objs fs clean))) in
  Inv H inflate w' /\ (forall k c, stored inflate w k = Some c -> stored inflate w' k = Some c).
Proof.
  intros w l id objs fs clean m A B C D E.
  destruct (pack_one_crash_safe H inflate H_inj w l id objs fs clean m A B C D E) as (X & Y & _). split; assumption.
Qed.

(* (2c) clean_storage (with or without VACUUM), every listing order, every crash point *)
Theorem C05_clean_every_crash_point : forall w l vacuum order m,
  Inv H inflate w -> pending l = [] ->
  let w' := crash (run_events (w, l) (firstn m (p_clean w vacuum order))) in
  Inv H inflate w' /\ (forall k c, stored inflate w k = Some c -> stored inflate w' k = Some c).
Proof.
  intros w l vacuum order m A B.
  destruct (clean_crash_safe H inflate H_inj w l false vacuum order m A B) as (X & Y & _). split; assumption.
Qed.

(* (2d) delete_objects: at every crash point the invariant holds and every object NOT targeted is still stored *)
Theorem C05_delete_every_crash_point : forall w l ks m,
  Inv H inflate w -> pending l = [] ->
  let w' := crash (run_events (w, l) (firstn m (p_delete w ks))) in
  Inv H inflate w' /\ (forall k c, ~ In k ks -> stored inflate w k = Some c -> stored inflate w' k = Some c).
Proof. intros w l ks m A B. exact (delete_always H inflate w l ks A B m). Qed.

(* (2e) repack_pack: write pack -1, fsync, re-point rows, COMMIT, unlink old pack, link -1 back, re-point, COMMIT, unlink -1 -
   ALL worlds, live-row sets, recompressed blobs, EVERY crash point: the invariant holds (rows point at -1 or at the id, both existing
   with the right bytes - the 'fails loudly' case of the property is the library refusing pack id -1, the data are intact) and every
   key reads back exactly as before *)
Theorem C05_repack_every_crash_point : forall w l id objs m,
  Inv H inflate w -> pending l = [] -> id <> REPACK -> get_pack w REPACK = None ->
  Forall (robj_ok inflate w id) objs -> NoDup (map okey objs) ->
  (forall r, In r (db w) -> rpack r = id -> In (rkey r) (map okey objs)) ->
  rows_of_pack (db w) id <> [] ->
  let w' := crash (run_events (w, l) (firstn m (p_repack_one w id objs))) in
  Inv H inflate w' /\ (forall k c, stored inflate w k = Some c -> stored inflate w' k = Some c).
Proof.
  intros w l id objs m A B C D E F G I.
  destruct (repack_crash_safe H inflate H_inj w l id objs false m A B C D E F G I) as (X & Y & _). split; assumption.
Qed.

(* (2f) add_objects_to_pack / add_streamed_objects_to_pack (one pack), the three modes, ALL batches, EVERY crash point *)
Theorem C05_add_to_pack_every_crash_point : forall w l id objs nh twice fs m,
  Inv H inflate w -> pending l = [] -> Forall (aobj_ok H inflate) objs ->
  let w' := crash (run_events (w, l) (firstn m (p_add_to_pack w id objs nh twice fs))) in
  Inv H inflate w' /\ (forall k c, stored inflate w k = Some c -> stored inflate w' k = Some c).
Proof.
  intros w l id objs nh twice fs m A B C.
  destruct (add_to_pack_crash_safe H inflate H_inj w l id objs nh twice fs m A B C) as (X & Y & _). split; assumption.
Qed.

(* (3) what a new handle returns for a visible key has the key as digest: right bytes, never another object's *)
Theorem C05_new_handle_never_wrong_bytes : forall w k c, Inv H inflate w -> stored inflate w k = Some c -> H c = k.
Proof. exact (stored_sound H inflate). Qed.

(* (4) whatever part of a user-space buffer had reached the OS at the kill does not matter *)
Theorem C05_any_spill : forall w id f x s,
  Inv H inflate w -> get_pack w id = Some f -> Inv H inflate (append_pack w id f x s).
Proof. exact (Inv_append_pack H inflate). Qed.
(* import_objects, the transfer (any number of do_commit=False batches over any packs, one final COMMIT), all three modes, with or without fsync *)
Theorem C05_import_every_crash_point : forall w l bs nh twice fs m,
  Inv H inflate w -> pending l = [] -> Forall (fun b => Forall (aobj_ok H inflate) (snd b)) bs ->
  let w' := crash (run_events (w, l) (firstn m (p_import w nh twice fs bs))) in
  Inv H inflate w' /\ (forall k c, stored inflate w k = Some c -> stored inflate w' k = Some c).
Proof. intros w l bs nh twice fs m HI Hp Ho. destruct (import_crash_safe H inflate H_inj w l bs nh twice fs m HI Hp Ho) as (A & B & _). split; assumption. Qed.
(* a pack_all_loose call that fills ANY number of packs (segments: the objects per pack, Layout.segs; ids: PickPack.pick), with or
   without fsync and per-pack clean: every crash point of the whole call satisfies the invariant, and after the call every key reads
   back exactly as before *)
Theorem C05_pack_all_loose_over_any_number_of_packs : forall fs clean (segs : list (Z * list pobj)) s,
  Inv H inflate (fst s) -> pending (snd s) = [] ->
  Forall (obj_ok inflate (fst s)) (concat (map snd segs)) -> NoDup (map okey (concat (map snd segs))) ->
  (forall x, In x (concat (map snd segs)) -> ~ In (okey x) (map rkey (db (fst s)))) ->
  let ops := map (fun sg => OPack (fst sg) (snd sg) fs clean) segs in
  (forall n, Inv H inflate (crash (run_events s (firstn n (hist_trace H s ops))))) /\
  Inv H inflate (fst (run_hist H s ops)) /\ forall k, stored inflate (fst (run_hist H s ops)) k = stored inflate (fst s) k.
Proof. exact (pack_multi H inflate H_inj). Qed.

(* ANY history of operations, killed after ANY number of primitives: the invariant holds *)
Theorem C05_every_crash_point_of_every_history : forall ops s,
  Inv H inflate (fst s) -> pending (snd s) = [] -> pre_hist H inflate s ops ->
  forall n, Inv H inflate (crash (run_events s (firstn n (hist_trace H s ops)))).
Proof. exact (history_every_crash_point H inflate H_inj). Qed.
(* ... and, when the history deletes nothing, every object stored at its start is still stored with its bytes at EVERY crash point of
   the whole history *)
Theorem C05_no_history_loses_an_object : forall ops s,
  Inv H inflate (fst s) -> pending (snd s) = [] -> pre_hist H inflate s ops -> forallb (fun o => negb (is_delete o)) ops = true ->
  forall n k c, stored inflate (fst s) k = Some c ->
    stored inflate (crash (run_events s (firstn n (hist_trace H s ops)))) k = Some c.
Proof. exact (history_never_loses H inflate H_inj). Qed.
End C05.
Print Assumptions C05_monitor_sound.
Print Assumptions C05_add_loose_every_crash_point.
Print Assumptions C05_pack_every_crash_point.
Print Assumptions C05_clean_every_crash_point.
Print Assumptions C05_delete_every_crash_point.
Print Assumptions C05_repack_every_crash_point.
Print Assumptions C05_add_to_pack_every_crash_point.
Print Assumptions C05_new_handle_never_wrong_bytes.
Print Assumptions C05_any_spill.
Print Assumptions C05_import_every_crash_point.
Print Assumptions C05_pack_all_loose_over_any_number_of_packs.
Print Assumptions C05_every_crash_point_of_every_history.
Print Assumptions C05_no_history_loses_an_object.
