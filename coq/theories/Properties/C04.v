(* C04 - readers and loose writers are never disturbed by a concurrent packer.  Statements only. *)
From Coq Require Import List ZArith NArith.
From DOS Require Import Generated Base Store StoreProofs StoreLemmas Mono MonoStep.
Import ListNotations.

Section C04.
Variable H : bytes -> key.
Variable inflate : bytes -> option bytes.
Hypothesis H_inj : forall a b, H a = H b -> a = b.

(* (1) Every step of a loose writer or of the packer (pack_all_loose with any options, clean_storage), under its side
   conditions (a file is renamed into loose/ only if its bytes hash to the name; a loose file is unlinked only once a row
   for its key is committed; commits only insert; no truncation / pack removal), is a step of the monotone history. *)
Theorem C04_actor_steps_are_monotone : forall s e,
  Inv H inflate (fst s) -> mono_ok_b H s e = true -> Mono (fst s) (fst (apply_ev s e)).
Proof. exact (mono_step H inflate H_inj). Qed.

(* (2) ... hence so is every finite interleaving of such steps, whoever executes them, in whatever order *)
Theorem C04_any_interleaving_is_monotone : forall tr s, all_ok H inflate s tr -> Mono (fst s) (fst (run_events s tr)).
Proof. exact (mono_steps H inflate H_inj). Qed.

(* (3) The reader protocol (index snapshot w1 -> pack bytes at w1' / loose file at w2 -> refreshed snapshot w3 -> pack bytes
   at w4), with ARBITRARY monotone histories between its observations, returns exactly the bytes of every object that was
   stored at any w0 before the loose lookup - never missing, never partial, never another object's bytes. *)
Theorem C04_reader_finds_every_acknowledged_object : forall w0 w1 w1' w2 w3 w4 k c,
  Inv H inflate w0 -> Inv H inflate w1 -> Inv H inflate w2 -> Inv H inflate w3 ->
  Mono w1 w1' -> Mono w0 w2 -> Mono w2 w3 -> Mono w3 w4 ->
  stored inflate w0 k = Some c ->
  lookup inflate w1 w1' w2 w3 w4 k = Some c.
Proof. exact (reader_finds H inflate H_inj). Qed.

(* (4) the boolean side-condition checker run on implementation traces is sound *)
Theorem C04_trace_checker_sound : forall tr s, all_ok_b H inflate s tr = true -> all_ok H inflate s tr.
Proof. exact (all_ok_b_sound H inflate). Qed.
End C04.

(* (5) re-loosened cache: one packer run removes a given loose name at most twice (per-pack clean, then clean_storage); the
   retry budget of LazyLooseStream.open_stream in the current source covers that *)
Theorem C04_retries_suffice : (2 <= MAX_RETRIES)%Z.
Proof. cbv. congruence. Qed.
Print Assumptions C04_actor_steps_are_monotone.
Print Assumptions C04_any_interleaving_is_monotone.
Print Assumptions C04_reader_finds_every_acknowledged_object.
Print Assumptions C04_trace_checker_sound.
Print Assumptions C04_retries_suffice.
