(* C04 - readers and loose writers are never disturbed by a concurrent packer.  Statements only. *)
From Coq Require Import List ZArith NArith.
From DOS Require Import Generated Base Store StoreProofs StoreLemmas Mono MonoStep Programs PackProofs AddPackProofs ImportProofs MonoProgs Lookup LookupProofs LookupWorld.
Import ListNotations.

Section C04.
Variable H : bytes -> key.
Variable inflate : bytes -> option bytes.
Hypothesis H_inj : forall a b, H a = H b -> a = b.

(* (1) Every step of a loose writer or of the packer (pack_all_loose with any options, clean_storage), under its side
   conditions (a file is renamed into loose/ only if its bytes hash to the name; a loose file is unlinked only once a row
   for its key is committed; commits only insert; no truncation / pack removal), is a step of the monotone history. *)
Theorem C04_actor_steps_are_monotone : forall s e,
  Inv H inflate (fst s) -> mono_ok_b H s e = true -> Mono (fst s) (fst (apply_ev s e)).
Proof. exact (mono_step H inflate H_inj). Qed.

(* (2) ... hence so is every finite interleaving of such steps, whoever executes them, in whatever order *)
Theorem C04_any_interleaving_is_monotone : forall tr s, all_ok H inflate s tr -> Mono (fst s) (fst (run_events s tr)).
Proof. exact (mono_steps H inflate H_inj). Qed.

(* (3) The reader protocol (index snapshot w1 -> pack bytes at w1' / loose file at w2 -> refreshed snapshot w3 -> pack bytes
   at w4), with ARBITRARY monotone histories between its observations, returns exactly the bytes of every object that was
   stored at any w0 before the loose lookup - never missing, never partial, never another object's bytes. *)
Theorem C04_reader_finds_every_acknowledged_object : forall w0 w1 w1' w2 w3 w4 k c,
  Inv H inflate w0 -> Inv H inflate w1 -> Inv H inflate w2 -> Inv H inflate w3 ->
  Mono w1 w1' -> Mono w0 w2 -> Mono w2 w3 -> Mono w3 w4 ->
  stored inflate w0 k = Some c ->
  lookup inflate w1 w1' w2 w3 w4 k = Some c.
Proof. exact (reader_finds H inflate H_inj). Qed.

(* (4) the boolean side-condition checker run on implementation traces is sound *)
Theorem C04_trace_checker_sound : forall tr s, all_ok_b H inflate s tr = true -> all_ok H inflate s tr.
Proof. exact (all_ok_b_sound H inflate). Qed.
(* (1') program level: for ALL inputs every step of the loose writer (add_object / add_streamed_object), of the packer (pack_all_loose
   one pack, with or without fsync and per-pack clean; clean_storage) and of a same-hash import / plain direct-to-pack passes those side
   conditions - the hypothesis of (2) is discharged for the programs themselves, not only for observed traces *)
Theorem C04_writer_is_monotone : forall w l n chunks, Inv H inflate w -> all_ok H inflate (w, l) (p_add_loose H w n chunks).
Proof. exact (add_loose_all_ok H inflate H_inj). Qed.
Theorem C04_packer_is_monotone : forall w l id objs fs clean,
  Inv H inflate w -> pending l = [] ->
  Forall (obj_ok inflate w) objs -> NoDup (map okey objs) -> (forall o, In o objs -> ~ In (okey o) (map rkey (db w))) ->
  all_ok H inflate (w, l) (p_pack_one w id objs fs clean).
Proof. exact (pack_one_all_ok H inflate H_inj). Qed.
Theorem C04_cleaner_is_monotone : forall w l vacuum order,
  Inv H inflate w -> pending l = [] -> all_ok H inflate (w, l) (p_clean w vacuum order).
Proof. exact (clean_all_ok H inflate). Qed.
Theorem C04_plain_import_is_monotone : forall w l bs twice fs,
  Inv H inflate w -> pending l = [] -> Forall (fun b => Forall (aobj_ok H inflate) (snd b)) bs ->
  all_ok H inflate (w, l) (p_import w false twice fs bs).
Proof. exact (import_all_ok H inflate H_inj). Qed.

(* (3') a reader against ONE running actor: the reader's five observations (index snapshot, bytes of a snapshot row, loose folder,
   refreshed snapshot, bytes of a refreshed row) fall after ANY p1 <= p1', p2 <= p3 <= p4 primitives of the actor's run: every object
   stored before the actor started is returned with exactly its bytes *)
Theorem C04_reader_during_a_monotone_run : forall s tr p1 p1' p2 p3 p4 k c,
  all_ok H inflate s tr -> (forall m, Inv H inflate (fst (run_events s (firstn m tr)))) ->
  p1 <= p1' -> p2 <= p3 -> p3 <= p4 ->
  stored inflate (fst s) k = Some c ->
  lookup inflate (fst (run_events s (firstn p1 tr))) (fst (run_events s (firstn p1' tr))) (fst (run_events s (firstn p2 tr)))
                 (fst (run_events s (firstn p3 tr))) (fst (run_events s (firstn p4 tr))) k = Some c.
Proof. intros s tr p1 p1' p2 p3 p4 k c A AI. exact (reader_during_run H inflate H_inj s tr p1 p1' p2 p3 p4 k c A AI). Qed.

(* the BULK reader under concurrency: the generator (Lookup.lookup_bulk) reads the index through a snapshot w1 pinned at any time, looks
   at every loose file at an instant of its own (observed_loose: for each key SOME instant between w0 and the refreshed index w3), and
   re-queries a refreshed index w3; writers and the packer with cleaning take any monotone steps in between.  Every object whose
   addition had returned at w0 is reported, with the length of its content, whatever the thresholds, the request and the schedule *)
Theorem C04_bulk_reader_under_concurrency : forall cfg skip w0 w1 w3 ls ks k c,
  (0 < in_max cfg)%nat -> NoDup ks ->
  Inv H inflate w0 -> Inv H inflate w1 -> Inv H inflate w3 -> observed_loose H inflate w0 w3 ls ->
  stored inflate w0 k = Some c -> In k ks ->
  exists f, In f (fst (lookup_bulk cfg skip (db w1) ls (db w3) ks)) /\ fkey f = k /\ fsize f = Some (length c).
Proof. exact (bulk_reports_every_stored_object_concurrent H inflate H_inj). Qed.
End C04.

(* (5) re-loosened cache: one packer run removes a given loose name at most twice (per-pack clean, then clean_storage); the
   retry budget of LazyLooseStream.open_stream in the current source covers that *)
Theorem C04_retries_suffice : (2 <= MAX_RETRIES)%Z.
Proof. cbv. congruence. Qed.
Print Assumptions C04_actor_steps_are_monotone.
Print Assumptions C04_any_interleaving_is_monotone.
Print Assumptions C04_reader_finds_every_acknowledged_object.
Print Assumptions C04_trace_checker_sound.
Print Assumptions C04_retries_suffice.
Print Assumptions C04_writer_is_monotone.
Print Assumptions C04_packer_is_monotone.
Print Assumptions C04_cleaner_is_monotone.
Print Assumptions C04_plain_import_is_monotone.
Print Assumptions C04_reader_during_a_monotone_run.
Print Assumptions C04_bulk_reader_under_concurrency.
