(* C11 - deletion removes exactly the requested objects; repack reclaims their space.  Statements only (partial). *)
From Coq Require Import List ZArith NArith.
From DOS Require Import Base Store StoreProofs StoreLemmas MonoStep Programs ProgramsProofs PackProofs MaintProofs RepackProofs AddPackProofs ImportProofs C13Proofs C02Proofs History.
Import ListNotations.

Section C11.
Variable H : bytes -> key.
Variable inflate : bytes -> option bytes.
Hypothesis H_inj : forall a b, H a = H b -> a = b.

(* delete_objects(ks) as a program, ALL worlds and key lists (present, absent, repeated; loose, packed or both): afterwards no
   requested key is stored, every other object reads back exactly as before, the invariant holds; pack files are untouched *)
Theorem C11_delete_program : forall w l ks,
  Inv H inflate w -> pending l = [] ->
  let w' := crash (run_events (w, l) (p_delete w ks)) in
  Inv H inflate w' /\ (forall k, In k ks -> stored inflate w' k = None) /\
  (forall k c, ~ In k ks -> stored inflate w k = Some c -> stored inflate w' k = Some c).
Proof.
  intros w l ks A B. cbn zeta.
  pose proof (delete_always H inflate w l ks A B (length (p_delete w ks))) as (X & Y). rewrite firstn_all in X, Y.
  split; [exact X|]. split; [|exact Y]. intros k Hk. exact (delete_removes_requested H inflate w l ks k A B Hk).
Qed.

(* repack_pack(id) as a program, ALL worlds / live rows / (re)compressed blobs: afterwards the pack file is exactly the concatenation of
   the live objects' stored bytes (no unreferenced byte, in particular none of a deleted object), fully synced; the temporary pack is
   gone; every other pack and the loose folder are untouched; the index holds the same keys, re-offset *)
Theorem C11_repack_reclaims : forall w l id objs,
  Inv H inflate w -> pending l = [] -> id <> REPACK -> get_pack w REPACK = None ->
  Forall (robj_ok inflate w id) objs ->
  (forall r, In r (db w) -> rpack r = id -> In (rkey r) (map okey objs)) ->
  rows_of_pack (db w) id <> [] ->
  exists w' l', run_events (w, l) (p_repack_one w id objs) = (w', l') /\
    get_pack w' id = Some (mkFile (concat (map oblob objs)) (concat (map oblob objs))) /\ get_pack w' REPACK = None /\
    map rkey (db w') = map rkey (db w) /\
    (forall j, j <> id -> j <> REPACK -> get_pack w' j = get_pack w j) /\ loose w' = loose w.
Proof.
  intros w l id objs A B C D E F G.
  destruct (repack_final_state w id objs C D l B G) as (w' & l' & R & P1 & P2 & P3 & P4 & P5).
  exists w', l'. split; [exact R|]. split; [exact P1|]. split; [exact P2|]. split; [|split; [exact P4|exact P5]].
  rewrite P3. apply (keys_d2 H inflate w id objs A E F).
Qed.

(* a pack without live rows is removed (and nothing else changes what any key reads back as) *)
Theorem C11_repack_removes_empty_pack : forall w l id fs m,
  Inv H inflate w -> rows_of_pack (db w) id = [] ->
  Good H inflate w fs (fst (run_events (w, l) (firstn m (p_repack_one w id [])))).
Proof. intros w l id fs m A B. exact (repack_empty_always H inflate H_inj w l id fs A B m). Qed.
(* deletion is EXACT: every key that was not requested reads back exactly as before, present or absent (the requested ones are gone:
   C11_delete_program) *)
Theorem C11_delete_changes_nothing_else : forall w l ks k,
  Inv H inflate w -> pending l = [] -> ~ In k ks ->
  stored inflate (crash (run_events (w, l) (p_delete w ks))) k = stored inflate w k.
Proof. intros w l ks k HI Hp Hn. exact (delete_exact H inflate w l ks k HI Hp Hn). Qed.

(* the completed repack of a pack (live objects re-encoded or not, or the removal of a pack without live objects) changes what NO key
   reads back as, in either direction, and leaves the invariant in place *)
Theorem C11_repack_changes_no_view : forall w l id objs,
  Inv H inflate w -> pending l = [] -> pre H inflate w (ORepack id objs) ->
  Inv H inflate (fst (run_events (w, l) (p_repack_one w id objs))) /\
  forall k, stored inflate (fst (run_events (w, l) (p_repack_one w id objs))) k = stored inflate w k.
Proof. exact (repack_exact H inflate H_inj). Qed.
End C11.
Print Assumptions C11_delete_program.
Print Assumptions C11_repack_reclaims.
Print Assumptions C11_repack_removes_empty_pack.

(* the DELETE statement removes exactly the rows whose key was requested, and nothing else *)
Theorem C11_delete_exactly_requested : forall d ks r, In r (apply_sql d (SDelete ks)) <-> In r d /\ ~ In (rkey r) ks.
Proof. exact delete_spec. Qed.

(* repacking (row rewrite into the temporary pack, then re-pointing) never changes which keys are indexed *)
Theorem C11_repack_keeps_keys_update : forall d rs, map rkey (apply_sql d (SUpdateRows rs)) = map rkey d.
Proof. exact updaterows_keys. Qed.
Theorem C11_repack_keeps_keys_repoint : forall d o n, map rkey (apply_sql d (SRepoint o n)) = map rkey d.
Proof. exact repoint_keys. Qed.

(* unlinking a loose file removes that name and no other *)
Theorem C11_unlink_removes_only_that_key : forall (lo : list (key * file)) k k',
  k' <> k -> aget N.eqb (adel N.eqb lo k) k' = aget N.eqb lo k'.
Proof. intros. apply (MonoStep.g_adel_neq N.eqb N.eqb_spec); auto. Qed.
Theorem C11_unlink_removes_that_key : forall (lo : list (key * file)) k, aget N.eqb (adel N.eqb lo k) k = None.
Proof. intros. apply (MonoStep.g_adel_eq N.eqb N.eqb_spec). Qed.
Print Assumptions C11_delete_exactly_requested.
Print Assumptions C11_repack_keeps_keys_update.
Print Assumptions C11_repack_keeps_keys_repoint.
Print Assumptions C11_unlink_removes_only_that_key.
Print Assumptions C11_unlink_removes_that_key.
Print Assumptions C11_delete_changes_nothing_else.
Print Assumptions C11_repack_changes_no_view.
