(* C11 - deletion removes exactly the requested objects; repack reclaims their space.  Statements only (partial). *)
From Coq Require Import List ZArith NArith.
From DOS Require Import Base Store StoreProofs StoreLemmas MonoStep Programs ProgramsProofs PackProofs MaintProofs.
Import ListNotations.

Section C11.
Variable H : bytes -> key.
Variable inflate : bytes -> option bytes.
Hypothesis H_inj : forall a b, H a = H b -> a = b.

(* delete_objects(ks) as a program, ALL worlds and key lists (present, absent, repeated; loose, packed or both): afterwards no
   requested key is stored, every other object reads back exactly as before, the invariant holds; pack files are untouched *)
Theorem C11_delete_program : forall w l ks,
  Inv H inflate w -> pending l = [] ->
  let w' := crash (run_events (w, l) (p_delete w ks)) in
  Inv H inflate w' /\ (forall k, In k ks -> stored inflate w' k = None) /\
  (forall k c, ~ In k ks -> stored inflate w k = Some c -> stored inflate w' k = Some c).
Proof.
  intros w l ks A B. cbn zeta.
  pose proof (delete_always H inflate w l ks A B (length (p_delete w ks))) as (X & Y). rewrite firstn_all in X, Y.
  split; [exact X|]. split; [|exact Y]. intros k Hk. exact (delete_removes_requested H inflate w l ks k A B Hk).
Qed.
End C11.
Print Assumptions C11_delete_program.

(* the DELETE statement removes exactly the rows whose key was requested, and nothing else *)
Theorem C11_delete_exactly_requested : forall d ks r, In r (apply_sql d (SDelete ks)) <-> In r d /\ ~ In (rkey r) ks.
Proof. exact delete_spec. Qed.

(* repacking (row rewrite into the temporary pack, then re-pointing) never changes which keys are indexed *)
Theorem C11_repack_keeps_keys_update : forall d rs, map rkey (apply_sql d (SUpdateRows rs)) = map rkey d.
Proof. exact updaterows_keys. Qed.
Theorem C11_repack_keeps_keys_repoint : forall d o n, map rkey (apply_sql d (SRepoint o n)) = map rkey d.
Proof. exact repoint_keys. Qed.

(* unlinking a loose file removes that name and no other *)
Theorem C11_unlink_removes_only_that_key : forall (lo : list (key * file)) k k',
  k' <> k -> aget N.eqb (adel N.eqb lo k) k' = aget N.eqb lo k'.
Proof. intros. apply (MonoStep.g_adel_neq N.eqb N.eqb_spec); auto. Qed.
Theorem C11_unlink_removes_that_key : forall (lo : list (key * file)) k, aget N.eqb (adel N.eqb lo k) k = None.
Proof. intros. apply (MonoStep.g_adel_eq N.eqb N.eqb_spec). Qed.
Print Assumptions C11_delete_exactly_requested.
Print Assumptions C11_repack_keeps_keys_update.
Print Assumptions C11_repack_keeps_keys_repoint.
Print Assumptions C11_unlink_removes_only_that_key.
Print Assumptions C11_unlink_removes_that_key.
