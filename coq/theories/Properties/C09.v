(* C09 - storing known content never creates a second copy.  Statements only (partial: see MANIFEST). *)
From Coq Require Import List ZArith NArith.
From DOS Require Import Base Store StoreProofs StoreLemmas MonoStep Programs ProgramsProofs.
Import ListNotations.

Section C09.
Variable H : bytes -> key.
Variable inflate : bytes -> option bytes.
Hypothesis H_inj : forall a b, H a = H b -> a = b.

(* at most one index entry per key, whatever batch (with whatever repetitions) is inserted, with or without OR IGNORE *)
Theorem C09_one_index_entry_per_key : forall ig rs d, NoDup (map rkey d) -> NoDup (map rkey (insert_rows ig d rs)).
Proof. intros ig rs d. exact (insert_rows_nodup ig rs d). Qed.

(* rows already present are never replaced or duplicated by an insert *)
Theorem C09_existing_entries_untouched : forall ig rs d r, In r d -> In r (insert_rows ig d rs).
Proof. intros ig rs d r. exact (insert_rows_keeps ig rs d r). Qed.

(* re-adding content that is already a (correct) loose object publishes nothing: loose/, packs/ and the index are unchanged
   at every point of the call, the same key is returned (it is H of the content by construction) *)
Theorem C09_known_loose_content_is_a_noop : forall w l n chunks m f,
  Inv H inflate w -> get_loose w (H (concat chunks)) = Some f ->
  core (fst (run_events (w, l) (firstn m (p_add_loose H w n chunks)))) = core w.
Proof.
  intros w l n chunks m f HI Hf.
  destruct (Nat.lt_ge_cases m (length (p_add_loose H w n chunks))) as [Hlt|Hge].
  - apply add_loose_prefix_core; auto.
  - rewrite firstn_all2 by lia.
    assert (Hd : dest_ok H w (H (concat chunks)) = true) by (apply (dest_ok_iff H inflate w _ HI); eauto).
    rewrite p_add_loose_split. unfold last_part. rewrite Hd.
    unfold run_events. rewrite fold_left_app. fold (run_events (w, l) (sand_part n chunks)).
    destruct (run_sandbox_part w l n chunks) as (w1 & l1 & Hr & Hc & _). unfold sand_part. rewrite Hr.
    cbn [fold_left apply_ev fst]. rewrite <- Hc. reflexivity.
Qed.

(* the loose folder is a map: publishing under a key replaces, it never adds a second file for that key *)
Theorem C09_one_loose_file_per_key : forall (lo : list (key * file)) k f k',
  aget N.eqb (aset N.eqb lo k f) k' = if N.eqb k' k then Some f else aget N.eqb lo k'.
Proof.
  intros lo k f k'. destruct (N.eqb_spec k' k) as [->|Hne].
  - apply (MonoStep.g_aset_eq N.eqb N.eqb_spec).
  - apply (MonoStep.g_aset_neq N.eqb N.eqb_spec); auto.
Qed.
End C09.
Print Assumptions C09_one_index_entry_per_key.
Print Assumptions C09_existing_entries_untouched.
Print Assumptions C09_known_loose_content_is_a_noop.
Print Assumptions C09_one_loose_file_per_key.
