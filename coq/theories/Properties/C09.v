(* C09 - storing known content never creates a second copy.  Statements only (partial: see MANIFEST). *)
From Coq Require Import List ZArith NArith.
From DOS Require Import Base Store StoreProofs StoreLemmas MonoStep Programs ProgramsProofs PackProofs AddPackProofs.
Import ListNotations.

Section C09.
Variable H : bytes -> key.
Variable inflate : bytes -> option bytes.
Hypothesis H_inj : forall a b, H a = H b -> a = b.

(* at most one index entry per key, whatever batch (with whatever repetitions) is inserted, with or without OR IGNORE *)
Theorem C09_one_index_entry_per_key : forall ig rs d, NoDup (map rkey d) -> NoDup (map rkey (insert_rows ig d rs)).
Proof. intros ig rs d. exact (insert_rows_nodup ig rs d). Qed.

(* rows already present are never replaced or duplicated by an insert *)
Theorem C09_existing_entries_untouched : forall ig rs d r, In r d -> In r (insert_rows ig d rs).
Proof. intros ig rs d r. exact (insert_rows_keeps ig rs d r). Qed.

(* re-adding content that is already a (correct) loose object publishes nothing: loose/, packs/ and the index are unchanged
   at every point of the call, the same key is returned (it is H of the content by construction) *)
Theorem C09_known_loose_content_is_a_noop : forall w l n chunks m f,
  Inv H inflate w -> get_loose w (H (concat chunks)) = Some f ->
  core (fst (run_events (w, l) (firstn m (p_add_loose H w n chunks)))) = core w.
Proof.
  intros w l n chunks m f HI Hf.
  destruct (Nat.lt_ge_cases m (length (p_add_loose H w n chunks))) as [Hlt|Hge].
  - apply add_loose_prefix_core; auto.
  - rewrite firstn_all2 by lia.
    assert (Hd : dest_ok H w (H (concat chunks)) = true) by (apply (dest_ok_iff H inflate w _ HI); eauto).
    rewrite p_add_loose_split. unfold last_part. rewrite Hd.
    unfold run_events. rewrite fold_left_app. fold (run_events (w, l) (sand_part n chunks)).
    destruct (run_sandbox_part w l n chunks) as (w1 & l1 & Hr & Hc & _). unfold sand_part. rewrite Hr.
    cbn [fold_left apply_ev fst]. rewrite <- Hc. reflexivity.
Qed.

(* the loose folder is a map: publishing under a key replaces, it never adds a second file for that key *)
Theorem C09_one_loose_file_per_key : forall (lo : list (key * file)) k f k',
  aget N.eqb (aset N.eqb lo k f) k' = if N.eqb k' k then Some f else aget N.eqb lo k'.
Proof.
  intros lo k f k'. destruct (N.eqb_spec k' k) as [->|Hne].
  - apply (MonoStep.g_aset_eq N.eqb N.eqb_spec).
  - apply (MonoStep.g_aset_neq N.eqb N.eqb_spec); auto.
Qed.

(* direct-to-pack, ALL batches (any repetitions; known and new keys in any order), all three modes, EVERY crash point: the invariant
   holds (in particular: no key indexed twice, rows valid) and everything stored stays stored *)
Theorem C09_add_to_pack_every_prefix : forall w l id objs nh twice fs m,
  Inv H inflate w -> pending l = [] -> Forall (aobj_ok H inflate) objs ->
  let w' := crash (run_events (w, l) (firstn m (p_add_to_pack w id objs nh twice fs))) in
  Inv H inflate w' /\ (forall k c, stored inflate w k = Some c -> stored inflate w' k = Some c).
Proof.
  intros w l id objs nh twice fs m A B C.
  destruct (add_to_pack_crash_safe H inflate H_inj w l id objs nh twice fs m A B C) as (X & Y & _). split; assumption.
Qed.

(* the no_holes option (both read_twice values), completed call: the pack is its old bytes followed by the stored bytes of exactly the
   objects whose key was not indexed before - each once, in first-occurrence order (atp_bytes): nothing is added for known content and
   no unreferenced byte is left behind; other packs and the loose folder are untouched *)
Theorem C09_no_holes : forall w l id objs twice fs,
  pending l = [] ->
  exists w' l' syn, run_events (w, l) (p_add_to_pack w id objs true twice fs) = (w', l') /\
    get_pack w' id = Some (mkFile (Dof w id ++ atp_bytes true (map rkey (db w)) objs) syn) /\
    (forall j, j <> id -> get_pack w' j = get_pack w j) /\ loose w' = loose w.
Proof. exact add_to_pack_no_holes_final. Qed.

(* a batch of known content only adds nothing at all *)
Theorem C09_known_only_adds_nothing : forall known objs,
  (forall o, In o objs -> In (okey o) known) -> atp_bytes true known objs = [].
Proof.
  intros known objs. induction objs as [|o t IH]; intros Hk; [reflexivity|].
  cbn [atp_bytes andb]. assert (E : existsb (N.eqb (okey o)) known = true).
  { apply existsb_exists. exists (okey o). split; [apply Hk; left; reflexivity|apply N.eqb_refl]. }
  rewrite E. apply IH. intros o' Ho'. apply Hk. right; exact Ho'.
Qed.
End C09.
Print Assumptions C09_one_index_entry_per_key.
Print Assumptions C09_existing_entries_untouched.
Print Assumptions C09_known_loose_content_is_a_noop.
Print Assumptions C09_one_loose_file_per_key.
Print Assumptions C09_add_to_pack_every_prefix.
Print Assumptions C09_no_holes.
Print Assumptions C09_known_only_adds_nothing.

(* regression witness of finding F3 (pre-repair loop: after a known object the handle is sought back but the pack is NOT truncated at
   once; offsets keep coming from tell()): pack [1] holds key 1; the batch [known 1; new 2] indexes key 2 at offset 1, where the
   duplicate's byte sits, and the final truncate cuts the new object's byte away - the checker rejects the result *)
Definition f3H (b : bytes) : key := match b with [x] => x | _ => 0%N end.
Definition f3_world : world := {| loose := []; packs := [(0%Z, mkFile [1%N] [1%N])]; sandbox := []; db := [mkRow 1%N 0%Z 0 1 false 1] |}.
Definition f3_v0_trace : list event :=
  [EOpenPack 0%Z; EWrite (HPack 0%Z) [1%N]; (* known: seek back to 1, no truncate *) EWrite (HPack 0%Z) [2%N];
   ETruncate 0%Z 2; ESql (SInsert true [mkRow 2%N 0%Z 1 1 false 1]); EFlush (HPack 0%Z); EFsync (HPack 0%Z); EClose (HPack 0%Z); ECommit].
Theorem C09_no_truncate_v0_refuted :
  inv_b f3H (fun _ => None) f3_world = true /\
  inv_b f3H (fun _ => None) (crash (run_events (f3_world, local0) f3_v0_trace)) = false /\
  (* while the repaired program on the same batch is accepted *)
  inv_b f3H (fun _ => None) (crash (run_events (f3_world, local0)
     (p_add_to_pack f3_world 0%Z [mkPobj 1%N [1%N] false 1; mkPobj 2%N [2%N] false 1] true false true))) = true.
Proof. vm_compute. repeat split. Qed.
Print Assumptions C09_no_truncate_v0_refuted.
