(* C12 - validate() is clean on every reachable state and never clean on a damaged one.  Statements only. *)
From Coq Require Import List ZArith NArith.
From DOS Require Import Base Store StoreProofs StoreLemmas Validate ValidateScan.
Import ListNotations.

Section C12.
Variable H : bytes -> key.
Variable inflate : bytes -> option bytes.

(* no false positive: the invariant (which holds on every reachable state, C03) implies a clean report *)
Theorem C12_no_false_positive : forall w, Inv H inflate w -> validate_b H inflate w = true.
Proof. exact (validate_no_false_positive H inflate). Qed.

(* no false negative, for EVERY world (arbitrary damage, not only single bits): a clean report implies that every visible key
   reads back through the library as bytes with that digest and the recorded size; contrapositive: any damage that makes an
   object unreadable, different, or of another size makes validation non-clean *)
Theorem C12_no_false_negative : forall w, validate_b H inflate w = true ->
  (forall r, In r (db w) -> NoDup (map rkey (db w)) ->
     exists c, lookup_impl inflate w (rkey r) = Some c /\ H c = rkey r /\ length c = rsize r) /\
  (forall k f, get_loose w k = Some f -> find_row (db w) k = None ->
     lookup_impl inflate w k = Some (fdata f) /\ H (fdata f) = k).
Proof. exact (validate_no_false_negative H inflate). Qed.

Theorem C12_read_path_is_recovery : forall w k, Inv H inflate w -> lookup_impl inflate w k = stored inflate w k.
Proof. exact (lookup_impl_stored H inflate). Qed.

(* validate() AS THE CODE RUNS IT (ValidateScan.validate_f): pack ids from the index in increasing order; per pack the entries ordered by
   offset, each re-read and compared only with the RUNNING end of its predecessor; loose files re-hashed.  A clean report of that scan,
   on ANY world (whatever the damage), implies the abstract cleanliness above: every entry re-reads as its key and size and ALL pairs of
   entries are disjoint - so the no-false-negative theorem applies to the report the code computes *)
Theorem C12_clean_scan_is_clean : forall w,
  NoDup (map rkey (db w)) ->
  validate_f (rd_of H inflate w) (db w) (map fst (loose w)) (fun k => match get_loose w k with Some f => H (fdata f) | None => k end) = Some (([], [], []), []) ->
  NoDup (map fst (loose w)) ->
  validate_b H inflate w = true.
Proof. exact (clean_scan_is_clean H inflate). Qed.
End C12.
Print Assumptions C12_no_false_positive.
Print Assumptions C12_no_false_negative.
Print Assumptions C12_read_path_is_recovery.
Print Assumptions C12_clean_scan_is_clean.

(* non-vacuity: two entries of pack 0, the second starting inside the first (index damage): the scan names it as overlapping;
   with the offset repaired the scan is clean.  rd: every entry re-reads as recorded *)
Example C12_scan_ex :
  validate_f (fun r => Some (rkey r, rsize r)) [mkRow 1%N 0%Z 0 10 false 10; mkRow 2%N 0%Z 7 5 false 5] [] (fun k => k) = Some (([], [], [2%N]), []) /\
  validate_f (fun r => Some (rkey r, rsize r)) [mkRow 1%N 0%Z 0 10 false 10; mkRow 2%N 0%Z 10 5 false 5] [] (fun k => k) = Some (([], [], []), []).
Proof. vm_compute. split; reflexivity. Qed.
