(* C12 - validate() is clean on every reachable state and never clean on a damaged one.  Statements only. *)
From Coq Require Import List ZArith NArith.
From DOS Require Import Base Store StoreProofs StoreLemmas Validate.
Import ListNotations.

Section C12.
Variable H : bytes -> key.
Variable inflate : bytes -> option bytes.

(* no false positive: the invariant (which holds on every reachable state, C03) implies a clean report *)
Theorem C12_no_false_positive : forall w, Inv H inflate w -> validate_b H inflate w = true.
Proof. exact (validate_no_false_positive H inflate). Qed.

(* no false negative, for EVERY world (arbitrary damage, not only single bits): a clean report implies that every visible key
   reads back through the library as bytes with that digest and the recorded size; contrapositive: any damage that makes an
   object unreadable, different, or of another size makes validation non-clean *)
Theorem C12_no_false_negative : forall w, validate_b H inflate w = true ->
  (forall r, In r (db w) -> NoDup (map rkey (db w)) ->
     exists c, lookup_impl inflate w (rkey r) = Some c /\ H c = rkey r /\ length c = rsize r) /\
  (forall k f, get_loose w k = Some f -> find_row (db w) k = None ->
     lookup_impl inflate w k = Some (fdata f) /\ H (fdata f) = k).
Proof. exact (validate_no_false_negative H inflate). Qed.

Theorem C12_read_path_is_recovery : forall w k, Inv H inflate w -> lookup_impl inflate w k = stored inflate w k.
Proof. exact (lookup_impl_stored H inflate). Qed.
End C12.
Print Assumptions C12_no_false_positive.
Print Assumptions C12_no_false_negative.
Print Assumptions C12_read_path_is_recovery.
