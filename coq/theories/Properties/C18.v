(* C18 - bounded resources: no descriptor leaks, one open file, chunked I/O.  Statements only (partial: see MANIFEST). *)
From Coq Require Import List ZArith NArith.
From DOS Require Import Generated Base Store MonoStep Programs ProgramsProofs Resources.
Import ListNotations.

(* the set of open write handles after ANY trace is determined by its opens and closes (model of the descriptor table) *)
Theorem C18_handles_tracked : forall tr s hs,
  (forall h, is_open (snd s) h <-> In h hs) -> (forall h, is_open (snd (run_events s tr)) h <-> In h (track_all hs tr)).
Proof. exact track_all_sound. Qed.

Section C18.
Variable H : bytes -> key.
(* add_object / add_streamed_object, every input: the call closes what it opened ... *)
Theorem C18_add_loose_balanced : forall w n chunks hs, ~ In (HSand n) hs -> track_all hs (p_add_loose H w n chunks) = hs.
Proof. exact (add_loose_closes_its_handle H). Qed.
(* ... and at EVERY point of the call at most one handle more than before is open, whatever the object size / chunk count *)
Theorem C18_add_loose_bounded : forall w n chunks hs m,
  length (track_all hs (firstn m (p_add_loose H w n chunks))) <= S (length hs).
Proof. exact (add_loose_at_most_one_handle H). Qed.
End C18.

(* chunk constants of the current source bound every single read/write of the streaming paths *)
Theorem C18_chunk_bounds : (CHUNKSIZE <= 16777216 /\ ADD_READ_CHUNK <= 16777216 /\ HASH_CHUNK <= 16777216 /\ ZLIB_CHUNKSIZE <= 16777216 /\ ZLIB_SEEK_READ_CHUNK <= 16777216)%Z.
Proof. cbv. repeat split; congruence. Qed.
Print Assumptions C18_handles_tracked.
Print Assumptions C18_add_loose_balanced.
Print Assumptions C18_add_loose_bounded.
Print Assumptions C18_chunk_bounds.
