(* C18 - bounded resources: no descriptor leaks, one open file, chunked I/O.  Statements only (partial: see MANIFEST). *)
From Coq Require Import List ZArith NArith.
From DOS Require Import Generated Base Store MonoStep Programs ProgramsProofs Resources ResourcesProgs Lookup LookupFd.
Import ListNotations.

(* the set of open write handles after ANY trace is determined by its opens and closes (model of the descriptor table) *)
Theorem C18_handles_tracked : forall tr s hs,
  (forall h, is_open (snd s) h <-> In h hs) -> (forall h, is_open (snd (run_events s tr)) h <-> In h (track_all hs tr)).
Proof. exact track_all_sound. Qed.

Section C18.
Variable H : bytes -> key.
(* add_object / add_streamed_object, every input: the call closes what it opened ... *)
Theorem C18_add_loose_balanced : forall w n chunks hs, ~ In (HSand n) hs -> track_all hs (p_add_loose H w n chunks) = hs.
Proof. exact (add_loose_closes_its_handle H). Qed.
(* ... and at EVERY point of the call at most one handle more than before is open, whatever the object size / chunk count *)
Theorem C18_add_loose_bounded : forall w n chunks hs m,
  length (track_all hs (firstn m (p_add_loose H w n chunks))) <= S (length hs).
Proof. exact (add_loose_at_most_one_handle H). Qed.
End C18.

(* every other write program, for ALL inputs (any number of objects, batches, packs): with no pack handle open before the call, the call
   closes what it opens and at EVERY point holds at most one handle more than before - descriptors do not accumulate with the number of
   objects or packs written *)
Theorem C18_pack_one_handle_at_a_time : forall w id objs fs clean hs, (forall i, ~ In (HPack i) hs) ->
  track_all hs (p_pack_one w id objs fs clean) = hs /\ forall m, length (track_all hs (firstn m (p_pack_one w id objs fs clean))) <= S (length hs).
Proof. intros w id objs fs clean. exact (one_handle_at_a_time _ (pack_one_blocks w id objs fs clean) (pack_one_opens w id objs fs clean)). Qed.

Theorem C18_import_one_handle_at_a_time : forall w nh twice fs bs hs, (forall i, ~ In (HPack i) hs) ->
  track_all hs (p_import w nh twice fs bs) = hs /\ forall m, length (track_all hs (firstn m (p_import w nh twice fs bs))) <= S (length hs).
Proof. intros w nh twice fs bs. exact (one_handle_at_a_time _ (import_blocks w nh twice fs bs) (import_opens w nh twice fs bs)). Qed.

Theorem C18_repack_one_handle_at_a_time : forall w id objs hs, (forall i, ~ In (HPack i) hs) ->
  track_all hs (p_repack_one w id objs) = hs /\ forall m, length (track_all hs (firstn m (p_repack_one w id objs))) <= S (length hs).
Proof. intros w id objs. exact (one_handle_at_a_time _ (repack_one_blocks w id objs) (repack_one_opens w id objs)). Qed.

(* delete_objects and clean_storage open no write handle at all *)
Theorem C18_delete_and_clean_open_nothing : forall w ks vacuum order hs,
  track_all hs (p_delete w ks) = hs /\ track_all hs (p_clean w vacuum order) = hs.
Proof.
  intros w ks vacuum order hs. split; apply track_all_neutral.
  - unfold p_delete. rewrite forallb_app, unlinks_neutral. reflexivity.
  - unfold p_clean. rewrite forallb_app, unlinks_neutral. destruct vacuum; reflexivity.
Qed.

(* the READ side: LookupFd.lookup_events is the sequence of opens / closes / yields of the bulk generator (has_objects, get_objects_meta,
   get_objects_content, get_objects_stream_and_meta).  It carries exactly the answers of Lookup.lookup_bulk, and for ALL thresholds, requests,
   index snapshots and loose folders, with n files open before the call, at EVERY point of the call at most n + 1 are open and exactly n when
   it ends: bulk reads keep at most one pack or loose file open at a time, whatever the number of keys, packs and objects *)
Theorem C18_bulk_read_events_are_the_answers : forall c skip streams d1 ls d2 ks,
  yields (lookup_events c skip streams d1 ls d2 ks) = fst (lookup_bulk c skip d1 ls d2 ks).
Proof. exact events_yield_the_answers. Qed.

Theorem C18_bulk_read_one_file_at_a_time : forall c skip streams d1 ls d2 ks n,
  fd_after n (lookup_events c skip streams d1 ls d2 ks) = n /\
  forall m, fd_after n (firstn m (lookup_events c skip streams d1 ls d2 ks)) <= S n.
Proof. exact bulk_read_one_file_at_a_time. Qed.

(* existence checks and metadata open no file at all *)
Theorem C18_bulk_meta_opens_nothing : forall c skip d1 ls d2 ks,
  forallb (fun e => match e with RYield _ | RMiss _ | RReset => true | _ => false end) (lookup_events c skip false d1 ls d2 ks) = true.
Proof. exact bulk_meta_opens_nothing. Qed.

(* non-vacuity: two packs, a loose object, an object found only after the refresh, a missing key *)
Example C18_bulk_ex :
  lookup_events (mkLcfg 2 7) false true [mkRow 5%N 0 10 4 false 4; mkRow 2%N 1 0 3 true 9] [(4%N, 6)] [mkRow 5%N 0 10 4 false 4; mkRow 2%N 1 0 3 true 9; mkRow 7%N 1 3 2 false 2] [5;4;7;8;2]%N =
  [ROpenPack 0; RYield (FPacked (mkRow 5%N 0 10 4 false 4)); RClosePack 0; ROpenPack 1; RYield (FPacked (mkRow 2%N 1 0 3 true 9)); RClosePack 1;
   ROpenLoose 4%N; RYield (FLoose 4%N 6); RCloseLoose 4%N; RMiss 7%N; RMiss 8%N; RReset;
   ROpenPack 1; RYield (FPacked (mkRow 7%N 1 3 2 false 2)); RClosePack 1; RYield (FMissing 8%N)].
Proof. vm_compute. reflexivity. Qed.

(* chunk constants of the current source bound every single read/write of the streaming paths *)
Theorem C18_chunk_bounds : (CHUNKSIZE <= 16777216 /\ ADD_READ_CHUNK <= 16777216 /\ HASH_CHUNK <= 16777216 /\ ZLIB_CHUNKSIZE <= 16777216 /\ ZLIB_SEEK_READ_CHUNK <= 16777216)%Z.
Proof. cbv. repeat split; congruence. Qed.
Print Assumptions C18_handles_tracked.
Print Assumptions C18_add_loose_balanced.
Print Assumptions C18_add_loose_bounded.
Print Assumptions C18_chunk_bounds.
Print Assumptions C18_pack_one_handle_at_a_time.
Print Assumptions C18_import_one_handle_at_a_time.
Print Assumptions C18_repack_one_handle_at_a_time.
Print Assumptions C18_delete_and_clean_open_nothing.
Print Assumptions C18_bulk_read_events_are_the_answers.
Print Assumptions C18_bulk_read_one_file_at_a_time.
Print Assumptions C18_bulk_meta_opens_nothing.
