(* C07 - every returned stream behaves like an in-memory file over the object.  Statements only. *)
From Coq Require Import List ZArith.
From DOS Require Import Generated Base Streams StreamsProofs StreamsZ.
Import ListNotations.
Open Scope Z_scope.

(* PackedObjectReader, for every pack (arbitrary neighbours pre/post), every object c inside it and EVERY finite
   program: the results equal those of the in-memory reference that rejects out-of-range seeks without moving
   (bio_rej = io.BytesIO on in-range targets; RErr and unchanged position otherwise). *)
Theorem C07_packed_reader_simulation : forall (pre c post : bytes) (ops : list op),
  run_ops por_step (por_init (pre ++ c ++ post) (zlen pre) (zlen c)) ops
  = run_ops bio_rej {| bcontent := c; bpos := 0 |} ops.
Proof. intros. apply (por_run_sim pre c post). apply por_init_R. Qed.
Print Assumptions C07_packed_reader_simulation.

(* no read ever returns bytes from outside the object *)
Theorem C07_packed_reader_reads_inside : forall (pre c post : bytes) (ops : list op),
  Forall (fun r => match r with RBytes x => exists p k, x = zslice c p k | _ => True end)
         (run_ops por_step (por_init (pre ++ c ++ post) (zlen pre) (zlen c)) ops).
Proof. exact por_reads_inside. Qed.
Print Assumptions C07_packed_reader_reads_inside.

(* loose objects and the re-loosened cache are plain files: identical to the reference on in-range operations;
   out-of-range seeks raise without moving or return p and continue as the reference positioned at p *)
Theorem C07_plain_file_in_range : forall b o, in_range b o = true -> fio_step b o = bio_step b o.
Proof. exact fio_in_range. Qed.
Print Assumptions C07_plain_file_in_range.

Theorem C07_plain_file_out_of_range : forall b t w,
  fio_step b (Seek t w) = (RErr, b) \/
  exists p, 0 <= p /\ fio_step b (Seek t w) = (RPos p, {| bcontent := bcontent b; bpos := p |}).
Proof. exact fio_out_of_range. Qed.
Print Assumptions C07_plain_file_out_of_range.

(* The decompressing stream (packed + compressed objects), with the re-loosened cache (every stream handed out by Container:
   has_lazy = true) or without it (validate / repack: then no whence = 2), for EVERY decompressor oracle (whatever zlib returns
   per call), every chunk size > 0 and EVERY program of in-range operations: unless a call fails loudly (RErr: the oracle reported
   a stall before the end of the stream, i.e. corrupt data -> ValueError; ROutOfFuel: the oracle stopped making progress), all
   results - bytes, returned positions, tell values - are exactly those of the in-memory file. *)
Theorem C07_decompresser_simulation : forall orc CHUNK SEEKCHUNK fuel ops s b,
  0 < CHUNK -> 0 < SEEKCHUNK ->
  zR s b -> all_in_range b ops = true -> (has_lazy s = true \/ no_whence2 ops) ->
  Forall not_fail (run_ops (zsd_step orc CHUNK SEEKCHUNK fuel) s ops) ->
  run_ops (zsd_step orc CHUNK SEEKCHUNK fuel) s ops = run_ops bio_step b ops.
Proof. intros orc CHUNK SEEKCHUNK fuel ops s b H1 H2. exact (zsd_run_sim orc CHUNK SEEKCHUNK H1 H2 fuel ops s b). Qed.
Print Assumptions C07_decompresser_simulation.

(* the initial state of a fresh decompresser is related to the reference at position 0; the chunk sizes of the source are > 0 *)
Theorem C07_decompresser_initial : forall pl lazy, zR (zsd_init pl lazy) {| bcontent := pl; bpos := 0 |}.
Proof. exact zR_init. Qed.
Theorem C07_chunk_sizes_positive : 0 < ZLIB_CHUNKSIZE /\ 0 < ZLIB_SEEK_READ_CHUNK.
Proof. cbv. split; congruence. Qed.
Print Assumptions C07_decompresser_initial.
Print Assumptions C07_chunk_sizes_positive.

(* regression witness of finding F2 (pre-repair seek): refuted by a concrete program *)
Theorem C07_packed_reader_v0_refuted :
  run_ops por_step0 (por_init ([65;65;65;65;65] ++ [48;49;50;51;52;53;54;55;56;57] ++ [66;66])%N 5 10)
          [Seek (-15) 2; Read (-1)]
  = [RAssert; RBytes [65;65;65;65;65;48;49;50;51;52;53;54;55;56;57]%N].
Proof. exact por_seek_v0_refuted. Qed.
Print Assumptions C07_packed_reader_v0_refuted.

(* non-vacuity: a concrete program with in-range and out-of-range seeks *)
Example C07_ex :
  run_ops por_step (por_init ([9;9] ++ [1;2;3;4] ++ [8])%N 2 4) [Read 1; Seek (-1) 2; Tell; Read (-1); Seek 9 0; Seek (-7) 2; Tell]
  = [RBytes [1%N]; RPos 3; RPos 3; RBytes [4%N]; RErr; RErr; RPos 4].
Proof. vm_compute. reflexivity. Qed.
