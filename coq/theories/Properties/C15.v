(* C15 - a backup taken while the container is in use is complete and consistent.  Statements only. *)
From Coq Require Import List ZArith NArith.
From DOS Require Import Generated Base Store StoreProofs StoreLemmas Mono MonoStep.
Import ListNotations.

Section C15.
Variable H : bytes -> key.
Variable inflate : bytes -> option bytes.
Hypothesis H_inj : forall a b, H a = H b -> a = b.

(* The backup world B is assembled in the documented order: every loose entry is copied at an instant of its own (world wk)
   between the start w0 and the index dump w2; the index is ONE atomic snapshot (db w2); every pack is copied after the dump,
   so it extends what it was at w2.  Whatever monotone steps (writers, packer with or without cleaning, direct-to-pack
   appends) happen in between, every object stored when the backup started reads back from B with exactly its bytes. *)
Theorem C15_backup_complete : forall (w0 w2 B : world) k c,
  Inv H inflate w0 -> Inv H inflate w2 ->
  db B = db w2 ->
  (forall k, exists wk, Inv H inflate wk /\ Mono w0 wk /\ Mono wk w2 /\ get_loose B k = get_loose wk k) ->
  (forall id f, get_pack w2 id = Some f -> exists f', get_pack B id = Some f' /\ prefix_of (fdata f) (fdata f')) ->
  stored inflate w0 k = Some c ->
  stored inflate B k = Some c.
Proof. exact (backup_complete H inflate H_inj). Qed.

(* the concurrent steps are monotone steps *)
Theorem C15_concurrent_steps_monotone : forall tr s, all_ok H inflate s tr -> Mono (fst s) (fst (run_events s tr)).
Proof. exact (mono_steps H inflate H_inj). Qed.
End C15.

(* the "everything else" step must not bring the live index or its WAL/SHM side files next to the dumped index:
   checked against the exclude list extracted from the current source (codes: packs.idx=2, -wal=3, -shm=4) *)
Theorem C15_excludes_cover_index_files : In 2 BACKUP_EXCLUDES /\ In 3 BACKUP_EXCLUDES /\ In 4 BACKUP_EXCLUDES /\ In 0 BACKUP_EXCLUDES /\ In 1 BACKUP_EXCLUDES.
Proof. cbv. intuition. Qed.
Print Assumptions C15_backup_complete.
Print Assumptions C15_concurrent_steps_monotone.
Print Assumptions C15_excludes_cover_index_files.
