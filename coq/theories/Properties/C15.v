(* C15 - a backup taken while the container is in use is complete and consistent.  Statements only. *)
From Coq Require Import List ZArith NArith.
From DOS Require Import Generated Base Store StoreProofs StoreLemmas Validate Mono MonoStep Backup.
Import ListNotations.

Section C15.
Variable H : bytes -> key.
Variable inflate : bytes -> option bytes.
Hypothesis H_inj : forall a b, H a = H b -> a = b.

(* The backup world B is assembled in the documented order: every loose entry is copied at an instant of its own (world wk)
   between the start w0 and the index dump w2; the index is ONE atomic snapshot (db w2); every pack is copied after the dump,
   so it extends what it was at w2.  Whatever monotone steps (writers, packer with or without cleaning, direct-to-pack
   appends) happen in between, every object stored when the backup started reads back from B with exactly its bytes. *)
Theorem C15_backup_complete : forall (w0 w2 B : world) k c,
  Inv H inflate w0 -> Inv H inflate w2 ->
  db B = db w2 ->
  (forall k, exists wk, Inv H inflate wk /\ Mono w0 wk /\ Mono wk w2 /\ get_loose B k = get_loose wk k) ->
  (forall id f, get_pack w2 id = Some f -> exists f', get_pack B id = Some f' /\ prefix_of (fdata f) (fdata f')) ->
  stored inflate w0 k = Some c ->
  stored inflate B k = Some c.
Proof. exact (backup_complete H inflate H_inj). Qed.

(* the concurrent steps are monotone steps *)
Theorem C15_concurrent_steps_monotone : forall tr s, all_ok H inflate s tr -> Mono (fst s) (fst (run_events s tr)).
Proof. exact (mono_steps H inflate H_inj). Qed.

(* backup_container as a RUN (Backup.v): the loose list is taken (wl) and every listed entry transferred at an instant of its own
   (a vanished entry is skipped), the index dumped atomically (w2), the pack list taken (wp) and every listed pack transferred at an
   instant of its own - with ANY monotone steps of the other clients between any two of these instants (the chain of worlds).
   For every such run: every object stored when the backup started reads back from the backup with exactly its bytes ... *)
Theorem C15_backup_run_complete : forall w0 r k c,
  Inv H inflate w0 -> valid_run H inflate w0 r ->
  stored inflate w0 k = Some c -> stored inflate (backup_of r) k = Some c.
Proof. intros w0 r k c I0 V. exact (backup_run_complete H inflate H_inj w0 r I0 V k c). Qed.

(* ... and the backup is itself a valid container: the C03 invariant holds of it (every entry inside an existing pack, decoding to
   bytes with the key as digest and the recorded size, no overlap, no key twice, every loose file named by its digest) ... *)
Theorem C15_backup_run_is_a_valid_container : forall w0 r,
  Inv H inflate w0 -> valid_run H inflate w0 r -> Inv H inflate (backup_of r).
Proof. intros w0 r I0 V. exact (backup_run_is_a_valid_container H inflate w0 r V). Qed.

(* ... hence its validation is clean and every key it exposes reads back, through the library's read path, as what the library-free
   recovery gives (bytes with that digest) *)
Theorem C15_backup_run_validates : forall w0 r,
  Inv H inflate w0 -> valid_run H inflate w0 r ->
  validate_b H inflate (backup_of r) = true /\ forall k, lookup_impl inflate (backup_of r) k = stored inflate (backup_of r) k.
Proof.
  intros w0 r I0 V. pose proof (backup_run_is_a_valid_container H inflate w0 r V) as IB.
  split; [exact (validate_no_false_positive H inflate _ IB)|intros k; exact (lookup_impl_stored H inflate _ k IB)].
Qed.
End C15.

(* the "everything else" step must not bring the live index or its WAL/SHM side files next to the dumped index:
   checked against the exclude list extracted from the current source (codes: packs.idx=2, -wal=3, -shm=4) *)
Theorem C15_excludes_cover_index_files : In 2 BACKUP_EXCLUDES /\ In 3 BACKUP_EXCLUDES /\ In 4 BACKUP_EXCLUDES /\ In 0 BACKUP_EXCLUDES /\ In 1 BACKUP_EXCLUDES.
Proof. cbv. intuition. Qed.
Print Assumptions C15_backup_complete.
Print Assumptions C15_concurrent_steps_monotone.
Print Assumptions C15_excludes_cover_index_files.
Print Assumptions C15_backup_run_complete.
Print Assumptions C15_backup_run_is_a_valid_container.
Print Assumptions C15_backup_run_validates.

(* non-vacuity: object 1 is loose when the backup starts; it is packed and cleaned AFTER the loose list was taken and BEFORE its entry
   is transferred (the entry has vanished and is skipped); the index is dumped after that, the pack copied last: the run is valid
   (checked by computation on the model with H = first byte, inflate = identity) and the backup holds the object *)
Definition bk_w0 : world := {| loose := [(1%N, mkFile [1%N] [1%N])]; packs := []; sandbox := []; db := [] |}.
Definition bk_w1 : world := {| loose := []; packs := [(0%Z, mkFile [1%N] [1%N])]; sandbox := []; db := [mkRow 1%N 0%Z 0 1 false 1] |}.
Definition bk_run : run := mkRun bk_w0 [(1%N, bk_w1)] bk_w1 bk_w1 [(0%Z, bk_w1)].
Example C15_run_ex : stored (fun b => Some b) (backup_of bk_run) 1%N = Some [1%N] /\ get_loose (backup_of bk_run) 1%N = None.
Proof. vm_compute. split; reflexivity. Qed.
(* ... and that run meets the hypotheses of the theorems above (H = first byte, inflate = identity): invariant at every instant,
   monotone steps between the instants, every listed loose entry and pack transferred once *)
Definition bk_H (b : bytes) : key := hd 0%N b.
Lemma bk_mono_01 : Mono bk_w0 bk_w1.
Proof.
  split; [intros r []|split].
  - intros id f Hp. cbn in Hp. discriminate.
  - intros k f Hl. right. unfold get_loose in Hl. cbn in Hl. destruct (N.eqb_spec k 1) as [->|]; [left; reflexivity|discriminate].
Qed.
Example C15_run_ex_valid : Inv bk_H (fun b => Some b) bk_w0 /\ valid_run bk_H (fun b => Some b) bk_w0 bk_run.
Proof.
  assert (I0 : Inv bk_H (fun b => Some b) bk_w0) by (apply inv_b_sound; vm_compute; reflexivity).
  assert (I1 : Inv bk_H (fun b => Some b) bk_w1) by (apply inv_b_sound; vm_compute; reflexivity).
  split; [exact I0|]. unfold valid_run, run_worlds, bk_run. cbn [wl lcopies w2 wp pcopies map fst snd app chain].
  split.
  { split; [apply Mono_refl|]. split; [exact I0|].
    split; [exact bk_mono_01|]. split; [exact I1|].
    split; [apply Mono_refl|]. split; [exact I1|].
    split; [apply Mono_refl|]. split; [exact I1|].
    split; [apply Mono_refl|]. split; [exact I1|]. exact I. }
  split; [|split; [|split]].
  - intros k. unfold get_loose. cbn. destruct (N.eqb_spec k 1) as [E|E]; intros Hk; [rewrite E; left; reflexivity|congruence].
  - repeat constructor. intros [].
  - intros id. unfold get_pack. cbn. destruct (Z.eqb_spec id 0) as [E|E]; intros Hk; [rewrite E; left; reflexivity|congruence].
  - repeat constructor. intros [].
Qed.
Example C15_phases : backup_phases = [PhLoose; PhDump; PhCopyDump; PhPacks; PhRest].
Proof. reflexivity. Qed.
