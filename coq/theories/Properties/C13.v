(* C13 - packs are append-only and filled in order.  Statements only. *)
From Coq Require Import List ZArith NArith.
From DOS Require Import Base Store StoreProofs StoreLemmas Mono MonoStep PickPack Layout LayoutCall Programs PackProofs AddPackProofs ImportProofs C13Proofs.
Import ListNotations.

Section C13.
Variable H : bytes -> key.
Variable inflate : bytes -> option bytes.
Hypothesis H_inj : forall a b, H a = H b -> a = b.

(* every event of a repack-free operation that passes the side conditions (appends, flushes, syncs, publishes, unlinks of
   packed loose files, insert-only commits, and a no_holes truncation at or above the last referenced byte) leaves every
   referenced byte of every pack unchanged and no pack shorter than its last referenced byte *)
Theorem C13_step_keeps_referenced_bytes : forall s e,
  Inv H inflate (fst s) -> c13_ok_b H s e = true -> keeps_ref (fst s) (fst (apply_ev s e)).
Proof. exact (c13_step H inflate H_inj). Qed.

(* the trace checker run on every implementation trace certifies this for every single step of the trace *)
Theorem C13_trace_checker_sound : forall tr s, c13_all_b H inflate s tr = true ->
  forall a e b, tr = a ++ e :: b -> keeps_ref (fst (run_events s a)) (fst (run_events s (a ++ [e]))).
Proof. exact (c13_all_sound H inflate H_inj). Qed.

(* packs only grow along any monotone history *)
Theorem C13_monotone_history_keeps_referenced_bytes : forall w w', Inv H inflate w -> Mono w w' -> keeps_ref w w'.
Proof. exact (mono_keeps_ref H inflate). Qed.
(* program level, ALL inputs: every single step of add_objects_to_pack / add_streamed_objects_to_pack (one pack, all three modes - the
   no_holes truncations included) and of the transfer of import_objects (any batches over any packs) keeps every referenced byte of
   every pack and never cuts a pack below its last referenced byte *)
Theorem C13_add_to_pack_every_step : forall w l id objs nh twice fs,
  Inv H inflate w -> pending l = [] -> Forall (aobj_ok H inflate) objs ->
  forall a e b, p_add_to_pack w id objs nh twice fs = a ++ e :: b ->
    keeps_ref (fst (run_events (w, l) a)) (fst (run_events (w, l) (a ++ [e]))).
Proof. exact (add_to_pack_every_step_keeps_ref H inflate H_inj). Qed.

Theorem C13_import_every_step : forall w l bs nh twice fs,
  Inv H inflate w -> pending l = [] -> Forall (fun b => Forall (aobj_ok H inflate) (snd b)) bs ->
  forall a e b, p_import w nh twice fs bs = a ++ e :: b ->
    keeps_ref (fst (run_events (w, l) a)) (fst (run_events (w, l) (a ++ [e]))).
Proof. exact (import_every_step_keeps_ref H inflate H_inj). Qed.

(* the reason: truncations of these programs never cut below the length the pack had when the call began, their commit only inserts *)
Theorem C13_import_steps_pass_the_side_conditions : forall w l bs nh twice fs,
  Inv H inflate w -> pending l = [] ->
  forall a e b, p_import w nh twice fs bs = a ++ e :: b -> c13_ok_b H (run_events (w, l) a) e = true.
Proof. exact (import_every_step_c13 H inflate). Qed.
(* pack_all_loose (one pack, with or without fsync and per-pack clean): every step, the unlinks of the packed loose files included *)
Theorem C13_pack_every_step : forall w l id objs fs clean,
  Inv H inflate w -> pending l = [] ->
  Forall (obj_ok inflate w) objs -> NoDup (map okey objs) -> (forall o, In o objs -> ~ In (okey o) (map rkey (db w))) ->
  forall a e b, p_pack_one w id objs fs clean = a ++ e :: b ->
    keeps_ref (fst (run_events (w, l) a)) (fst (run_events (w, l) (a ++ [e]))).
Proof. exact (pack_one_every_step_keeps_ref H inflate H_inj). Qed.
End C13.
(* layout half: _get_pack_id_to_write_to, from any cached id <= n, returns the last pack when that is below the target and the next
   fresh id otherwise - never an earlier (full) pack; so writing to the chosen pack keeps "ids consecutive from 0 and every pack
   but the last at or above the target" *)
Theorem C13_pack_choice_keeps_layout : forall sizes target n cached fuel,
  layout sizes target n -> (0 <= cached <= n)%Z -> (Z.to_nat (n - cached) <= fuel)%nat ->
  exists r, pick fuel sizes target cached = Some r /\
    ((r = n /\ (n = 0%Z \/ exists sz, sizes (n - 1)%Z = Some sz /\ ((target <= sz)%Z \/ cached = n))) \/
     (r = (n - 1)%Z /\ exists sz, sizes r = Some sz /\ (sz < target)%Z) \/
     ((r < n - 1)%Z /\ False)).
Proof. exact pick_keeps_layout. Qed.
(* layout half for a WHOLE write call (pack_all_loose / direct-to-pack), at the level of pack sizes: the pack chosen by
   _get_pack_id_to_write_to (pick) from a cached id below which every pack is full, then the fill order of the call (Layout.segs:
   objects go to the open pack while it is below the target, later packs are fresh): afterwards the pack ids are still consecutive from
   0, every pack but the last has reached the target, and every pack before the last one written is full - the hypothesis of the next
   call.  No full pack is written again: Layout.segs_layout (an object is only ever added to a pack that is below the target). *)
Theorem C13_call_keeps_layout : forall (A : Type) (len : A -> nat) sizes (target n cached : Z) fuelp r (tgt size0 fuels : nat) (objs : list A),
  layout sizes target n -> (0 <= cached <= n)%Z -> full_below sizes target cached ->
  (Z.to_nat (n - cached) <= fuelp)%nat -> pick fuelp sizes target cached = Some r ->
  target = Z.of_nat tgt -> (0 < tgt)%nat ->
  Z.of_nat size0 = match sizes r with Some s => s | None => 0%Z end -> (size0 < tgt)%nat ->
  (length objs < fuels)%nat -> objs <> [] ->
  let tot := map (fun s => Z.of_nat (Layout.total len s)) (segs len fuels tgt size0 objs) in
  layout (after sizes r tot) target (r + Z.of_nat (length tot)) /\
  full_below (after sizes r tot) target (r + Z.of_nat (length tot) - 1).
Proof. intros A len. exact (call_keeps_layout len). Qed.
Print Assumptions C13_pack_choice_keeps_layout.
Print Assumptions C13_step_keeps_referenced_bytes.
Print Assumptions C13_trace_checker_sound.
Print Assumptions C13_monotone_history_keeps_referenced_bytes.
Print Assumptions C13_add_to_pack_every_step.
Print Assumptions C13_import_every_step.
Print Assumptions C13_import_steps_pass_the_side_conditions.
Print Assumptions C13_pack_every_step.
Print Assumptions C13_call_keeps_layout.
