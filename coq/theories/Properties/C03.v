(* C03 - index and pack files stay mutually consistent and self-describing.  Statements only. *)
From Coq Require Import List ZArith NArith.
From DOS Require Import Base Store StoreProofs StoreLemmas MonoStep Programs PackProofs AddPackProofs ImportProofs History.
Import ListNotations.

Section C03.
Variable H : bytes -> key.
Variable inflate : bytes -> option bytes.

(* The invariant Store.Inv IS the property statement: keys indexed once; every row designates a range inside an existing pack
   that (inflated when flagged) has the key as digest and the recorded size (= stored length when uncompressed); rows of one
   pack do not overlap; every loose file is named by the digest of its bytes.
   (1) the executable checker run on the model state after every event of every implementation trace is sound: *)
Theorem C03_checker_sound : forall w, inv_b H inflate w = true -> Inv H inflate w.
Proof. exact (inv_b_sound H inflate). Qed.

(* (2) the trace monitor certifies the invariant at EVERY event boundary of a trace (hence after every step of a history) *)
Theorem C03_every_boundary : forall truth targets tr s,
  monitor H inflate false truth targets s tr = true ->
  forall n, Inv H inflate (proj false (run_events s (firstn n tr))).
Proof. intros truth targets tr s Hm n. exact (proj1 (monitor_sound H inflate false truth targets tr s Hm n)). Qed.

(* (3) "each object can be recovered with only an SQLite query, a byte slice and zlib": under the invariant the documented
   manual recovery returns, for every index entry, bytes whose digest is the key and whose length is the recorded size *)
Theorem C03_manual_recovery : forall w r, Inv H inflate w -> In r (db w) ->
  exists c, stored inflate w (rkey r) = Some c /\ H c = rkey r /\ length c = rsize r.
Proof. exact (manual_recovery H inflate). Qed.

(* (4) whatever batch is inserted (plain or OR IGNORE), no key is ever indexed twice *)
Theorem C03_unique_keys : forall ig rs d, NoDup (map rkey d) -> NoDup (map rkey (insert_rows ig d rs)).
Proof. intros ig rs d. exact (insert_rows_nodup ig rs d). Qed.

(* (5) bytes a buffered writer had already pushed to the OS when the process died do not matter *)
Theorem C03_tolerates_unreferenced_tail : forall w id f x s,
  Inv H inflate w -> get_pack w id = Some f -> Inv H inflate (append_pack w id f x s).
Proof. exact (Inv_append_pack H inflate). Qed.
(* (5) program level, ALL inputs and ALL histories: kill the process after ANY number of primitives of ANY finite history of add / pack /
   direct-to-pack (any mode) / import / delete / clean / repack operations - in the middle of whichever operation - and the folder
   satisfies the invariant *)
Hypothesis H_inj : forall a b, H a = H b -> a = b.
Theorem C03_every_crash_point_of_every_history : forall ops s,
  Inv H inflate (fst s) -> pending (snd s) = [] -> pre_hist H inflate s ops ->
  forall n, Inv H inflate (crash (run_events s (firstn n (hist_trace H s ops)))).
Proof. exact (history_every_crash_point H inflate H_inj). Qed.

(* ... and after the whole history as well *)
Theorem C03_after_every_history : forall ops s,
  Inv H inflate (fst s) -> pending (snd s) = [] -> pre_hist H inflate s ops -> Inv H inflate (fst (run_hist H s ops)).
Proof. intros ops s A B C. exact (proj1 (history_refines H inflate H_inj ops s A B C)). Qed.
End C03.
Print Assumptions C03_checker_sound.
Print Assumptions C03_every_boundary.
Print Assumptions C03_manual_recovery.
Print Assumptions C03_unique_keys.
Print Assumptions C03_tolerates_unreferenced_tail.

(* non-vacuity: a concrete world with a compressed row, a plain row and a loose file satisfies the checker *)
Definition exH (b : bytes) : key := match b with [] => 9%N | x :: _ => x end.
Definition exInfl (b : bytes) : option bytes := match b with [7;7]%N => Some [5;5;5]%N | _ => None end.
Example C03_ex : inv_b exH exInfl
  {| loose := [(3%N, mkFile [3;1]%N [3;1]%N)]; packs := [(0%Z, mkFile [7;7;4;4]%N [7;7;4;4]%N)]; sandbox := [];
     db := [mkRow 5%N 0%Z 0 2 true 3; mkRow 4%N 0%Z 2 2 false 2] |} = true.
Proof. vm_compute. reflexivity. Qed.
Print Assumptions C03_every_crash_point_of_every_history.
Print Assumptions C03_after_every_history.
