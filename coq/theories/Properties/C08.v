(* C08 - a long-open handle sees everything acknowledged through other handles.  Statements only. *)
From Coq Require Import List ZArith NArith.
From DOS Require Import Base Store StoreProofs StoreLemmas Mono MonoStep.
Import ListNotations.

Section C08.
Variable H : bytes -> key.
Variable inflate : bytes -> option bytes.
Hypothesis H_inj : forall a b, H a = H b -> a = b.

(* existence checks, reads, metadata: the lookup protocol needs NO relation between the handle's pinned snapshot w1 and the
   world w0 in which the object was acknowledged: however long the handle has been open and whatever it queried before
   (w1 arbitrarily older than w0), every object stored at w0 is found with its bytes. *)
Theorem C08_lookup_with_any_pinned_snapshot : forall w0 w1 w1' w2 w3 w4 k c,
  Inv H inflate w0 -> Inv H inflate w1 -> Inv H inflate w2 -> Inv H inflate w3 ->
  Mono w1 w1' -> Mono w0 w2 -> Mono w2 w3 -> Mono w3 w4 ->
  stored inflate w0 k = Some c ->
  lookup inflate w1 w1' w2 w3 w4 k = Some c.
Proof. exact (reader_finds H inflate H_inj). Qed.

(* listings (after the repair of finding F4): loose names are listed at wL, the index snapshot is refreshed at wS after wL;
   every object stored at w0 before the loose listing is reported, and each key once. *)
Theorem C08_listing_complete : forall w0 wL wS k c,
  Mono w0 wL -> Mono wL wS -> stored inflate w0 k = Some c -> In k (listing wL wS).
Proof. exact (listing_complete inflate). Qed.

Theorem C08_listing_once : forall wL wS,
  NoDup (map rkey (db wS)) -> NoDup (map fst (loose wL)) -> NoDup (listing wL wS).
Proof. exact listing_nodup. Qed.
End C08.

(* the pre-repair listing used a snapshot pinned BEFORE the loose listing: refuted by a two-world witness
   (object loose at w0 = the snapshot; packed and cleaned at wL): it is in neither the stale snapshot nor the loose listing *)
Definition w_snap : world := {| loose := [(1%N, mkFile [1%N] [1%N])]; packs := []; sandbox := []; db := [] |}.
Definition w_later : world := {| loose := []; packs := [(0%Z, mkFile [1%N] [1%N])]; sandbox := []; db := [mkRow 1%N 0%Z 0 1 false 1] |}.
Theorem C08_stale_listing_refuted : ~ In 1%N (listing w_later w_snap) /\ In 1%N (listing w_later w_later).
Proof. split; [vm_compute; intros Hf; exact Hf | vm_compute; left; reflexivity]. Qed.
Print Assumptions C08_lookup_with_any_pinned_snapshot.
Print Assumptions C08_listing_complete.
Print Assumptions C08_listing_once.
Print Assumptions C08_stale_listing_refuted.
