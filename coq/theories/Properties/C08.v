(* C08 - a long-open handle sees everything acknowledged through other handles.  Statements only. *)
From Coq Require Import List ZArith NArith.
From DOS Require Import Base Merge Store StoreProofs StoreLemmas Mono MonoStep Lookup LookupProofs LookupWorld.
Import ListNotations.

Section C08.
Variable H : bytes -> key.
Variable inflate : bytes -> option bytes.
Hypothesis H_inj : forall a b, H a = H b -> a = b.

(* existence checks, reads, metadata: the lookup protocol needs NO relation between the handle's pinned snapshot w1 and the
   world w0 in which the object was acknowledged: however long the handle has been open and whatever it queried before
   (w1 arbitrarily older than w0), every object stored at w0 is found with its bytes. *)
Theorem C08_lookup_with_any_pinned_snapshot : forall w0 w1 w1' w2 w3 w4 k c,
  Inv H inflate w0 -> Inv H inflate w1 -> Inv H inflate w2 -> Inv H inflate w3 ->
  Mono w1 w1' -> Mono w0 w2 -> Mono w2 w3 -> Mono w3 w4 ->
  stored inflate w0 k = Some c ->
  lookup inflate w1 w1' w2 w3 w4 k = Some c.
Proof. exact (reader_finds H inflate H_inj). Qed.

(* listings (after the repair of finding F4): loose names are listed at wL, the index snapshot is refreshed at wS after wL;
   every object stored at w0 before the loose listing is reported, and each key once. *)
Theorem C08_listing_complete : forall w0 wL wS k c,
  Mono w0 wL -> Mono wL wS -> stored inflate w0 k = Some c -> In k (listing wL wS).
Proof. exact (listing_complete inflate). Qed.

Theorem C08_listing_once : forall wL wS,
  NoDup (map rkey (db wS)) -> NoDup (map fst (loose wL)) -> NoDup (listing wL wS).
Proof. exact listing_nodup. Qed.

(* the BULK entry points (has_objects, get_objects_meta, get_objects_content, get_objects_stream_and_meta all run the generator
   modelled by Lookup.lookup_bulk): whatever snapshot w1 the handle is pinned to, whatever thresholds (hence query strategy) and
   whatever duplicate-free enumeration of the request, an object stored at w0 - before the call looked at the loose folder (w2),
   the index being refreshed later still (w3) - is reported, exactly once, never as MISSING, with the length of its content *)
Theorem C08_bulk_lookup_reports_every_acknowledged_object : forall cfg skip w0 w1 w2 w3 ks k c,
  (0 < in_max cfg)%nat -> NoDup ks ->
  Inv H inflate w0 -> Inv H inflate w1 -> Inv H inflate w2 -> Inv H inflate w3 -> Mono w0 w2 -> Mono w2 w3 ->
  stored inflate w0 k = Some c -> In k ks ->
  let out := fst (lookup_bulk cfg skip (db w1) (ls_of w2) (db w3) ks) in
  (exists f, In f out /\ fkey f = k /\ fsize f = Some (length c)) /\
  (forall f f', In f out -> In f' out -> fkey f = fkey f' -> f = f').
Proof. exact (bulk_reports_every_stored_object H inflate H_inj). Qed.

(* and it invents nothing: what it reports as present is in the snapshot, the loose folder or the refreshed index *)
Theorem C08_bulk_lookup_reports_only_what_is_there : forall cfg skip w1 w2 w3 ks f,
  (0 < in_max cfg)%nat -> NoDup ks -> Inv H inflate w1 -> Inv H inflate w3 ->
  In f (fst (lookup_bulk cfg skip (db w1) (ls_of w2) (db w3) ks)) -> is_missing f = false ->
  In (fkey f) ks /\ (In (fkey f) (map rkey (db w1)) \/ get_loose w2 (fkey f) <> None \/ In (fkey f) (map rkey (db w3))).
Proof. exact (bulk_reports_only_what_is_there H inflate). Qed.
End C08.

(* the pre-repair listing used a snapshot pinned BEFORE the loose listing: refuted by a two-world witness
   (object loose at w0 = the snapshot; packed and cleaned at wL): it is in neither the stale snapshot nor the loose listing *)
Definition w_snap : world := {| loose := [(1%N, mkFile [1%N] [1%N])]; packs := []; sandbox := []; db := [] |}.
Definition w_later : world := {| loose := []; packs := [(0%Z, mkFile [1%N] [1%N])]; sandbox := []; db := [mkRow 1%N 0%Z 0 1 false 1] |}.
Theorem C08_stale_listing_refuted : ~ In 1%N (listing w_later w_snap) /\ In 1%N (listing w_later w_later).
Proof. split; [vm_compute; intros Hf; exact Hf | vm_compute; left; reflexivity]. Qed.
Print Assumptions C08_lookup_with_any_pinned_snapshot.
Print Assumptions C08_listing_complete.
Print Assumptions C08_listing_once.
Print Assumptions C08_stale_listing_refuted.
Print Assumptions C08_bulk_lookup_reports_every_acknowledged_object.
Print Assumptions C08_bulk_lookup_reports_only_what_is_there.

(* non-vacuity: the handle is pinned to the EMPTY index (w_empty), the object was loose at w_snap, then packed and cleaned (w_later):
   the bulk call through the stale handle reports it as packed with its size *)
Definition w_empty : world := {| loose := []; packs := []; sandbox := []; db := [] |}.
Example C08_bulk_ex : fst (lookup_bulk (mkLcfg 2 0) false (db w_empty) (ls_of w_later) (db w_later) [1%N; 3%N]) =
  [FPacked (mkRow 1%N 0%Z 0 1 false 1); FMissing 3%N].
Proof. vm_compute. reflexivity. Qed.
