(* C16 - bulk operations do not depend on batch size or lookup strategy: the sorted-merge helpers, the chunking
   helper and the paging loop.  Only statements, each closed by `exact`, with Print Assumptions beneath. *)
From Coq Require Import List ZArith Sorting.Sorted.
From Coq Require Import NArith Sorting.Permutation.
From DOS Require Import Generated Merge MergeProofs MergeSpec Chunks Store Lookup LookupProofs.
Import ListNotations.
Open Scope Z_scope.

(* detect_where_sorted on sorted unique inputs terminates without error and yields exactly the specification merge *)
Theorem C16_dws_spec : forall L R, SortedL L -> Sorted Z.lt R -> dws L R = (merge_spec L R, Ok).
Proof. exact dws_spec. Qed.
Print Assumptions C16_dws_spec.

(* ... whose classification is exactly set membership (left element returned on BOTH) ... *)
Theorem C16_merge_spec_in : forall L R, SortedL L -> Sorted Z.lt R -> forall i,
  In i (merge_spec L R) <->
  (exists x, In x L /\ In (fst x) R /\ i = yl x BOTH) \/
  (exists x, In x L /\ ~ In (fst x) R /\ i = yl x LEFTONLY) \/
  (exists y, In y R /\ ~ In y (map fst L) /\ i = yr y).
Proof. exact merge_spec_in. Qed.
Print Assumptions C16_merge_spec_in.

(* ... and reports every key exactly once, in order *)
Theorem C16_merge_spec_once : forall L R, SortedL L -> Sorted Z.lt R -> Sorted Z.lt (map ikey (merge_spec L R)).
Proof. exact merge_spec_keys_sorted. Qed.
Print Assumptions C16_merge_spec_once.

(* unsorted / non-unique input is rejected: a complete run ends in ValueError, never silently *)
Theorem C16_dws_rejects : forall L R, ~ (SortedL L /\ Sorted Z.lt R) ->
  snd (dws L R) = ErrLeft \/ snd (dws L R) = ErrRight.
Proof. exact dws_rejects. Qed.
Print Assumptions C16_dws_rejects.

Theorem C16_dws_terminates : forall L R, snd (dws L R) <> OutOfFuel.
Proof. exact dws_terminates. Qed.
Print Assumptions C16_dws_terminates.

(* chunk_iterator: concatenation is the input; no empty chunk; all but the last are full *)
Theorem C16_chunks : forall (n : nat) (l : list Z), (0 < n)%nat ->
  concat (chunks n l) = l /\
  Forall (fun c => c <> [] /\ (length c <= n)%nat) (chunks n l) /\
  (forall pre last, chunks n l = pre ++ [last] -> Forall (fun c => length c = n) pre).
Proof. intros n l H. split; [exact (chunks_concat n l H) | exact (chunks_shape n l H)]. Qed.
Print Assumptions C16_chunks.

(* paging by `id > last_pk ORDER BY id LIMIT n` enumerates every row exactly once for every n >= 1 *)
Theorem C16_paging : forall (rows : list (Z * Z)) (n : nat), (0 < n)%nat -> Sorted Z.lt (map fst rows) ->
  Forall (fun r => -1 < fst r) rows -> paging (S (length rows)) rows (-1) n = rows.
Proof. exact (@paging_all Z). Qed.
Print Assumptions C16_paging.

(* ---- the lookup generator behind has_objects / get_objects_meta / get_objects_content / get_objects_stream_and_meta ----
   Lookup.lookup_bulk transcribes Container._get_objects_stream_meta_generator: chunked IN-queries or the ordered scan merged by
   detect_where_sorted (chosen by the number of distinct keys), grouping per pack, the loose folder, the refreshed index, MISSING.
   For EVERY pair of thresholds (IN-batch size > 0), every index snapshot d1 / refreshed index d2 with unique keys (the UNIQUE
   constraint), every loose folder and every duplicate-free enumeration ks of the request: the answer is, as a multiset, the
   single-key answer (Lookup.lookup1) of each key - minus the MISSING ones when skip_if_missing -, no key twice, and the
   sorted-merge never rejects its input. *)
Theorem C16_bulk_lookup_is_map_single : forall c skip d1 ls d2 ks,
  (0 < in_max c)%nat -> NoDup (map rkey d1) -> NoDup (map rkey d2) -> NoDup ks ->
  Permutation (fst (lookup_bulk c skip d1 ls d2 ks)) (filter (wanted skip) (map (lookup1 d1 ls d2) ks)) /\
  NoDup (map fkey (fst (lookup_bulk c skip d1 ls d2 ks))) /\
  snd (lookup_bulk c skip d1 ls d2 ks) = Ok.
Proof.
  intros c skip d1 ls d2 ks Hn N1 N2 Nk.
  exact (conj (bulk_is_map_single c skip d1 ls d2 ks Hn N1 N2 Nk)
        (conj (bulk_each_key_once c skip d1 ls d2 ks Hn N1 N2 Nk) (bulk_never_rejects c skip d1 ls d2 ks Hn N1 N2 Nk))).
Qed.
Print Assumptions C16_bulk_lookup_is_map_single.

(* whichever strategy and batch size the thresholds select, the answer is the same multiset *)
Theorem C16_bulk_lookup_strategy_independent : forall c c' skip d1 ls d2 ks,
  (0 < in_max c)%nat -> (0 < in_max c')%nat -> NoDup (map rkey d1) -> NoDup (map rkey d2) -> NoDup ks ->
  Permutation (fst (lookup_bulk c skip d1 ls d2 ks)) (fst (lookup_bulk c' skip d1 ls d2 ks)).
Proof. exact bulk_strategy_independent. Qed.
Print Assumptions C16_bulk_lookup_strategy_independent.

(* ANY request list (any order, any repetitions): every distinct requested key is answered exactly once, with the single-key
   answer, and nothing that was not requested is reported *)
Theorem C16_bulk_lookup_any_request : forall c skip d1 ls d2 req,
  (0 < in_max c)%nat -> NoDup (map rkey d1) -> NoDup (map rkey d2) ->
  let out := fst (lookup_bulk c skip d1 ls d2 (dedup req)) in
  NoDup (map fkey out) /\
  (forall k, In k (map fkey out) -> In k req) /\
  (skip = false -> forall k, In k req -> In k (map fkey out)) /\
  (forall f, In f out -> f = lookup1 d1 ls d2 (fkey f)).
Proof. exact bulk_any_request. Qed.
Print Assumptions C16_bulk_lookup_any_request.

(* the packed answers come as ONE contiguous run per pack, each run in offset order (one pack file open at a time, read forwards) *)
Theorem C16_bulk_lookup_runs : forall rows,
  NoDup (first_ids [] rows) /\
  grouped rows = flat_map (group rows) (first_ids [] rows) /\
  forall p, Forall (fun r => rpack r = p) (group rows p) /\ Sorted (fun a b => (roff a <= roff b)%nat) (group rows p).
Proof. exact grouped_runs. Qed.
Print Assumptions C16_bulk_lookup_runs.

(* the thresholds of the current source are admissible *)
Theorem C16_lookup_thresholds : (0 < Z.to_nat IN_SQL_MAX_LENGTH)%nat.
Proof. cbv. repeat constructor. Qed.
Print Assumptions C16_lookup_thresholds.

(* non-vacuity: 3 packed rows in two packs, one loose object, one object only in the refreshed index, one missing key;
   thresholds (2,3): 5 distinct keys > 3 -> the ordered scan; thresholds (2,7) -> chunked IN-queries; same answers *)
Definition ex_d1 := [mkRow 5%N 0 10 4 false 4; mkRow 2%N 1 0 3 true 9; mkRow 9%N 0 0 10 false 10].
Definition ex_d2 := ex_d1 ++ [mkRow 7%N 1 3 2 false 2].
Definition ex_ls : list (key * nat) := [(4%N, 6%nat)].
Example C16_lookup_ex_scan : lookup_bulk (mkLcfg 2 3) false ex_d1 ex_ls ex_d2 (dedup [9;4;7;5;8;9;2]%N) =
  ([FPacked (mkRow 2%N 1 0 3 true 9); FPacked (mkRow 9%N 0 0 10 false 10); FPacked (mkRow 5%N 0 10 4 false 4);
    FLoose 4%N 6; FPacked (mkRow 7%N 1 3 2 false 2); FMissing 8%N], Ok).
Proof. vm_compute. reflexivity. Qed.
Example C16_lookup_ex_chunked : lookup_bulk (mkLcfg 2 7) true ex_d1 ex_ls ex_d2 (dedup [9;4;7;5;8;9;2]%N) =
  ([FPacked (mkRow 9%N 0 0 10 false 10); FPacked (mkRow 5%N 0 10 4 false 4); FPacked (mkRow 2%N 1 0 3 true 9);
    FLoose 4%N 6; FPacked (mkRow 7%N 1 3 2 false 2)], Ok).
Proof. vm_compute. reflexivity. Qed.

(* the constants of the current source satisfy what the lemmas need *)
Theorem C16_constants : 0 < IN_SQL_MAX_LENGTH <= 999 /\ 0 < LIST_YIELD_PER /\ 0 < PACK_YIELD_PER /\ 0 <= MAX_CHUNK_ITERATE_LENGTH.
Proof. cbv. repeat split; congruence. Qed.
Print Assumptions C16_constants.

(* non-vacuity: concrete inputs meeting the hypotheses, evaluated *)
Example C16_ex : dws [(1,10);(3,30);(5,50)] [2;3;9] =
  ([(1,Some 10,LEFTONLY);(2,None,RIGHTONLY);(3,Some 30,BOTH);(5,Some 50,LEFTONLY);(9,None,RIGHTONLY)], Ok).
Proof. vm_compute. reflexivity. Qed.
Example C16_ex_rej : snd (dws [(1,1);(3,3);(3,3)] [2]) = ErrLeft.
Proof. vm_compute. reflexivity. Qed.
