(* C16 - bulk operations do not depend on batch size or lookup strategy: the sorted-merge helpers, the chunking
   helper and the paging loop.  Only statements, each closed by `exact`, with Print Assumptions beneath. *)
From Coq Require Import List ZArith Sorting.Sorted.
From DOS Require Import Generated Merge MergeProofs MergeSpec Chunks.
Import ListNotations.
Open Scope Z_scope.

(* detect_where_sorted on sorted unique inputs terminates without error and yields exactly the specification merge *)
Theorem C16_dws_spec : forall L R, SortedL L -> Sorted Z.lt R -> dws L R = (merge_spec L R, Ok).
Proof. exact dws_spec. Qed.
Print Assumptions C16_dws_spec.

(* ... whose classification is exactly set membership (left element returned on BOTH) ... *)
Theorem C16_merge_spec_in : forall L R, SortedL L -> Sorted Z.lt R -> forall i,
  In i (merge_spec L R) <->
  (exists x, In x L /\ In (fst x) R /\ i = yl x BOTH) \/
  (exists x, In x L /\ ~ In (fst x) R /\ i = yl x LEFTONLY) \/
  (exists y, In y R /\ ~ In y (map fst L) /\ i = yr y).
Proof. exact merge_spec_in. Qed.
Print Assumptions C16_merge_spec_in.

(* ... and reports every key exactly once, in order *)
Theorem C16_merge_spec_once : forall L R, SortedL L -> Sorted Z.lt R -> Sorted Z.lt (map ikey (merge_spec L R)).
Proof. exact merge_spec_keys_sorted. Qed.
Print Assumptions C16_merge_spec_once.

(* unsorted / non-unique input is rejected: a complete run ends in ValueError, never silently *)
Theorem C16_dws_rejects : forall L R, ~ (SortedL L /\ Sorted Z.lt R) ->
  snd (dws L R) = ErrLeft \/ snd (dws L R) = ErrRight.
Proof. exact dws_rejects. Qed.
Print Assumptions C16_dws_rejects.

Theorem C16_dws_terminates : forall L R, snd (dws L R) <> OutOfFuel.
Proof. exact dws_terminates. Qed.
Print Assumptions C16_dws_terminates.

(* chunk_iterator: concatenation is the input; no empty chunk; all but the last are full *)
Theorem C16_chunks : forall (n : nat) (l : list Z), (0 < n)%nat ->
  concat (chunks n l) = l /\
  Forall (fun c => c <> [] /\ (length c <= n)%nat) (chunks n l) /\
  (forall pre last, chunks n l = pre ++ [last] -> Forall (fun c => length c = n) pre).
Proof. intros n l H. split; [exact (chunks_concat n l H) | exact (chunks_shape n l H)]. Qed.
Print Assumptions C16_chunks.

(* paging by `id > last_pk ORDER BY id LIMIT n` enumerates every row exactly once for every n >= 1 *)
Theorem C16_paging : forall (rows : list (Z * Z)) (n : nat), (0 < n)%nat -> Sorted Z.lt (map fst rows) ->
  Forall (fun r => -1 < fst r) rows -> paging (S (length rows)) rows (-1) n = rows.
Proof. exact (@paging_all Z). Qed.
Print Assumptions C16_paging.

(* the constants of the current source satisfy what the lemmas need *)
Theorem C16_constants : 0 < IN_SQL_MAX_LENGTH <= 999 /\ 0 < LIST_YIELD_PER /\ 0 < PACK_YIELD_PER /\ 0 <= MAX_CHUNK_ITERATE_LENGTH.
Proof. cbv. repeat split; congruence. Qed.
Print Assumptions C16_constants.

(* non-vacuity: concrete inputs meeting the hypotheses, evaluated *)
Example C16_ex : dws [(1,10);(3,30);(5,50)] [2;3;9] =
  ([(1,Some 10,LEFTONLY);(2,None,RIGHTONLY);(3,Some 30,BOTH);(5,Some 50,LEFTONLY);(9,None,RIGHTONLY)], Ok).
Proof. vm_compute. reflexivity. Qed.
Example C16_ex_rej : snd (dws [(1,1);(3,3);(3,3)] [2]) = ErrLeft.
Proof. vm_compute. reflexivity. Qed.
