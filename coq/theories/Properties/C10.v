(* C10 - compression is transparent and honours the requested mode.  Statements only (partial). *)
From Coq Require Import List ZArith NArith.
From DOS Require Import Generated Base Store StoreProofs StoreLemmas Mono Compress Programs PackProofs RepackProofs AddPackProofs ImportProofs C10Proofs Totals.
Import ListNotations.

(* should_compress as a function of the mode: the AUTO verdict is an oracle (heuristic), the other three are fixed *)
Inductive cmode := NO | YES | KEEP | AUTO.
Definition should_compress (m : cmode) (source_compressed auto_verdict : bool) : bool :=
  match m with NO => false | YES => true | KEEP => source_compressed | AUTO => auto_verdict end.

Theorem C10_modes : forall sc av,
  should_compress YES sc av = true /\ should_compress NO sc av = false /\ should_compress KEEP sc av = sc.
Proof. intros; repeat split. Qed.

Section C10.
Variable H : bytes -> key.
Variable inflate : bytes -> option bytes.

(* transparency: whatever form a row takes, under the invariant it reads back as the content with the key's digest and the
   recorded size is the content length *)
Theorem C10_transparent : forall w r, Inv H inflate w -> In r (db w) ->
  exists c, stored inflate w (rkey r) = Some c /\ H c = rkey r /\ length c = rsize r.
Proof. exact (manual_recovery H inflate). Qed.

(* an uncompressed entry occupies exactly its content length (recorded stored length = size) *)
Theorem C10_plain_length_is_size : forall w r, Inv H inflate w -> In r (db w) -> rcomp r = false -> rlen r = rsize r.
Proof.
  intros w r (_ & Hok & _) Hin Hc. rewrite Forall_forall in Hok.
  destruct (Hok r Hin) as (f & c & _ & _ & _ & _ & _ & Hl). auto.
Qed.

(* repacking never changes which keys are indexed *)
Theorem C10_repack_keeps_keys : forall d rs o n,
  map rkey (apply_sql (apply_sql d (SUpdateRows rs)) (SRepoint o n)) = map rkey d.
Proof. intros. rewrite repoint_keys, updaterows_keys. reflexivity. Qed.
(* program level, ALL inputs: after the completed call every index entry written by it has exactly the FORM of the object handed over for
   its key - the compressed flag the mode decided (should_compress, an oracle for AUTO), the stored length = number of bytes of the blob
   in the pack, the size = what the caller recorded (the content length: aobj_ok / obj_ok / robj_ok) - and every other entry is the old one *)
Hypothesis H_inj : forall a b, H a = H b -> a = b.
Theorem C10_pack_writes_the_requested_form : forall w l id objs fs clean,
  Inv H inflate w -> pending l = [] ->
  Forall (obj_ok inflate w) objs -> NoDup (map okey objs) -> (forall o, In o objs -> ~ In (okey o) (map rkey (db w))) ->
  forall r, In r (db (fst (run_events (w, l) (p_pack_one w id objs fs clean)))) ->
    In r (db w) \/ exists o, In o objs /\ row_of_obj r o /\ rpack r = id.
Proof. exact (pack_one_forms H inflate H_inj). Qed.

Theorem C10_direct_and_import_write_the_requested_form : forall w l bs nh twice fs,
  Inv H inflate w -> pending l = [] -> Forall (fun b => Forall (aobj_ok H inflate) (snd b)) bs ->
  forall r, In r (db (fst (run_events (w, l) (p_import w nh twice fs bs)))) ->
    In r (db w) \/ exists b o, In b bs /\ In o (snd b) /\ row_of_obj r o /\ rpack r = fst b.
Proof. exact (import_forms H inflate H_inj). Qed.

Theorem C10_repack_writes_the_requested_form : forall w l id objs,
  Inv H inflate w -> pending l = [] -> id <> REPACK -> get_pack w REPACK = None ->
  Forall (robj_ok inflate w id) objs ->
  (forall r, In r (db w) -> rpack r = id -> In (rkey r) (map okey objs)) ->
  rows_of_pack (db w) id <> [] ->
  exists w' l', run_events (w, l) (p_repack_one w id objs) = (w', l') /\
    (forall r, In r (db w') -> rpack r = id -> exists o, In o objs /\ row_of_obj r o) /\
    (forall r, In r (db w') -> rpack r <> id -> In r (db w)).
Proof. exact (repack_forms H inflate). Qed.

(* the uniform modes: all objects handed over compressed (YES) / plain (NO) => every entry of the repacked pack is compressed / plain *)
Theorem C10_repack_uniform_mode : forall w l id objs (b : bool),
  Inv H inflate w -> pending l = [] -> id <> REPACK -> get_pack w REPACK = None ->
  Forall (robj_ok inflate w id) objs ->
  (forall r, In r (db w) -> rpack r = id -> In (rkey r) (map okey objs)) ->
  rows_of_pack (db w) id <> [] -> (forall o, In o objs -> ocomp o = b) ->
  forall r, In r (db (fst (run_events (w, l) (p_repack_one w id objs)))) -> rpack r = id -> rcomp r = b.
Proof. exact (repack_all_compressed H inflate). Qed.
End C10.

(* the AUTO heuristic (estimate_compression) on a stream of the length it is told: every seek stays inside [0, size] (so the
   PackedObjectReader it is given during repack never raises), the sampling loop terminates, the position is restored *)
Theorem C10_estimate_restores_position : forall L sample maxs pos0,
  (0 < sample)%Z -> (0 <= maxs)%Z -> (0 <= pos0 <= L)%Z ->
  exists targets, estimate L L sample maxs pos0 = Some (targets, pos0) /\ Forall (fun p => (0 <= p <= L)%Z) targets.
Proof. exact estimate_ok. Qed.
Print Assumptions C10_estimate_restores_position.

(* the AUTO threshold of the current source: compress when the estimate is below the threshold (any sane threshold keeps the property) *)
Theorem C10_threshold : (0 < COMPRESSION_THRESHOLD_PERMILLE <= 1000 /\ 0 < EST_SAMPLE_SIZE <= EST_MAX_SAMPLED)%Z.
Proof. cbv. repeat split; congruence. Qed.
Print Assumptions C10_modes.
Print Assumptions C10_transparent.
Print Assumptions C10_plain_length_is_size.
Print Assumptions C10_repack_keeps_keys.
Print Assumptions C10_threshold.
Print Assumptions C10_pack_writes_the_requested_form.
Print Assumptions C10_direct_and_import_write_the_requested_form.
Print Assumptions C10_repack_writes_the_requested_form.
Print Assumptions C10_repack_uniform_mode.

(* ---- the totals: get_total_size / count_objects as functions of the on-disk state (Totals.totals_of) ----
   on EVERY state satisfying the invariant: SUM(size) is the sum of the lengths of the contents the entries decode to; entries stored
   uncompressed account for exactly their size; and the stored lengths never add up to more than the pack files hold (any number of
   packs and entries, zero-length entries included) *)
Section C10_totals.
Variable H : bytes -> key.
Variable inflate : bytes -> option bytes.
Theorem C10_total_size_is_the_sum_of_content_lengths : forall w, Inv H inflate w ->
  t_packed (totals_of w) = list_sum (map (fun r => match read_row inflate w r with Some c => length c | None => 0 end) (db w)).
Proof. exact (packed_size_is_content_length H inflate). Qed.
Theorem C10_plain_entries_occupy_their_size : forall w, Inv H inflate w -> Forall (fun r => rcomp r = false) (db w) ->
  t_packed_disk (totals_of w) = t_packed (totals_of w).
Proof. exact (plain_packed_on_disk H inflate). Qed.
Theorem C10_packed_on_disk_le_packfiles : forall w, Inv H inflate w -> NoDup (map fst (packs w)) ->
  t_packed_disk (totals_of w) <= t_packfiles (totals_of w).
Proof. exact (packed_on_disk_le_packfiles H inflate). Qed.
End C10_totals.
Print Assumptions C10_total_size_is_the_sum_of_content_lengths.
Print Assumptions C10_plain_entries_occupy_their_size.
Print Assumptions C10_packed_on_disk_le_packfiles.
Example C10_totals_ex : totals_of {| loose := [(7%N, mkFile [1;2;3]%N [])]; packs := [(0%Z, mkFile [9;9;9;9;9]%N [])]; sandbox := [];
                                     db := [mkRow 1%N 0%Z 0 2 true 10; mkRow 2%N 0%Z 2 3 false 3] |}
  = mkTotals 13 5 5 3 2 1 1.
Proof. vm_compute. reflexivity. Qed.
