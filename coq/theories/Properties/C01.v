(* C01 - content-addressed round trip on every write path.  Statements only. *)
From Coq Require Import List ZArith NArith.
From DOS Require Import Generated Base Store StoreProofs StoreLemmas Streams StreamsProofs Programs ProgramsProofs PackProofs AddPackProofs ImportProofs.
Import ListNotations.

Section C01.
Variable H : bytes -> key.
Variable inflate : bytes -> option bytes.
Hypothesis H_inj : forall a b, H a = H b -> a = b.

(* loose write paths (add_object, add_streamed_object): for every world satisfying the invariant, every content and EVERY
   chunking of the source stream into reads, the completed call makes exactly those bytes readable under the digest of
   exactly those bytes (the key handed back is H (concat chunks) by construction of the program) *)
Theorem C01_loose_roundtrip : forall w l n chunks,
  Inv H inflate w ->
  stored inflate (crash (run_events (w, l) (p_add_loose H w n chunks))) (H (concat chunks)) = Some (concat chunks).
Proof. exact (add_loose_roundtrip H inflate H_inj). Qed.

(* every index entry (pack write paths, compressed or not) reads back, without the library, as bytes whose digest is the key
   and whose length is the recorded size *)
Theorem C01_packed_entries_read_back : forall w r, Inv H inflate w -> In r (db w) ->
  exists c, stored inflate w (rkey r) = Some c /\ H c = rkey r /\ length c = rsize r.
Proof. exact (manual_recovery H inflate). Qed.
(* direct-to-pack write paths (add_objects_to_pack / add_streamed_object(s)_to_pack; compressed or not, singly or in a batch, all
   three no_holes modes, with or without fsync): for every world satisfying the invariant and EVERY batch (repetitions and already
   known content included), after the completed call every object of the batch reads back as exactly its content under the digest
   of exactly that content (the stored blob is whatever the compressor produced: an oracle that only has to decode to the content) *)
Theorem C01_direct_to_pack_roundtrip : forall w l id objs nh twice fs,
  Inv H inflate w -> pending l = [] -> Forall (aobj_ok H inflate) objs ->
  exists w' l', run_events (w, l) (p_add_to_pack w id objs nh twice fs) = (w', l') /\ Inv H inflate w' /\
    forall o, In o objs ->
      exists c, decode inflate (oblob o) (ocomp o) = Some c /\ H c = okey o /\ stored inflate w' (okey o) = Some c.
Proof.
  intros w l id objs nh twice fs HI Hp Ho.
  destruct (import_transfers_all H inflate H_inj w l [(id, objs)] nh twice fs HI Hp) as (w' & l' & Er & I' & _ & Hall).
  { constructor; [exact Ho|constructor]. }
  rewrite (import_one_batch w id objs nh twice fs) in Er.
  exists w', l'. split; [exact Er|]. split; [exact I'|].
  intros o Hin. exact (Hall (id, objs) o (or_introl eq_refl) Hin).
Qed.
(* loose, then packed (pack_all_loose, one pack, any compression outcome per object, with or without fsync and per-pack clean): every
   packed object still reads back as exactly the bytes its loose file held *)
Theorem C01_loose_then_pack_roundtrip : forall w l id objs fs clean,
  Inv H inflate w -> pending l = [] ->
  Forall (obj_ok inflate w) objs -> NoDup (map okey objs) -> (forall o, In o objs -> ~ In (okey o) (map rkey (db w))) ->
  forall o, In o objs -> exists f, get_loose w (okey o) = Some f /\
    stored inflate (crash (run_events (w, l) (p_pack_one w id objs fs clean))) (okey o) = Some (fdata f).
Proof. exact (pack_one_indexes_all H inflate H_inj). Qed.
End C01.

(* reading a packed object through PackedObjectReader, whole or by any program of reads, equals reading the bytes themselves *)
Theorem C01_packed_reader_returns_the_bytes : forall (pre c post : bytes) (ops : list op),
  run_ops por_step (por_init (pre ++ c ++ post) (zlen pre) (zlen c)) ops = run_ops bio_rej {| bcontent := c; bpos := 0 |} ops.
Proof. intros. apply (por_run_sim pre c post). apply por_init_R. Qed.

(* the chunk sizes of the current source are positive (the chunk loops make progress) *)
Theorem C01_chunk_constants : (0 < CHUNKSIZE /\ 0 < ADD_READ_CHUNK /\ 0 < HASH_CHUNK /\ 0 < ZLIB_CHUNKSIZE)%Z.
Proof. cbv. repeat split; congruence. Qed.
Print Assumptions C01_loose_roundtrip.
Print Assumptions C01_packed_entries_read_back.
Print Assumptions C01_packed_reader_returns_the_bytes.
Print Assumptions C01_chunk_constants.
Print Assumptions C01_direct_to_pack_roundtrip.
Print Assumptions C01_loose_then_pack_roundtrip.
