(* C01 - content-addressed round trip on every write path.  Statements only. *)
From Coq Require Import List ZArith NArith.
From DOS Require Import Generated Base Store StoreProofs StoreLemmas Streams StreamsProofs Programs ProgramsProofs.
Import ListNotations.

Section C01.
Variable H : bytes -> key.
Variable inflate : bytes -> option bytes.
Hypothesis H_inj : forall a b, H a = H b -> a = b.

(* loose write paths (add_object, add_streamed_object): for every world satisfying the invariant, every content and EVERY
   chunking of the source stream into reads, the completed call makes exactly those bytes readable under the digest of
   exactly those bytes (the key handed back is H (concat chunks) by construction of the program) *)
Theorem C01_loose_roundtrip : forall w l n chunks,
  Inv H inflate w ->
  stored inflate (crash (run_events (w, l) (p_add_loose H w n chunks))) (H (concat chunks)) = Some (concat chunks).
Proof. exact (add_loose_roundtrip H inflate H_inj). Qed.

(* every index entry (pack write paths, compressed or not) reads back, without the library, as bytes whose digest is the key
   and whose length is the recorded size *)
Theorem C01_packed_entries_read_back : forall w r, Inv H inflate w -> In r (db w) ->
  exists c, stored inflate w (rkey r) = Some c /\ H c = rkey r /\ length c = rsize r.
Proof. exact (manual_recovery H inflate). Qed.
End C01.

(* reading a packed object through PackedObjectReader, whole or by any program of reads, equals reading the bytes themselves *)
Theorem C01_packed_reader_returns_the_bytes : forall (pre c post : bytes) (ops : list op),
  run_ops por_step (por_init (pre ++ c ++ post) (zlen pre) (zlen c)) ops = run_ops bio_rej {| bcontent := c; bpos := 0 |} ops.
Proof. intros. apply (por_run_sim pre c post). apply por_init_R. Qed.

(* the chunk sizes of the current source are positive (the chunk loops make progress) *)
Theorem C01_chunk_constants : (0 < CHUNKSIZE /\ 0 < ADD_READ_CHUNK /\ 0 < HASH_CHUNK /\ 0 < ZLIB_CHUNKSIZE)%Z.
Proof. cbv. repeat split; congruence. Qed.
Print Assumptions C01_loose_roundtrip.
Print Assumptions C01_packed_entries_read_back.
Print Assumptions C01_packed_reader_returns_the_bytes.
Print Assumptions C01_chunk_constants.
