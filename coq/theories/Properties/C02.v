(* C02 - any history of operations is equivalent to a key->bytes map.  Statements only (partial: see MANIFEST). *)
From Coq Require Import List ZArith NArith.
From DOS Require Import Base Store StoreProofs StoreLemmas Mono MonoStep Programs ProgramsProofs Validate PackProofs MaintProofs AddPackProofs ImportProofs C02Proofs History.
Import ListNotations.

Section C02.
Variable H : bytes -> key.
Variable inflate : bytes -> option bytes.
Hypothesis H_inj : forall a b, H a = H b -> a = b.

(* abstraction: `stored w : key -> option bytes` is the map the container denotes; under the invariant it is what the
   library's read path returns *)
Theorem C02_views_are_the_map : forall w k, Inv H inflate w -> lookup_impl inflate w k = stored inflate w k.
Proof. exact (lookup_impl_stored H inflate). Qed.

(* adding a loose object is a map update: everything stored stays, the new content is stored under its digest *)
Theorem C02_add_loose_is_put : forall w l n chunks,
  Inv H inflate w ->
  let w' := crash (run_events (w, l) (p_add_loose H w n chunks)) in
  Inv H inflate w' /\ (forall k c, stored inflate w k = Some c -> stored inflate w' k = Some c) /\
  stored inflate w' (H (concat chunks)) = Some (concat chunks).
Proof.
  intros w l n chunks HI. cbn zeta.
  destruct (add_loose_final H inflate H_inj w l n chunks HI) as (w' & l' & Hr & I' & Hst & Hk & _).
  rewrite Hr. cbn [crash fst]. auto.
Qed.

(* ... and an EXACT one: no other key appears, disappears or changes what it reads back as *)
Theorem C02_add_loose_changes_nothing_else : forall w l n chunks k',
  Inv H inflate w -> k' <> H (concat chunks) ->
  stored inflate (crash (run_events (w, l) (p_add_loose H w n chunks))) k' = stored inflate w k'.
Proof. intros w l n chunks k' HI Hne. exact (add_loose_exact H inflate w l n chunks HI k' Hne). Qed.

(* direct-to-pack (one pack, all modes, any batch) is put-all: every object of the batch is stored under its key (C01_direct_to_pack_roundtrip)
   and every key that is not the key of an object of the batch reads back exactly as before, present or absent *)
Theorem C02_add_to_pack_is_put_all : forall w l id objs nh twice fs k,
  Inv H inflate w -> pending l = [] -> Forall (aobj_ok H inflate) objs ->
  (forall o, In o objs -> okey o <> k) ->
  stored inflate (crash (run_events (w, l) (p_add_to_pack w id objs nh twice fs))) k = stored inflate w k.
Proof. intros w l id objs nh twice fs k HI Hp Ho Hk. exact (add_to_pack_exact H inflate H_inj w l id objs nh twice fs HI Hp Ho k Hk). Qed.

(* the transfer of import_objects likewise (any batches over any packs) *)
Theorem C02_import_is_put_all : forall w l bs nh twice fs k,
  Inv H inflate w -> pending l = [] -> Forall (fun b => Forall (aobj_ok H inflate) (snd b)) bs ->
  (forall b o, In b bs -> In o (snd b) -> okey o <> k) ->
  stored inflate (crash (run_events (w, l) (p_import w nh twice fs bs))) k = stored inflate w k.
Proof. intros w l bs nh twice fs k HI Hp Ho Hk. exact (import_exact H inflate H_inj w l bs nh twice fs HI Hp Ho k Hk). Qed.

(* maintenance changes where bytes live, never which keys exist or what they read back as: along ANY monotone history
   (pack_all_loose with any options, clean_storage, re-loosening, appends) every stored object stays stored with its bytes *)
Theorem C02_maintenance_is_invisible : forall w w' k c,
  Inv H inflate w -> Inv H inflate w' -> Mono w w' -> stored inflate w k = Some c -> stored inflate w' k = Some c.
Proof.
  intros w w' k c I0 I1 M Hs.
  pose proof (reader_finds H inflate H_inj w w' w' w' w' w' k c I0 I1 I1 I1 (Mono_refl w') M (Mono_refl w') (Mono_refl w') Hs) as L.
  unfold lookup in L. unfold Store.stored.
  destruct (find_row (db w') k); [exact L|]. destruct (get_loose w' k); [exact L|discriminate].
Qed.

(* packing moves objects from loose to packed without changing what any key reads back as, and indexes the whole batch *)
Theorem C02_pack_is_invisible : forall w l id objs fs clean,
  Inv H inflate w -> pending l = [] ->
  Forall (obj_ok inflate w) objs -> NoDup (map okey objs) -> (forall o, In o objs -> ~ In (okey o) (map rkey (db w))) ->
  let w' := crash (run_events (w, l) (p_pack_one w id objs fs clean)) in
  Inv H inflate w' /\ (forall k c, stored inflate w k = Some c -> stored inflate w' k = Some c).
Proof.
  intros w l id objs fs clean A B C D E. cbn zeta.
  pose proof (pack_one_crash_safe H inflate H_inj w l id objs fs clean (length (p_pack_one w id objs fs clean)) A B C D E) as (X & Y & _).
  rewrite firstn_all in X, Y. split; assumption.
Qed.

(* ... in BOTH directions: after the completed pack (with or without per-pack clean) EVERY key reads back exactly as before, present or absent *)
Theorem C02_pack_changes_no_view : forall w l id objs fs clean k,
  Inv H inflate w -> pending l = [] ->
  Forall (obj_ok inflate w) objs -> NoDup (map okey objs) -> (forall o, In o objs -> ~ In (okey o) (map rkey (db w))) ->
  stored inflate (crash (run_events (w, l) (p_pack_one w id objs fs clean))) k = stored inflate w k.
Proof. intros w l id objs fs clean k A B C D E. exact (pack_one_exact H inflate H_inj w l id objs fs clean A B C D E k). Qed.

(* delete_objects is map removal: requested keys are gone, everything else reads as before *)
Theorem C02_delete_is_remove : forall w l ks,
  Inv H inflate w -> pending l = [] ->
  let w' := crash (run_events (w, l) (p_delete w ks)) in
  Inv H inflate w' /\ (forall k, In k ks -> stored inflate w' k = None) /\
  (forall k c, ~ In k ks -> stored inflate w k = Some c -> stored inflate w' k = Some c).
Proof.
  intros w l ks A B. cbn zeta.
  pose proof (delete_always H inflate w l ks A B (length (p_delete w ks))) as (X & Y). rewrite firstn_all in X, Y.
  split; [exact X|]. split; [|exact Y]. intros k Hk. exact (delete_removes_requested H inflate w l ks k A B Hk).
Qed.

(* deletion at the index level removes exactly the requested keys *)
Theorem C02_delete_rows : forall d ks r, In r (apply_sql d (SDelete ks)) <-> In r d /\ ~ In (rkey r) ks.
Proof. exact delete_spec. Qed.

(* every view answers with bytes whose digest is the key asked for *)
Theorem C02_reads_are_content_addressed : forall w k c, Inv H inflate w -> stored inflate w k = Some c -> H c = k.
Proof. exact (stored_sound H inflate). Qed.
(* THE property, as one statement: ANY finite history of add / pack / direct-to-pack (any mode) / import / delete / clean / repack operations,
   each run as its program from the world the previous one left (with whatever oracles - chunkings, blob encodings, orders - as long
   as they make sense there: History.pre), ends in a world that satisfies the invariant and in which EVERY key reads back exactly what
   the key -> bytes map obtained by folding the obvious map updates (History.spec) holds for it *)
Theorem C02_any_history_is_a_map : forall ops s,
  Inv H inflate (fst s) -> pending (snd s) = [] -> pre_hist H inflate s ops ->
  Inv H inflate (fst (run_hist H s ops)) /\
  forall k, stored inflate (fst (run_hist H s ops)) k = spec_hist H inflate (stored inflate (fst s)) ops k.
Proof. exact (history_refines H inflate H_inj). Qed.

(* non-vacuity: the empty container satisfies the invariant, and a history with every kind of write whose precondition does not depend on
   the world - loose adds, a direct-to-pack batch (plain and no_holes) and an import of objects whose stored blob is their content, a
   deletion, a clean - is admissible, whatever the hash *)
Example C02_history_nonvacuous :
  let w0 := {| loose := []; packs := []; sandbox := []; db := [] |} in
  let o1 := mkPobj (H [1%N; 2%N]) [1%N; 2%N] false 2 in
  let o2 := mkPobj (H []) [] false 0 in
  Inv H inflate w0 /\
  pre_hist H inflate (w0, local0)
    [OAdd 0 [[1%N; 2%N]; [3%N]]; OTopack 0%Z [o1; o2; o1] false true true; OTopack 0%Z [o2] true false true;
     OImport [(0%Z, [o1]); (1%Z, [o2])] false true true; OClean true []; ODelete [H [1%N; 2%N; 3%N]]; OAdd 1 []].
Proof.
  cbn zeta. split.
  - unfold Store.Inv. cbn. repeat split; constructor.
  - assert (A1 : aobj_ok H inflate (mkPobj (H [1%N; 2%N]) [1%N; 2%N] false 2)) by (exists [1%N; 2%N]; cbn; auto).
    assert (A2 : aobj_ok H inflate (mkPobj (H []) [] false 0)) by (exists []; cbn; auto).
    cbn [pre_hist pre]. repeat split; repeat constructor; assumption.
Qed.
(* loosen_object: writing the content a key reads back as into a loose file changes what no key reads back as *)
Theorem C02_loosen_changes_no_view : forall s n chunks k0,
  Inv H inflate (fst s) -> pending (snd s) = [] -> stored inflate (fst s) k0 = Some (concat chunks) ->
  Inv H inflate (fst (run_events s (p_add_loose H (fst s) n chunks))) /\
  forall k, stored inflate (fst (run_events s (p_add_loose H (fst s) n chunks))) k = stored inflate (fst s) k.
Proof. exact (loosen_changes_no_view H inflate H_inj). Qed.
End C02.
Print Assumptions C02_views_are_the_map.
Print Assumptions C02_add_loose_is_put.
Print Assumptions C02_maintenance_is_invisible.
Print Assumptions C02_pack_is_invisible.
Print Assumptions C02_delete_is_remove.
Print Assumptions C02_delete_rows.
Print Assumptions C02_reads_are_content_addressed.
Print Assumptions C02_add_loose_changes_nothing_else.
Print Assumptions C02_add_to_pack_is_put_all.
Print Assumptions C02_import_is_put_all.
Print Assumptions C02_pack_changes_no_view.
Print Assumptions C02_any_history_is_a_map.
Print Assumptions C02_loosen_changes_no_view.
