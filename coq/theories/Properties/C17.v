(* C17 - an I/O error in the middle of an operation leaves the store intact.  Statements only. *)
From Coq Require Import List ZArith NArith.
From DOS Require Import Base Store StoreProofs StoreLemmas Programs ProgramsProofs PackProofs MaintProofs RepackProofs AddPackProofs ImportProofs FaultProofs History.
Import ListNotations.

Section C17.
Variable H : bytes -> key.
Variable inflate : bytes -> option bytes.

(* A run with an injected fault is a trace too: the events up to the fault followed by the events of the handlers
   (finally blocks: sandbox removal, lock release, handle close, session rollback).  The verified monitor certifies that
   at every boundary of that trace - in particular in the state the failed operation leaves behind - the invariant holds and
   every previously stored, non-target object is still complete where the index or loose folder says. *)
Theorem C17_fault_trace_monitor : forall truth targets tr s,
  monitor H inflate false truth targets s tr = true ->
  forall n, Inv H inflate (crash (run_events s (firstn n tr))) /\
            preserved inflate truth targets (crash (run_events s (firstn n tr))).
Proof. intros truth targets tr s Hm n. exact (monitor_sound H inflate false truth targets tr s Hm n). Qed.

(* no partially written object is visible and no read returns wrong bytes: every visible key reads as bytes with that digest *)
Theorem C17_no_wrong_bytes : forall w k c, Inv H inflate w -> stored inflate w k = Some c -> H c = k.
Proof. exact (stored_sound H inflate). Qed.

(* an abandoned transaction (rollback / session closed on error) changes nothing on disk *)
Theorem C17_rollback_is_noop : forall w l, fst (apply_ev (w, l) ERollback) = w.
Proof. reflexivity. Qed.
(* ---- program level: an I/O error at ANY call of the operation, followed by ANY sequence of handler events (handles closed - their
   buffers reach the file -, sandbox file removed, session rolled back), for ALL inputs: the invariant holds and everything stored
   before the operation started reads back byte for byte ---- *)
Hypothesis H_inj : forall a b, H a = H b -> a = b.
Notation safe_after w s tr := (Inv H inflate (fst (run_events s tr)) /\
                               (forall k c, stored inflate w k = Some c -> stored inflate (fst (run_events s tr)) k = Some c)).

Theorem C17_fault_in_add_loose : forall w l n chunks m hs,
  Inv H inflate w -> forallb handler_ev hs = true ->
  safe_after w (w, l) (firstn m (p_add_loose H w n chunks) ++ hs).
Proof. intros w l n chunks m hs HI Hh. exact (fault_add_loose_safe H inflate H_inj w l n chunks HI m hs Hh). Qed.

Theorem C17_fault_in_pack : forall w l id objs fs clean m hs,
  Inv H inflate w -> pending l = [] ->
  Forall (obj_ok inflate w) objs -> NoDup (map okey objs) -> (forall o, In o objs -> ~ In (okey o) (map rkey (db w))) ->
  forallb handler_ev hs = true ->
  safe_after w (w, l) (firstn m (p_pack_one w id objs fs clean) ++ hs).
Proof.
  intros w l id objs fs clean m hs HI Hp Ho Hn Hf Hh.
  exact (fault_Good_safe H inflate H_inj w fs _ _ HI (pack_one_always H inflate H_inj w l id objs fs clean HI Hp Ho Hn Hf) m hs Hh).
Qed.

Theorem C17_fault_in_clean : forall w l vacuum order m hs,
  Inv H inflate w -> pending l = [] -> forallb handler_ev hs = true ->
  safe_after w (w, l) (firstn m (p_clean w vacuum order) ++ hs).
Proof.
  intros w l vacuum order m hs HI Hp Hh.
  exact (fault_Good_safe H inflate H_inj w false _ _ HI (clean_always H inflate w l false vacuum order HI Hp) m hs Hh).
Qed.

Theorem C17_fault_in_delete : forall w l ks m hs,
  Inv H inflate w -> pending l = [] -> forallb handler_ev hs = true ->
  Inv H inflate (fst (run_events (w, l) (firstn m (p_delete w ks) ++ hs))) /\
  (forall k c, ~ In k ks -> stored inflate w k = Some c -> stored inflate (fst (run_events (w, l) (firstn m (p_delete w ks) ++ hs))) k = Some c).
Proof.
  intros w l ks m hs HI Hp Hh.
  exact (fault_anywhere (KeepOthers H inflate w ks) (w, l) _ (fun a b A K => KeepOthers_appended H inflate w ks a b A K)
           (delete_always H inflate w l ks HI Hp) m hs Hh).
Qed.

Theorem C17_fault_in_repack : forall w l id objs m hs,
  Inv H inflate w -> pending l = [] -> id <> REPACK -> get_pack w REPACK = None ->
  Forall (robj_ok inflate w id) objs ->
  (forall r, In r (db w) -> rpack r = id -> In (rkey r) (map okey objs)) ->
  rows_of_pack (db w) id <> [] ->
  forallb handler_ev hs = true ->
  safe_after w (w, l) (firstn m (p_repack_one w id objs) ++ hs).
Proof.
  intros w l id objs m hs HI Hp Hid Hr Ho Hc Hne Hh.
  exact (fault_Good_safe H inflate H_inj w false _ _ HI (repack_always H inflate H_inj w id objs HI Hid Hr Ho Hc l false Hp Hne) m hs Hh).
Qed.

Theorem C17_fault_in_add_to_pack : forall w l id objs nh twice fs m hs,
  Inv H inflate w -> pending l = [] -> Forall (aobj_ok H inflate) objs -> forallb handler_ev hs = true ->
  safe_after w (w, l) (firstn m (p_add_to_pack w id objs nh twice fs) ++ hs).
Proof.
  intros w l id objs nh twice fs m hs HI Hp Ho Hh.
  exact (fault_Good_safe H inflate H_inj w fs _ _ HI (add_to_pack_always H inflate H_inj w l id objs nh twice fs HI Hp Ho) m hs Hh).
Qed.

Theorem C17_fault_in_import : forall w l bs nh twice fs m hs,
  Inv H inflate w -> pending l = [] -> Forall (fun b => Forall (aobj_ok H inflate) (snd b)) bs -> forallb handler_ev hs = true ->
  safe_after w (w, l) (firstn m (p_import w nh twice fs bs) ++ hs).
Proof.
  intros w l bs nh twice fs m hs HI Hp Ho Hh.
  exact (fault_Good_safe H inflate H_inj w fs _ _ HI (import_always H inflate H_inj w l bs nh twice fs HI Hp Ho) m hs Hh).
Qed.

(* the handler events themselves, from any state: they can only append unsynced bytes to packs *)
Theorem C17_handlers_only_append : forall hs s, forallb handler_ev hs = true -> appended (fst s) (fst (run_events s hs)).
Proof. exact handlers_appended. Qed.
(* ... and for whole histories: an I/O error after ANY number of primitives of ANY finite history of operations, followed by ANY handler
   sequence, leaves a folder that satisfies the invariant *)
Theorem C17_fault_anywhere_in_any_history : forall ops s n hs,
  Inv H inflate (fst s) -> pending (snd s) = [] -> pre_hist H inflate s ops -> forallb handler_ev hs = true ->
  Inv H inflate (fst (run_events s (firstn n (hist_trace H s ops) ++ hs))).
Proof.
  intros ops s n hs HI Hp Hpre Hh.
  apply (fault_anywhere (fun w' => Inv H inflate w') s (hist_trace H s ops)); [|exact (history_every_crash_point H inflate H_inj ops s HI Hp Hpre)|exact Hh].
  intros w1 w2 A I1. exact (Inv_appended H inflate w1 w2 A I1).
Qed.
End C17.
Print Assumptions C17_fault_trace_monitor.
Print Assumptions C17_no_wrong_bytes.
Print Assumptions C17_rollback_is_noop.
Print Assumptions C17_fault_in_add_loose.
Print Assumptions C17_fault_in_pack.
Print Assumptions C17_fault_in_clean.
Print Assumptions C17_fault_in_delete.
Print Assumptions C17_fault_in_repack.
Print Assumptions C17_fault_in_add_to_pack.
Print Assumptions C17_fault_in_import.
Print Assumptions C17_handlers_only_append.
Print Assumptions C17_fault_anywhere_in_any_history.
