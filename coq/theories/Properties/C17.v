(* C17 - an I/O error in the middle of an operation leaves the store intact.  Statements only. *)
From Coq Require Import List ZArith NArith.
From DOS Require Import Base Store StoreProofs StoreLemmas.
Import ListNotations.

Section C17.
Variable H : bytes -> key.
Variable inflate : bytes -> option bytes.

(* A run with an injected fault is a trace too: the events up to the fault followed by the events of the handlers
   (finally blocks: sandbox removal, lock release, handle close, session rollback).  The verified monitor certifies that
   at every boundary of that trace - in particular in the state the failed operation leaves behind - the invariant holds and
   every previously stored, non-target object is still complete where the index or loose folder says. *)
Theorem C17_fault_trace_monitor : forall truth targets tr s,
  monitor H inflate false truth targets s tr = true ->
  forall n, Inv H inflate (crash (run_events s (firstn n tr))) /\
            preserved inflate truth targets (crash (run_events s (firstn n tr))).
Proof. intros truth targets tr s Hm n. exact (monitor_sound H inflate false truth targets tr s Hm n). Qed.

(* no partially written object is visible and no read returns wrong bytes: every visible key reads as bytes with that digest *)
Theorem C17_no_wrong_bytes : forall w k c, Inv H inflate w -> stored inflate w k = Some c -> H c = k.
Proof. exact (stored_sound H inflate). Qed.

(* an abandoned transaction (rollback / session closed on error) changes nothing on disk *)
Theorem C17_rollback_is_noop : forall w l, fst (apply_ev (w, l) ERollback) = w.
Proof. reflexivity. Qed.
End C17.
Print Assumptions C17_fault_trace_monitor.
Print Assumptions C17_no_wrong_bytes.
Print Assumptions C17_rollback_is_noop.
