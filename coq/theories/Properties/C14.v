(* C14 - importing transfers exactly the requested objects, byte-identical.  Statements only.
   Modelled: the choice of the keys to transfer (same-hash path: sorted merge), the grouping into calls under the memory budget
   (ImportPlan.plan), the transfer itself as a program (Programs.p_import: any batches over any packs, one COMMIT).
   Not modelled: reading the objects from the source container (its own lookup), the progress callback, the old->new mapping dict. *)
From Coq Require Import List ZArith NArith Sorting.Sorted Permutation.
From DOS Require Import Generated Base Store StoreProofs StoreLemmas Merge MergeProofs MergeSpec Programs PackProofs AddPackProofs ImportPlan ImportProofs.
Import ListNotations.
Open Scope Z_scope.

(* same-hash path: the keys to transfer are the LEFTONLY elements of the sorted merge of the requested keys with the keys the
   destination already holds: exactly the requested keys it lacks, each once *)
Theorem C14_keys_to_transfer : forall L R, SortedL L -> Sorted Z.lt R -> forall x,
  In (yl x LEFTONLY) (merge_spec L R) <-> In x L /\ ~ In (fst x) R.
Proof.
  intros L R SL SR x. rewrite (merge_spec_in L R SL SR). split.
  - intros [(y & _ & _ & E)|[(y & Hy & Hn & E)|(y & _ & _ & E)]].
    + unfold yl in E. inversion E.
    + unfold yl in E. inversion E as [[E1 E2]]. destruct x, y; cbn in *; subst. auto.
    + unfold yl, yr in E. inversion E.
  - intros [Hx Hn]. right; left. exists x. auto.
Qed.

(* the bounded cache: every object the source yields is handed to the destination exactly once, whatever the budget and the sizes;
   a bulk flush never exceeds the budget and is never empty; an object goes alone exactly when it is larger than the budget *)
Theorem C14_every_yielded_object_handed_over_once : forall (A : Type) (size : A -> nat) budget objs,
  Permutation (concat (map objs_of (plan size budget [] 0%nat objs))) objs.
Proof. intros A size budget objs. exact (plan_complete size budget objs [] 0%nat). Qed.
Theorem C14_memory_budget_honoured : forall (A : Type) (size : A -> nat) budget objs,
  Forall (fun b => match b with
                   | Direct o => (budget < size o)%nat
                   | Bulk os => os <> [] /\ (total size os <= budget)%nat
                   end) (plan size budget [] 0%nat objs).
Proof. intros A size budget objs. apply (plan_bounds size budget objs [] 0%nat); [reflexivity|apply Nat.le_0_l]. Qed.

Section C14.
Variable H : bytes -> key.
Variable inflate : bytes -> option bytes.

(* objects the destination already holds never gain a second index entry, and their entries are untouched, whatever is inserted *)
Theorem C14_no_second_entry : forall ig rs d, NoDup (map rkey d) -> NoDup (map rkey (insert_rows ig d rs)).
Proof. intros ig rs d. exact (insert_rows_nodup ig rs d). Qed.
Theorem C14_destination_entries_untouched : forall ig rs d r, In r d -> In r (insert_rows ig d rs).
Proof. intros ig rs d r. exact (insert_rows_keeps ig rs d r). Qed.

(* every transferred row is indexed afterwards under its key *)
Theorem C14_transferred_keys_indexed : forall ig rs d r, In r rs -> In (rkey r) (map rkey (insert_rows ig d rs)).
Proof. intros ig rs d r. exact (insert_rows_adds ig rs d r). Qed.

(* what the destination reads back for a key has that key as digest under the destination's hash *)
Theorem C14_destination_reads_are_content_addressed : forall w k c, Inv H inflate w -> stored inflate w k = Some c -> H c = k.
Proof. exact (stored_sound H inflate). Qed.
Hypothesis H_inj : forall a b, H a = H b -> a = b.

(* the transfer, completed: for ALL batch lists (any grouping, any packs, repeated or already-present content), modes and fsync
   settings, every object of every batch reads back from the destination as exactly its content under the key of that content;
   everything the destination held before still reads back unchanged; the invariant (one entry per key, valid rows) holds *)
Theorem C14_transfer_complete_and_byte_identical : forall w l bs nh twice fs,
  Inv H inflate w -> pending l = [] -> Forall (fun b => Forall (aobj_ok H inflate) (snd b)) bs ->
  exists w' l', run_events (w, l) (p_import w nh twice fs bs) = (w', l') /\ Inv H inflate w' /\
    (forall k c, stored inflate w k = Some c -> stored inflate w' k = Some c) /\
    forall b o, In b bs -> In o (snd b) ->
      exists c, decode inflate (oblob o) (ocomp o) = Some c /\ H c = okey o /\ stored inflate w' (okey o) = Some c.
Proof. exact (import_transfers_all H inflate H_inj). Qed.

(* ... and the destination's index is its old index plus the collected rows under INSERT OR IGNORE (present keys gain nothing),
   its loose objects are untouched and its packs only grew *)
Theorem C14_destination_otherwise_untouched : forall w l bs nh twice fs,
  Inv H inflate w -> pending l = [] -> Forall (fun b => Forall (aobj_ok H inflate) (snd b)) bs ->
  exists w' l', run_events (w, l) (p_import w nh twice fs bs) = (w', l') /\
    db w' = insert_rows true (db w) (rows_of_batches w nh twice (map rkey (db w)) [] bs) /\
    loose w' = loose w /\ (forall id, grows (get_pack w id) (get_pack w' id)) /\ Good H inflate w fs w'.
Proof. exact (import_final H inflate H_inj). Qed.

(* interrupted anywhere, the destination is consistent and has lost nothing *)
Theorem C14_interrupted_transfer_is_harmless : forall w l bs nh twice fs m,
  Inv H inflate w -> pending l = [] -> Forall (fun b => Forall (aobj_ok H inflate) (snd b)) bs ->
  let w' := crash (run_events (w, l) (firstn m (p_import w nh twice fs bs))) in
  Inv H inflate w' /\ (forall k c, stored inflate w k = Some c -> stored inflate w' k = Some c).
Proof. intros w l bs nh twice fs m HI Hp Ho. destruct (import_crash_safe H inflate H_inj w l bs nh twice fs m HI Hp Ho) as (A & B & _). split; assumption. Qed.
End C14.
Print Assumptions C14_keys_to_transfer.
Print Assumptions C14_no_second_entry.
Print Assumptions C14_destination_entries_untouched.
Print Assumptions C14_transferred_keys_indexed.
Print Assumptions C14_destination_reads_are_content_addressed.
Print Assumptions C14_every_yielded_object_handed_over_once.
Print Assumptions C14_memory_budget_honoured.
Print Assumptions C14_transfer_complete_and_byte_identical.
Print Assumptions C14_destination_otherwise_untouched.
Print Assumptions C14_interrupted_transfer_is_harmless.
