(* C14 - importing transfers exactly the requested objects, byte-identical.  Statements only (partial). *)
From Coq Require Import List ZArith NArith Sorting.Sorted.
From DOS Require Import Generated Base Store StoreProofs StoreLemmas Merge MergeProofs MergeSpec.
Import ListNotations.
Open Scope Z_scope.

(* same-hash path: the keys to transfer are the LEFTONLY elements of the sorted merge of the requested keys with the keys the
   destination already holds: exactly the requested keys it lacks, each once *)
Theorem C14_keys_to_transfer : forall L R, SortedL L -> Sorted Z.lt R -> forall x,
  In (yl x LEFTONLY) (merge_spec L R) <-> In x L /\ ~ In (fst x) R.
Proof.
  intros L R SL SR x. rewrite (merge_spec_in L R SL SR). split.
  - intros [(y & _ & _ & E)|[(y & Hy & Hn & E)|(y & _ & _ & E)]].
    + unfold yl in E. inversion E.
    + unfold yl in E. inversion E as [[E1 E2]]. destruct x, y; cbn in *; subst. auto.
    + unfold yl, yr in E. inversion E.
  - intros [Hx Hn]. right; left. exists x. auto.
Qed.

Section C14.
Variable H : bytes -> key.
Variable inflate : bytes -> option bytes.

(* objects the destination already holds never gain a second index entry, and their entries are untouched, whatever is inserted *)
Theorem C14_no_second_entry : forall ig rs d, NoDup (map rkey d) -> NoDup (map rkey (insert_rows ig d rs)).
Proof. intros ig rs d. exact (insert_rows_nodup ig rs d). Qed.
Theorem C14_destination_entries_untouched : forall ig rs d r, In r d -> In r (insert_rows ig d rs).
Proof. intros ig rs d r. exact (insert_rows_keeps ig rs d r). Qed.

(* every transferred row is indexed afterwards under its key *)
Theorem C14_transferred_keys_indexed : forall ig rs d r, In r rs -> In (rkey r) (map rkey (insert_rows ig d rs)).
Proof. intros ig rs d r. exact (insert_rows_adds ig rs d r). Qed.

(* what the destination reads back for a key has that key as digest under the destination's hash *)
Theorem C14_destination_reads_are_content_addressed : forall w k c, Inv H inflate w -> stored inflate w k = Some c -> H c = k.
Proof. exact (stored_sound H inflate). Qed.
End C14.
Print Assumptions C14_keys_to_transfer.
Print Assumptions C14_no_second_entry.
Print Assumptions C14_destination_entries_untouched.
Print Assumptions C14_transferred_keys_indexed.
Print Assumptions C14_destination_reads_are_content_addressed.
