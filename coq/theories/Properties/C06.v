(* C06 - publish only after durable; remove only after the replacement is durable.  Statements only. *)
From Coq Require Import List ZArith NArith.
From DOS Require Import Generated Base Store StoreProofs StoreLemmas Programs ProgramsProofs PackProofs MaintProofs RepackProofs AddPackProofs ImportProofs History.
Import ListNotations.

Section C06.
Variable H : bytes -> key.
Variable inflate : bytes -> option bytes.
Hypothesis H_inj : forall a b, H a = H b -> a = b.

(* (1) Verified monitor with the power-loss projection: accepted trace => at EVERY crash point, the image in which every regular
   file holds only what was present at its last fsync satisfies the invariant and keeps every non-target object. *)
Theorem C06_monitor_sound : forall truth targets tr s,
  monitor H inflate true truth targets s tr = true ->
  forall n, Inv H inflate (power_loss (crash (run_events s (firstn n tr)))) /\
            preserved inflate truth targets (power_loss (crash (run_events s (firstn n tr)))).
Proof. intros truth targets tr s Hm n. exact (monitor_sound H inflate true truth targets tr s Hm n). Qed.

(* (2) Program-level, ALL inputs: add_object / add_streamed_object is power-loss safe at every crash point (the sandbox file is
   flushed and fsynced before the rename: the loose file becomes visible only after its bytes are durable). *)
Theorem C06_add_loose_power_safe : forall w l n chunks m,
  Inv H inflate w -> Inv H inflate (power_loss w) ->
  Inv H inflate (power_loss (crash (run_events (w, l) (firstn m (p_add_loose H w n chunks))))).
Proof.
  intros w l n chunks m HI HP.
  destruct (add_loose_crash_safe H inflate H_inj w l n chunks m HI) as (_ & _ & C). exact (C HP).
Qed.

(* (2b) pack_all_loose with do_fsync = true (the default): at EVERY crash point the power-loss image satisfies the invariant and
   keeps every stored object - the index rows are committed only after the appended bytes were flushed and fsynced, and the
   loose files are unlinked only after that commit *)
Theorem C06_pack_power_safe : forall w l id objs clean m,
  Inv H inflate w -> Inv H inflate (power_loss w) -> pending l = [] ->
  Forall (obj_ok inflate w) objs -> NoDup (map okey objs) -> (forall o, In o objs -> ~ In (okey o) (map rkey (db w))) ->
  let w' := power_loss (crash (run_events (w, l) (firstn m (p_pack_one w id objs true clean)))) in
  Inv H inflate w' /\ (forall k c, stored inflate (power_loss w) k = Some c -> stored inflate w' k = Some c).
Proof.
  intros w l id objs clean m A P B C D E.
  destruct (pack_one_crash_safe H inflate H_inj w l id objs true clean m A B C D E) as (_ & _ & Z). exact (Z eq_refl P).
Qed.

(* (2c) clean_storage removes a loose file only when its key is indexed - and index rows only exist on top of durable bytes *)
Theorem C06_clean_power_safe : forall w l vacuum order m,
  Inv H inflate w -> Inv H inflate (power_loss w) -> pending l = [] ->
  let w' := power_loss (crash (run_events (w, l) (firstn m (p_clean w vacuum order)))) in
  Inv H inflate w' /\ (forall k c, stored inflate (power_loss w) k = Some c -> stored inflate w' k = Some c).
Proof.
  intros w l vacuum order m A P B.
  destruct (clean_crash_safe H inflate H_inj w l true vacuum order m A B) as (_ & _ & Z). exact (Z eq_refl P).
Qed.

(* (2d) repack_pack: the old pack is removed only after the rows that replace it were committed on top of fsynced bytes of -1 *)
Theorem C06_repack_power_safe : forall w l id objs m,
  Inv H inflate w -> Inv H inflate (power_loss w) -> pending l = [] -> id <> REPACK -> get_pack w REPACK = None ->
  Forall (robj_ok inflate w id) objs -> NoDup (map okey objs) ->
  (forall r, In r (db w) -> rpack r = id -> In (rkey r) (map okey objs)) ->
  rows_of_pack (db w) id <> [] ->
  let w' := power_loss (crash (run_events (w, l) (firstn m (p_repack_one w id objs)))) in
  Inv H inflate w' /\ (forall k c, stored inflate (power_loss w) k = Some c -> stored inflate w' k = Some c).
Proof.
  intros w l id objs m A P B C D E F G I.
  destruct (repack_crash_safe H inflate H_inj w l id objs true m A B C D E F G I) as (_ & _ & Z). exact (Z eq_refl P).
Qed.

(* (2e) direct-to-pack with do_fsync = true (the default), all modes and batches, every crash point *)
Theorem C06_add_to_pack_power_safe : forall w l id objs nh twice m,
  Inv H inflate w -> Inv H inflate (power_loss w) -> pending l = [] -> Forall (aobj_ok H inflate) objs ->
  let w' := power_loss (crash (run_events (w, l) (firstn m (p_add_to_pack w id objs nh twice true)))) in
  Inv H inflate w' /\ (forall k c, stored inflate (power_loss w) k = Some c -> stored inflate w' k = Some c).
Proof.
  intros w l id objs nh twice m A P B C.
  destruct (add_to_pack_crash_safe H inflate H_inj w l id objs nh twice true m A B C) as (_ & _ & Z). exact (Z eq_refl P).
Qed.
(* import_objects with do_fsync on every batch: power loss at any point of the transfer *)
Theorem C06_import_power_safe : forall w l bs nh twice m,
  Inv H inflate w -> Inv H inflate (power_loss w) -> pending l = [] -> Forall (fun b => Forall (aobj_ok H inflate) (snd b)) bs ->
  let w' := power_loss (crash (run_events (w, l) (firstn m (p_import w nh twice true bs)))) in
  Inv H inflate w' /\ (forall k c, stored inflate (power_loss w) k = Some c -> stored inflate w' k = Some c).
Proof. intros w l bs nh twice m HI P Hp Ho. destruct (import_crash_safe H inflate H_inj w l bs nh twice true m HI Hp Ho) as (_ & _ & C). exact (C eq_refl P). Qed.
(* ANY finite history of add / pack / direct-to-pack / import / delete / clean / repack operations that keeps the fsync defaults
   (History.fsync_on), power lost after ANY number of primitives: the invariant holds in what survives *)
Theorem C06_power_loss_anywhere_in_any_history : forall ops s,
  Inv H inflate (fst s) -> Inv H inflate (power_loss (fst s)) -> pending (snd s) = [] ->
  pre_hist H inflate s ops -> forallb fsync_on ops = true ->
  forall n, Inv H inflate (power_loss (crash (run_events s (firstn n (hist_trace H s ops))))).
Proof. exact (history_power_safe H inflate H_inj). Qed.
End C06.

(* (3) the defaults the property speaks of, from the AST of the current source: packing syncs by default *)
Theorem C06_default_fsync_settings :
  PACK_ALL_LOOSE_DO_FSYNC = true /\ ADD_TO_PACK_DO_FSYNC = true /\ IMPORT_DO_FSYNC = true /\ ADD_TO_PACK_DO_COMMIT = true.
Proof. repeat split; reflexivity. Qed.
Print Assumptions C06_monitor_sound.
Print Assumptions C06_add_loose_power_safe.
Print Assumptions C06_pack_power_safe.
Print Assumptions C06_clean_power_safe.
Print Assumptions C06_repack_power_safe.
Print Assumptions C06_add_to_pack_power_safe.
Print Assumptions C06_default_fsync_settings.
Print Assumptions C06_import_power_safe.
Print Assumptions C06_power_loss_anywhere_in_any_history.
