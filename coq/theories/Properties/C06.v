(* C06 - publish only after durable; remove only after the replacement is durable.  Statements only. *)
From Coq Require Import List ZArith NArith.
From DOS Require Import Generated Base Store StoreProofs StoreLemmas Programs ProgramsProofs.
Import ListNotations.

Section C06.
Variable H : bytes -> key.
Variable inflate : bytes -> option bytes.
Hypothesis H_inj : forall a b, H a = H b -> a = b.

(* (1) Verified monitor with the power-loss projection: accepted trace => at EVERY crash point, the image in which every regular
   file holds only what was present at its last fsync satisfies the invariant and keeps every non-target object. *)
Theorem C06_monitor_sound : forall truth targets tr s,
  monitor H inflate true truth targets s tr = true ->
  forall n, Inv H inflate (power_loss (crash (run_events s (firstn n tr)))) /\
            preserved inflate truth targets (power_loss (crash (run_events s (firstn n tr)))).
Proof. intros truth targets tr s Hm n. exact (monitor_sound H inflate true truth targets tr s Hm n). Qed.

(* (2) Program-level, ALL inputs: add_object / add_streamed_object is power-loss safe at every crash point (the sandbox file is
   flushed and fsynced before the rename: the loose file becomes visible only after its bytes are durable). *)
Theorem C06_add_loose_power_safe : forall w l n chunks m,
  Inv H inflate w -> Inv H inflate (power_loss w) ->
  Inv H inflate (power_loss (crash (run_events (w, l) (firstn m (p_add_loose H w n chunks))))).
Proof.
  intros w l n chunks m HI HP.
  destruct (add_loose_crash_safe H inflate H_inj w l n chunks m HI) as (_ & _ & C). exact (C HP).
Qed.
End C06.

(* (3) the defaults the property speaks of, from the AST of the current source: packing syncs by default *)
Theorem C06_default_fsync_settings :
  PACK_ALL_LOOSE_DO_FSYNC = true /\ ADD_TO_PACK_DO_FSYNC = true /\ IMPORT_DO_FSYNC = true /\ ADD_TO_PACK_DO_COMMIT = true.
Proof. repeat split; reflexivity. Qed.
Print Assumptions C06_monitor_sound.
Print Assumptions C06_add_loose_power_safe.
Print Assumptions C06_default_fsync_settings.
