(* Resources.v - descriptor bookkeeping of the write side: which handles are open after a trace, for every trace;
   the programs of Programs.v close what they open, at every prefix at most one handle more than before is open. *)
From Coq Require Import List ZArith NArith Arith Bool Lia.
From DOS Require Import Base Store MonoStep Programs ProgramsProofs.
Import ListNotations.

Definition hset_add (h : hid) (hs : list hid) : list hid := if existsb (hid_eqb h) hs then hs else h :: hs.
Definition hset_del (h : hid) (hs : list hid) : list hid := filter (fun x => negb (hid_eqb h x)) hs.

Definition track (hs : list hid) (e : event) : list hid :=
  match e with
  | EOpenSand n => hset_add (HSand n) hs
  | EOpenPack id => hset_add (HPack id) hs
  | EClose h => hset_del h hs
  | _ => hs
  end.
Definition track_all (hs : list hid) (tr : list event) : list hid := fold_left track tr hs.

Definition is_open (l : local) (h : hid) : Prop := get_buf l h <> None.

Lemma firstn_In_gen {A} (x : A) : forall n l, In x (firstn n l) -> In x l.
Proof.
  induction n as [|n IH]; intros l Hx; [destruct Hx|].
  destruct l; [destruct Hx|]. cbn in Hx. destruct Hx; [left; auto|right; auto].
Qed.
Lemma filter_len_le {A} (p : A -> bool) l : length (filter p l) <= length l.
Proof. induction l as [|x t IH]; cbn; [lia|]. destruct (p x); cbn; lia. Qed.

Lemma hid_eqb_true a b : hid_eqb a b = true <-> a = b.
Proof. destruct (hid_eqb_spec a b); split; congruence. Qed.

Lemma in_hset_add h hs x : In x (hset_add h hs) <-> x = h \/ In x hs.
Proof.
  unfold hset_add. destruct (existsb (hid_eqb h) hs) eqn:E.
  - split; [auto|]. intros [->|Hx]; auto. apply existsb_exists in E as (y & Hy & He). apply hid_eqb_true in He. subst; auto.
  - cbn. split; intros [Hx|Hx]; auto.
Qed.

Lemma in_hset_del h hs x : In x (hset_del h hs) <-> x <> h /\ In x hs.
Proof.
  unfold hset_del. rewrite filter_In. split.
  - intros [Hin Hb]. split; auto. intros ->. rewrite (proj2 (hid_eqb_true h h) eq_refl) in Hb. discriminate.
  - intros [Hne Hin]. split; auto. destruct (hid_eqb_spec h x); [congruence|reflexivity].
Qed.

Lemma flush_open w l h h' : is_open (snd (flush_h w l h)) h' <-> is_open l h'.
Proof.
  unfold flush_h, is_open. destruct (get_buf l h) as [b|] eqn:Eb; [|reflexivity].
  destruct (get_file w h); [|reflexivity]. cbn [snd]. unfold get_buf. cbn [bufs set_bufs].
  destruct (hid_eqb_spec h' h) as [->|Hne].
  - rewrite (g_aset_eq hid_eqb hid_eqb_spec). unfold get_buf in Eb. rewrite Eb. split; congruence.
  - rewrite (g_aset_neq hid_eqb hid_eqb_spec); auto. reflexivity.
Qed.

(* the set of open handles is determined by the opens and closes of the trace *)
Theorem track_sound s e hs :
  (forall h, is_open (snd s) h <-> In h hs) -> (forall h, is_open (snd (apply_ev s e)) h <-> In h (track hs e)).
Proof.
  destruct s as [w l]. cbn [snd]. intros Hs h'.
  destruct e; cbn [apply_ev track].
  - (* EOpenSand *) cbn [snd]. rewrite in_hset_add. unfold is_open, get_buf. cbn [bufs set_bufs].
    destruct (hid_eqb_spec h' (HSand n)) as [->|Hne].
    + rewrite (g_aset_eq hid_eqb hid_eqb_spec). split; [auto|congruence].
    + rewrite (g_aset_neq hid_eqb hid_eqb_spec); auto. rewrite <- Hs. unfold is_open, get_buf. split; [auto|intros [E|E]; [congruence|auto]].
  - (* EOpenPack *) cbn [snd]. rewrite in_hset_add. unfold is_open, get_buf. cbn [bufs set_bufs].
    destruct (hid_eqb_spec h' (HPack id)) as [->|Hne].
    + rewrite (g_aset_eq hid_eqb hid_eqb_spec). split; [auto|congruence].
    + rewrite (g_aset_neq hid_eqb hid_eqb_spec); auto. rewrite <- Hs. unfold is_open, get_buf. split; [auto|intros [E|E]; [congruence|auto]].
  - (* EWrite *) rewrite <- Hs. destruct (get_buf l h) as [old|] eqn:Eb; cbn [snd]; [|reflexivity].
    unfold is_open, get_buf. cbn [bufs set_bufs].
    destruct (hid_eqb_spec h' h) as [->|Hne].
    + rewrite (g_aset_eq hid_eqb hid_eqb_spec). unfold get_buf in Eb. rewrite Eb. split; congruence.
    + rewrite (g_aset_neq hid_eqb hid_eqb_spec); auto. reflexivity.
  - (* EFlush *) rewrite flush_open. apply Hs.
  - (* EFsync *) destruct (get_file w h); cbn [snd]; apply Hs.
  - (* EClose *) rewrite in_hset_del. pose proof (flush_open w l h) as Fo. destruct (flush_h w l h) as [w1 l1]. cbn [snd] in *.
    unfold is_open, get_buf. cbn [bufs set_bufs].
    destruct (hid_eqb_spec h' h) as [->|Hne].
    + rewrite (g_adel_eq hid_eqb hid_eqb_spec). split; [congruence|intros [E _]; congruence].
    + rewrite (g_adel_neq hid_eqb hid_eqb_spec); auto. fold (get_buf l1 h'). fold (is_open l1 h'). rewrite Fo, Hs. split; [auto|intros [_ E]; auto].
  - (* ETruncate *) pose proof (flush_open w l (HPack id)) as Fo. destruct (flush_h w l (HPack id)) as [w1 l1]. cbn [snd] in *.
    destruct (get_pack w1 id); cbn [snd]; rewrite Fo; apply Hs.
  - destruct (get_sand w n); cbn [snd]; apply Hs.
  - cbn [snd]. apply Hs.
  - cbn [snd]. apply Hs.
  - cbn [snd]. apply Hs.
  - destruct (get_pack w src); [destruct (get_pack w dst)|]; cbn [snd]; apply Hs.
  - cbn [snd]. unfold is_open, get_buf. cbn [bufs set_pending]. apply Hs.
  - cbn [snd]. unfold is_open, get_buf. cbn [bufs set_pending]. apply Hs.
  - cbn [snd]. unfold is_open, get_buf. cbn [bufs set_pending]. apply Hs.
Qed.

Theorem track_all_sound : forall tr s hs,
  (forall h, is_open (snd s) h <-> In h hs) -> (forall h, is_open (snd (run_events s tr)) h <-> In h (track_all hs tr)).
Proof.
  induction tr as [|e t IH]; intros s hs Hs; [exact Hs|].
  change (run_events s (e :: t)) with (run_events (apply_ev s e) t). cbn [track_all fold_left].
  apply IH. apply track_sound. exact Hs.
Qed.

(* ---- the programs close what they open ---- *)
Lemma track_writes h : forall chunks hs, track_all hs (map (EWrite h) chunks) = hs.
Proof. induction chunks as [|x t IH]; intros hs; cbn; [reflexivity|apply IH]. Qed.

Lemma hset_del_add_fresh h hs : ~ In h hs -> hset_del h (hset_add h hs) = hs.
Proof.
  intros Hn. unfold hset_add. destruct (existsb (hid_eqb h) hs) eqn:E.
  - exfalso. apply Hn. apply existsb_exists in E as (y & Hy & He). apply hid_eqb_true in He. subst; auto.
  - unfold hset_del. cbn. rewrite (proj2 (hid_eqb_true h h) eq_refl). cbn.
    induction hs as [|x t IH]; cbn; [reflexivity|].
    destruct (hid_eqb_spec h x) as [->|Hne]; [exfalso; apply Hn; left; reflexivity|].
    cbn. f_equal. apply IH. intros Hin; apply Hn; right; auto.
    cbn in E. apply orb_false_iff in E as [_ E]. exact E.
Qed.

Section Prog.
Variable H : bytes -> key.

(* add_object / add_streamed_object: after the call exactly the handles that were open before are open *)
Theorem add_loose_closes_its_handle w n chunks hs :
  ~ In (HSand n) hs -> track_all hs (p_add_loose H w n chunks) = hs.
Proof.
  intros Hn. unfold p_add_loose, track_all. cbn [fold_left track]. rewrite fold_left_app.
  fold (track_all (hset_add (HSand n) hs) (map (EWrite (HSand n)) chunks)). rewrite track_writes.
  rewrite fold_left_app. cbn [fold_left track]. rewrite hset_del_add_fresh by auto.
  destruct (dest_ok H w (H (concat chunks))); reflexivity.
Qed.

(* ... and at every prefix at most one more *)
Theorem add_loose_at_most_one_handle w n chunks hs m :
  length (track_all hs (firstn m (p_add_loose H w n chunks))) <= S (length hs).
Proof.
  assert (G : forall tr hs0, (forall e, In e tr -> match e with EOpenSand _ | EOpenPack _ => False | _ => True end) ->
               length (track_all hs0 tr) <= length hs0).
  { induction tr as [|e t IH]; intros hs0 Hno; cbn; [lia|].
    assert (length (track hs0 e) <= length hs0).
    { specialize (Hno e (or_introl eq_refl)). destruct e; cbn; try lia; try contradiction.
      unfold hset_del. apply filter_len_le. }
    etransitivity; [apply IH; intros e' He'; apply Hno; right; auto|exact H0]. }
  unfold p_add_loose. destruct m as [|m]; [cbn; lia|].
  cbn [firstn track_all fold_left track].
  etransitivity; [apply G|].
  - intros e He. apply firstn_In_gen in He.
    apply in_app_or in He as [He|He].
    + apply in_map_iff in He as (x & <- & _). exact I.
    + cbn in He. destruct (dest_ok H w (H (concat chunks))); cbn in He; intuition (subst; exact I).
  - unfold hset_add. destruct (existsb (hid_eqb (HSand n)) hs); cbn; lia.
Qed.
End Prog.
