(* MonoProgs.v - the writer and packer programs are monotone actors for ALL inputs: every step of add_object, pack_all_loose (one pack,
   per-pack clean included), clean_storage, direct-to-pack without no_holes and the same-hash import passes the side conditions of
   MonoStep.mono_step, hence (mono_steps) the world after ANY prefix is a monotone successor of the world before the call: rows only
   added, packs only extended, a loose file removed only once its key is indexed.  These are the hypotheses of the reader theorem
   (Mono.reader_finds), discharged for the programs themselves instead of per observed trace. *)
From Coq Require Import List ZArith NArith Arith Bool Lia.
From DOS Require Import Base Store StoreProofs StoreLemmas Mono MonoStep Programs ProgramsProofs PackProofs MaintProofs AddPackProofs ImportProofs C13Proofs C02Proofs History.
Import ListNotations.

Section MP.
Variable H : bytes -> key.
Variable inflate : bytes -> option bytes.
Hypothesis H_inj : forall a b, H a = H b -> a = b.
Notation Inv := (Inv H inflate).

Lemma all_ok_of_splits : forall tr s,
  (forall a e b, tr = a ++ e :: b -> Inv (fst (run_events s a)) /\ mono_ok_b H (run_events s a) e = true) -> all_ok H inflate s tr.
Proof.
  clear H_inj. induction tr as [|e t IH]; intros s Hall; [exact I|].
  destruct (Hall [] e t eq_refl) as (A & B). cbn [all_ok]. split; [exact A|]. split; [exact B|].
  apply IH. intros a e' b Heq. subst t. exact (Hall (e :: a) e' b eq_refl).
Qed.

Definition no_trunc (e : event) : bool := match e with ETruncate _ _ => false | _ => true end.

Lemma c13_is_mono s e : no_trunc e = true -> c13_ok_b H s e = mono_ok_b H s e.
Proof. clear H_inj. destruct e; cbn; try discriminate; reflexivity. Qed.

Lemma in_split_mid {A} (tr a b : list A) e : tr = a ++ e :: b -> In e tr.
Proof. intros ->. apply in_or_app. right. left. reflexivity. Qed.

(* pack_all_loose, one pack *)
Lemma pack_one_no_trunc w id objs fs clean : forallb no_trunc (p_pack_one w id objs fs clean) = true.
Proof.
  clear H_inj. unfold p_pack_one. cbn [forallb no_trunc andb]. rewrite !forallb_app.
  assert (Hw : forallb no_trunc (map (fun o => EWrite (HPack id) (oblob o)) objs) = true) by (induction objs; cbn; auto).
  assert (Hu : forallb no_trunc (map (fun o => EUnlinkLoose (okey o)) objs) = true) by (induction objs; cbn; auto).
  rewrite Hw. destruct fs; destruct clean; cbn; rewrite ?Hu; reflexivity.
Qed.

Theorem pack_one_all_ok w l id objs fs clean :
  Inv w -> pending l = [] ->
  Forall (obj_ok inflate w) objs -> NoDup (map okey objs) -> (forall o, In o objs -> ~ In (okey o) (map rkey (db w))) ->
  all_ok H inflate (w, l) (p_pack_one w id objs fs clean).
Proof.
  intros HI Hp Ho Hn Hf. apply all_ok_of_splits. intros a e b Heq. split.
  - pose proof (pack_one_always H inflate H_inj w l id objs fs clean HI Hp Ho Hn Hf (length a)) as (A & _).
    rewrite Heq in A. rewrite firstn_app, firstn_all, Nat.sub_diag in A. cbn [firstn] in A. rewrite app_nil_r in A. exact A.
  - rewrite <- c13_is_mono.
    + exact (pack_one_every_step_c13 H inflate w l id objs fs clean HI Hp a e b Heq).
    + pose proof (pack_one_no_trunc w id objs fs clean) as Hnt. rewrite forallb_forall in Hnt. apply Hnt. exact (in_split_mid _ a b e Heq).
Qed.

(* direct-to-pack / import without no_holes (same hash): no truncation at all *)
Lemma atp_loop_no_trunc id twice : forall objs known pos, forallb no_trunc (fst (atp_loop id false twice known pos objs)) = true.
Proof.
  clear H_inj. induction objs as [|o t IH]; intros known pos; cbn [atp_loop andb]; [reflexivity|].
  specialize (IH known (pos + length (oblob o))). destruct (atp_loop id false twice known (pos + length (oblob o)) t) as [es rs]. cbn in *. exact IH.
Qed.

Lemma import_no_trunc w twice fs : forall bs known cur, forallb no_trunc (p_batches w false twice fs known cur bs) = true.
Proof.
  clear H_inj. induction bs as [|[id objs] t IH]; intros known cur; cbn [p_batches]; [reflexivity|].
  rewrite forallb_app, IH, andb_true_r. unfold p_batch. cbn [forallb no_trunc andb]. rewrite !forallb_app, atp_loop_no_trunc.
  unfold sql_of_rows. destruct (snd (atp_loop id false twice known _ objs)); destruct fs; reflexivity.
Qed.

Theorem import_all_ok w l bs twice fs :
  Inv w -> pending l = [] -> Forall (fun b => Forall (aobj_ok H inflate) (snd b)) bs ->
  all_ok H inflate (w, l) (p_import w false twice fs bs).
Proof.
  intros HI Hp Hall. apply all_ok_of_splits. intros a e b Heq. split.
  - pose proof (import_always H inflate H_inj w l bs false twice fs HI Hp Hall (length a)) as (A & _).
    rewrite Heq in A. rewrite firstn_app, firstn_all, Nat.sub_diag in A. cbn [firstn] in A. rewrite app_nil_r in A. exact A.
  - rewrite <- c13_is_mono.
    + exact (import_every_step_c13 H inflate w l bs false twice fs HI Hp a e b Heq).
    + assert (Hnt : forallb no_trunc (p_import w false twice fs bs) = true) by (unfold p_import; rewrite forallb_app, import_no_trunc; reflexivity).
      rewrite forallb_forall in Hnt. apply Hnt. exact (in_split_mid _ a b e Heq).
Qed.

(* hence: after ANY prefix of these programs the world is a monotone successor of the world before the call *)
Theorem pack_one_mono w l id objs fs clean m :
  Inv w -> pending l = [] ->
  Forall (obj_ok inflate w) objs -> NoDup (map okey objs) -> (forall o, In o objs -> ~ In (okey o) (map rkey (db w))) ->
  Mono w (fst (run_events (w, l) (firstn m (p_pack_one w id objs fs clean)))).
Proof.
  intros HI Hp Ho Hn Hf. apply (mono_steps H inflate H_inj (firstn m (p_pack_one w id objs fs clean)) (w, l)).
  pose proof (pack_one_all_ok w l id objs fs clean HI Hp Ho Hn Hf) as A. revert A. generalize (p_pack_one w id objs fs clean) (w, l). clear.
  intros tr. revert m. induction tr as [|e t IH]; intros m s A; [rewrite firstn_nil; exact I|].
  destruct m as [|m]; [exact I|]. cbn [firstn all_ok] in *. destruct A as (A1 & A2 & A3). split; [exact A1|]. split; [exact A2|]. apply IH. exact A3.
Qed.

Theorem import_mono w l bs twice fs m :
  Inv w -> pending l = [] -> Forall (fun b => Forall (aobj_ok H inflate) (snd b)) bs ->
  Mono w (fst (run_events (w, l) (firstn m (p_import w false twice fs bs)))).
Proof.
  intros HI Hp Hall. apply (mono_steps H inflate H_inj (firstn m (p_import w false twice fs bs)) (w, l)).
  pose proof (import_all_ok w l bs twice fs HI Hp Hall) as A. revert A. generalize (p_import w false twice fs bs) (w, l). clear.
  intros tr. revert m. induction tr as [|e t IH]; intros m s A; [rewrite firstn_nil; exact I|].
  destruct m as [|m]; [exact I|]. cbn [firstn all_ok] in *. destruct A as (A1 & A2 & A3). split; [exact A1|]. split; [exact A2|]. apply IH. exact A3.
Qed.

(* ---- add_object / add_streamed_object and clean_storage ---- *)
Definition trivially_ok (e : event) : bool :=
  match e with EPublish _ _ | EUnlinkLoose _ | ECommit | ETruncate _ _ | EUnlinkPack _ | ELinkPack _ _ => false | _ => true end.

Lemma trivially_mono s e : trivially_ok e = true -> mono_ok_b H s e = true.
Proof. clear H_inj. destruct s as [w l]. destruct e; cbn; try discriminate; reflexivity. Qed.

Lemma split_app_cases {A} (x y a b : list A) e : x ++ y = a ++ e :: b ->
  (exists b', x = a ++ e :: b') \/ (exists a', a = x ++ a' /\ y = a' ++ e :: b).
Proof.
  revert a. induction x as [|h t IH]; intros a Heq.
  - right. exists a. split; [reflexivity|exact Heq].
  - destruct a as [|h' a']; cbn in Heq.
    + inversion Heq; subst. left. exists t. reflexivity.
    + inversion Heq as [[E1 E2]]. subst h'. destruct (IH a' E2) as [(b' & ->)|(a2 & -> & Hy)].
      * left. exists b'. reflexivity.
      * right. exists a2. split; [reflexivity|exact Hy].
Qed.

Theorem add_loose_all_ok w l n chunks : Inv w -> all_ok H inflate (w, l) (p_add_loose H w n chunks).
Proof.
  intros HI. apply all_ok_of_splits. intros a e b Heq. split.
  - pose proof (add_loose_crash_safe H inflate H_inj w l n chunks (length a) HI) as (A & _).
    rewrite Heq in A. rewrite firstn_app, firstn_all, Nat.sub_diag in A. cbn [firstn] in A. rewrite app_nil_r in A. exact A.
  - rewrite (p_add_loose_split H) in Heq. destruct (split_app_cases _ _ a b e Heq) as [(b' & Hs)|(a' & -> & Hl)].
    + apply trivially_mono. assert (Hin : In e (sand_part n chunks)) by (rewrite Hs; apply in_or_app; right; left; reflexivity).
      unfold sand_part in Hin. destruct Hin as [<-|Hin]; [reflexivity|]. apply in_app_or in Hin as [Hin|Hin].
      * apply in_map_iff in Hin as (c & <- & _). reflexivity.
      * cbn in Hin. destruct Hin as [<-|[<-|[<-|[]]]]; reflexivity.
    + unfold last_part in Hl. destruct (dest_ok H w (H (concat chunks))).
      * destruct a' as [|x a2]; [|destruct a2; discriminate]. cbn in Hl. inversion Hl; subst. apply trivially_mono. reflexivity.
      * destruct a' as [|x a2]; [|destruct a2; discriminate]. cbn in Hl. inversion Hl; subst. rewrite app_nil_r.
        destruct (run_sandbox_part w l n chunks) as (w1 & l1 & Hr & _ & Hsd & _). unfold sand_part. rewrite Hr.
        cbn [mono_ok_b]. rewrite Hsd. cbn [fdata]. apply N.eqb_refl.
Qed.

Lemma commits_unlinks_state : forall a s, pending (snd s) = [] -> (forall x, In x a -> x = ECommit \/ exists k, x = EUnlinkLoose k) ->
  db (fst (run_events s a)) = db (fst s) /\ pending (snd (run_events s a)) = [].
Proof.
  clear H_inj. induction a as [|x t IH]; intros s Hps Hin; [split; [reflexivity|exact Hps]|].
  cbn [run_events fold_left]. fold (run_events (apply_ev s x) t).
  assert (Hx : db (fst (apply_ev s x)) = db (fst s) /\ pending (snd (apply_ev s x)) = []).
  { destruct s as [w0 l0]. cbn [snd] in Hps. destruct (Hin x (or_introl eq_refl)) as [->|(k & ->)]; cbn [apply_ev fst snd].
    - rewrite Hps. cbn. split; reflexivity.
    - split; [reflexivity|exact Hps]. }
  destruct Hx as [Hx1 Hx2]. destruct (IH (apply_ev s x) Hx2 (fun y Hy => Hin y (or_intror Hy))) as [I1 I2].
  split; [rewrite I1; exact Hx1|exact I2].
Qed.

Theorem clean_all_ok w l vacuum order : Inv w -> pending l = [] -> all_ok H inflate (w, l) (p_clean w vacuum order).
Proof.
  intros HI Hp. apply all_ok_of_splits. intros a e b Heq. split.
  - pose proof (clean_always H inflate w l false vacuum order HI Hp (length a)) as (A & _).
    rewrite Heq in A. rewrite firstn_app, firstn_all, Nat.sub_diag in A. cbn [firstn] in A. rewrite app_nil_r in A. exact A.
  - assert (Hform : forall x, In x (p_clean w vacuum order) -> x = ECommit \/ exists k, x = EUnlinkLoose k /\ has_key (db w) k = true).
    { intros x Hx. unfold p_clean in Hx. apply in_app_or in Hx as [Hc|Hu].
      - destruct vacuum; cbn in Hc; [destruct Hc as [<-|[<-|[]]]; left; reflexivity|destruct Hc].
      - apply in_map_iff in Hu as (k & <- & Hk). apply filter_In in Hk as [_ Hk]. right. exists k. split; [reflexivity|exact Hk]. }
    assert (Hst : db (fst (run_events (w, l) a)) = db w /\ pending (snd (run_events (w, l) a)) = []).
    { apply (commits_unlinks_state a (w, l) Hp). intros x Hx.
      destruct (Hform x) as [->|(k & -> & _)]; [rewrite Heq; apply in_or_app; left; exact Hx|left; reflexivity|right; exists k; reflexivity]. }
    destruct Hst as [Hdb Hpe]. destruct (run_events (w, l) a) as [wa la]. cbn [fst snd] in *.
    destruct (Hform e (in_split_mid _ a b e Heq)) as [->|(k & -> & Hk)]; cbn [mono_ok_b].
    + rewrite Hpe. reflexivity.
    + rewrite Hdb. exact Hk.
Qed.

(* ---- a reader whose observations fall anywhere inside a monotone actor's run ---- *)
Lemma all_ok_firstn : forall tr s m, all_ok H inflate s tr -> all_ok H inflate s (firstn m tr).
Proof.
  clear H_inj. induction tr as [|e t IH]; intros s m A; [rewrite firstn_nil; exact I|].
  destruct m as [|m]; [exact I|]. cbn [firstn all_ok] in *. destruct A as (A1 & A2 & A3). split; [exact A1|]. split; [exact A2|]. apply IH. exact A3.
Qed.

Lemma all_ok_skipn : forall tr s m, all_ok H inflate s tr -> all_ok H inflate (run_events s (firstn m tr)) (skipn m tr).
Proof.
  clear H_inj. induction tr as [|e t IH]; intros s m A; [rewrite firstn_nil, skipn_nil; exact I|].
  destruct m as [|m]; [exact A|]. cbn [firstn skipn]. cbn [all_ok] in A. destruct A as (_ & _ & A3).
  change (run_events s (e :: firstn m t)) with (run_events (apply_ev s e) (firstn m t)). apply IH. exact A3.
Qed.

Lemma firstn_plus {A} : forall n m (l : list A), firstn (n + m) l = firstn n l ++ firstn m (skipn n l).
Proof.
  induction n as [|n IH]; intros m l; [reflexivity|].
  destruct l as [|e t]; [cbn; rewrite firstn_nil; reflexivity|]. cbn [Nat.add firstn skipn app]. rewrite IH. reflexivity.
Qed.

Lemma prefix_mono tr s m1 m2 : all_ok H inflate s tr -> m1 <= m2 ->
  Mono (fst (run_events s (firstn m1 tr))) (fst (run_events s (firstn m2 tr))).
Proof.
  intros A Hle.
  assert (E : firstn m2 tr = firstn m1 tr ++ firstn (m2 - m1) (skipn m1 tr)).
  { replace m2 with (m1 + (m2 - m1)) at 1 by lia. apply firstn_plus. }
  rewrite E. unfold run_events at 2. rewrite fold_left_app. fold (run_events s (firstn m1 tr)).
  apply (mono_steps H inflate H_inj). apply all_ok_firstn. apply all_ok_skipn. exact A.
Qed.

(* C04, one actor: the index snapshot is taken after p1 primitives of the actor, its bytes read after p1', the loose folder looked at
   after p2, the refreshed snapshot taken after p3 and read after p4 - ANY such points: every object stored before the actor started
   is found with exactly its bytes *)
Theorem reader_during_run s tr p1 p1' p2 p3 p4 k c :
  all_ok H inflate s tr -> always (fun w' => Inv w') s tr ->
  p1 <= p1' -> p2 <= p3 -> p3 <= p4 ->
  stored inflate (fst s) k = Some c ->
  lookup inflate (fst (run_events s (firstn p1 tr))) (fst (run_events s (firstn p1' tr))) (fst (run_events s (firstn p2 tr)))
                 (fst (run_events s (firstn p3 tr))) (fst (run_events s (firstn p4 tr))) k = Some c.
Proof.
  intros A AI H1 H2 H3 Hs.
  apply (reader_finds H inflate H_inj (fst s)); try apply AI.
  - pose proof (AI 0) as I0. cbn in I0. exact I0.
  - apply prefix_mono; auto.
  - pose proof (prefix_mono tr s 0 p2 A (Nat.le_0_l p2)) as M. cbn [firstn run_events fold_left] in M. exact M.
  - apply prefix_mono; auto.
  - apply prefix_mono; auto.
  - exact Hs.
Qed.

End MP.
