(* History.v - C02 as one theorem: ANY finite history of operations (add loose, pack one pack, add directly to a pack in any mode,
   import, delete, clean, repack one pack), each run as its program from the world the previous one left, refines the obvious key -> bytes map:
   after the whole history the container satisfies the invariant and, for EVERY key, reads back exactly what the map holds - nothing
   lost, nothing altered, no key appearing or disappearing on its own. *)
From Coq Require Import List ZArith NArith Arith Bool Lia.
From DOS Require Import Base Store StoreProofs StoreLemmas Mono MonoStep Programs ProgramsProofs PackProofs MaintProofs RepackProofs AddPackProofs ImportProofs
  C13Proofs C02Proofs.
Import ListNotations.

Section Hist.
Variable H : bytes -> key.
Variable inflate : bytes -> option bytes.
Hypothesis H_inj : forall a b, H a = H b -> a = b.
Notation Inv := (Inv H inflate).
Notation stored := (stored inflate).
Notation aobj_ok := (aobj_ok H inflate).

Inductive opn :=
| OAdd (n : nat) (chunks : list bytes)                       (* add_object / add_streamed_object: the stream arrives in these chunks *)
| OPack (id : Z) (objs : list pobj) (fs clean : bool)         (* pack_all_loose, one pack *)
| OTopack (id : Z) (objs : list pobj) (nh twice fs : bool)    (* add_objects_to_pack / add_streamed_objects_to_pack, one pack *)
| OImport (bs : list (Z * list pobj)) (nh twice fs : bool)    (* the transfer of import_objects *)
| ODelete (ks : list key)                                     (* delete_objects *)
| OClean (vacuum : bool) (order : list key)                   (* clean_storage *)
| ORepack (id : Z) (objs : list pobj).                        (* repack_pack: objs = the live objects of the pack with their new stored form *)

Definition prog (w : world) (o : opn) : list event :=
  match o with
  | OAdd n chunks => p_add_loose H w n chunks
  | OPack id objs fs clean => p_pack_one w id objs fs clean
  | OTopack id objs nh twice fs => p_add_to_pack w id objs nh twice fs
  | OImport bs nh twice fs => p_import w nh twice fs bs
  | ODelete ks => p_delete w ks
  | OClean vacuum order => p_clean w vacuum order
  | ORepack id objs => p_repack_one w id objs
  end.

(* what the caller / the environment supplies must make sense in the world the operation starts from (oracles: stored blobs decode to
   the content whose digest is the key; a pack_all_loose batch consists of distinct loose objects not yet indexed) *)
Definition pre (w : world) (o : opn) : Prop :=
  match o with
  | OPack _ objs _ _ => Forall (obj_ok inflate w) objs /\ NoDup (map okey objs) /\ (forall x, In x objs -> ~ In (okey x) (map rkey (db w)))
  | OTopack _ objs _ _ _ => Forall aobj_ok objs
  | OImport bs _ _ _ => Forall (fun b => Forall aobj_ok (snd b)) bs
  | ORepack id objs =>
      id <> REPACK /\ get_pack w REPACK = None /\
      ((rows_of_pack (db w) id <> [] /\ Forall (robj_ok inflate w id) objs /\
        (forall r, In r (db w) -> rpack r = id -> In (rkey r) (map okey objs))) \/
       (rows_of_pack (db w) id = [] /\ objs = []))
  | _ => True
  end.

(* the specification: a total map key -> option bytes *)
Definition put_all (m : key -> option bytes) (objs : list pobj) (k : key) : option bytes :=
  match find (fun o => N.eqb (okey o) k) objs with
  | Some o => decode inflate (oblob o) (ocomp o)
  | None => m k
  end.

Definition spec (m : key -> option bytes) (o : opn) : key -> option bytes :=
  match o with
  | OAdd _ chunks => fun k => if N.eqb k (H (concat chunks)) then Some (concat chunks) else m k
  | OPack _ _ _ _ | OClean _ _ | ORepack _ _ => m
  | OTopack _ objs _ _ _ => put_all m objs
  | OImport bs _ _ _ => put_all m (concat (map snd bs))
  | ODelete ks => fun k => if existsb (N.eqb k) ks then None else m k
  end.

Fixpoint run_hist (s : world * local) (ops : list opn) : world * local :=
  match ops with [] => s | o :: t => run_hist (run_events s (prog (fst s) o)) t end.
Fixpoint pre_hist (s : world * local) (ops : list opn) : Prop :=
  match ops with [] => True | o :: t => pre (fst s) o /\ pre_hist (run_events s (prog (fst s) o)) t end.
Fixpoint spec_hist (m : key -> option bytes) (ops : list opn) : key -> option bytes :=
  match ops with [] => m | o :: t => spec_hist (spec m o) t end.

(* ---- the open transaction is empty after every operation ---- *)
Definition nosql (e : event) : bool := match e with ESql _ => false | _ => true end.

Lemma nosql_step w l e : nosql e = true -> pending l = [] -> pending (snd (apply_ev (w, l) e)) = [].
Proof.
  clear H_inj. intros He Hp. destruct e; try discriminate; cbn [apply_ev]; try (cbn [snd pending set_bufs set_pending]; exact Hp).
  - destruct (get_buf l h); cbn [snd pending set_bufs]; exact Hp.
  - rewrite (proj2 (flush_db w l h)). exact Hp.
  - destruct (get_file w h); exact Hp.
  - pose proof (proj2 (flush_db w l h)) as B. destruct (flush_h w l h) as [w' l']. cbn [snd pending set_bufs] in *. rewrite B. exact Hp.
  - pose proof (proj2 (flush_db w l (HPack id))) as B. destruct (flush_h w l (HPack id)) as [w' l']. cbn [snd] in *.
    destruct (get_pack w' id); cbn [snd]; rewrite B; exact Hp.
  - destruct (get_sand w n); exact Hp.
  - destruct (get_pack w src); [destruct (get_pack w dst)|]; exact Hp.
  - reflexivity.
  - reflexivity.
Qed.

Lemma nosql_pending : forall tr s, forallb nosql tr = true -> pending (snd s) = [] -> pending (snd (run_events s tr)) = [].
Proof.
  clear H_inj. induction tr as [|e t IH]; intros s Hb Hp; [exact Hp|].
  cbn [forallb] in Hb. apply andb_prop in Hb as [He Ht]. cbn [run_events fold_left]. fold (run_events (apply_ev s e) t).
  apply IH; [exact Ht|]. destruct s as [w l]. exact (nosql_step w l e He Hp).
Qed.

Lemma commit_then_nosql s tr us : forallb nosql us = true -> pending (snd (run_events s (tr ++ [ECommit] ++ us))) = [].
Proof.
  clear H_inj. intros Hu. unfold run_events. rewrite !fold_left_app.
  apply nosql_pending; [exact Hu|]. cbn [fold_left]. destruct (fold_left apply_ev tr s) as [w l]. reflexivity.
Qed.

Lemma unlinks_nosql ks : forallb nosql (map EUnlinkLoose ks) = true.
Proof. induction ks; cbn; auto. Qed.

Lemma add_loose_nosql w n chunks : forallb nosql (p_add_loose H w n chunks) = true.
Proof.
  clear H_inj. unfold p_add_loose. cbn [forallb nosql andb]. rewrite !forallb_app. cbn.
  assert (Hw : forallb nosql (map (EWrite (HSand n)) chunks) = true) by (induction chunks; cbn; auto).
  rewrite Hw. destruct (dest_ok H w (H (concat chunks))); reflexivity.
Qed.

Lemma prog_pending s o : pending (snd s) = [] -> pending (snd (run_events s (prog (fst s) o))) = [].
Proof.
  clear H_inj. intros Hp. destruct o; cbn [prog].
  - apply nosql_pending; [apply add_loose_nosql|exact Hp].
  - rewrite p_pack_one_split. rewrite <- app_assoc. apply commit_then_nosql.
    destruct clean; [|reflexivity]. rewrite <- map_map with (f := okey) (g := EUnlinkLoose). apply unlinks_nosql.
  - rewrite <- (import_one_batch (fst s) id objs nh twice fs). unfold p_import.
    rewrite <- (app_nil_r [ECommit]). apply commit_then_nosql. reflexivity.
  - unfold p_import. rewrite <- (app_nil_r [ECommit]). apply commit_then_nosql. reflexivity.
  - unfold p_delete. replace (map EUnlinkLoose ks ++ [ESql (SDelete ks); ECommit]) with ((map EUnlinkLoose ks ++ [ESql (SDelete ks)]) ++ [ECommit] ++ [])
      by (rewrite <- app_assoc; reflexivity).
    apply commit_then_nosql. reflexivity.
  - unfold p_clean. apply nosql_pending; [|exact Hp]. rewrite forallb_app. rewrite unlinks_nosql. destruct vacuum; reflexivity.
  - unfold p_repack_one. destruct (rows_of_pack (db (fst s)) id).
    + apply nosql_pending; [|exact Hp]. destruct (get_pack (fst s) id); reflexivity.
    + match goal with |- context [run_events s (EOpenPack REPACK :: ?m ++ ?tl)] =>
        replace (EOpenPack REPACK :: m ++ tl) with
          ((EOpenPack REPACK :: m ++ [EFlush (HPack REPACK); EFsync (HPack REPACK); EClose (HPack REPACK);
              ESql (SUpdateRows (rows_from REPACK 0 objs)); ECommit; EUnlinkPack id; ELinkPack REPACK id; ESql (SRepoint REPACK id)]) ++
           [ECommit] ++ [EUnlinkPack REPACK]) by (cbn [app]; rewrite <- app_assoc; reflexivity) end.
      apply commit_then_nosql. reflexivity.
Qed.

(* ---- repack: exact ---- *)
Lemma stored_exact_from w w' :
  Inv w -> (forall k c, stored w k = Some c -> stored w' k = Some c) ->
  (forall k, In k (map rkey (db w')) -> In k (map rkey (db w))) -> loose w' = loose w ->
  forall k, stored w' k = stored w k.
Proof.
  clear H_inj. intros HI Hpres Hkeys Hl k. destruct (stored w k) as [c|] eqn:Es; [exact (Hpres k c Es)|].
  assert (Hnk : ~ In k (map rkey (db w))).
  { intros Hin. apply in_map_iff in Hin as (r & <- & Hr). destruct (manual_recovery H inflate w r HI Hr) as (c & Hs & _). congruence. }
  unfold Store.stored in *. destruct (find_row (db w') k) as [r|] eqn:F.
  - exfalso. apply find_row_some in F as [Hin <-]. apply Hnk. apply Hkeys. apply in_map. exact Hin.
  - unfold get_loose in *. rewrite Hl. destruct (find_row (db w) k) as [r0|] eqn:F0; [|exact Es].
    exfalso. apply find_row_some in F0 as [Hin <-]. apply Hnk. apply in_map. exact Hin.
Qed.

Lemma repack_exact w l id objs : Inv w -> pending l = [] -> pre w (ORepack id objs) ->
  Inv (fst (run_events (w, l) (p_repack_one w id objs))) /\
  forall k, stored (fst (run_events (w, l) (p_repack_one w id objs))) k = stored w k.
Proof.
  intros HI Hp (Hid & Hno & [(Hne & Hobjs & Hcov)|(He & ->)]).
  - pose proof (repack_always H inflate H_inj w id objs HI Hid Hno Hobjs Hcov l false Hp Hne (length (p_repack_one w id objs))) as (A & B & _).
    rewrite firstn_all in A, B.
    destruct (repack_final_state w id objs Hid Hno l Hp Hne) as (w' & l' & Er & _ & _ & Edb & _ & El).
    rewrite Er in *. cbn [fst] in *. split; [exact A|].
    apply (stored_exact_from w w' HI); [intros k c Hs; exact (stored_preserved H inflate H_inj w w' k c HI A B Hs)| |exact El].
    intros k Hk. rewrite Edb in Hk. rewrite (keys_d2 H inflate w id objs HI Hobjs Hcov) in Hk. exact Hk.
  - pose proof (repack_empty_always H inflate H_inj w l id false HI He (length (p_repack_one w id []))) as (A & B & _).
    rewrite firstn_all in A, B. split; [exact A|].
    apply (stored_exact_from w _ HI); [intros k c Hs; exact (stored_preserved H inflate H_inj w _ k c HI A B Hs)| |].
    + unfold p_repack_one. rewrite He. destruct (get_pack w id); cbn; auto.
    + unfold p_repack_one. rewrite He. destruct (get_pack w id); reflexivity.
Qed.


(* ---- delete and clean: exact ---- *)
Lemma delete_exact w l ks k : Inv w -> pending l = [] -> ~ In k ks ->
  stored (crash (run_events (w, l) (p_delete w ks))) k = stored w k.
Proof.
  clear H_inj. intros HI Hp Hn. unfold p_delete, run_events. rewrite fold_left_app. fold (run_events (w, l) (map EUnlinkLoose ks)).
  destruct (unlinks_frame ks (w, l)) as (Hdb & Hpk & Hpe). pose proof (unlinks_loose ks (w, l) k Hn) as Hlo.
  destruct (run_events (w, l) (map EUnlinkLoose ks)) as [w1 l1]. cbn [fst snd] in *.
  cbn [fold_left apply_ev pending set_pending]. rewrite Hpe, Hp. cbn [app fold_left crash fst].
  unfold Store.stored, Store.read_row, get_pack. cbn [db set_db packs apply_sql]. rewrite Hdb, Hpk, find_row_filter by exact Hn.
  destruct (find_row (db w) k); [reflexivity|]. fold (get_loose (set_db w1 (filter (fun r => negb (existsb (N.eqb (rkey r)) ks)) (db w))) k).
  unfold get_loose in *. cbn [loose set_db]. rewrite Hlo. reflexivity.
Qed.

Lemma find_none_has_key d k : find_row d k = None -> has_key d k = false.
Proof.
  clear H_inj. unfold find_row, has_key. induction d as [|r t IH]; cbn; [reflexivity|].
  destruct (N.eqb (rkey r) k); [discriminate|exact IH].
Qed.

Lemma clean_exact w l vacuum order k : pending l = [] ->
  stored (crash (run_events (w, l) (p_clean w vacuum order))) k = stored w k.
Proof.
  clear H_inj. intros Hp. unfold p_clean, run_events. rewrite fold_left_app.
  set (us := filter (fun k0 => has_key (db w) k0) order).
  assert (Hfront : exists w0 l0, fold_left apply_ev (if vacuum then [ECommit; ECommit] else []) (w, l) = (w0, l0) /\
                     db w0 = db w /\ packs w0 = packs w /\ loose w0 = loose w).
  { destruct vacuum; [|exists w, l; repeat split; reflexivity].
    destruct (commit_empty w l Hp) as (l1 & E1 & Hp1). destruct (commit_empty (set_db w (db w)) l1 Hp1) as (l2 & E2 & _).
    cbn [fold_left]. rewrite E1, E2. eexists. eexists. split; [reflexivity|]. repeat split; reflexivity. }
  destruct Hfront as (w0 & l0 & E0 & Hdb0 & Hpk0 & Hlo0). rewrite E0. fold (run_events (w0, l0) (map EUnlinkLoose us)).
  destruct (unlinks_frame us (w0, l0)) as (Hdb & Hpk & _).
  pose proof (unlinks_loose us (w0, l0) k) as Hlo.
  destruct (run_events (w0, l0) (map EUnlinkLoose us)) as [w2 l2]. cbn [fst crash] in *.
  unfold Store.stored, Store.read_row, get_pack. rewrite Hdb, Hpk, Hdb0, Hpk0.
  destruct (find_row (db w) k) as [r|] eqn:F; [reflexivity|].
  assert (Hn : ~ In k us).
  { unfold us. intros Hin. apply filter_In in Hin as [_ Hk]. rewrite (find_none_has_key _ _ F) in Hk. discriminate. }
  fold (get_loose w2 k). rewrite (Hlo Hn). unfold get_loose. rewrite Hlo0. reflexivity.
Qed.

(* ---- one operation refines one map update ---- *)
Lemma find_okey (objs : list pobj) k o : find (fun x => N.eqb (okey x) k) objs = Some o -> In o objs /\ okey o = k.
Proof. clear H_inj. intros F. apply find_some in F as [A B]. apply N.eqb_eq in B. auto. Qed.

Lemma find_okey_none (objs : list pobj) k : find (fun x => N.eqb (okey x) k) objs = None -> forall o, In o objs -> okey o <> k.
Proof. clear H_inj. intros F o Ho E. pose proof (find_none _ _ F o Ho) as B. cbn in B. apply N.eqb_neq in B. contradiction. Qed.

Theorem step_refines s o :
  Inv (fst s) -> pending (snd s) = [] -> pre (fst s) o ->
  let s' := run_events s (prog (fst s) o) in
  Inv (fst s') /\ pending (snd s') = [] /\ forall k, stored (fst s') k = spec (stored (fst s)) o k.
Proof.
  intros HI Hp Hpre. cbn zeta. split; [|split; [apply prog_pending; exact Hp|]]; destruct s as [w l]; cbn [fst snd] in *; destruct o; cbn [prog spec pre] in *.
  - destruct (add_loose_final H inflate H_inj w l n chunks HI) as (w' & l' & Er & I' & _). rewrite Er. exact I'.
  - destruct Hpre as (A & B & C).
    pose proof (pack_one_crash_safe H inflate H_inj w l id objs fs clean (length (p_pack_one w id objs fs clean)) HI Hp A B C) as (X & _).
    rewrite firstn_all in X. exact X.
  - destruct (import_transfers_all H inflate H_inj w l [(id, objs)] nh twice fs HI Hp) as (w' & l' & Er & I' & _).
    { constructor; [exact Hpre|constructor]. }
    rewrite (import_one_batch w id objs nh twice fs) in Er. rewrite Er. exact I'.
  - destruct (import_transfers_all H inflate H_inj w l bs nh twice fs HI Hp Hpre) as (w' & l' & Er & I' & _). rewrite Er. exact I'.
  - pose proof (delete_always H inflate w l ks HI Hp (length (p_delete w ks))) as (X & _). rewrite firstn_all in X. exact X.
  - pose proof (clean_always H inflate w l false vacuum order HI Hp (length (p_clean w vacuum order))) as (X & _). rewrite firstn_all in X. exact X.
  - exact (proj1 (repack_exact w l id objs HI Hp Hpre)).
  - (* OAdd *) intros k. destruct (N.eqb_spec k (H (concat chunks))) as [->|Hne].
    + exact (add_loose_roundtrip H inflate H_inj w l n chunks HI).
    + exact (add_loose_exact H inflate w l n chunks HI k Hne).
  - (* OPack *) intros k. destruct Hpre as (A & B & C). exact (pack_one_exact H inflate H_inj w l id objs fs clean HI Hp A B C k).
  - (* OTopack *) intros k. unfold put_all. destruct (find (fun x => N.eqb (okey x) k) objs) as [o|] eqn:F.
    + apply find_okey in F as [Ho Ek].
      destruct (import_transfers_all H inflate H_inj w l [(id, objs)] nh twice fs HI Hp) as (w' & l' & Er & _ & _ & Hall).
      { constructor; [exact Hpre|constructor]. }
      rewrite (import_one_batch w id objs nh twice fs) in Er. rewrite Er. cbn [fst].
      destruct (Hall (id, objs) o (or_introl eq_refl) Ho) as (c & Hd & _ & Hs). rewrite <- Ek, Hs, Hd. reflexivity.
    + exact (add_to_pack_exact H inflate H_inj w l id objs nh twice fs HI Hp Hpre k (find_okey_none objs k F)).
  - (* OImport *) intros k. unfold put_all. destruct (find (fun x => N.eqb (okey x) k) (concat (map snd bs))) as [o|] eqn:F.
    + apply find_okey in F as [Ho Ek]. apply in_concat in Ho as (lst & Hl & Ho). apply in_map_iff in Hl as (b & <- & Hb).
      destruct (import_transfers_all H inflate H_inj w l bs nh twice fs HI Hp Hpre) as (w' & l' & Er & _ & _ & Hall).
      rewrite Er. cbn [fst]. destruct (Hall b o Hb Ho) as (c & Hd & _ & Hs). rewrite <- Ek, Hs, Hd. reflexivity.
    + apply (import_exact H inflate H_inj w l bs nh twice fs HI Hp Hpre k).
      intros b o Hb Ho. apply (find_okey_none _ k F). apply in_concat. exists (snd b). split; [apply in_map; exact Hb|exact Ho].
  - (* ODelete *) intros k. destruct (existsb (N.eqb k) ks) eqn:E.
    + apply existsb_exists in E as (x & Hx & Ex). apply N.eqb_eq in Ex. subst x.
      exact (delete_removes_requested H inflate w l ks k HI Hp Hx).
    + apply (delete_exact w l ks k HI Hp). intros Hin.
      assert (existsb (N.eqb k) ks = true) by (apply existsb_exists; exists k; split; [exact Hin|apply N.eqb_refl]). congruence.
  - (* OClean *) intros k. exact (clean_exact w l vacuum order k Hp).
  - (* ORepack *) exact (proj2 (repack_exact w l id objs HI Hp Hpre)).
Qed.

Lemma spec_ext m1 m2 o : (forall k, m1 k = m2 k) -> forall k, spec m1 o k = spec m2 o k.
Proof.
  clear H_inj. intros E k. destruct o; cbn [spec]; auto.
  - destruct (N.eqb k (H (concat chunks))); auto.
  - unfold put_all. destruct (find (fun x => N.eqb (okey x) k) objs); auto.
  - unfold put_all. destruct (find (fun x => N.eqb (okey x) k) (concat (map snd bs))); auto.
  - destruct (existsb (N.eqb k) ks); auto.
Qed.

Lemma spec_hist_ext : forall ops m1 m2, (forall k, m1 k = m2 k) -> forall k, spec_hist m1 ops k = spec_hist m2 ops k.
Proof.
  clear H_inj. induction ops as [|o t IH]; intros m1 m2 E k; cbn [spec_hist]; [apply E|].
  apply IH. apply spec_ext. exact E.
Qed.

(* ---- C02: any history ---- *)
Theorem history_refines : forall ops s,
  Inv (fst s) -> pending (snd s) = [] -> pre_hist s ops ->
  Inv (fst (run_hist s ops)) /\ forall k, stored (fst (run_hist s ops)) k = spec_hist (stored (fst s)) ops k.
Proof.
  induction ops as [|o t IH]; intros s HI Hp Hpre; cbn [run_hist spec_hist]; [split; [exact HI|reflexivity]|].
  destruct Hpre as [Ho Ht].
  destruct (step_refines s o HI Hp Ho) as (I' & P' & S').
  destruct (IH _ I' P' Ht) as (I'' & S''). split; [exact I''|].
  intros k. rewrite S''. apply spec_hist_ext. exact S'.
Qed.

(* ---- every crash point of every history ---- *)
Fixpoint hist_trace (s : world * local) (ops : list opn) : list event :=
  match ops with [] => [] | o :: t => prog (fst s) o ++ hist_trace (run_events s (prog (fst s) o)) t end.

Lemma run_hist_trace : forall ops s, run_events s (hist_trace s ops) = run_hist s ops.
Proof.
  clear H_inj. induction ops as [|o t IH]; intros s; cbn [hist_trace run_hist]; [reflexivity|].
  unfold run_events. rewrite fold_left_app. fold (run_events s (prog (fst s) o)). apply IH.
Qed.

Lemma step_always_inv s o : Inv (fst s) -> pending (snd s) = [] -> pre (fst s) o -> always (fun w' => Inv w') s (prog (fst s) o).
Proof.
  intros HI Hp Hpre. destruct s as [w l]. cbn [fst snd] in *. destruct o; cbn [prog pre] in *.
  - intros m. exact (proj1 (add_loose_crash_safe H inflate H_inj w l n chunks m HI)).
  - destruct Hpre as (A & B & C). intros m. exact (proj1 (pack_one_always H inflate H_inj w l id objs fs clean HI Hp A B C m)).
  - intros m. exact (proj1 (add_to_pack_always H inflate H_inj w l id objs nh twice fs HI Hp Hpre m)).
  - intros m. exact (proj1 (import_always H inflate H_inj w l bs nh twice fs HI Hp Hpre m)).
  - intros m. exact (proj1 (delete_always H inflate w l ks HI Hp m)).
  - intros m. exact (proj1 (clean_always H inflate w l false vacuum order HI Hp m)).
  - destruct Hpre as (Hid & Hno & [(Hne & Hobjs & Hcov)|(He & ->)]).
    + intros m. exact (proj1 (repack_always H inflate H_inj w id objs HI Hid Hno Hobjs Hcov l false Hp Hne m)).
    + intros m. exact (proj1 (repack_empty_always H inflate H_inj w l id false HI He m)).
Qed.

(* C03 / C05 for whole histories: kill the process after ANY number of primitives of ANY history - in the middle of whichever
   operation - and the folder satisfies the invariant *)
Theorem history_every_crash_point : forall ops s,
  Inv (fst s) -> pending (snd s) = [] -> pre_hist s ops ->
  forall n, Inv (crash (run_events s (firstn n (hist_trace s ops)))).
Proof.
  induction ops as [|o t IH]; intros s HI Hp Hpre.
  - intros n. cbn [hist_trace]. rewrite firstn_nil. exact HI.
  - destruct Hpre as [Ho Ht]. cbn [hist_trace].
    destruct (step_refines s o HI Hp Ho) as (I' & P' & _).
    apply (always_app (fun w' => Inv w')).
    + exact (step_always_inv s o HI Hp Ho).
    + exact (IH _ I' P' Ht).
Qed.

(* ---- one call that rolls over several packs is a history of one-pack segments ---- *)
(* direct-to-pack: each segment (objs_i written to pack id_i, committed) is an OTopack; the preconditions do not depend on the world *)
Lemma topack_segments_pre nh twice fs : forall (segs : list (Z * list pobj)) s,
  Forall (fun sg => Forall aobj_ok (snd sg)) segs ->
  pre_hist s (map (fun sg => OTopack (fst sg) (snd sg) nh twice fs) segs).
Proof.
  clear H_inj. induction segs as [|sg t IH]; intros s Hall; cbn [map pre_hist]; [exact I|].
  inversion Hall as [|? ? Hs Ht]; subst. split; [exact Hs|]. apply IH. exact Ht.
Qed.

Lemma NoDup_app_l {A} (a b : list A) : NoDup (a ++ b) -> NoDup a.
Proof. induction a as [|x t IH]; intros Hn; [constructor|]. cbn in Hn. inversion Hn; subst. constructor; [intros Hi; apply H2; apply in_or_app; left; exact Hi|auto]. Qed.
Lemma NoDup_app_r {A} (a b : list A) : NoDup (a ++ b) -> NoDup b.
Proof. induction a as [|x t IH]; intros Hn; [exact Hn|]. cbn in Hn. inversion Hn; subst. auto. Qed.

(* pack_all_loose: the loose objects of the later segments are still loose, complete and unindexed when their segment starts *)
Lemma pack_segments_pre fs clean : forall (segs : list (Z * list pobj)) s,
  Inv (fst s) -> pending (snd s) = [] ->
  Forall (obj_ok inflate (fst s)) (concat (map snd segs)) -> NoDup (map okey (concat (map snd segs))) ->
  (forall x, In x (concat (map snd segs)) -> ~ In (okey x) (map rkey (db (fst s)))) ->
  pre_hist s (map (fun sg => OPack (fst sg) (snd sg) fs clean) segs).
Proof.
  induction segs as [|[id objs] t IH]; intros s HI Hp Hok Hnd Hfr; cbn [map pre_hist fst snd]; [exact I|].
  cbn [map concat snd] in Hok, Hnd, Hfr. rewrite map_app in Hnd.
  apply Forall_app in Hok as [Hok1 Hok2].
  assert (Hnd1 : NoDup (map okey objs)) by (eapply NoDup_app_l; exact Hnd).
  assert (Hnd2 : NoDup (map okey (concat (map snd t)))) by (eapply NoDup_app_r; exact Hnd).
  assert (Hfr1 : forall x, In x objs -> ~ In (okey x) (map rkey (db (fst s)))) by (intros x Hx; apply Hfr; apply in_or_app; left; exact Hx).
  assert (Hpre : pre (fst s) (OPack id objs fs clean)) by (cbn [pre]; auto).
  split; [exact Hpre|].
  destruct (step_refines s (OPack id objs fs clean) HI Hp Hpre) as (I' & P' & _). cbn [prog] in *.
  destruct s as [w l]. cbn [fst snd] in *.
  destruct (pack_one_final H inflate H_inj w l id objs fs clean HI Hp Hok1 Hnd1 Hfr1) as (w' & l' & syn & Er & Edb & _ & _ & El).
  rewrite Er in *. cbn [fst snd] in *.
  (* keys of the first segment and of the rest are disjoint *)
  assert (Hdisj : forall x, In x (concat (map snd t)) -> ~ In (okey x) (map okey objs)).
  { intros x Hx Hin. clear - Hnd Hx Hin. induction (map okey objs) as [|k ks IHk]; [destruct Hin|].
    cbn [app] in Hnd. inversion Hnd as [|? ? Hn Hnd']; subst. destruct Hin as [->|Hin]; [|exact (IHk Hnd' Hin)].
    apply Hn. apply in_or_app. right. apply in_map. exact Hx. }
  apply IH; [exact I'|exact P'| | exact Hnd2 |]; cbn [fst snd prog]; rewrite ?Er; cbn [fst].
  - rewrite Forall_forall in Hok2 |- *. intros x Hx. destruct (Hok2 x Hx) as (f & Hg & Hd & Hs).
    exists f. split; [rewrite (El (okey x) (Hdisj x Hx)); exact Hg|]. split; [exact Hd|exact Hs].
  - intros x Hx Hin. rewrite Edb, map_app in Hin. apply in_app_or in Hin as [Hin|Hin].
    + apply (Hfr x); [apply in_or_app; right; exact Hx|exact Hin].
    + rewrite rows_from_keys in Hin. exact (Hdisj x Hx Hin).
Qed.

(* C02 / C03 / C05 for a pack_all_loose call that fills any number of packs: every crash point satisfies the invariant, and afterwards
   every key reads back exactly as before *)
Theorem pack_multi fs clean (segs : list (Z * list pobj)) s :
  Inv (fst s) -> pending (snd s) = [] ->
  Forall (obj_ok inflate (fst s)) (concat (map snd segs)) -> NoDup (map okey (concat (map snd segs))) ->
  (forall x, In x (concat (map snd segs)) -> ~ In (okey x) (map rkey (db (fst s)))) ->
  let ops := map (fun sg => OPack (fst sg) (snd sg) fs clean) segs in
  (forall n, Inv (crash (run_events s (firstn n (hist_trace s ops))))) /\
  Inv (fst (run_hist s ops)) /\ forall k, stored (fst (run_hist s ops)) k = stored (fst s) k.
Proof.
  intros HI Hp Hok Hnd Hfr ops.
  pose proof (pack_segments_pre fs clean segs s HI Hp Hok Hnd Hfr) as Hpre. fold ops in Hpre.
  split; [exact (history_every_crash_point ops s HI Hp Hpre)|].
  destruct (history_refines ops s HI Hp Hpre) as (A & B). split; [exact A|].
  intros k. rewrite B. clear. unfold ops. generalize (stored (fst s)). induction segs as [|sg t IH]; intros m; cbn [map spec_hist spec]; [reflexivity|apply IH].
Qed.

(* loosen_object(k): the content read back for k is added as a loose object - an OAdd whose map update is the identity *)
Lemma loosen_is_identity (m : key -> option bytes) n chunks : m (H (concat chunks)) = Some (concat chunks) ->
  forall k, spec m (OAdd n chunks) k = m k.
Proof. clear H_inj. intros Hm k. cbn [spec]. destruct (N.eqb_spec k (H (concat chunks))) as [->|_]; [symmetry; exact Hm|reflexivity]. Qed.

Theorem loosen_changes_no_view s n chunks k0 :
  Inv (fst s) -> pending (snd s) = [] -> stored (fst s) k0 = Some (concat chunks) ->
  let s' := run_events s (p_add_loose H (fst s) n chunks) in
  Inv (fst s') /\ forall k, stored (fst s') k = stored (fst s) k.
Proof.
  intros HI Hp Hs. cbn zeta.
  destruct (step_refines s (OAdd n chunks) HI Hp I) as (I' & _ & S'). cbn [prog] in *. split; [exact I'|].
  intros k. rewrite S'. apply loosen_is_identity.
  assert (Hk : H (concat chunks) = k0) by exact (stored_sound H inflate (fst s) k0 _ HI Hs). rewrite Hk. exact Hs.
Qed.

(* ---- nothing is ever lost by a history without deletions, whenever it is interrupted ---- *)
Definition is_delete (o : opn) : bool := match o with ODelete _ => true | _ => false end.
Definition keeps (w0 : world) (w' : world) : Prop := forall k c, stored w0 k = Some c -> stored w' k = Some c.

Lemma step_always_keeps s o : Inv (fst s) -> pending (snd s) = [] -> pre (fst s) o -> is_delete o = false ->
  always (keeps (fst s)) s (prog (fst s) o).
Proof.
  intros HI Hp Hpre Hd. destruct s as [w l]. cbn [fst snd] in *. destruct o; cbn [prog pre is_delete] in *; try discriminate.
  - intros m. exact (proj1 (proj2 (add_loose_crash_safe H inflate H_inj w l n chunks m HI))).
  - destruct Hpre as (A & B & C). intros m. exact (proj1 (proj2 (pack_one_crash_safe H inflate H_inj w l id objs fs clean m HI Hp A B C))).
  - intros m. exact (proj1 (proj2 (add_to_pack_crash_safe H inflate H_inj w l id objs nh twice fs m HI Hp Hpre))).
  - intros m. exact (proj1 (proj2 (import_crash_safe H inflate H_inj w l bs nh twice fs m HI Hp Hpre))).
  - intros m. exact (proj1 (proj2 (clean_crash_safe H inflate H_inj w l false vacuum order m HI Hp))).
  - destruct Hpre as (Hid & Hno & [(Hne & Hobjs & Hcov)|(He & ->)]).
    + intros m k c Hs. pose proof (repack_always H inflate H_inj w id objs HI Hid Hno Hobjs Hcov l false Hp Hne m) as (A & B & _).
      exact (stored_preserved H inflate H_inj w _ k c HI A B Hs).
    + intros m k c Hs. pose proof (repack_empty_always H inflate H_inj w l id false HI He m) as (A & B & _).
      exact (stored_preserved H inflate H_inj w _ k c HI A B Hs).
Qed.

Theorem history_never_loses : forall ops s,
  Inv (fst s) -> pending (snd s) = [] -> pre_hist s ops -> forallb (fun o => negb (is_delete o)) ops = true ->
  forall n k c, stored (fst s) k = Some c -> stored (crash (run_events s (firstn n (hist_trace s ops)))) k = Some c.
Proof.
  induction ops as [|o t IH]; intros s HI Hp Hpre Hnd n k c Hs.
  - cbn [hist_trace]. rewrite firstn_nil. exact Hs.
  - destruct Hpre as [Ho Ht]. cbn [forallb] in Hnd. apply andb_prop in Hnd as [Hd Hnt]. apply negb_true_iff in Hd.
    cbn [hist_trace].
    destruct (step_refines s o HI Hp Ho) as (I' & P' & _).
    pose proof (step_always_keeps s o HI Hp Ho Hd) as A1.
    assert (A : always (keeps (fst s)) s (prog (fst s) o ++ hist_trace (run_events s (prog (fst s) o)) t)).
    { apply always_app; [exact A1|].
      intros m k' c' Hs'. apply (IH _ I' P' Ht Hnt m k' c').
      pose proof (A1 (length (prog (fst s) o))) as Aend. rewrite firstn_all in Aend. exact (Aend k' c' Hs'). }
    exact (A n k c Hs).
Qed.

(* delete_objects under power loss: the unlinks and the committed DELETE survive, nothing else changes *)
Lemma delete_always_pl w l ks : Inv (power_loss w) -> pending l = [] ->
  always (fun w' => Inv (power_loss w')) (w, l) (p_delete w ks).
Proof.
  clear H_inj. intros HP Hp. unfold p_delete.
  assert (Hun : forall us s, Inv (power_loss (fst s)) -> always (fun w' => Inv (power_loss w')) s (map EUnlinkLoose us)).
  { induction us as [|u t IH]; intros s Hs; cbn [map]; [apply always_nil; exact Hs|].
    apply always_cons; [exact Hs|]. destruct s as [w0 l0]. cbn [apply_ev]. apply IH. cbn [fst] in *.
    change (set_loose w0 (adel N.eqb (loose w0) u)) with (unlink_world w0 u). rewrite pl_unlink. apply (Inv_unlink H inflate). exact Hs. }
  apply always_app; [apply Hun; exact HP|].
  pose proof (Hun ks (w, l) HP (length (map EUnlinkLoose ks))) as Hend. rewrite firstn_all in Hend.
  destruct (unlinks_frame ks (w, l)) as (_ & _ & Hpe). cbn [snd] in Hpe.
  destruct (run_events (w, l) (map EUnlinkLoose ks)) as [w1 l1]. cbn [fst snd] in *.
  apply always_cons; [exact Hend|]. cbn [apply_ev].
  apply always_cons; [exact Hend|]. cbn [apply_ev pending set_pending]. rewrite Hpe, Hp. cbn [app fold_left].
  apply always_nil. cbn [fst].
  change (power_loss (set_db w1 (apply_sql (db w1) (SDelete ks)))) with (set_db (power_loss w1) (apply_sql (db (power_loss w1)) (SDelete ks))).
  apply (Inv_delete H inflate). exact Hend.
Qed.

(* ---- power loss at any point of a history that keeps the fsync defaults  ---- *)
Definition fsync_on (o : opn) : bool :=
  match o with
  | OPack _ _ fs _ | OTopack _ _ _ _ fs | OImport _ _ _ fs => fs
  | _ => true
  end.

Lemma step_always_pl s o : Inv (fst s) -> Inv (power_loss (fst s)) -> pending (snd s) = [] -> pre (fst s) o -> fsync_on o = true ->
  always (fun w' => Inv (power_loss w')) s (prog (fst s) o).
Proof.
  intros HI HP Hp Hpre Hf. destruct s as [w l]. cbn [fst snd] in *. destruct o; cbn [prog pre fsync_on] in *; try discriminate.
  - intros m. exact (proj2 (proj2 (add_loose_crash_safe H inflate H_inj w l n chunks m HI)) HP).
  - subst fs. destruct Hpre as (A & B & C). intros m.
    exact (proj1 (proj2 (proj2 (pack_one_always H inflate H_inj w l id objs true clean HI Hp A B C m)) eq_refl HP)).
  - subst fs. intros m. exact (proj1 (proj2 (proj2 (add_to_pack_always H inflate H_inj w l id objs nh twice true HI Hp Hpre m)) eq_refl HP)).
  - subst fs. intros m. exact (proj1 (proj2 (proj2 (import_always H inflate H_inj w l bs nh twice true HI Hp Hpre m)) eq_refl HP)).
  - exact (delete_always_pl w l ks HP Hp).
  - intros m. exact (proj1 (proj2 (proj2 (clean_always H inflate w l true vacuum order HI Hp m)) eq_refl HP)).
  - destruct Hpre as (Hid & Hno & [(Hne & Hobjs & Hcov)|(He & ->)]).
    + intros m. exact (proj1 (proj2 (proj2 (repack_always H inflate H_inj w id objs HI Hid Hno Hobjs Hcov l true Hp Hne m)) eq_refl HP)).
    + intros m. exact (proj1 (proj2 (proj2 (repack_empty_always H inflate H_inj w l id true HI He m)) eq_refl HP)).
Qed.

Theorem history_power_safe : forall ops s,
  Inv (fst s) -> Inv (power_loss (fst s)) -> pending (snd s) = [] -> pre_hist s ops -> forallb fsync_on ops = true ->
  forall n, Inv (power_loss (crash (run_events s (firstn n (hist_trace s ops))))).
Proof.
  induction ops as [|o t IH]; intros s HI HP Hp Hpre Hf n.
  - cbn [hist_trace]. rewrite firstn_nil. exact HP.
  - destruct Hpre as [Ho Ht]. cbn [forallb] in Hf. apply andb_prop in Hf as [Hfo Hft]. cbn [hist_trace].
    destruct (step_refines s o HI Hp Ho) as (I' & P' & _).
    pose proof (step_always_pl s o HI HP Hp Ho Hfo) as A1.
    assert (HP' : Inv (power_loss (fst (run_events s (prog (fst s) o))))).
    { pose proof (A1 (length (prog (fst s) o))) as Aend. rewrite firstn_all in Aend. exact Aend. }
    exact (always_app (fun w' => Inv (power_loss w')) s _ _ A1 (IH _ I' HP' P' Ht Hft) n).
Qed.

End Hist.
