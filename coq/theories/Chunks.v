(* Chunks.v - utils.chunk_iterator and the "id > last_pk ORDER BY id LIMIT n" paging loop
   (list_all_objects, add_streamed_objects_to_pack/no_holes) *)
From Coq Require Import List ZArith Lia Bool Sorting.Sorted.
Import ListNotations.

Section Chunks.
Context {A : Type}.

(* iter(lambda: tuple(islice(it, n)), ()) : stop at the first empty tuple *)
Fixpoint chunks_fuel (fuel n : nat) (l : list A) : list (list A) :=
  match fuel with
  | O => []
  | S f => match firstn n l with
           | [] => []
           | c => c :: chunks_fuel f n (skipn n l)
           end
  end.
Definition chunks (n : nat) (l : list A) : list (list A) := chunks_fuel (S (length l)) n l.

Lemma chunks_fuel_concat : forall fuel n l, 0 < n -> length l < fuel -> concat (chunks_fuel fuel n l) = l.
Proof.
  induction fuel as [|f IH]; intros n l Hn Hf; [lia|].
  cbn [chunks_fuel]. destruct l as [|x l].
  - rewrite firstn_nil. reflexivity.
  - destruct n as [|n]; [lia|]. cbn [firstn skipn concat].
    rewrite IH; [|lia|rewrite skipn_length; cbn in Hf; lia].
    cbn. rewrite firstn_skipn. reflexivity.
Qed.

Theorem chunks_concat : forall n l, 0 < n -> concat (chunks n l) = l.
Proof. intros; apply chunks_fuel_concat; auto. Qed.

Lemma chunks_fuel_shape : forall fuel n l, 0 < n -> length l < fuel ->
  Forall (fun c => c <> [] /\ length c <= n) (chunks_fuel fuel n l) /\
  (forall pre last, chunks_fuel fuel n l = pre ++ [last] -> Forall (fun c => length c = n) pre).
Proof.
  induction fuel as [|f IH]; intros n l Hn Hf; [lia|].
  cbn [chunks_fuel]. destruct l as [|x l].
  - rewrite firstn_nil. split; [constructor|]. intros pre last H. destruct pre; discriminate.
  - destruct n as [|n]; [lia|]. cbn [firstn skipn].
    assert (Hl : length (skipn n l) < f) by (rewrite skipn_length; cbn in Hf; lia).
    destruct (IH (S n) (skipn n l) Hn Hl) as [F1 F2].
    split.
    + constructor; [|exact F1]. split; [discriminate|]. cbn. rewrite firstn_length. lia.
    + intros pre last H. destruct pre as [|p pre]; [constructor|].
      cbn in H. inversion H as [[Hp Hr]]. constructor.
      * (* the first chunk is full because there is a further chunk *)
        cbn. rewrite firstn_length.
        destruct (Nat.le_gt_cases n (length l)) as [Hle|Hgt]; [lia|].
        exfalso. rewrite skipn_all2 in Hr by lia.
        destruct f; cbn in Hr; destruct pre; discriminate.
      * eapply F2. exact Hr.
Qed.

Theorem chunks_shape : forall n l, 0 < n ->
  Forall (fun c => c <> [] /\ length c <= n) (chunks n l) /\
  (forall pre last, chunks n l = pre ++ [last] -> Forall (fun c => length c = n) pre).
Proof. intros; apply chunks_fuel_shape; auto. Qed.

End Chunks.

(* Paging by primary key.  rows are (id, payload); the table is kept in id order (SQLite rowid order). *)
Section Paging.
Context {P : Type}.
Notation prow := (Z * P)%type.
Open Scope Z_scope.

Definition page (rows : list prow) (last : Z) (n : nat) : list prow :=
  firstn n (filter (fun r => last <? fst r) rows).

Fixpoint last_id (l : list prow) (d : Z) : Z :=
  match l with [] => d | [x] => fst x | _ :: t => last_id t d end.

(* while True: chunk = page(last); yield chunk; if not chunk: break; last = chunk[-1].id *)
Fixpoint paging (fuel : nat) (rows : list prow) (last : Z) (n : nat) : list prow :=
  match fuel with
  | O => []
  | S f => match page rows last n with
           | [] => []
           | c => c ++ paging f rows (last_id c last) n
           end
  end.

Lemma filter_sorted_gt : forall (rows : list prow) m, Sorted Z.lt (map fst rows) ->
  Forall (fun r => m < fst r) rows -> filter (fun r => m <? fst r) rows = rows.
Proof.
  induction rows as [|r rows IH]; intros m S F; [reflexivity|].
  inversion F; subst. cbn. destruct (m <? fst r) eqn:E; [|lia].
  f_equal. apply IH; auto. inversion S; auto.
Qed.

Lemma sorted_all_gt : forall (a : prow) rows, Sorted Z.lt (map fst (a :: rows)) -> Forall (fun r => fst a < fst r) rows.
Proof.
  intros a rows S. cbn in S. apply Sorted_extends in S; [|intros x y z; lia].
  rewrite Forall_forall in *. intros r Hr. apply S. apply in_map; auto.
Qed.

Lemma firstn_In : forall (n : nat) (l : list prow) x, In x (firstn n l) -> In x l.
Proof.
  induction n as [|n IH]; intros l x H; [destruct H|].
  destruct l; [destruct H|]. cbn in H. destruct H; [left; auto|right; auto].
Qed.

Lemma last_id_in : forall (c : list prow) d, c <> [] -> exists x, In x c /\ last_id c d = fst x.
Proof.
  induction c as [|a c IH]; intros d H; [congruence|].
  destruct c as [|b c].
  - exists a; cbn; auto.
  - destruct (IH d) as [x [Hx E]]; [discriminate|]. exists x. split; [right; auto|]. exact E.
Qed.

Lemma filter_after_firstn : forall (R : list prow) n d, Sorted Z.lt (map fst R) -> (0 < n)%nat -> R <> [] ->
  filter (fun r => last_id (firstn n R) d <? fst r) R = skipn n R.
Proof.
  induction R as [|a R IH]; intros n d S Hn HR; [congruence|].
  destruct n as [|n]; [lia|].
  pose proof (sorted_all_gt _ _ S) as G.
  assert (S' : Sorted Z.lt (map fst R)) by (cbn in S; inversion S; auto).
  cbn [firstn skipn].
  destruct (firstn n R) as [|b c] eqn:E.
  - (* this page ends at a *)
    cbn [last_id filter]. destruct (fst a <? fst a) eqn:X; [lia|].
    rewrite filter_sorted_gt; auto.
    destruct n; [reflexivity|]. destruct R; [reflexivity|discriminate].
  - assert (Hn' : (0 < n)%nat) by (destruct n; [discriminate|lia]).
    assert (HR' : R <> []) by (destruct R; [rewrite firstn_nil in E; discriminate|discriminate]).
    change (last_id (a :: b :: c) d) with (last_id (b :: c) d). rewrite <- E.
    cbn [filter].
    destruct (last_id_in (firstn n R) d) as [x [Hx Ex]]; [rewrite E; discriminate|].
    apply firstn_In in Hx. pose proof (proj1 (Forall_forall _ _) G x Hx) as Hlt. cbn beta in Hlt.
    rewrite Ex. destruct (fst x <? fst a) eqn:X; [lia|]. rewrite <- Ex.
    apply IH; auto.
Qed.

Lemma filter_filter_ge : forall (rows : list prow) m m', m <= m' ->
  filter (fun r => m' <? fst r) (filter (fun r => m <? fst r) rows) = filter (fun r => m' <? fst r) rows.
Proof.
  induction rows as [|r rows IH]; intros m m' H; [reflexivity|].
  cbn. destruct (m <? fst r) eqn:E1; cbn; destruct (m' <? fst r) eqn:E2; try rewrite IH; auto; lia.
Qed.

Lemma filter_sorted : forall (rows : list prow) m, Sorted Z.lt (map fst rows) ->
  Sorted Z.lt (map fst (filter (fun r => m <? fst r) rows)).
Proof.
  induction rows as [|r rows IH]; intros m S; [constructor|].
  pose proof (sorted_all_gt _ _ S) as G. cbn in S. inversion S; subst.
  cbn. destruct (m <? fst r); [|apply IH; auto].
  cbn. constructor; [apply IH; auto|].
  assert (F : Forall (fun x => fst r < fst x) (filter (fun r0 => m <? fst r0) rows)).
  { rewrite Forall_forall in *. intros x Hx. apply filter_In in Hx as [Hx _]. auto. }
  destruct (filter (fun r0 => m <? fst r0) rows); cbn; constructor. inversion F; auto.
Qed.

(* every row with id > last is enumerated exactly once, in id order, whatever the page size *)
Theorem paging_spec : forall fuel (rows : list prow) (last : Z) n, (0 < n)%nat ->
  Sorted Z.lt (map fst rows) ->
  (length (filter (fun r => (last <? fst r)%Z) rows) < fuel)%nat ->
  paging fuel rows last n = filter (fun r => last <? fst r) rows.
Proof.
  induction fuel as [|f IH]; intros rows last n Hn S Hf; [lia|].
  cbn [paging]. unfold page.
  set (R := filter (fun r => last <? fst r) rows) in *.
  destruct (firstn n R) as [|b c] eqn:E.
  - destruct R; [reflexivity|]. destruct n; [lia|discriminate].
  - assert (HR : R <> []) by (destruct R; [rewrite firstn_nil in E; discriminate|discriminate]).
    assert (SR : Sorted Z.lt (map fst R)) by (apply filter_sorted; auto).
    rewrite IH; auto.
    + rewrite <- E.
      destruct (last_id_in (firstn n R) last) as [x [Hx Ex]]; [rewrite E; discriminate|].
      apply firstn_In in Hx. apply filter_In in Hx as [_ Hx].
      rewrite <- (filter_filter_ge rows last (last_id (firstn n R) last)) by lia.
      fold R. rewrite filter_after_firstn; auto. apply firstn_skipn.
    + rewrite <- E.
      destruct (last_id_in (firstn n R) last) as [x [Hx Ex]]; [rewrite E; discriminate|].
      apply firstn_In in Hx. apply filter_In in Hx as [_ Hx].
      rewrite <- (filter_filter_ge rows last (last_id (firstn n R) last)) by lia.
      fold R. rewrite filter_after_firstn; auto. rewrite skipn_length.
      assert (length (firstn n R) <> 0)%nat by (rewrite E; discriminate).
      rewrite firstn_length in *. lia.
Qed.

(* list_all_objects starts from last_pk = -1: with positive ids the whole table is listed *)
Corollary paging_all : forall (rows : list prow) n, (0 < n)%nat -> Sorted Z.lt (map fst rows) ->
  Forall (fun r => -1 < fst r) rows ->
  paging (S (length rows)) rows (-1) n = rows.
Proof.
  intros rows n Hn S F. rewrite paging_spec; auto.
  - apply filter_sorted_gt; auto.
  - rewrite filter_sorted_gt; auto.
Qed.

End Paging.
