(* MergeProofs.v - proofs about Merge.v *)
From Coq Require Import List ZArith Lia Bool Sorting.Sorted.
From DOS Require Import Merge.
Import ListNotations.
Open Scope Z_scope.

Definition PL (s : st) := if lex s then [] else ll s :: restl s.
Definition PR (s : st) := if rex s then [] else lr s :: restr s.
Definition I (s : st) := (nowl s = true -> lex s = false) /\ (nowl s = false -> rex s = false).
Definition SortedL (l : list lelem) := Sorted Z.lt (map fst l).

Lemma sorted_tl : forall a l, Sorted Z.lt (a :: l) -> Sorted Z.lt l.
Proof. intros a l H; inversion H; auto. Qed.
Lemma sorted_hd : forall a b l, Sorted Z.lt (a :: b :: l) -> a < b.
Proof. intros a b l H; inversion H as [|? ? ? Hd]; inversion Hd; auto. Qed.
Lemma sortedL_tl : forall a l, SortedL (a :: l) -> SortedL l.
Proof. unfold SortedL; cbn; intros; eapply sorted_tl; eauto. Qed.
Lemma sortedL_hd : forall a b l, SortedL (a :: b :: l) -> fst a < fst b.
Proof. unfold SortedL; cbn; intros; eapply sorted_hd; eauto. Qed.

Lemma loop_done : forall f s, lex s && rex s = true -> loop f s = ([], Ok).
Proof. intros f s H; destruct f; cbn [loop]; rewrite H; reflexivity. Qed.

Ltac srt := cbn; first [ assumption | eapply sorted_tl; eassumption | eapply sortedL_tl; eassumption
                       | constructor | idtac ].
Ltac fin IH := rewrite IH;
  [ cbn; try reflexivity
  | split; cbn; auto; intros; discriminate
  | srt | srt
  | cbn in *; lia ].
Ltac cmp := repeat match goal with |- context [?p <=? ?q] => destruct (p <=? q) eqn:?; [lia|] end.

Lemma loop_spec : forall fuel s,
  I s -> SortedL (PL s) -> Sorted Z.lt (PR s) ->
  (length (PL s) + length (PR s) < fuel)%nat ->
  loop fuel s = (merge_spec (PL s) (PR s), Ok).
Proof.
  induction fuel as [|f IH]; intros s [I1 I2] SL SR Hf; [lia|].
  destruct s as [a b tl tr le re nl]; unfold PL, PR in *; cbn [ll lr restl restr lex rex nowl] in *.
  cbn [loop lex rex].
  destruct le, re; cbn [andb].
  - reflexivity.
  - assert (nl = false) by (destruct nl; auto; specialize (I1 eq_refl); discriminate). subst nl.
    unfold body; cbn [ll lr restl restr lex rex nowl negb orb].
    destruct tr as [|x t].
    + rewrite loop_done by reflexivity. reflexivity.
    + pose proof (sorted_hd _ _ _ SR). cmp. fin IH.
  - assert (nl = true) by (destruct nl; auto; specialize (I2 eq_refl); discriminate). subst nl.
    unfold body; cbn [ll lr restl restr lex rex nowl negb orb].
    destruct tl as [|x t].
    + rewrite loop_done by reflexivity. reflexivity.
    + pose proof (sortedL_hd _ _ _ SL). cmp. fin IH.
  - unfold body; cbn [ll lr restl restr lex rex nowl].
    cbn [merge_spec].
    destruct (fst a =? b) eqn:Eab.
    + assert (fst a = b) by lia. subst b.
      destruct nl; cbn [negb orb];
      destruct tl as [|x t]; destruct tr as [|y u]; cbn [length] in Hf;
      try (pose proof (sortedL_hd _ _ _ SL)); try (pose proof (sorted_hd _ _ _ SR)); cmp;
      first [ rewrite loop_done by reflexivity; reflexivity | fin IH ].
    + destruct (fst a <? b) eqn:Elt.
      * assert (Hgt: (fst a >? b) = false) by lia.
        destruct nl; rewrite ?Hgt; cbn [negb orb];
        destruct tl as [|x t]; cbn [length] in Hf;
        try (pose proof (sortedL_hd _ _ _ SL)); cmp; fin IH.
      * assert (Hgt: (fst a >? b) = true) by lia.
        destruct nl; rewrite ?Hgt; cbn [negb orb];
        destruct tr as [|y u]; cbn [length] in Hf;
        try (pose proof (sorted_hd _ _ _ SR)); cmp; fin IH.
Qed.

Theorem dws_spec : forall L R, SortedL L -> Sorted Z.lt R -> dws L R = (merge_spec L R, Ok).
Proof.
  intros L R SL SR. unfold dws.
  destruct L as [|a tl]; destruct R as [|b tr]; cbn [andb orb negb].
  - reflexivity.
  - rewrite loop_spec; cbn; auto. split; cbn; auto; intros; discriminate. lia.
  - rewrite loop_spec; cbn; auto. split; cbn; auto; intros; discriminate. lia.
  - rewrite loop_spec; cbn; auto.
    + split; cbn; intros; auto; destruct (fst a >? b); cbn in *; congruence.
    + lia.
Qed.

(* ---- rejection of unsorted input: a run that ends with status Ok had sorted inputs ---- *)
Lemma sortedL_cons : forall a b l, fst a < fst b -> SortedL (b :: l) -> SortedL (a :: b :: l).
Proof. unfold SortedL; cbn; intros; constructor; auto. Qed.
Lemma sorted_cons : forall a b l, a < b -> Sorted Z.lt (b :: l) -> Sorted Z.lt (a :: b :: l).
Proof. intros; constructor; auto. Qed.
Lemma sortedL_one : forall a, SortedL [a]. Proof. unfold SortedL; cbn; auto. Qed.
Lemma sortedL_nil : SortedL []. Proof. unfold SortedL; cbn; auto. Qed.
#[local] Hint Resolve sortedL_cons sorted_cons sortedL_one sortedL_nil : srt.
#[local] Hint Constructors Sorted HdRel : srt.

Ltac step_ok IH :=
  first [
  match goal with
  | H : context [loop ?f ?s'] |- _ =>
      rewrite (loop_done f s') in H by reflexivity; split; auto with srt
  end |
  match goal with
  | H : context [loop ?f ?s'] |- _ =>
      let os := fresh "os" in let e := fresh "e" in let El := fresh "El" in
      destruct (loop f s') as [os e] eqn:El; inversion H; subst; clear H;
      apply IH in El; [ cbn in El; destruct El; split; auto with srt; try (apply sortedL_cons; [lia|assumption]); try (apply sorted_cons; [lia|assumption])
                      | split; cbn; auto; intros; discriminate ]
  end ].

Lemma loop_ok_sorted : forall fuel s o,
  I s -> loop fuel s = (o, Ok) -> SortedL (PL s) /\ Sorted Z.lt (PR s).
Proof.
  induction fuel as [|f IH]; intros s o [I1 I2] H.
  - cbn [loop] in H. destruct (lex s && rex s) eqn:E; [|discriminate].
    apply andb_prop in E as [E1 E2]. unfold PL, PR. rewrite E1, E2. auto with srt.
  - destruct s as [a b tl tr le re nl]; unfold PL, PR in *; cbn [ll lr restl restr lex rex nowl] in *.
    cbn [loop lex rex] in H.
    destruct le, re; cbn [andb] in H.
    + auto with srt.
    + assert (nl = false) by (destruct nl; auto; specialize (I1 eq_refl); discriminate). subst nl.
      unfold body in H; cbn [ll lr restl restr lex rex nowl negb orb] in H.
      destruct tr as [|x t].
      * auto with srt.
      * destruct (x <=? b) eqn:?; [discriminate|]. step_ok IH.
    + assert (nl = true) by (destruct nl; auto; specialize (I2 eq_refl); discriminate). subst nl.
      unfold body in H; cbn [ll lr restl restr lex rex nowl negb orb] in H.
      destruct tl as [|x t].
      * auto with srt.
      * destruct (fst x <=? fst a) eqn:?; [discriminate|]. step_ok IH.
    + unfold body in H; cbn [ll lr restl restr lex rex nowl] in H.
      destruct (fst a =? b) eqn:Eab.
      * destruct nl; cbn [negb orb] in H;
        destruct tl as [|x t]; destruct tr as [|y u];
        repeat match type of H with context [?p <=? ?q] => destruct (p <=? q) eqn:?; [discriminate|] end;
        step_ok IH.
      * destruct (fst a <? b) eqn:Elt.
        -- assert (Hgt: (fst a >? b) = false) by lia.
           destruct nl; rewrite ?Hgt in H; cbn [negb orb] in H;
           destruct tl as [|x t];
           repeat match type of H with context [?p <=? ?q] => destruct (p <=? q) eqn:?; [discriminate|] end;
           step_ok IH.
        -- assert (Hgt: (fst a >? b) = true) by lia.
           destruct nl; rewrite ?Hgt in H; cbn [negb orb] in H;
           destruct tr as [|y u];
           repeat match type of H with context [?p <=? ?q] => destruct (p <=? q) eqn:?; [discriminate|] end;
           step_ok IH.
Qed.

Theorem dws_ok_sorted : forall L R o, dws L R = (o, Ok) -> SortedL L /\ Sorted Z.lt R.
Proof.
  intros L R o H. unfold dws in H.
  destruct L as [|a tl]; destruct R as [|b tr]; cbn [andb orb negb] in H.
  - auto with srt.
  - apply loop_ok_sorted in H; [exact H|]. split; cbn; auto; intros; discriminate.
  - apply loop_ok_sorted in H; [exact H|]. split; cbn; auto; intros; discriminate.
  - apply loop_ok_sorted in H; [exact H|].
    split; cbn; intros; auto; destruct (fst a >? b); cbn in *; congruence.
Qed.

(* ---- the fuel given by dws always suffices ---- *)
Ltac step_fuel IH :=
  match goal with
  | |- context [loop ?f ?s'] =>
      let os := fresh "os" in let e := fresh "e" in let El := fresh "El" in
      destruct (loop f s') as [os e] eqn:El; cbn [snd];
      let X := fresh in
      assert (X : snd (loop f s') <> OutOfFuel);
      [ apply IH; [ cbn; intros; split; cbn; auto; intros; discriminate | cbn in *; lia ]
      | rewrite El in X; exact X ]
  end.

Lemma loop_no_oof : forall fuel s,
  (lex s && rex s = false -> I s) ->
  (length (PL s) + length (PR s) < fuel)%nat ->
  snd (loop fuel s) <> OutOfFuel.
Proof.
  induction fuel as [|f IH]; intros s HI Hf; [lia|].
  destruct s as [a b tl tr le re nl]; unfold PL, PR in *; cbn [ll lr restl restr lex rex nowl] in *.
  cbn [loop lex rex].
  destruct le, re; cbn [andb] in *.
  - cbn; discriminate.
  - destruct (HI eq_refl) as [I1 I2]. cbn [ll lr restl restr lex rex nowl] in *.
    assert (nl = false) by (destruct nl; auto; specialize (I1 eq_refl); discriminate). subst nl.
    unfold body; cbn [ll lr restl restr lex rex nowl negb orb].
    destruct tr as [|x t].
    + step_fuel IH.
    + destruct (x <=? b) eqn:?; [cbn; discriminate|]. step_fuel IH.
  - destruct (HI eq_refl) as [I1 I2]. cbn [ll lr restl restr lex rex nowl] in *.
    assert (nl = true) by (destruct nl; auto; specialize (I2 eq_refl); discriminate). subst nl.
    unfold body; cbn [ll lr restl restr lex rex nowl negb orb].
    destruct tl as [|x t].
    + step_fuel IH.
    + destruct (fst x <=? fst a) eqn:?; [cbn; discriminate|]. step_fuel IH.
  - clear HI. unfold body; cbn [ll lr restl restr lex rex nowl].
    destruct (fst a =? b) eqn:Eab.
    + destruct nl; cbn [negb orb];
      destruct tl as [|x t]; destruct tr as [|y u]; cbn [length] in Hf;
      repeat match goal with |- context [?p <=? ?q] => destruct (p <=? q) eqn:?; [cbn; discriminate|] end;
      step_fuel IH.
    + destruct (fst a <? b) eqn:Elt.
      * assert (Hgt: (fst a >? b) = false) by lia.
        destruct nl; rewrite ?Hgt; cbn [negb orb];
        destruct tl as [|x t]; cbn [length] in Hf;
        repeat match goal with |- context [?p <=? ?q] => destruct (p <=? q) eqn:?; [cbn; discriminate|] end;
        step_fuel IH.
      * assert (Hgt: (fst a >? b) = true) by lia.
        destruct nl; rewrite ?Hgt; cbn [negb orb];
        destruct tr as [|y u]; cbn [length] in Hf;
        repeat match goal with |- context [?p <=? ?q] => destruct (p <=? q) eqn:?; [cbn; discriminate|] end;
        step_fuel IH.
Qed.

Theorem dws_terminates : forall L R, snd (dws L R) <> OutOfFuel.
Proof.
  intros L R. unfold dws.
  destruct L as [|a tl]; destruct R as [|b tr]; cbn [andb orb negb].
  - cbn; discriminate.
  - apply loop_no_oof; cbn; [intros; split; cbn; auto; intros; discriminate | lia].
  - apply loop_no_oof; cbn; [intros; split; cbn; auto; intros; discriminate | lia].
  - apply loop_no_oof; cbn; [|lia].
    intros _; split; cbn; intros; auto; destruct (fst a >? b); cbn in *; congruence.
Qed.

(* unsorted or non-unique input is rejected: the complete run ends in a ValueError *)
Theorem dws_rejects : forall L R, ~ (SortedL L /\ Sorted Z.lt R) ->
  snd (dws L R) = ErrLeft \/ snd (dws L R) = ErrRight.
Proof.
  intros L R Hn. pose proof (dws_terminates L R) as Ht.
  destruct (dws L R) as [o e] eqn:E. cbn [snd] in *.
  destruct e; auto; [|congruence].
  exfalso. apply Hn. eapply dws_ok_sorted; eauto.
Qed.
