(* ResourcesProgs.v - every write program opens at most one handle at a time and closes what it opens, for ALL inputs (object lists
   of any length, any number of batches/packs): the traces are sequences of neutral events and blocks  open h ; neutral* ; close h. *)
From Coq Require Import List ZArith NArith Arith Bool Lia.
From DOS Require Import Base Store MonoStep Programs ProgramsProofs Resources.
Import ListNotations.

Definition neutral (e : event) : bool := match e with EOpenSand _ | EOpenPack _ | EClose _ => false | _ => true end.
Definition open_ev (h : hid) : event := match h with HSand n => EOpenSand n | HPack id => EOpenPack id end.

Inductive blocks : list event -> Prop :=
| b_nil : blocks []
| b_neutral e t : neutral e = true -> blocks t -> blocks (e :: t)
| b_block h mid t : forallb neutral mid = true -> blocks t -> blocks (open_ev h :: mid ++ EClose h :: t).

Fixpoint opens (tr : list event) : list hid :=
  match tr with
  | [] => []
  | EOpenSand n :: t => HSand n :: opens t
  | EOpenPack id :: t => HPack id :: opens t
  | _ :: t => opens t
  end.

Lemma track_neutral e hs : neutral e = true -> track hs e = hs.
Proof. destruct e; cbn; try discriminate; reflexivity. Qed.

Lemma track_all_neutral : forall tr hs, forallb neutral tr = true -> track_all hs tr = hs.
Proof.
  induction tr as [|e t IH]; intros hs Hb; [reflexivity|]. cbn [forallb] in Hb. apply andb_prop in Hb as [He Ht].
  unfold track_all. cbn [fold_left]. rewrite (track_neutral e hs He). apply IH. exact Ht.
Qed.

Lemma track_open h hs : track hs (open_ev h) = hset_add h hs.
Proof. destruct h; reflexivity. Qed.

Lemma opens_app a b : opens (a ++ b) = opens a ++ opens b.
Proof. induction a as [|e t IH]; [reflexivity|]. destruct e; cbn; rewrite ?IH; reflexivity. Qed.

Lemma opens_neutral tr : forallb neutral tr = true -> opens tr = [].
Proof. induction tr as [|e t IH]; intros Hb; [reflexivity|]. cbn [forallb] in Hb. apply andb_prop in Hb as [He Ht]. destruct e; try discriminate; cbn; auto. Qed.

(* after the trace exactly the handles open before are open *)
Theorem blocks_balanced tr : blocks tr -> forall hs, (forall h, In h (opens tr) -> ~ In h hs) -> track_all hs tr = hs.
Proof.
  induction 1 as [|e t He _ IH|h mid t Hm _ IH]; intros hs Hfr; [reflexivity| |].
  - unfold track_all. cbn [fold_left]. rewrite (track_neutral e hs He). apply IH.
    intros h Hh. apply Hfr. destruct e; try discriminate; exact Hh.
  - unfold track_all. cbn [fold_left]. rewrite track_open. rewrite fold_left_app.
    fold (track_all (hset_add h hs) mid). rewrite (track_all_neutral mid _ Hm). cbn [fold_left track].
    assert (Hh : ~ In h hs) by (apply Hfr; destruct h; left; reflexivity).
    rewrite (hset_del_add_fresh h hs Hh). apply IH.
    intros h' Hh'. apply Hfr. destruct h; cbn [open_ev opens]; right; rewrite opens_app, (opens_neutral mid Hm); cbn [app opens]; exact Hh'.
Qed.

Lemma hset_add_len h hs : length (hset_add h hs) <= S (length hs).
Proof. unfold hset_add. destruct (existsb (hid_eqb h) hs); cbn; lia. Qed.

(* at every prefix at most one handle more than before is open *)
Theorem blocks_bounded tr : blocks tr -> forall hs m, (forall h, In h (opens tr) -> ~ In h hs) ->
  length (track_all hs (firstn m tr)) <= S (length hs).
Proof.
  induction 1 as [|e t He Hb IH|h mid t Hm Hb IH]; intros hs m Hfr.
  - rewrite firstn_nil. cbn. lia.
  - destruct m as [|m]; [cbn; lia|]. cbn [firstn]. unfold track_all. cbn [fold_left]. rewrite (track_neutral e hs He).
    apply IH. intros h Hh. apply Hfr. destruct e; try discriminate; exact Hh.
  - assert (Hh : ~ In h hs) by (apply Hfr; destruct h; left; reflexivity).
    assert (Hfr' : forall h', In h' (opens t) -> ~ In h' hs).
    { intros h' Hh'. apply Hfr. destruct h; cbn [open_ev opens]; right; rewrite opens_app, (opens_neutral mid Hm); cbn [app opens]; exact Hh'. }
    destruct m as [|m]; [cbn; lia|]. cbn [firstn]. unfold track_all. cbn [fold_left]. rewrite track_open.
    rewrite firstn_app.
    destruct (Nat.le_gt_cases m (length mid)) as [Hle|Hgt].
    + (* inside the block *)
      replace (m - length mid) with 0 by lia. cbn [firstn]. rewrite app_nil_r.
      fold (track_all (hset_add h hs) (firstn m mid)). rewrite track_all_neutral by (apply forallb_firstn; exact Hm).
      apply hset_add_len.
    + rewrite firstn_all2 by lia. destruct (m - length mid) as [|k] eqn:Ek; [lia|]. cbn [firstn].
      rewrite fold_left_app. fold (track_all (hset_add h hs) mid). rewrite (track_all_neutral mid _ Hm). cbn [fold_left track].
      rewrite (hset_del_add_fresh h hs Hh). exact (IH hs k Hfr').
Qed.

(* ---- the programs are block sequences ---- *)
Lemma blocks_neutral_all : forall tr, forallb neutral tr = true -> blocks tr.
Proof. induction tr as [|e t IH]; intros Hb; [apply b_nil|]. cbn [forallb] in Hb. apply andb_prop in Hb as [He Ht]. apply b_neutral; auto. Qed.

Lemma blocks_app a b : blocks a -> blocks b -> blocks (a ++ b).
Proof.
  induction 1 as [|e t He _ IH|h mid t Hm _ IH]; intros Hb.
  - exact Hb.
  - cbn [app]. apply b_neutral; auto.
  - replace ((open_ev h :: mid ++ EClose h :: t) ++ b) with (open_ev h :: mid ++ EClose h :: (t ++ b)) by (cbn [app]; rewrite <- app_assoc; reflexivity).
    apply b_block; auto.
Qed.

Lemma writes_neutral h (l : list bytes) : forallb neutral (map (EWrite h) l) = true.
Proof. induction l; cbn; auto. Qed.
Lemma owrites_neutral id (objs : list pobj) : forallb neutral (map (fun o => EWrite (HPack id) (oblob o)) objs) = true.
Proof. induction objs; cbn; auto. Qed.
Lemma unlinks_neutral (ks : list key) : forallb neutral (map EUnlinkLoose ks) = true.
Proof. induction ks; cbn; auto. Qed.

Lemma atp_loop_neutral id nh twice : forall objs known pos, forallb neutral (fst (atp_loop id nh twice known pos objs)) = true.
Proof.
  induction objs as [|o t IH]; intros known pos; cbn [atp_loop]; [reflexivity|].
  destruct (nh && existsb (N.eqb (okey o)) known).
  - specialize (IH known pos). destruct (atp_loop id nh twice known pos t) as [es rs]. destruct twice; cbn [fst forallb neutral andb] in *; auto.
  - set (known' := if nh then okey o :: known else known). specialize (IH known' (pos + length (oblob o))).
    destruct (atp_loop id nh twice known' (pos + length (oblob o)) t) as [es rs]. cbn [fst forallb neutral andb] in *. exact IH.
Qed.

Lemma p_batch_blocks id nh twice fs known pos objs : blocks (p_batch id nh twice fs known pos objs).
Proof.
  unfold p_batch.
  set (mid := fst (atp_loop id nh twice known pos objs) ++ (if nh then [ETruncate id (atp_end nh known pos objs)] else []) ++
              sql_of_rows (snd (atp_loop id nh twice known pos objs)) ++ (if fs then [EFlush (HPack id); EFsync (HPack id)] else [])).
  replace (EOpenPack id :: fst (atp_loop id nh twice known pos objs) ++ (if nh then [ETruncate id (atp_end nh known pos objs)] else []) ++
           sql_of_rows (snd (atp_loop id nh twice known pos objs)) ++ (if fs then [EFlush (HPack id); EFsync (HPack id)] else []) ++ [EClose (HPack id)])
    with (open_ev (HPack id) :: mid ++ EClose (HPack id) :: []) by (unfold mid; cbn [open_ev]; rewrite <- !app_assoc; reflexivity).
  apply b_block; [|apply b_nil]. unfold mid. rewrite !forallb_app, atp_loop_neutral.
  destruct nh; destruct fs; unfold sql_of_rows; destruct (snd (atp_loop id _ twice known pos objs)); reflexivity.
Qed.

Lemma p_batches_blocks w nh twice fs : forall bs known cur, blocks (p_batches w nh twice fs known cur bs).
Proof.
  induction bs as [|[id objs] t IH]; intros known cur; cbn [p_batches]; [apply b_nil|].
  apply blocks_app; [apply p_batch_blocks|apply IH].
Qed.

Lemma p_batches_opens w nh twice fs : forall bs known cur h, In h (opens (p_batches w nh twice fs known cur bs)) -> exists id, h = HPack id.
Proof.
  induction bs as [|[id objs] t IH]; intros known cur h Hin; cbn [p_batches] in Hin; [destruct Hin|].
  rewrite opens_app in Hin. apply in_app_or in Hin as [Hin|Hin]; [|exact (IH _ _ h Hin)].
  unfold p_batch in Hin. cbn [opens] in Hin. destruct Hin as [<-|Hin]; [exists id; reflexivity|].
  exfalso. revert Hin. rewrite !opens_app.
  rewrite (opens_neutral _ (atp_loop_neutral id nh twice objs known _)).
  destruct nh; destruct fs; unfold sql_of_rows; destruct (snd (atp_loop id _ twice known _ objs)); cbn; tauto.
Qed.

(* import_objects (transfer) and - as its one-batch case - add_objects_to_pack / add_streamed_objects_to_pack *)
Theorem import_blocks w nh twice fs bs : blocks (p_import w nh twice fs bs).
Proof. unfold p_import. apply blocks_app; [apply p_batches_blocks|]. apply b_neutral; [reflexivity|apply b_nil]. Qed.

Theorem pack_one_blocks w id objs fs clean : blocks (p_pack_one w id objs fs clean).
Proof.
  unfold p_pack_one.
  set (mid := map (fun o => EWrite (HPack id) (oblob o)) objs ++ [ESql (SInsert false (rows_from id (pack_len w id) objs))] ++
              (if fs then [EFlush (HPack id); EFsync (HPack id)] else [])).
  replace (EOpenPack id :: map (fun o => EWrite (HPack id) (oblob o)) objs ++ [ESql (SInsert false (rows_from id (pack_len w id) objs))] ++
           (if fs then [EFlush (HPack id); EFsync (HPack id)] else []) ++ [EClose (HPack id); ECommit] ++
           (if clean then map (fun o => EUnlinkLoose (okey o)) objs else []))
    with (open_ev (HPack id) :: mid ++ EClose (HPack id) :: (ECommit :: (if clean then map (fun o => EUnlinkLoose (okey o)) objs else [])))
    by (unfold mid; cbn [open_ev]; rewrite <- !app_assoc; reflexivity).
  apply b_block.
  - unfold mid. rewrite !forallb_app, owrites_neutral. destruct fs; reflexivity.
  - apply b_neutral; [reflexivity|]. apply blocks_neutral_all. destruct clean; [|reflexivity].
    rewrite <- map_map with (f := okey) (g := EUnlinkLoose). apply unlinks_neutral.
Qed.

Theorem repack_one_blocks w id objs : blocks (p_repack_one w id objs).
Proof.
  unfold p_repack_one. destruct (rows_of_pack (db w) id).
  - destruct (get_pack w id); [apply b_neutral; [reflexivity|apply b_nil]|apply b_nil].
  - set (mid := map (fun o => EWrite (HPack REPACK) (oblob o)) objs ++ [EFlush (HPack REPACK); EFsync (HPack REPACK)]).
    match goal with |- blocks (EOpenPack REPACK :: ?m ++ EFlush ?a :: EFsync ?b :: EClose ?c :: ?tl) =>
      replace (EOpenPack REPACK :: m ++ EFlush a :: EFsync b :: EClose c :: tl) with (open_ev (HPack REPACK) :: mid ++ EClose (HPack REPACK) :: tl)
        by (unfold mid; cbn [open_ev]; rewrite <- app_assoc; reflexivity) end.
    apply b_block; [unfold mid; rewrite forallb_app, owrites_neutral; reflexivity|]. apply blocks_neutral_all. reflexivity.
Qed.

Theorem delete_blocks w ks : blocks (p_delete w ks).
Proof. unfold p_delete. apply blocks_neutral_all. rewrite forallb_app, unlinks_neutral. reflexivity. Qed.

Theorem clean_blocks w vacuum order : blocks (p_clean w vacuum order).
Proof. unfold p_clean. apply blocks_neutral_all. rewrite forallb_app, unlinks_neutral. destruct vacuum; reflexivity. Qed.

(* ---- consequences for the programs: the handles they open are pack handles; with none of those open before, the call is balanced
        and never holds more than one handle ---- *)
Lemma opens_only_packs_spec tr : (forall h, In h (opens tr) -> exists id, h = HPack id) ->
  forall hs, (forall id, ~ In (HPack id) hs) -> forall h, In h (opens tr) -> ~ In h hs.
Proof. intros Hp hs Hn h Hh. destruct (Hp h Hh) as (id & ->). apply Hn. Qed.

Lemma import_opens w nh twice fs bs : forall h, In h (opens (p_import w nh twice fs bs)) -> exists id, h = HPack id.
Proof. intros h Hh. unfold p_import in Hh. rewrite opens_app in Hh. cbn [opens] in Hh. rewrite app_nil_r in Hh. exact (p_batches_opens w nh twice fs bs _ _ h Hh). Qed.

Lemma pack_one_opens w id objs fs clean : forall h, In h (opens (p_pack_one w id objs fs clean)) -> exists i, h = HPack i.
Proof.
  intros h Hh. unfold p_pack_one in Hh. cbn [opens] in Hh. destruct Hh as [<-|Hh]; [exists id; reflexivity|].
  exfalso. revert Hh. rewrite !opens_app. rewrite (opens_neutral _ (owrites_neutral id objs)).
  destruct fs; destruct clean; cbn [opens app]; try tauto;
    rewrite <- map_map with (f := okey) (g := EUnlinkLoose); rewrite (opens_neutral _ (unlinks_neutral _)); cbn; tauto.
Qed.

Lemma repack_one_opens w id objs : forall h, In h (opens (p_repack_one w id objs)) -> exists i, h = HPack i.
Proof.
  intros h Hh. unfold p_repack_one in Hh. destruct (rows_of_pack (db w) id).
  - destruct (get_pack w id); cbn in Hh; tauto.
  - cbn [opens] in Hh. destruct Hh as [<-|Hh]; [exists REPACK; reflexivity|].
    exfalso. revert Hh. rewrite opens_app. rewrite (opens_neutral _ (owrites_neutral REPACK objs)). cbn. tauto.
Qed.

Theorem one_handle_at_a_time tr : blocks tr -> (forall h, In h (opens tr) -> exists id, h = HPack id) ->
  forall hs, (forall id, ~ In (HPack id) hs) ->
  track_all hs tr = hs /\ forall m, length (track_all hs (firstn m tr)) <= S (length hs).
Proof.
  intros Hb Ho hs Hn. pose proof (opens_only_packs_spec tr Ho hs Hn) as Hfr. split.
  - exact (blocks_balanced tr Hb hs Hfr).
  - intros m. exact (blocks_bounded tr Hb hs m Hfr).
Qed.
