(* LookupFd.v - the read side of C18 for the bulk generator: which files _get_objects_stream_meta_generator opens and closes around
   the entries it yields (model), that these events carry exactly the answers of Lookup.lookup_bulk, and that at EVERY point of
   EVERY bulk read at most one pack or loose file is open, none at the end, none at all without streams.
   (The re-loosened cache stream a consumer may trigger by seeking in a compressed entry is opened by the stream object, not by the
   generator; the generator closes it before it moves on - measured by the descriptor census, not modelled here.) *)
From Coq Require Import List ZArith NArith Arith Bool Lia.
From DOS Require Import Base Merge Store Lookup.
Import ListNotations.
Close Scope Z_scope.

Inductive rev :=
| ROpenPack (p : Z) | RClosePack (p : Z)
| ROpenLoose (k : key) | RCloseLoose (k : key)
| RMiss (k : key)                 (* open()/stat() of loose/<k> raised FileNotFoundError: nothing is opened *)
| RReset                          (* _close_operation_session(): the index snapshot is refreshed *)
| RYield (f : found).

Definition pack_block (streams : bool) (rows : list row) (p : Z) : list rev :=
  (if streams then [ROpenPack p] else []) ++ map (fun r => RYield (FPacked r)) (group rows p) ++ (if streams then [RClosePack p] else []).
Definition packed_events (streams : bool) (rows : list row) : list rev := flat_map (pack_block streams rows) (first_ids [] rows).

Definition loose_block (streams : bool) (ls : list (key * nat)) (k : key) : list rev :=
  match loose_size ls k with
  | Some sz => if streams then [ROpenLoose k; RYield (FLoose k sz); RCloseLoose k] else [RYield (FLoose k sz)]
  | None => [RMiss k]
  end.

Definition lookup_events (c : lcfg) (skip streams : bool) (d1 : list row) (ls : list (key * nat)) (d2 : list row) (ks : list key) : list rev :=
  let rows1 := fst (query c d1 ks) in
  let rest := filter (fun k => negb (mem k (map rkey rows1))) ks in
  let notfound := filter (fun k => match loose_size ls k with None => true | Some _ => false end) rest in
  packed_events streams rows1 ++ flat_map (loose_block streams ls) rest ++
  match notfound with
  | [] => []
  | _ => let rows2 := fst (query c d2 notfound) in
         let really := filter (fun k => negb (mem k (map rkey rows2))) notfound in
         RReset :: packed_events streams rows2 ++ (if skip then [] else map (fun k => RYield (FMissing k)) really)
  end.

Definition yields (tr : list rev) : list found := flat_map (fun e => match e with RYield f => [f] | _ => [] end) tr.

(* descriptor bookkeeping: the number of files open after a trace (closing what is not open does not go below zero) *)
Definition fd_step (n : nat) (e : rev) : nat :=
  match e with
  | ROpenPack _ | ROpenLoose _ => S n
  | RClosePack _ | RCloseLoose _ => pred n
  | _ => n
  end.
Definition fd_after (n : nat) (tr : list rev) : nat := fold_left fd_step tr n.

(* ---------- proofs ---------- *)
Lemma yields_app a b : yields (a ++ b) = yields a ++ yields b.
Proof. unfold yields. apply flat_map_app. Qed.

Lemma yields_map_yield {A} (g : A -> found) l : yields (map (fun x => RYield (g x)) l) = map g l.
Proof. induction l as [|x t IH]; cbn; [reflexivity|]. unfold yields in IH. rewrite IH. reflexivity. Qed.

Lemma yields_pack_block streams rows p : yields (pack_block streams rows p) = map FPacked (group rows p).
Proof.
  unfold pack_block. rewrite !yields_app, yields_map_yield. destruct streams; cbn; rewrite ?app_nil_r; reflexivity.
Qed.

Lemma yields_packed streams rows : yields (packed_events streams rows) = map FPacked (grouped rows).
Proof.
  unfold packed_events, grouped. induction (first_ids [] rows) as [|p t IH]; cbn; [reflexivity|].
  rewrite yields_app, yields_pack_block, IH, map_app. reflexivity.
Qed.

Lemma yields_loose streams ls rest :
  yields (flat_map (loose_block streams ls) rest) =
  flat_map (fun k => match loose_size ls k with Some sz => [FLoose k sz] | None => [] end) rest.
Proof.
  induction rest as [|k t IH]; cbn; [reflexivity|]. rewrite yields_app, IH. f_equal.
  unfold loose_block. destruct (loose_size ls k); [destruct streams|]; reflexivity.
Qed.

(* the events carry exactly the generator's answers, in order *)
Theorem events_yield_the_answers c skip streams d1 ls d2 ks :
  yields (lookup_events c skip streams d1 ls d2 ks) = fst (lookup_bulk c skip d1 ls d2 ks).
Proof.
  unfold lookup_events, lookup_bulk.
  destruct (query c d1 ks) as [rows1 st1]. cbn [fst].
  set (rest := filter (fun k => negb (mem k (map rkey rows1))) ks).
  set (notfound := filter (fun k => match loose_size ls k with None => true | Some _ => false end) rest).
  rewrite !yields_app, yields_packed, yields_loose.
  destruct notfound as [|k0 nf].
  - cbn. rewrite app_nil_r. reflexivity.
  - destruct (query c d2 (k0 :: nf)) as [rows2 st2]. cbn [fst].
    change (yields (RReset :: ?x)) with (yields x). rewrite yields_app, yields_packed.
    destruct skip; cbn [fst]; [cbn; reflexivity|]. rewrite yields_map_yield. reflexivity.
Qed.

(* a block that starts with n files open never has more than n + 1 open and ends with n *)
Definition bounded (n : nat) (tr : list rev) : Prop :=
  fd_after n tr = n /\ forall m, fd_after n (firstn m tr) <= S n.

Lemma fd_after_app n a b : fd_after n (a ++ b) = fd_after (fd_after n a) b.
Proof. unfold fd_after. apply fold_left_app. Qed.

Lemma bounded_nil n : bounded n [].
Proof. split; [reflexivity|]. intros m. rewrite firstn_nil. cbn. lia. Qed.

Lemma bounded_app n a b : bounded n a -> bounded n b -> bounded n (a ++ b).
Proof.
  intros [Ea Ba] [Eb Bb]. split.
  - rewrite fd_after_app, Ea. exact Eb.
  - intros m. rewrite firstn_app, fd_after_app.
    destruct (Nat.le_gt_cases m (length a)) as [Hm|Hm].
    + replace (m - length a) with 0 by lia. cbn. apply Ba.
    + rewrite (firstn_all2 a) by lia. rewrite Ea. apply Bb.
Qed.

Lemma bounded_flat_map {A} n (g : A -> list rev) l : (forall x, bounded n (g x)) -> bounded n (flat_map g l).
Proof. intros Hg. induction l as [|x t IH]; cbn; [apply bounded_nil|apply bounded_app; auto]. Qed.

Lemma neutral_fd n tr : forallb (fun e => match e with RYield _ | RMiss _ | RReset => true | _ => false end) tr = true -> fd_after n tr = n.
Proof.
  revert n. induction tr as [|e t IH]; intros n Hn; [reflexivity|]. cbn in Hn. apply andb_prop in Hn as [He Ht].
  cbn. destruct e; try discriminate; cbn; apply IH; exact Ht.
Qed.

Lemma neutral_bounded n tr : forallb (fun e => match e with RYield _ | RMiss _ | RReset => true | _ => false end) tr = true -> bounded n tr.
Proof.
  intros Hn. split; [apply neutral_fd; exact Hn|]. intros m. rewrite neutral_fd; [lia|].
  rewrite forallb_forall in *. intros e He. apply Hn. revert He. clear. revert tr. induction m as [|m IH]; intros tr He; [destruct He|].
  destruct tr; [destruct He|]. destruct He as [<-|He]; [left; reflexivity|right; apply IH; exact He].
Qed.

Lemma yields_neutral {A} (g : A -> found) l :
  forallb (fun e => match e with RYield _ | RMiss _ | RReset => true | _ => false end) (map (fun x => RYield (g x)) l) = true.
Proof. induction l; cbn; auto. Qed.

Lemma wrap_bounded n o cl mid : fd_step n o = S n -> fd_step (S n) cl = n ->
  forallb (fun e => match e with RYield _ | RMiss _ | RReset => true | _ => false end) mid = true -> bounded n (o :: mid ++ [cl]).
Proof.
  intros Ho Hc Hm. split.
  - change (o :: mid ++ [cl]) with ([o] ++ mid ++ [cl]). rewrite !fd_after_app. cbn [fd_after fold_left]. rewrite Ho.
    change (fold_left fd_step mid (S n)) with (fd_after (S n) mid). rewrite (neutral_fd (S n) mid Hm). exact Hc.
  - intros m. destruct m as [|m]; [cbn; lia|]. cbn [firstn]. change (fd_after n (o :: ?x)) with (fd_after (fd_step n o) x). rewrite Ho.
    rewrite firstn_app, fd_after_app.
    assert (Hpre : fd_after (S n) (firstn m mid) = S n).
    { apply neutral_fd. rewrite forallb_forall in *. intros e He. apply Hm. revert He. clear. revert mid. induction m as [|m IH]; intros mid He; [destruct He|].
      destruct mid; [destruct He|]. destruct He as [<-|He]; [left; reflexivity|right; apply IH; exact He]. }
    rewrite Hpre. destruct (m - length mid) as [|j]; cbn; [lia|]. rewrite firstn_nil. cbn. rewrite Hc. lia.
Qed.

Lemma pack_block_bounded n streams rows p : bounded n (pack_block streams rows p).
Proof.
  unfold pack_block. destruct streams.
  - cbn [app]. apply wrap_bounded; [reflexivity|reflexivity|apply yields_neutral].
  - cbn [app]. rewrite app_nil_r. apply neutral_bounded. apply yields_neutral.
Qed.

Lemma loose_block_bounded n streams ls k : bounded n (loose_block streams ls k).
Proof.
  unfold loose_block. destruct (loose_size ls k) as [sz|]; [destruct streams|].
  - apply (wrap_bounded n (ROpenLoose k) (RCloseLoose k) [RYield (FLoose k sz)]); reflexivity.
  - apply neutral_bounded. reflexivity.
  - apply neutral_bounded. reflexivity.
Qed.

(* C18: at every point of every bulk read at most ONE file more than before is open, and the call closes what it opened *)
Theorem bulk_read_one_file_at_a_time c skip streams d1 ls d2 ks n :
  bounded n (lookup_events c skip streams d1 ls d2 ks).
Proof.
  unfold lookup_events. apply bounded_app; [apply bounded_flat_map; intros; apply pack_block_bounded|].
  apply bounded_app; [apply bounded_flat_map; intros; apply loose_block_bounded|].
  destruct (filter _ _) as [|k0 nf]; [apply bounded_nil|].
  change (RReset :: ?x) with ([RReset] ++ x). apply bounded_app; [apply neutral_bounded; reflexivity|].
  apply bounded_app; [apply bounded_flat_map; intros; apply pack_block_bounded|].
  destruct skip; [apply bounded_nil|]. apply neutral_bounded. apply yields_neutral.
Qed.

(* without streams (has_objects, get_objects_meta) no file is opened at all *)
Lemma packed_events_neutral rows :
  forallb (fun e => match e with RYield _ | RMiss _ | RReset => true | _ => false end) (packed_events false rows) = true.
Proof.
  unfold packed_events. induction (first_ids [] rows) as [|p t IH]; cbn; [reflexivity|]. rewrite forallb_app, IH.
  unfold pack_block. cbn. rewrite app_nil_r, yields_neutral. reflexivity.
Qed.

Theorem bulk_meta_opens_nothing c skip d1 ls d2 ks :
  forallb (fun e => match e with RYield _ | RMiss _ | RReset => true | _ => false end) (lookup_events c skip false d1 ls d2 ks) = true.
Proof.
  unfold lookup_events. rewrite !forallb_app. apply andb_true_iff. split; [apply packed_events_neutral|apply andb_true_iff; split].
  - induction (filter _ ks) as [|k t IH]; cbn; [reflexivity|]. rewrite forallb_app, IH. unfold loose_block.
    destruct (loose_size ls k); reflexivity.
  - destruct (filter _ (filter _ ks)) as [|k0 nf]; [reflexivity|]. cbn [forallb andb]. rewrite forallb_app. apply andb_true_iff. split.
    + apply packed_events_neutral.
    + destruct skip; [reflexivity|apply yields_neutral].
Qed.
