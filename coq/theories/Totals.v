(* Totals.v - Container.count_objects / get_total_size as functions of the on-disk state, and what the invariant says about them:
   the recorded sizes sum to the lengths of the contents (C10: "the container's size totals are the sums of these"), and the stored
   lengths of the index entries never exceed the bytes of the pack files (C09: packed_on_disk vs packfiles_on_disk), for every state
   satisfying the C03 invariant, whatever the number of packs and entries. *)
From Coq Require Import List ZArith NArith Arith Bool Lia Sorting.Sorted Sorting.Permutation.
From DOS Require Import Base Merge Store StoreProofs StoreLemmas Lookup LookupProofs.
Import ListNotations.
Close Scope Z_scope.

Record totals := mkTotals {
  t_packed : nat;            (* total_size_packed            = SUM(size)   *)
  t_packed_disk : nat;       (* total_size_packed_on_disk    = SUM(length) *)
  t_packfiles : nat;         (* total_size_packfiles_on_disk = sum of the pack file sizes *)
  t_loose : nat;             (* total_size_loose             = sum of the loose file sizes *)
  n_packed : nat; n_loose : nat; n_packfiles : nat }.   (* count_objects *)

Definition totals_of (w : world) : totals :=
  {| t_packed := list_sum (map rsize (db w));
     t_packed_disk := list_sum (map rlen (db w));
     t_packfiles := list_sum (map (fun p => length (fdata (snd p))) (packs w));
     t_loose := list_sum (map (fun kf => length (fdata (snd kf))) (loose w));
     n_packed := length (db w); n_loose := length (loose w); n_packfiles := length (packs w) |}.

(* ---------- sums ---------- *)
Lemma list_sum_perm l l' : Permutation l l' -> list_sum l = list_sum l'.
Proof. induction 1; unfold list_sum in *; cbn; lia. Qed.

Lemma list_sum_cons a l : list_sum (a :: l) = a + list_sum l.
Proof. reflexivity. Qed.

Lemma list_sum_flat_map {A B} (g : B -> nat) (h : A -> list B) l :
  list_sum (map g (flat_map h l)) = list_sum (map (fun x => list_sum (map g (h x))) l).
Proof. induction l as [|x t IH]; cbn; [reflexivity|]. rewrite map_app, list_sum_app, IH. reflexivity. Qed.

Lemma list_sum_le {A} (F G : A -> nat) l : (forall x, In x l -> F x <= G x) -> list_sum (map F l) <= list_sum (map G l).
Proof.
  induction l as [|x t IH]; intros Hle; [cbn; lia|].
  pose proof (Hle x (or_introl eq_refl)). assert (list_sum (map F t) <= list_sum (map G t)) by (apply IH; intros; apply Hle; right; assumption).
  cbn [map]. rewrite !list_sum_cons. lia.
Qed.

Lemma list_sum_filter_pos (l : list row) : list_sum (map rlen l) = list_sum (map rlen (filter (fun r => 0 <? rlen r) l)).
Proof.
  induction l as [|r t IH]; [reflexivity|]. cbn [map filter]. destruct (Nat.ltb_spec 0 (rlen r)); cbn [map]; rewrite ?list_sum_cons; lia.
Qed.

(* ---------- entries of one pack fit in the pack file ---------- *)
Definition all_disjoint (l : list row) : Prop := forall a b, In a l -> In b l -> rkey a <> rkey b -> disjoint a b.

Lemma disjoint_sym a b : disjoint a b -> disjoint b a.
Proof. unfold disjoint. intros [Hp|[Ho|Ho]]; [left; congruence|right; right; exact Ho|right; left; exact Ho]. Qed.

Lemma pairwise_all_disjoint l : pairwise disjoint l -> all_disjoint l.
Proof.
  induction l as [|x t IH]; intros Hp a b Ha Hb Hne; [destruct Ha|].
  destruct Hp as [Hx Ht]. rewrite Forall_forall in Hx.
  destruct Ha as [<-|Ha]; destruct Hb as [<-|Hb].
  - congruence.
  - apply Hx. exact Hb.
  - apply disjoint_sym. apply Hx. exact Ha.
  - apply IH; assumption.
Qed.

Lemma sorted_fit (L : nat) (id : Z) : forall l,
  Sorted (fun a b => (Z.of_nat (roff a) <= Z.of_nat (roff b))%Z) l ->
  NoDup (map rkey l) -> all_disjoint l ->
  (forall r, In r l -> rpack r = id /\ 0 < rlen r /\ roff r + rlen r <= L) ->
  list_sum (map rlen l) + match l with [] => 0 | a :: _ => roff a end <= L.
Proof.
  induction l as [|a t IH]; intros Hs Hnd Hd Hin; [cbn; lia|]. cbn [map]. rewrite list_sum_cons.
  inversion Hs as [|? ? Hst Hhd]; subst. cbn in Hnd. inversion Hnd as [|? ? Hni Hnd']; subst.
  assert (IHt : list_sum (map rlen t) + match t with [] => 0 | b :: _ => roff b end <= L).
  { apply IH; auto.
    - intros x y Hx Hy. apply Hd; right; assumption.
    - intros r Hr. apply Hin. right. exact Hr. }
  destruct (Hin a (or_introl eq_refl)) as (Hpa & Hla & Hia).
  destruct t as [|b t']; [cbn in *; lia|]. cbn [map] in *. rewrite list_sum_cons in *.
  destruct (Hin b (or_intror (or_introl eq_refl))) as (Hpb & Hlb & Hib).
  assert (Hab : disjoint a b).
  { apply Hd; [left; reflexivity|right; left; reflexivity|]. intros E. apply Hni. left. symmetry. exact E. }
  inversion Hhd as [|? ? Hle]; subst.
  destruct Hab as [Hp|[Ho|Ho]]; [congruence|lia|lia].
Qed.

Section Fit.
Variable H : bytes -> key.
Variable inflate : bytes -> option bytes.
Notation Inv := (Inv H inflate).

Lemma of_pack_fit w id f : Inv w -> get_pack w id = Some f -> list_sum (map rlen (of_pack id (db w))) <= length (fdata f).
Proof.
  intros (Hnd & Hok & Hpw & _) Hp.
  rewrite list_sum_filter_pos.
  set (P := filter (fun r => 0 <? rlen r) (of_pack id (db w))).
  set (S := isort (fun r => Z.of_nat (roff r)) P).
  assert (HS : Permutation S P) by apply isort_perm.
  rewrite <- (list_sum_perm _ _ (Permutation_map rlen HS)).
  assert (HinP : forall r, In r P -> In r (db w) /\ rpack r = id /\ 0 < rlen r).
  { intros r Hr. unfold P, of_pack in Hr. apply filter_In in Hr as [Hr Hl]. apply filter_In in Hr as [Hr Hq].
    apply Z.eqb_eq in Hq. apply Nat.ltb_lt in Hl. auto. }
  assert (Hfit := sorted_fit (length (fdata f)) id S).
  assert (Hgoal : list_sum (map rlen S) + match S with [] => 0 | a :: _ => roff a end <= length (fdata f)).
  { apply Hfit.
    - apply isort_sorted_le.
    - eapply Permutation_NoDup; [apply Permutation_map, Permutation_sym, HS|].
      unfold P, of_pack. apply NoDup_map_filter. apply NoDup_map_filter. exact Hnd.
    - intros a b Ha Hb Hne. apply (pairwise_all_disjoint _ Hpw); [| |exact Hne].
      + apply HinP. eapply Permutation_in; [exact HS|exact Ha].
      + apply HinP. eapply Permutation_in; [exact HS|exact Hb].
    - intros r Hr. apply (Permutation_in _ HS) in Hr. destruct (HinP r Hr) as (Hdb & Hq & Hl).
      split; [exact Hq|split; [exact Hl|]].
      rewrite Forall_forall in Hok. destruct (Hok r Hdb) as (f' & c & Hp' & Hle & _).
      rewrite Hq, Hp in Hp'. inversion Hp'; subst f'. exact Hle. }
  lia.
Qed.

Lemma get_pack_of_in w id f : NoDup (map fst (packs w)) -> In (id, f) (packs w) -> get_pack w id = Some f.
Proof.
  unfold get_pack. induction (packs w) as [|[a v] t IH]; cbn; intros Hnd Hin; [destruct Hin|].
  inversion Hnd as [|? ? Hni Hnd']; subst. destruct Hin as [E|Hin].
  - inversion E; subst. rewrite Z.eqb_refl. reflexivity.
  - destruct (Z.eqb_spec id a) as [->|_]; [exfalso; apply Hni; apply in_map_iff; exists (a, f); auto|apply IH; assumption].
Qed.

(* C09 / C10: the index never accounts for more stored bytes than the pack files hold *)
Theorem packed_on_disk_le_packfiles w : Inv w -> NoDup (map fst (packs w)) ->
  t_packed_disk (totals_of w) <= t_packfiles (totals_of w).
Proof.
  intros HI Hnd. pose proof HI as (_ & Hok & _). unfold totals_of. cbn [t_packed_disk t_packfiles].
  assert (Hperm : Permutation (flat_map (fun p => of_pack p (db w)) (map fst (packs w))) (db w)).
  { apply partition_perm; [exact Hnd|]. intros r Hr. rewrite Forall_forall in Hok.
    destruct (Hok r Hr) as (f & _ & Hp & _). unfold get_pack in Hp. clear -Hp.
    induction (packs w) as [|[a v] t IH]; cbn in *; [discriminate|].
    destruct (Z.eqb_spec (rpack r) a); [left; auto|right; auto]. }
  rewrite <- (list_sum_perm _ _ (Permutation_map rlen Hperm)).
  rewrite list_sum_flat_map, map_map.
  apply list_sum_le. intros [id f] Hin. cbn [fst snd]. apply of_pack_fit; [exact HI|]. apply get_pack_of_in; assumption.
Qed.

(* C10: SUM(size) is the sum of the lengths of the contents the entries decode to *)
Theorem packed_size_is_content_length w : Inv w ->
  t_packed (totals_of w) = list_sum (map (fun r => match read_row inflate w r with Some c => length c | None => 0 end) (db w)).
Proof.
  intros (_ & Hok & _). unfold totals_of. cbn [t_packed]. f_equal. apply map_ext_in. intros r Hr.
  rewrite Forall_forall in Hok. destruct (row_ok_read H inflate w r (Hok r Hr)) as (c & Hrd & _ & Hs). rewrite Hrd. symmetry. exact Hs.
Qed.

(* an entry stored uncompressed occupies exactly its size *)
Theorem plain_packed_on_disk w : Inv w -> Forall (fun r => rcomp r = false) (db w) ->
  t_packed_disk (totals_of w) = t_packed (totals_of w).
Proof.
  intros (_ & Hok & _) Hpl. unfold totals_of. cbn [t_packed t_packed_disk]. f_equal. apply map_ext_in. intros r Hr.
  rewrite Forall_forall in Hok, Hpl. destruct (Hok r Hr) as (f & c & _ & _ & _ & _ & _ & Hc). apply Hc. apply Hpl. exact Hr.
Qed.
End Fit.
