(* LookupWorld.v - the bulk lookup generator over WORLDS: composing LookupProofs (the generator = the per-key lookup) with the
   monotone-history argument of Mono.v.  Whatever snapshot w1 the handle is pinned to, whatever thresholds and request, every
   object stored in w0 (acknowledged before the call looked at the loose folder) is reported by a bulk call exactly once, as
   packed or loose - never MISSING - and with the size of its content. *)
From Coq Require Import List ZArith NArith Arith Bool Lia Sorting.Permutation.
From DOS Require Import Base Merge Store StoreProofs StoreLemmas Mono Lookup LookupProofs.
Import ListNotations.

Section LW.
Variable H : bytes -> key.
Variable inflate : bytes -> option bytes.
Hypothesis H_inj : forall a b, H a = H b -> a = b.
Notation Inv := (Inv H inflate).
Notation stored := (stored inflate).

(* what the generator can observe of the loose folder: names and sizes *)
Definition ls_of (w : world) : list (key * nat) := map (fun kf => (fst kf, length (fdata (snd kf)))) (loose w).

Lemma loose_size_ls_of w k : loose_size (ls_of w) k = option_map (fun f => length (fdata f)) (get_loose w k).
Proof.
  unfold loose_size, ls_of, get_loose. induction (loose w) as [|[a f] t IH]; cbn; [reflexivity|].
  destruct (N.eqb k a); [reflexivity|exact IH].
Qed.

Definition fsize (f : found) : option nat :=
  match f with FPacked r => Some (rsize r) | FLoose _ sz => Some sz | FMissing _ => None end.

Lemma inv_nodup w : Inv w -> NoDup (map rkey (db w)).
Proof. intros (Hn & _). exact Hn. Qed.

Lemma inv_row_size w r c : Inv w -> In r (db w) -> H c = rkey r -> rsize r = length c.
Proof.
  intros (_ & Hok & _) Hin Hk. rewrite Forall_forall in Hok.
  destruct (row_ok_read H inflate w r (Hok r Hin)) as (c' & _ & Hh & Hs).
  assert (c' = c) by (apply H_inj; congruence). subst. symmetry. exact Hs.
Qed.

(* the per-key answer never says MISSING for a stored object, and reports the length of its content *)
Theorem lookup1_finds w0 w1 w2 w3 k c :
  Inv w0 -> Inv w1 -> Inv w2 -> Inv w3 -> Mono w0 w2 -> Mono w2 w3 ->
  stored w0 k = Some c ->
  fsize (lookup1 (db w1) (ls_of w2) (db w3) k) = Some (length c).
Proof.
  intros I0 I1 I2 I3 M02 M23 Hs.
  assert (Hk : H c = k) by exact (stored_sound H inflate w0 k c I0 Hs).
  unfold lookup1. destruct (find_row (db w1) k) as [r|] eqn:F1.
  - apply find_row_some in F1 as [Hin Hrk]. cbn. f_equal. apply (inv_row_size w1); auto. congruence.
  - rewrite loose_size_ls_of. destruct (get_loose w2 k) as [f2|] eqn:Hl2; cbn.
    + destruct I2 as (_ & _ & _ & Hl). rewrite Forall_forall in Hl.
      pose proof (Hl _ (get_loose_in _ _ _ Hl2)) as E. cbn in E.
      assert (fdata f2 = c) by (apply H_inj; congruence). subst. reflexivity.
    + assert (Hin2 : In k (map rkey (db w2))).
      { unfold Store.stored in Hs. destruct M02 as (R02 & _ & L02).
        destruct (find_row (db w0) k) as [r|] eqn:F0.
        - apply find_row_some in F0 as [Hin Hrk]. rewrite <- Hrk. apply in_map. auto.
        - destruct (get_loose w0 k) as [f|] eqn:Hl0; [|discriminate].
          destruct (L02 _ _ Hl0) as [(f' & Hl' & _)|Hin]; [congruence|exact Hin]. }
      destruct M23 as (R23 & _ & _).
      apply in_map_iff in Hin2 as (r & Hrk & Hr2).
      assert (Hin3 : In r (db w3)) by auto.
      rewrite <- Hrk. rewrite (find_row_in _ _ (inv_nodup w3 I3) Hin3). cbn. f_equal.
      apply (inv_row_size w3); auto. congruence.
Qed.

(* C08 + C16 for the bulk read path: any thresholds, any request enumeration, any pinned snapshot *)
Theorem bulk_reports_every_stored_object cfg skip w0 w1 w2 w3 ks k c :
  (0 < in_max cfg)%nat -> NoDup ks ->
  Inv w0 -> Inv w1 -> Inv w2 -> Inv w3 -> Mono w0 w2 -> Mono w2 w3 ->
  stored w0 k = Some c -> In k ks ->
  let out := fst (lookup_bulk cfg skip (db w1) (ls_of w2) (db w3) ks) in
  (exists f, In f out /\ fkey f = k /\ fsize f = Some (length c)) /\
  (forall f f', In f out -> In f' out -> fkey f = fkey f' -> f = f').
Proof.
  intros Hn Nk I0 I1 I2 I3 M02 M23 Hs Hk out.
  pose proof (inv_nodup w1 I1) as N1. pose proof (inv_nodup w3 I3) as N3.
  pose proof (lookup1_finds w0 w1 w2 w3 k c I0 I1 I2 I3 M02 M23 Hs) as Hf.
  split.
  - exists (lookup1 (db w1) (ls_of w2) (db w3) k). split; [|split].
    + apply bulk_in; try assumption. exists k. split; [exact Hk|]. split; [reflexivity|].
      unfold wanted. destruct (lookup1 (db w1) (ls_of w2) (db w3) k); cbn in *; try rewrite andb_false_r; try reflexivity. discriminate.
    + apply fkey_lookup1.
    + exact Hf.
  - intros f f' Hi Hi' He. apply (bulk_in cfg skip (db w1) (ls_of w2) (db w3) ks Hn N1 N3 Nk) in Hi as (a & _ & -> & _).
    apply (bulk_in cfg skip (db w1) (ls_of w2) (db w3) ks Hn N1 N3 Nk) in Hi' as (b & _ & -> & _).
    rewrite !fkey_lookup1 in He. subst. reflexivity.
Qed.

(* The same under CONCURRENCY (C04): the generator looks at each loose file at an instant of its own.  `ls` is whatever it observed:
   for every key k some instant wk between w0 and the refreshed index w3 at which loose/<k> was (or was not) there with that size.
   Writers and the packer (with cleaning) may take any monotone steps between any two of these instants. *)
Definition observed_loose (w0 w3 : world) (ls : list (key * nat)) : Prop :=
  forall k, exists wk, Inv wk /\ Mono w0 wk /\ Mono wk w3 /\
    loose_size ls k = option_map (fun f => length (fdata f)) (get_loose wk k).

Theorem lookup1_finds_concurrent w0 w1 w3 ls k c :
  Inv w0 -> Inv w1 -> Inv w3 -> observed_loose w0 w3 ls ->
  stored w0 k = Some c ->
  fsize (lookup1 (db w1) ls (db w3) k) = Some (length c).
Proof.
  intros I0 I1 I3 Hobs Hs.
  assert (Hk : H c = k) by exact (stored_sound H inflate w0 k c I0 Hs).
  unfold lookup1. destruct (find_row (db w1) k) as [r|] eqn:F1.
  - apply find_row_some in F1 as [Hin Hrk]. cbn. f_equal. apply (inv_row_size w1); auto. congruence.
  - destruct (Hobs k) as (wk & Ik & M0k & Mk3 & Els). rewrite Els.
    destruct (get_loose wk k) as [f2|] eqn:Hl2; cbn.
    + destruct Ik as (_ & _ & _ & Hl). rewrite Forall_forall in Hl.
      pose proof (Hl _ (get_loose_in _ _ _ Hl2)) as E. cbn in E.
      assert (fdata f2 = c) by (apply H_inj; congruence). subst. reflexivity.
    + assert (Hin2 : In k (map rkey (db wk))).
      { unfold Store.stored in Hs. destruct M0k as (R02 & _ & L02).
        destruct (find_row (db w0) k) as [r|] eqn:F0.
        - apply find_row_some in F0 as [Hin Hrk]. rewrite <- Hrk. apply in_map. auto.
        - destruct (get_loose w0 k) as [f|] eqn:Hl0; [|discriminate].
          destruct (L02 _ _ Hl0) as [(f' & Hl' & _)|Hin]; [congruence|exact Hin]. }
      destruct Mk3 as (R23 & _ & _).
      apply in_map_iff in Hin2 as (r & Hrk & Hr2).
      assert (Hin3 : In r (db w3)) by auto.
      rewrite <- Hrk. rewrite (find_row_in _ _ (inv_nodup w3 I3) Hin3). cbn. f_equal.
      apply (inv_row_size w3); auto. congruence.
Qed.

Theorem bulk_reports_every_stored_object_concurrent cfg skip w0 w1 w3 ls ks k c :
  (0 < in_max cfg)%nat -> NoDup ks ->
  Inv w0 -> Inv w1 -> Inv w3 -> observed_loose w0 w3 ls ->
  stored w0 k = Some c -> In k ks ->
  exists f, In f (fst (lookup_bulk cfg skip (db w1) ls (db w3) ks)) /\ fkey f = k /\ fsize f = Some (length c).
Proof.
  intros Hn Nk I0 I1 I3 Hobs Hs Hk.
  pose proof (lookup1_finds_concurrent w0 w1 w3 ls k c I0 I1 I3 Hobs Hs) as Hf.
  exists (lookup1 (db w1) ls (db w3) k). split; [|split; [apply fkey_lookup1|exact Hf]].
  apply bulk_in; try assumption; try (apply inv_nodup; assumption). exists k. split; [exact Hk|]. split; [reflexivity|].
  unfold wanted. destruct (lookup1 (db w1) ls (db w3) k); cbn in *; try rewrite andb_false_r; try reflexivity. discriminate.
Qed.

(* conversely nothing is invented: a key reported as present is in the snapshot, in the loose folder or in the refreshed index *)
Theorem bulk_reports_only_what_is_there cfg skip w1 w2 w3 ks f :
  (0 < in_max cfg)%nat -> NoDup ks -> Inv w1 -> Inv w3 ->
  In f (fst (lookup_bulk cfg skip (db w1) (ls_of w2) (db w3) ks)) -> is_missing f = false ->
  In (fkey f) ks /\ (In (fkey f) (map rkey (db w1)) \/ get_loose w2 (fkey f) <> None \/ In (fkey f) (map rkey (db w3))).
Proof.
  intros Hn Nk I1 I3 Hi Hm.
  apply (bulk_in cfg skip (db w1) (ls_of w2) (db w3) ks Hn (inv_nodup w1 I1) (inv_nodup w3 I3) Nk) in Hi as (k & Hk & -> & _).
  rewrite fkey_lookup1. split; [exact Hk|]. unfold lookup1 in Hm.
  destruct (find_row (db w1) k) as [r|] eqn:F1.
  - left. apply find_row_some in F1 as [Hin <-]. apply in_map. exact Hin.
  - rewrite loose_size_ls_of in Hm. destruct (get_loose w2 k) as [f2|] eqn:E; cbn in Hm.
    + right. left. discriminate.
    + destruct (find_row (db w3) k) as [r|] eqn:F3; [|cbn in Hm; discriminate].
      right. right. apply find_row_some in F3 as [Hin <-]. apply in_map. exact Hin.
Qed.
End LW.
