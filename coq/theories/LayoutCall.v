(* LayoutCall.v - the layout half of C13 for a whole write call, at the level of pack sizes: the pack chosen by _get_pack_id_to_write_to
   (PickPack.pick) followed by the fill order of the call (Layout.segs: a pack is left only when it has reached the target, later packs
   are fresh) keeps "ids consecutive from 0, every pack but the last at or above the target" - and the handle's cached id keeps pointing
   at a pack all of whose predecessors are full, which is what the next call relies on. *)
From Coq Require Import List ZArith Arith Lia Bool.
From DOS Require Import PickPack.
Import ListNotations.
Open Scope Z_scope.

(* sizes after `tot` = [t0; t1; ...] bytes were appended to the packs r, r+1, ... *)
Definition after (sizes : Z -> option Z) (r : Z) (tot : list Z) : Z -> option Z :=
  fun id => if (r <=? id) && (id <? r + Z.of_nat (length tot))
            then Some ((match sizes id with Some s => s | None => 0 end) + nth (Z.to_nat (id - r)) tot 0)
            else sizes id.

Definition full_below (sizes : Z -> option Z) (target c : Z) : Prop :=
  forall id, 0 <= id < c -> exists sz, sizes id = Some sz /\ target <= sz.

Theorem write_call_keeps_layout sizes target n cached fuel r tot :
  layout sizes target n -> 0 <= cached <= n -> full_below sizes target cached ->
  (Z.to_nat (n - cached) <= fuel)%nat -> pick fuel sizes target cached = Some r ->
  tot <> [] -> Forall (fun t => 0 <= t) tot ->
  (* every pack of the call but the last one is left at or above the target (Layout.segs_layout) *)
  (forall i, (i < length tot - 1)%nat ->
     target <= (if Nat.eqb i 0 then (match sizes r with Some s => s | None => 0 end) else 0) + nth i tot 0) ->
  let n' := r + Z.of_nat (length tot) in
  layout (after sizes r tot) target n' /\ full_below (after sizes r tot) target (n' - 1) /\ cached <= n' - 1 <= n'.
Proof.
  intros (Hc & Hl) Hcr Hfb Hf Hp Hne Hpos Hseg n'.
  destruct (pick_spec fuel sizes target cached n Hc Hcr Hf) as (r0 & Hr0 & Hrange & Hfull & Hlast).
  rewrite Hp in Hr0. inversion Hr0; subst r0. clear Hr0.
  destruct Hc as (Hn & Hcons).
  assert (Hlen : 0 < Z.of_nat (length tot)) by (destruct tot; [contradiction|cbn [length]; lia]).
  (* every pack below r is full *)
  assert (Hbelow : full_below sizes target r).
  { intros id Hid. destruct (Z_lt_ge_dec id cached); [apply Hfb; lia|apply Hfull; lia]. }
  (* r is the last pack (below the target) or the next fresh id *)
  assert (Hr : r = n \/ (r = n - 1 /\ exists sz, sizes r = Some sz /\ sz < target)).
  { destruct Hlast as [Hnone|(sz & Hs & Hlt)].
    - left. destruct (Z.eq_dec r n); [auto|]. exfalso. destruct (Hcons r) as (Hex & _). destruct Hex as (s & Es); [lia|]. congruence.
    - destruct (Z.eq_dec r n) as [->|Hne2].
      + exfalso. destruct (Hcons n) as (_ & Hnone). rewrite Hnone in Hs by lia. discriminate.
      + right. split; [|exists sz; auto]. destruct (Z_lt_ge_dec r (n - 1)); [|lia].
        exfalso. specialize (Hl r sz). assert (target <= sz) by (apply Hl; [lia|exact Hs]). lia. }
  assert (Hn' : n <= n') by (unfold n'; destruct Hr as [->|[-> _]]; lia).
  assert (Hin : forall id, r <= id < n' -> after sizes r tot id = Some ((match sizes id with Some s => s | None => 0 end) + nth (Z.to_nat (id - r)) tot 0)).
  { intros id Hid. unfold after, n' in *. destruct (Z.leb_spec r id); [|lia]. destruct (Z.ltb_spec id (r + Z.of_nat (length tot))); [reflexivity|lia]. }
  assert (Hout : forall id, id < r \/ n' <= id -> after sizes r tot id = sizes id).
  { intros id Hid. unfold after, n' in *. destruct (Z.leb_spec r id); destruct (Z.ltb_spec id (r + Z.of_nat (length tot))); cbn; try reflexivity; lia. }
  assert (Hnth : forall i, (i < length tot)%nat -> 0 <= nth i tot 0).
  { intros i Hi. rewrite Forall_forall in Hpos. apply Hpos. apply nth_In. exact Hi. }
  (* packs r .. n'-2 are full after the call *)
  assert (Hmid : forall id, r <= id < n' - 1 -> exists sz, after sizes r tot id = Some sz /\ target <= sz).
  { intros id Hid. rewrite Hin by lia. eexists. split; [reflexivity|].
    assert (Hi : (Z.to_nat (id - r) < length tot - 1)%nat) by (unfold n' in Hid; lia).
    specialize (Hseg _ Hi). destruct (Nat.eqb_spec (Z.to_nat (id - r)) 0) as [E0|E0].
    - assert (id = r) by lia. subst id. exact Hseg.
    - (* a later pack of the call is fresh *)
      assert (Hfresh : sizes id = None).
      { destruct (Hcons id) as (_ & Hnone). apply Hnone. right. destruct Hr as [->|[-> _]]; lia. }
      rewrite Hfresh. lia. }
  split; [split; [split|]|split].
  - lia.
  - intros id. split.
    + intros Hid. destruct (Z_lt_ge_dec id r).
      * rewrite Hout by lia. destruct (Hbelow id) as (sz & Hs & _); [lia|]. exists sz. exact Hs.
      * rewrite Hin by lia. eexists. reflexivity.
    + intros Hid. rewrite Hout by lia. destruct (Hcons id) as (_ & Hnone). apply Hnone. lia.
  - intros id sz Hid Hs. destruct (Z_lt_ge_dec id r).
    + rewrite Hout in Hs by lia. destruct (Hbelow id) as (sz' & Hs' & Hge); [lia|]. congruence.
    + destruct (Hmid id) as (sz' & Hs' & Hge); [lia|]. congruence.
  - intros id Hid. destruct (Z_lt_ge_dec id r).
    + rewrite Hout by lia. apply Hbelow. lia.
    + apply Hmid. lia.
  - unfold n'. lia.
Qed.

(* ---- with the fill order of Layout.segs ---- *)
From DOS Require Import Layout.

Section WithSegs.
Context {A : Type}.
Variable len : A -> nat.

Lemma segs_totals target fuel objs size : (0 < target)%nat -> (size < target)%nat -> (length objs < fuel)%nat ->
  let S := segs len fuel target size objs in
  forall i, (i < length S - 1)%nat -> (target <= (if Nat.eqb i 0 then size else 0) + total len (nth i S []))%nat.
Proof.
  intros Ht Hs Hf S i Hi.
  assert (Hsplit : S = firstn i S ++ nth i S [] :: skipn (Datatypes.S i) S).
  { clear - Hi. revert i Hi. generalize S as l. induction l as [|x t IH]; intros i Hi; [cbn in Hi; lia|].
    destruct i as [|i]; [reflexivity|]. cbn [firstn nth skipn app]. f_equal. apply IH. cbn [length] in Hi. lia. }
  destruct (segs_layout len target Ht fuel objs size Hs Hf (firstn i S) (nth i S []) (skipn (Datatypes.S i) S) Hsplit) as (L1 & _ & _).
  assert (Hpost : skipn (Datatypes.S i) S <> []).
  { intros E. assert (Hl : length (skipn (Datatypes.S i) S) = 0%nat) by (rewrite E; reflexivity). rewrite skipn_length in Hl. lia. }
  specialize (L1 Hpost). destruct i as [|i]; [cbn [firstn Nat.eqb] in *; exact L1|].
  cbn [Nat.eqb]. destruct S as [|x t] eqn:ES; [cbn in Hi; lia|]. cbn [firstn] in L1. exact L1.
Qed.

(* a whole pack_all_loose / direct-to-pack call: the pack is chosen by pick, the objects are distributed by segs; if anything is
   written, the layout is kept and all packs before the last one written are full *)
Theorem call_keeps_layout sizes (target n cached : Z) fuelp r (tgt size0 fuels : nat) objs :
  layout sizes target n -> 0 <= cached <= n -> full_below sizes target cached ->
  (Z.to_nat (n - cached) <= fuelp)%nat -> pick fuelp sizes target cached = Some r ->
  target = Z.of_nat tgt -> (0 < tgt)%nat ->
  Z.of_nat size0 = match sizes r with Some s => s | None => 0 end -> (size0 < tgt)%nat ->
  (length objs < fuels)%nat -> objs <> [] ->
  let S := segs len fuels tgt size0 objs in
  let tot := map (fun s => Z.of_nat (total len s)) S in
  layout (after sizes r tot) target (r + Z.of_nat (length tot)) /\
  full_below (after sizes r tot) target (r + Z.of_nat (length tot) - 1).
Proof.
  intros HL Hc Hfb Hfp Hp Ht Htp Hs0 Hslt Hfs Hne S tot.
  assert (HSne : S <> []).
  { unfold S. destruct fuels as [|f]; [lia|]. destruct objs as [|o t]; [contradiction|]. cbn [segs].
    destruct (take_until len tgt size0 (o :: t)). discriminate. }
  assert (Htne : tot <> []) by (unfold tot; destruct S; [contradiction|discriminate]).
  assert (Hpos : Forall (fun t => 0 <= t) tot) by (unfold tot; apply Forall_forall; intros t Hin; apply in_map_iff in Hin as (s & <- & _); lia).
  destruct (write_call_keeps_layout sizes target n cached fuelp r tot HL Hc Hfb Hfp Hp Htne Hpos) as (A1 & A2 & _).
  - intros i Hi. unfold tot in Hi |- *. rewrite map_length in Hi.
    pose proof (segs_totals tgt fuels objs size0 Htp Hslt Hfs i Hi) as Hseg. fold S in Hseg.
    assert (Hn : nth i (map (fun s => Z.of_nat (total len s)) S) 0 = Z.of_nat (total len (nth i S []))).
    { exact (map_nth (fun s => Z.of_nat (total len s)) S [] i). }
    rewrite Hn.
    rewrite <- Hs0, Ht. destruct (Nat.eqb i 0); lia.
  - split; assumption.
Qed.

End WithSegs.
