(* MonoStep.v - every step of a loose writer or of the packer (pack_all_loose, clean_storage), in the event model of
   Store.v and under the stated side conditions, is a Mono step.  Together with Mono.reader_finds this gives the C04
   statement for every interleaving: an interleaving of such actors is a sequence of such steps. *)
From Coq Require Import List ZArith NArith Arith Bool Lia.
From DOS Require Import Base Store StoreProofs StoreLemmas Mono.
Import ListNotations.

Section Assoc.
Context {K V : Type}.
Variable eqb : K -> K -> bool.
Hypothesis eqb_spec : forall a b, reflect (a = b) (eqb a b).

Lemma g_aset_eq (l : list (K * V)) k v : aget eqb (aset eqb l k v) k = Some v.
Proof. unfold aset; cbn. destruct (eqb_spec k k); congruence. Qed.

Lemma g_adel_neq (l : list (K * V)) k k' : k' <> k -> aget eqb (adel eqb l k) k' = aget eqb l k'.
Proof.
  intros Hne. induction l as [|[a v] t IH]; cbn; [reflexivity|].
  destruct (eqb_spec k a) as [->|Hka].
  - rewrite IH. destruct (eqb_spec k' a); [congruence|reflexivity].
  - cbn. destruct (eqb_spec k' a); [reflexivity|exact IH].
Qed.

Lemma g_aset_neq (l : list (K * V)) k k' v : k' <> k -> aget eqb (aset eqb l k v) k' = aget eqb l k'.
Proof. intros Hne. unfold aset; cbn. destruct (eqb_spec k' k); [congruence|]. apply g_adel_neq; auto. Qed.

Lemma g_adel_eq (l : list (K * V)) k : aget eqb (adel eqb l k) k = None.
Proof.
  induction l as [|[a v] t IH]; cbn; [reflexivity|].
  destruct (eqb_spec k a) as [->|Hka]; [exact IH|]. cbn. destruct (eqb_spec k a); [congruence|exact IH].
Qed.
End Assoc.

Section Step.
Variable H : bytes -> key.
Variable inflate : bytes -> option bytes.
Hypothesis H_inj : forall a b, H a = H b -> a = b.
Notation Inv := (Inv H inflate).

Definition is_insert (s : sqlop) : bool := match s with SInsert _ _ => true | _ => false end.

(* side conditions under which an event is a legitimate step of a loose writer or of the packer *)
Definition mono_ok_b (s : world * local) (e : event) : bool :=
  let '(w, l) := s in
  match e with
  | EPublish n k => match get_sand w n with Some f => N.eqb (H (fdata f)) k | None => true end
  | EUnlinkLoose k => has_key (db w) k
  | ECommit => forallb is_insert (pending l)
  | ETruncate _ _ | EUnlinkPack _ | ELinkPack _ _ => false
  | _ => true
  end.

Lemma Mono_same w w' : loose w = loose w' -> packs w = packs w' -> db w = db w' -> Mono w w'.
Proof.
  clear H_inj. intros E1 E2 E3. unfold Mono, get_pack, get_loose. rewrite <- E1, <- E2, <- E3.
  repeat split; auto.
  - intros id f Hp. exists f. split; auto. apply prefix_refl.
  - intros k f Hl. left. exists f; auto.
Qed.

Lemma Mono_pack_grow w id f f' :
  get_pack w id = Some f -> prefix_of (fdata f) (fdata f') ->
  Mono w (set_packs w (aset Z.eqb (packs w) id f')).
Proof.
  clear H_inj. intros Hp Hpre. repeat split; auto.
  - intros id0 f0 Hp0. destruct (Z.eq_dec id0 id) as [->|Hne].
    + exists f'. unfold get_pack; cbn [packs set_packs]. rewrite (g_aset_eq Z.eqb Z.eqb_spec).
      split; auto. rewrite Hp in Hp0. inversion Hp0; subst. exact Hpre.
    + exists f0. unfold get_pack in *; cbn [packs set_packs]. rewrite (g_aset_neq Z.eqb Z.eqb_spec); auto.
      split; auto. apply prefix_refl.
  - intros k f0 Hl. left. exists f0. auto.
Qed.

Lemma Mono_pack_new w id f' :
  get_pack w id = None -> Mono w (set_packs w (aset Z.eqb (packs w) id f')).
Proof.
  clear H_inj. intros Hp. repeat split; auto.
  - intros id0 f0 Hp0. destruct (Z.eq_dec id0 id) as [->|Hne]; [congruence|].
    exists f0. unfold get_pack in *; cbn [packs set_packs]. rewrite (g_aset_neq Z.eqb Z.eqb_spec); auto.
    split; auto. apply prefix_refl.
  - intros k f0 Hl. left. exists f0. auto.
Qed.

Lemma flush_mono w l h : Mono w (fst (flush_h w l h)).
Proof.
  clear H_inj. unfold flush_h. destruct (get_buf l h) as [b|]; [|apply Mono_refl].
  destruct (get_file w h) as [f|] eqn:Hf; [|apply Mono_refl]. cbn [fst].
  destruct h as [n|id]; cbn [put_file].
  - apply Mono_same; reflexivity.
  - apply Mono_pack_grow with (f := f); auto. cbn. exists b. reflexivity.
Qed.

Lemma fold_insert_keeps : forall ps d r, forallb is_insert ps = true -> In r d -> In r (fold_left apply_sql ps d).
Proof.
  induction ps as [|p t IH]; intros d r Hb Hin; cbn; [exact Hin|].
  cbn in Hb. apply andb_prop in Hb as [Hp Ht]. apply IH; auto.
  destruct p; try discriminate. cbn. apply insert_rows_keeps; auto.
Qed.

Theorem mono_step s e : Inv (fst s) -> mono_ok_b s e = true -> Mono (fst s) (fst (apply_ev s e)).
Proof.
  destruct s as [w l]. cbn [fst]. intros HI Hok.
  destruct e; cbn [apply_ev mono_ok_b] in *; try discriminate.
  - (* EOpenSand *) cbn. apply Mono_same; reflexivity.
  - (* EOpenPack *) destruct (get_pack w id) eqn:Hp; cbn [fst]; [apply Mono_refl|]. cbn [put_file]. apply Mono_pack_new; auto.
  - (* EWrite *) destruct (get_buf l h); apply Mono_refl.
  - (* EFlush *) apply flush_mono.
  - (* EFsync *) destruct (get_file w h) as [f|] eqn:Hf; cbn [fst]; [|apply Mono_refl].
    destruct h as [n|id]; cbn [put_file].
    + apply Mono_same; reflexivity.
    + apply Mono_pack_grow with (f := f); auto. cbn. apply prefix_refl.
  - (* EClose *) pose proof (flush_mono w l h) as M. destruct (flush_h w l h) as [w' l']. exact M.
  - (* EPublish *)
    destruct (get_sand w n) as [f|] eqn:Hs; cbn [fst]; [|apply Mono_refl].
    apply N.eqb_eq in Hok. repeat split; auto.
    + intros id f0 Hp. exists f0. split; auto. apply prefix_refl.
    + intros k0 f0 Hl. left. destruct (N.eq_dec k0 k) as [->|Hne].
      * exists f. unfold get_loose; cbn [loose set_loose set_sandbox]. rewrite (g_aset_eq N.eqb N.eqb_spec). split; auto.
        destruct HI as (_ & _ & _ & Hlo). rewrite Forall_forall in Hlo.
        pose proof (Hlo _ (get_loose_in _ _ _ Hl)) as E. cbn in E. apply H_inj. congruence.
      * exists f0. unfold get_loose in *; cbn [loose set_loose set_sandbox]. rewrite (g_aset_neq N.eqb N.eqb_spec); auto.
  - (* EUnlinkSand *) cbn. apply Mono_same; reflexivity.
  - (* EUnlinkLoose *)
    cbn [fst]. repeat split; auto.
    + intros id f0 Hp. exists f0. split; auto. apply prefix_refl.
    + intros k0 f0 Hl. destruct (N.eq_dec k0 k) as [->|Hne].
      * right. cbn [db set_loose]. apply (has_key_in (db w) k). exact Hok.
      * left. exists f0. unfold get_loose in *; cbn [loose set_loose]. rewrite (g_adel_neq N.eqb N.eqb_spec); auto.
  - (* ESql *) cbn. apply Mono_same; reflexivity.
  - (* ECommit *)
    cbn [fst]. repeat split; auto.
    + intros r Hr. cbn [db set_db]. apply fold_insert_keeps; auto.
    + intros id f0 Hp. exists f0. split; auto. apply prefix_refl.
    + intros k0 f0 Hl. left. exists f0. auto.
  - (* ERollback *) cbn. apply Mono_same; reflexivity.
Qed.

(* any number of such steps, by any number of actors, in any order *)
Fixpoint all_ok (s : world * local) (tr : list event) : Prop :=
  match tr with
  | [] => True
  | e :: t => Inv (fst s) /\ mono_ok_b s e = true /\ all_ok (apply_ev s e) t
  end.

Theorem mono_steps : forall tr s, all_ok s tr -> Mono (fst s) (fst (run_events s tr)).
Proof.
  induction tr as [|e t IH]; intros s Hok.
  - cbn. apply Mono_refl.
  - destruct Hok as (HI & Hb & Ht). change (run_events s (e :: t)) with (run_events (apply_ev s e) t).
    apply Mono_trans with (b := fst (apply_ev s e)); [apply mono_step; auto | apply (IH _ Ht)].
Qed.

End Step.

(* ---- boolean version of all_ok for the extracted monitor ---- *)
Section Bool.
Variable H : bytes -> key.
Variable inflate : bytes -> option bytes.

Fixpoint all_ok_b (s : world * local) (tr : list event) : bool :=
  match tr with
  | [] => true
  | e :: t => inv_b H inflate (fst s) && mono_ok_b H s e && all_ok_b (apply_ev s e) t
  end.

Lemma all_ok_b_sound : forall tr s, all_ok_b s tr = true -> all_ok H inflate s tr.
Proof.
  induction tr as [|e t IH]; intros s Hb; cbn in *; [exact I|].
  apply andb_prop in Hb as [Hb Ht]. apply andb_prop in Hb as [Hi Hm].
  split; [apply inv_b_sound; auto | split; auto].
Qed.

(* ---- C13: referenced bytes of a pack never change and a pack never shrinks below its last referenced byte ---- *)
Definition maxref (d : list row) (id : Z) : nat :=
  fold_right (fun r m => if Z.eqb (rpack r) id then Nat.max (roff r + rlen r) m else m) 0 d.

Definition keeps_ref (w w' : world) : Prop :=
  forall id f, get_pack w id = Some f ->
    exists f', get_pack w' id = Some f' /\
      firstn (maxref (db w) id) (fdata f') = firstn (maxref (db w) id) (fdata f) /\
      maxref (db w) id <= length (fdata f').

Lemma maxref_le w d id f :
  Forall (row_ok H inflate w) d -> get_pack w id = Some f -> maxref d id <= length (fdata f).
Proof.
  intros Hok Hp. induction d as [|r t IH]; cbn; [lia|].
  inversion Hok as [|? ? Hr Ht]; subst. specialize (IH Ht).
  destruct (Z.eqb_spec (rpack r) id) as [E|E]; [|exact IH].
  destruct Hr as (f0 & c & Hp0 & Hle & _). rewrite E, Hp in Hp0. inversion Hp0 as [Ef]. subst f0.
  apply Nat.max_lub; [exact Hle | exact IH].
Qed.

Theorem mono_keeps_ref w w' : Inv H inflate w -> Mono w w' -> keeps_ref w w'.
Proof.
  intros (_ & Hok & _) (_ & P & _) id f Hp.
  destruct (P _ _ Hp) as (f' & Hp' & x & Hx). exists f'. split; auto.
  pose proof (maxref_le w (db w) id f Hok Hp) as Hle.
  rewrite Hx. split.
  - rewrite firstn_app. replace (maxref (db w) id - length (fdata f)) with 0 by lia. cbn. apply app_nil_r.
  - rewrite app_length. lia.
Qed.

(* the truncation of the no_holes option: allowed when it cuts at or above the last referenced byte *)
Definition c13_ok_b (s : world * local) (e : event) : bool :=
  match e with
  | ETruncate id pos => maxref (db (fst s)) id <=? pos
  | _ => mono_ok_b H s e
  end.

Theorem c13_step (H_inj : forall a b, H a = H b -> a = b) s e :
  Inv H inflate (fst s) -> c13_ok_b s e = true -> keeps_ref (fst s) (fst (apply_ev s e)).
Proof.
  intros HI Hok. destruct e; try (apply mono_keeps_ref; auto; apply (mono_step H inflate H_inj); auto; fail).
  (* ETruncate *)
  destruct s as [w l]. cbn [fst c13_ok_b] in *. apply Nat.leb_le in Hok.
  intros id0 f0 Hp0. cbn [apply_ev].
  pose proof (flush_mono w l (HPack id)) as M.
  destruct (flush_h w l (HPack id)) as [w1 l1] eqn:Efl. cbn [fst] in M.
  assert (Hdb : db w1 = db w).
  { unfold flush_h in Efl. destruct (get_buf l (HPack id)); [|inversion Efl; auto].
    destruct (get_file w (HPack id)); inversion Efl; auto. }
  destruct (mono_keeps_ref w w1 HI M id0 f0 Hp0) as (f1 & Hp1 & Hfirst & Hlen).
  destruct (get_pack w1 id) as [fz|] eqn:Hpz; cbn [fst].
  - destruct (Z.eq_dec id0 id) as [->|Hne].
    + rewrite Hpz in Hp1. inversion Hp1; subst fz.
      exists (mkFile (firstn pos (fdata f1)) (fsynced f1)). cbn [put_file fdata].
      unfold get_pack; cbn [packs set_packs]. rewrite (g_aset_eq Z.eqb Z.eqb_spec). split; auto.
      split.
      * rewrite firstn_firstn. replace (Nat.min (maxref (db w) id) pos) with (maxref (db w) id) by lia. exact Hfirst.
      * rewrite firstn_length. lia.
    + exists f1. cbn [put_file]. unfold get_pack in *; cbn [packs set_packs].
      rewrite (g_aset_neq Z.eqb Z.eqb_spec); auto.
  - exists f1. auto.
Qed.

End Bool.

Section C13Trace.
Variable H : bytes -> key.
Variable inflate : bytes -> option bytes.
Hypothesis H_inj : forall a b, H a = H b -> a = b.

Fixpoint c13_all_b (s : world * local) (tr : list event) : bool :=
  match tr with
  | [] => true
  | e :: t => inv_b H inflate (fst s) && c13_ok_b H s e && c13_all_b (apply_ev s e) t
  end.

(* every single step of an accepted trace keeps every referenced byte of every pack and never shrinks a pack below
   its last referenced byte *)
Theorem c13_all_sound : forall tr s, c13_all_b s tr = true ->
  forall a e b, tr = a ++ e :: b -> keeps_ref (fst (run_events s a)) (fst (run_events s (a ++ [e]))).
Proof.
  induction tr as [|x t IH]; intros s Hb a e b Heq.
  - destruct a; discriminate.
  - cbn in Hb. apply andb_prop in Hb as [Hb Ht]. apply andb_prop in Hb as [Hi Hc].
    destruct a as [|y a'].
    + cbn in Heq. inversion Heq; subst. cbn [run_events fold_left app].
      apply (c13_step H inflate H_inj); auto. apply inv_b_sound; auto.
    + cbn in Heq. inversion Heq; subst.
      change (run_events s (y :: a')) with (run_events (apply_ev s y) a').
      change (run_events s ((y :: a') ++ [e])) with (run_events (apply_ev s y) (a' ++ [e])).
      eapply IH; eauto.
Qed.
End C13Trace.
