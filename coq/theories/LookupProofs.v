(* LookupProofs.v - the bulk lookup generator (Lookup.lookup_bulk) answers, for EVERY request, thresholds, index snapshots and
   loose folder, exactly what the single-key lookup answers for each distinct requested key, each key once, whichever of the
   two query strategies the count triggers; packed results come as one run per pack in offset order. *)
From Coq Require Import List ZArith NArith Arith Bool Lia Sorting.Sorted Sorting.Permutation.
From DOS Require Import Base Merge MergeProofs MergeSpec Chunks Store StoreLemmas Lookup.
Import ListNotations.

(* ---------- insertion sort ---------- *)
Section SortP.
Context {A : Type} (f : A -> Z).

Lemma ins_perm x l : Permutation (ins f x l) (x :: l).
Proof.
  induction l as [|y t IH]; cbn; [apply Permutation_refl|].
  destruct (f x <=? f y)%Z; [apply Permutation_refl|].
  eapply perm_trans; [apply perm_skip; exact IH|apply perm_swap].
Qed.

Lemma isort_perm l : Permutation (isort f l) l.
Proof.
  induction l as [|x t IH]; cbn; [apply perm_nil|].
  eapply perm_trans; [apply ins_perm|]. apply perm_skip; exact IH.
Qed.

Lemma isort_in l y : In y (isort f l) <-> In y l.
Proof. split; apply Permutation_in; [|apply Permutation_sym]; apply isort_perm. Qed.

Definition le_f (a b : A) : Prop := (f a <= f b)%Z.

Lemma ins_sorted_le x l : Sorted le_f l -> Sorted le_f (ins f x l).
Proof.
  induction l as [|y t IH]; intros Hs; cbn.
  - constructor; constructor.
  - destruct (f x <=? f y)%Z eqn:E.
    + constructor; [exact Hs|]. constructor. unfold le_f. lia.
    + inversion Hs as [|? ? Ht Hhd]; subst. constructor; [apply IH; exact Ht|].
      destruct t as [|z t']; cbn.
      * constructor. unfold le_f. lia.
      * destruct (f x <=? f z)%Z; constructor; unfold le_f; [lia|].
        inversion Hhd; subst. assumption.
Qed.

Lemma isort_sorted_le l : Sorted le_f (isort f l).
Proof. induction l as [|x t IH]; cbn; [constructor|apply ins_sorted_le; exact IH]. Qed.

Lemma ins_sorted_lt x l : Sorted Z.lt (map f l) -> ~ In (f x) (map f l) -> Sorted Z.lt (map f (ins f x l)).
Proof.
  induction l as [|y t IH]; intros Hs Hni; cbn.
  - constructor; constructor.
  - cbn in Hni. destruct (f x <=? f y)%Z eqn:E; cbn.
    + constructor; [exact Hs|]. constructor.
      assert (f y <> f x) by (intros Heq; apply Hni; left; exact Heq). lia.
    + cbn in Hs. inversion Hs as [|? ? Ht Hhd]; subst. constructor.
      * apply IH; [exact Ht|]. intros Hin. apply Hni. right. exact Hin.
      * destruct t as [|z t']; cbn.
        -- constructor. lia.
        -- destruct (f x <=? f z)%Z; cbn; constructor; [lia|]. cbn in Hhd. inversion Hhd; subst. assumption.
Qed.

Lemma isort_sorted_lt l : NoDup (map f l) -> Sorted Z.lt (map f (isort f l)).
Proof.
  induction l as [|x t IH]; intros Hnd; cbn; [constructor|].
  cbn in Hnd. inversion Hnd as [|? ? Hni Hnd']; subst.
  apply ins_sorted_lt; [apply IH; exact Hnd'|].
  intros Hin. apply Hni. eapply Permutation_in; [|exact Hin]. apply Permutation_map. apply isort_perm.
Qed.
End SortP.

(* ---------- small list facts ---------- *)
Lemma mem_in k l : mem k l = true <-> In k l.
Proof.
  unfold mem. rewrite existsb_exists. split.
  - intros (x & Hx & He). apply N.eqb_eq in He. subst. exact Hx.
  - intros Hin. exists k. split; [exact Hin|apply N.eqb_refl].
Qed.

Lemma mem_false k l : mem k l = false <-> ~ In k l.
Proof.
  split.
  - intros E Hin. apply mem_in in Hin. congruence.
  - intros Hn. destruct (mem k l) eqn:E; [|reflexivity]. exfalso. apply Hn. apply mem_in. exact E.
Qed.

Lemma NoDup_app_mk {A} (a b : list A) : NoDup a -> NoDup b -> (forall x, In x a -> In x b -> False) -> NoDup (a ++ b).
Proof.
  induction a as [|x t IH]; intros Na Nb Hd; cbn; [exact Nb|].
  inversion Na; subst. constructor.
  - intros Hin. apply in_app_or in Hin as [Hin|Hin]; [auto|]. apply (Hd x); [left; reflexivity|exact Hin].
  - apply IH; auto. intros y Hy Hy'. apply (Hd y); [right; exact Hy|exact Hy'].
Qed.

Lemma NoDup_app_dest {A} (a b : list A) : NoDup (a ++ b) -> NoDup a /\ NoDup b /\ (forall x, In x a -> In x b -> False).
Proof.
  induction a as [|x t IH]; cbn; intros Hn.
  - repeat split; [constructor|exact Hn|intros x []].
  - inversion Hn as [|? ? Hni Hn']; subst. destruct (IH Hn') as (Na & Nb & Hd). repeat split.
    + constructor; [|exact Na]. intros Hin. apply Hni. apply in_or_app. left. exact Hin.
    + exact Nb.
    + intros y [<-|Hy] Hy'; [apply Hni; apply in_or_app; right; exact Hy'|eapply Hd; eauto].
Qed.

Lemma NoDup_map_filter {A B} (g : A -> B) (p : A -> bool) l : NoDup (map g l) -> NoDup (map g (filter p l)).
Proof.
  induction l as [|x t IH]; cbn; intros Hn; [constructor|].
  inversion Hn as [|? ? Hni Hn']; subst. destruct (p x); cbn; [|apply IH; exact Hn'].
  constructor; [|apply IH; exact Hn']. intros Hin. apply Hni.
  apply in_map_iff in Hin as (y & Hy & Hin). apply filter_In in Hin as [Hin _]. apply in_map_iff. exists y. auto.
Qed.

Lemma nil_of_no_in {A} (l : list A) : (forall x, In x l -> False) -> l = [].
Proof. destruct l as [|x t]; [reflexivity|]. intros Hf. exfalso. apply (Hf x). left. reflexivity. Qed.

Lemma nil_or_cons {A} (l : list A) : l = [] \/ exists x t, l = x :: t.
Proof. destruct l as [|x t]; [left; reflexivity|right; eauto]. Qed.

Lemma kz_inj a b : kz a = kz b -> a = b.
Proof. unfold kz. apply N2Z.inj. Qed.

Lemma NoDup_map_kz l : NoDup l -> NoDup (map kz l).
Proof.
  induction l as [|x t IH]; cbn; intros Hn; [constructor|].
  inversion Hn as [|? ? Hni Hn']; subst. constructor; [|apply IH; exact Hn'].
  intros Hin. apply in_map_iff in Hin as (y & Hy & Hin). apply kz_inj in Hy. subst. auto.
Qed.

Lemma in_map_kz k l : In (kz k) (map kz l) <-> In k l.
Proof.
  split; [|apply in_map]. intros Hin. apply in_map_iff in Hin as (y & Hy & Hin). apply kz_inj in Hy. subst. exact Hin.
Qed.

Lemma dedup_in l k : In k (dedup l) <-> In k l.
Proof.
  induction l as [|x t IH]; cbn; [tauto|].
  destruct (mem x t) eqn:E.
  - rewrite IH. apply mem_in in E. split; [auto|]. intros [<-|Hin]; auto.
  - cbn. rewrite IH. tauto.
Qed.

Lemma dedup_nodup l : NoDup (dedup l).
Proof.
  induction l as [|x t IH]; cbn; [constructor|].
  destruct (mem x t) eqn:E; [exact IH|]. constructor; [|exact IH].
  rewrite dedup_in. apply mem_false. exact E.
Qed.

(* ---------- the two query strategies ---------- *)
Definition query_ok (d : list row) (ks : list key) (rows : list row) : Prop :=
  NoDup (map rkey rows) /\ forall r, In r rows <-> In r d /\ In (rkey r) ks.

Lemma sel_in_in d c r : In r (sel_in d c) <-> In r d /\ In (rkey r) c.
Proof. unfold sel_in. rewrite filter_In, mem_in. tauto. Qed.

Lemma in_concat_iff {A} (x : A) ll : In x (concat ll) <-> exists l, In l ll /\ In x l.
Proof.
  induction ll as [|a t IH]; cbn.
  - split; [intros []|intros (l & [] & _)].
  - rewrite in_app_iff, IH. split.
    + intros [Hx|(l & Hl & Hx)]; [exists a; auto|exists l; auto].
    + intros (l & [<-|Hl] & Hx); [left; exact Hx|right; exists l; auto].
Qed.

Lemma chunked_gen d cs : NoDup (map rkey d) -> NoDup (concat cs) -> query_ok d (concat cs) (flat_map (sel_in d) cs).
Proof.
  intros Nd. induction cs as [|c cs IH]; cbn; intros Nc.
  - split; [constructor|]. intros r. split; [intros []|intros [_ []]].
  - apply NoDup_app_dest in Nc as (Nc1 & Nc2 & Hdis). destruct (IH Nc2) as (Nrows & Hin). split.
    + rewrite map_app. apply NoDup_app_mk.
      * apply NoDup_map_filter. exact Nd.
      * exact Nrows.
      * intros k Hk1 Hk2. apply in_map_iff in Hk1 as (r1 & <- & H1). apply in_map_iff in Hk2 as (r2 & He & H2).
        apply sel_in_in in H1 as [_ H1]. apply Hin in H2 as [_ H2]. rewrite He in H2. eapply Hdis; eauto.
    + intros r. rewrite !in_app_iff, sel_in_in, Hin. tauto.
Qed.

Lemma q_chunked_ok n d ks : (0 < n)%nat -> NoDup (map rkey d) -> NoDup ks -> query_ok d ks (q_chunked n d ks).
Proof.
  intros Hn Nd Nk. unfold q_chunked. pose proof (chunks_concat n ks Hn) as E.
  rewrite <- E at 1. apply chunked_gen; [exact Nd|]. rewrite E. exact Nk.
Qed.

(* keys of the BOTH rows of a strictly sorted item list are distinct *)
Lemma both_rows_in d items r :
  In r (both_rows d items) <-> exists k p, In (k, Some p, BOTH) items /\ find_row d (Z.to_N k) = Some r.
Proof.
  unfold both_rows. rewrite in_flat_map. split.
  - intros (it & Hit & Hr). destruct it as [[k [p|]] []]; cbn in Hr; try contradiction.
    destruct (find_row d (Z.to_N k)) as [r'|] eqn:F; [|contradiction]. destruct Hr as [<-|[]]. exists k, p. auto.
  - intros (k & p & Hit & F). exists (k, Some p, BOTH). split; [exact Hit|]. cbn. rewrite F. left. reflexivity.
Qed.

Lemma sorted_lt_hd a l : Sorted Z.lt (a :: l) -> Forall (fun x => (a < x)%Z) l.
Proof.
  intros Hs. apply Sorted_StronglySorted in Hs; [|intros x y z; apply Z.lt_trans].
  inversion Hs; subst. assumption.
Qed.

Lemma both_rows_nodup d items :
  Sorted Z.lt (map ikey items) -> Forall (fun it => (0 <= ikey it)%Z) items -> NoDup (map rkey (both_rows d items)).
Proof.
  induction items as [|it t IH]; intros Hs Hnn; [constructor|].
  cbn in Hs. pose proof (sorted_lt_hd _ _ Hs) as Hhd. inversion Hs as [|? ? Ht _]; subst.
  inversion Hnn as [|? ? Hn0 Hnt]; subst. specialize (IH Ht Hnt).
  change (both_rows d (it :: t)) with ((fun it => match it with
                      | (k, Some _, BOTH) => match find_row d (Z.to_N k) with Some r => [r] | None => [] end
                      | _ => [] end) it ++ both_rows d t).
  destruct it as [[k [p|]] []]; cbn [app]; try exact IH.
  destruct (find_row d (Z.to_N k)) as [r|] eqn:F; cbn [app]; [|exact IH].
  cbn. constructor; [|exact IH].
  intros Hin. apply in_map_iff in Hin as (r' & Hk & Hr'). apply both_rows_in in Hr' as (k' & p' & Hit' & F').
  apply find_row_some in F as [_ F]. apply find_row_some in F' as [_ F'].
  rewrite Forall_forall in Hhd. specialize (Hhd k').
  assert (In k' (map ikey t)) as Hk' by (apply in_map_iff; exists (k', Some p', BOTH); auto).
  specialize (Hhd Hk'). unfold ikey in Hhd, Hn0. cbn in Hhd, Hn0.
  rewrite Forall_forall in Hnt. specialize (Hnt _ Hit'). unfold ikey in Hnt. cbn in Hnt.
  assert (Z.to_N k' = Z.to_N k) by congruence. lia.
Qed.

Lemma q_scan_ok d ks : NoDup (map rkey d) -> NoDup ks -> snd (q_scan d ks) = Ok /\ query_ok d ks (fst (q_scan d ks)).
Proof.
  intros Nd Nk. unfold q_scan.
  set (L := map (fun r => (rkz r, 0%Z)) (isort rkz d)). set (R := isort (fun z => z) (map kz ks)).
  assert (ML : map fst L = map rkz (isort rkz d)) by (unfold L; rewrite map_map; reflexivity).
  assert (SL : SortedL L).
  { unfold SortedL. rewrite ML. apply isort_sorted_lt.
    replace (map rkz d) with (map kz (map rkey d)) by (rewrite map_map; reflexivity). apply NoDup_map_kz. exact Nd. }
  assert (SR : Sorted Z.lt R).
  { unfold R. rewrite <- (map_id (isort _ _)). apply isort_sorted_lt. rewrite map_id. apply NoDup_map_kz. exact Nk. }
  rewrite (dws_spec L R SL SR). cbn [fst snd]. split; [reflexivity|].
  assert (InL : forall x, In x L <-> exists r, In r d /\ x = (rkz r, 0%Z)).
  { intros x. unfold L. rewrite in_map_iff. split.
    - intros (r & <- & Hr). apply isort_in in Hr. eauto.
    - intros (r & Hr & ->). exists r. split; [reflexivity|]. apply isort_in. exact Hr. }
  assert (InR : forall z, In z R <-> In z (map kz ks)) by (intros z; unfold R; apply isort_in).
  split.
  - apply both_rows_nodup; [apply merge_spec_keys_sorted; assumption|].
    rewrite Forall_forall. intros it Hit. apply (merge_spec_in L R SL SR) in Hit.
    destruct Hit as [(x & Hx & _ & ->)|[(x & Hx & _ & ->)|(y & Hy & _ & ->)]]; unfold ikey, yl, yr; cbn.
    + apply InL in Hx as (r & _ & ->). cbn. unfold rkz, kz. lia.
    + apply InL in Hx as (r & _ & ->). cbn. unfold rkz, kz. lia.
    + apply InR in Hy. apply in_map_iff in Hy as (k & <- & _). unfold kz. lia.
  - intros r. rewrite both_rows_in. split.
    + intros (k & p & Hit & F). apply (merge_spec_in L R SL SR) in Hit.
      destruct Hit as [(x & Hx & HxR & E)|[(x & _ & _ & E)|(y & _ & _ & E)]]; unfold yl, yr in E; try congruence.
      inversion E; subst. apply InL in Hx as (r' & Hr' & ->). cbn in *.
      unfold rkz, kz in F. rewrite N2Z.id in F. rewrite (find_row_in d r' Nd Hr') in F. inversion F; subst r'.
      split; [exact Hr'|]. apply InR in HxR. apply in_map_kz in HxR. exact HxR.
    + intros [Hr Hk]. exists (rkz r), 0%Z. split.
      * apply (merge_spec_in L R SL SR). left. exists (rkz r, 0%Z). repeat split.
        -- apply InL. eauto.
        -- cbn. apply InR. unfold rkz. apply in_map. exact Hk.
      * unfold rkz, kz. rewrite N2Z.id. apply find_row_in; assumption.
Qed.

Theorem query_spec c d ks : (0 < in_max c)%nat -> NoDup (map rkey d) -> NoDup ks ->
  snd (query c d ks) = Ok /\ query_ok d ks (fst (query c d ks)).
Proof.
  intros Hn Nd Nk. unfold query. destruct (length ks <=? iter_max c)%nat.
  - cbn. split; [reflexivity|apply q_chunked_ok; assumption].
  - apply q_scan_ok; assumption.
Qed.

(* ---------- grouping per pack ---------- *)
Lemma first_ids_in rows : forall seen p, In p (first_ids seen rows) <-> In p (map rpack rows) /\ ~ In p seen.
Proof.
  induction rows as [|r t IH]; intros seen p; cbn; [tauto|].
  destruct (existsb (Z.eqb (rpack r)) seen) eqn:E.
  - rewrite IH. apply existsb_exists in E as (x & Hx & He). apply Z.eqb_eq in He. subst x.
    split; [tauto|]. intros [[<-|Hin] Hns]; [contradiction|tauto].
  - assert (Hns : ~ In (rpack r) seen).
    { intros Hin. assert (existsb (Z.eqb (rpack r)) seen = true) by (apply existsb_exists; exists (rpack r); split; [exact Hin|apply Z.eqb_refl]). congruence. }
    cbn. rewrite IH. cbn. split.
    + intros [<-|(Hin & Hn)]; [tauto|]. split; [tauto|]. intros Hs. apply Hn. right. exact Hs.
    + intros [[<-|Hin] Hn]; [left; reflexivity|].
      destruct (Z.eq_dec (rpack r) p) as [<-|Hne]; [left; reflexivity|]. right. split; [exact Hin|]. intros [Heq|Hs]; auto.
Qed.

Lemma first_ids_nodup rows : forall seen, NoDup (first_ids seen rows).
Proof.
  induction rows as [|r t IH]; intros seen; cbn; [constructor|].
  destruct (existsb (Z.eqb (rpack r)) seen); [apply IH|]. constructor; [|apply IH].
  rewrite first_ids_in. intros [_ Hn]. apply Hn. left. reflexivity.
Qed.

Lemma perm_flat_map_ext {A B} (f g : A -> list B) l : (forall x, Permutation (f x) (g x)) -> Permutation (flat_map f l) (flat_map g l).
Proof. intros Hfg. induction l as [|x t IH]; cbn; [apply perm_nil|]. apply Permutation_app; [apply Hfg|exact IH]. Qed.

Lemma flat_map_nil {A B} (l : list A) : flat_map (fun _ => @nil B) l = [].
Proof. induction l; cbn; auto. Qed.

Lemma partition_step (F : Z -> list row) r ids : NoDup ids -> In (rpack r) ids ->
  Permutation (flat_map (fun p => if Z.eqb (rpack r) p then r :: F p else F p) ids) (r :: flat_map F ids).
Proof.
  induction ids as [|q qs IH]; intros Nd Hin; [destruct Hin|].
  inversion Nd as [|? ? Hni Nd']; subst. cbn [flat_map].
  destruct (Z.eqb_spec (rpack r) q) as [Heq|Hne].
  - subst q. cbn. apply perm_skip. apply Permutation_app; [apply Permutation_refl|].
    assert (E : flat_map (fun p => if Z.eqb (rpack r) p then r :: F p else F p) qs = flat_map F qs).
    { clear IH Nd Nd' Hin. induction qs as [|x t IHt]; cbn; [reflexivity|].
      destruct (Z.eqb_spec (rpack r) x) as [Heq|_]; [exfalso; apply Hni; left; symmetry; exact Heq|].
      rewrite IHt; [reflexivity|]. intros Hx. apply Hni. right. exact Hx. }
    rewrite E. apply Permutation_refl.
  - destruct Hin as [Hq|Hin]; [congruence|].
    eapply perm_trans; [apply Permutation_app; [apply Permutation_refl|apply IH; assumption]|].
    apply Permutation_sym. apply Permutation_middle.
Qed.

Lemma partition_perm rows : forall ids, NoDup ids -> (forall r, In r rows -> In (rpack r) ids) ->
  Permutation (flat_map (fun p => of_pack p rows) ids) rows.
Proof.
  induction rows as [|r t IH]; intros ids Nd Hall.
  - unfold of_pack. cbn. rewrite flat_map_nil. apply perm_nil.
  - eapply perm_trans.
    + apply (perm_flat_map_ext _ (fun p => if Z.eqb (rpack r) p then r :: of_pack p t else of_pack p t)).
      intros p. unfold of_pack. cbn. destruct (Z.eqb (rpack r) p); apply Permutation_refl.
    + eapply perm_trans; [apply partition_step; [exact Nd|apply Hall; left; reflexivity]|].
      apply perm_skip. apply IH; [exact Nd|]. intros r' Hr'. apply Hall. right. exact Hr'.
Qed.

Theorem grouped_perm rows : Permutation (grouped rows) rows.
Proof.
  unfold grouped. eapply perm_trans.
  - apply (perm_flat_map_ext _ (fun p => of_pack p rows)). intros p. unfold group. apply isort_perm.
  - apply partition_perm; [apply first_ids_nodup|]. intros r Hr. apply first_ids_in. split; [apply in_map; exact Hr|intros []].
Qed.

(* C18 / one file at a time: the packed results are one contiguous run per pack, each run in offset order *)
Theorem grouped_runs rows :
  NoDup (first_ids [] rows) /\
  grouped rows = flat_map (group rows) (first_ids [] rows) /\
  forall p, Forall (fun r => rpack r = p) (group rows p) /\
            Sorted (fun a b => (roff a <= roff b)%nat) (group rows p).
Proof.
  split; [apply first_ids_nodup|]. split; [reflexivity|]. intros p. split.
  - rewrite Forall_forall. intros r Hr. unfold group in Hr. apply isort_in in Hr. unfold of_pack in Hr.
    apply filter_In in Hr as [_ Hr]. apply Z.eqb_eq in Hr. exact Hr.
  - unfold group. pose proof (isort_sorted_le (fun r => Z.of_nat (roff r)) (of_pack p rows)) as Hs.
    induction Hs as [|a l Hl IHl Hhd]; constructor; [exact IHl|].
    destruct Hhd as [|b l' Hab]; constructor. unfold le_f in Hab. lia.
Qed.

(* ---------- the generator ---------- *)
Lemma in_keys_iff d ks rows k : NoDup (map rkey d) -> query_ok d ks rows -> In k ks ->
  (In k (map rkey rows) <-> exists r, find_row d k = Some r).
Proof.
  intros Nd (_ & Hin) Hk. split.
  - intros Hi. apply in_map_iff in Hi as (r & <- & Hr). apply Hin in Hr as [Hr _]. exists r. apply find_row_in; assumption.
  - intros (r & F). apply find_row_some in F as [Hr <-]. apply in_map. apply Hin. auto.
Qed.

Lemma in_packed_grouped rows f : In f (map FPacked (grouped rows)) <-> exists r, In r rows /\ f = FPacked r.
Proof.
  rewrite in_map_iff. split.
  - intros (r & <- & Hr). exists r. split; [|reflexivity]. eapply Permutation_in; [apply grouped_perm|exact Hr].
  - intros (r & Hr & ->). exists r. split; [reflexivity|]. eapply Permutation_in; [apply Permutation_sym, grouped_perm|exact Hr].
Qed.

Lemma fkey_packed_grouped rows : Permutation (map fkey (map FPacked (grouped rows))) (map rkey rows).
Proof. rewrite map_map. cbn. apply Permutation_map. apply grouped_perm. Qed.

Definition wanted (skip : bool) (f : found) : bool := negb (skip && is_missing f).

Section Gen.
Variables (c : lcfg) (skip : bool) (d1 : list row) (ls : list (key * nat)) (d2 : list row) (ks : list key).
Hypothesis Hn : (0 < in_max c)%nat.
Hypothesis Nd1 : NoDup (map rkey d1).
Hypothesis Nd2 : NoDup (map rkey d2).
Hypothesis Nk : NoDup ks.

Let rows1 := fst (query c d1 ks).
Let rest := filter (fun k => negb (mem k (map rkey rows1))) ks.
Let loose_found := flat_map (fun k => match loose_size ls k with Some sz => [FLoose k sz] | None => [] end) rest.
Let notfound := filter (fun k => match loose_size ls k with None => true | Some _ => false end) rest.
Let rows2 := fst (query c d2 notfound).
Let really := filter (fun k => negb (mem k (map rkey rows2))) notfound.
Let full := map FPacked (grouped rows1) ++ loose_found ++ map FPacked (grouped rows2) ++ (if skip then [] else map FMissing really).

Lemma Q1 : query_ok d1 ks rows1. Proof. apply query_spec; assumption. Qed.

Lemma rest_in k : In k rest <-> In k ks /\ find_row d1 k = None.
Proof.
  unfold rest. rewrite filter_In, negb_true_iff, mem_false. split.
  - intros [Hk Hni]. split; [exact Hk|]. destruct (find_row d1 k) as [r|] eqn:F; [|reflexivity].
    exfalso. apply Hni. apply (in_keys_iff d1 ks rows1 k Nd1 Q1 Hk). eauto.
  - intros [Hk F]. split; [exact Hk|]. intros Hi. apply (in_keys_iff d1 ks rows1 k Nd1 Q1 Hk) in Hi as (r & F'). congruence.
Qed.

Lemma N_rest : NoDup rest. Proof. apply NoDup_filter. exact Nk. Qed.
Lemma N_notfound : NoDup notfound. Proof. apply NoDup_filter. exact N_rest. Qed.
Lemma Q2 : query_ok d2 notfound rows2. Proof. apply query_spec; [assumption|assumption|exact N_notfound]. Qed.

Lemma notfound_in k : In k notfound <-> In k ks /\ find_row d1 k = None /\ loose_size ls k = None.
Proof.
  unfold notfound. rewrite filter_In, rest_in. destruct (loose_size ls k); split; intros; try tauto; try (intuition congruence).
Qed.

Lemma really_in k : In k really <-> In k notfound /\ find_row d2 k = None.
Proof.
  unfold really. rewrite filter_In, negb_true_iff, mem_false. split.
  - intros [Hk Hni]. split; [exact Hk|]. destruct (find_row d2 k) as [r|] eqn:F; [|reflexivity].
    exfalso. apply Hni. apply (in_keys_iff d2 notfound rows2 k Nd2 Q2 Hk). eauto.
  - intros [Hk F]. split; [exact Hk|]. intros Hi. apply (in_keys_iff d2 notfound rows2 k Nd2 Q2 Hk) in Hi as (r & F'). congruence.
Qed.

Lemma loose_found_in f : In f loose_found <-> exists k sz, In k rest /\ loose_size ls k = Some sz /\ f = FLoose k sz.
Proof.
  unfold loose_found. rewrite in_flat_map. split.
  - intros (k & Hk & Hf). destruct (loose_size ls k) as [sz|] eqn:E; [|destruct Hf]. destruct Hf as [<-|[]]. exists k, sz. auto.
  - intros (k & sz & Hk & E & ->). exists k. split; [exact Hk|]. rewrite E. left. reflexivity.
Qed.

Lemma loose_found_keys : map fkey loose_found = filter (fun k => match loose_size ls k with None => false | Some _ => true end) rest.
Proof.
  unfold loose_found. induction rest as [|k t IH]; cbn; [reflexivity|].
  destruct (loose_size ls k); cbn; rewrite IH; reflexivity.
Qed.

Lemma full_in f : In f full <-> exists k, In k ks /\ f = lookup1 d1 ls d2 k /\ wanted skip f = true.
Proof.
  unfold full. rewrite !in_app_iff, !in_packed_grouped, loose_found_in. unfold lookup1, wanted. split.
  - intros [(r & Hr & ->)|[(k & sz & Hk & E & ->)|[(r & Hr & ->)|Hm]]].
    + apply Q1 in Hr as [Hr Hk]. exists (rkey r). rewrite (find_row_in d1 r Nd1 Hr). cbn. rewrite andb_false_r. auto.
    + apply rest_in in Hk as [Hk F]. exists k. rewrite F, E. cbn. rewrite andb_false_r. auto.
    + apply Q2 in Hr as [Hr Hk]. apply notfound_in in Hk as (Hk & F & E). exists (rkey r).
      rewrite F, E, (find_row_in d2 r Nd2 Hr). cbn. rewrite andb_false_r. auto.
    + destruct skip; [destruct Hm|]. apply in_map_iff in Hm as (k & <- & Hk). apply really_in in Hk as [Hk F2].
      apply notfound_in in Hk as (Hk & F & E). exists k. rewrite F, E, F2. cbn. auto.
  - intros (k & Hk & -> & Hw).
    destruct (find_row d1 k) as [r|] eqn:F1.
    + left. exists r. split; [|reflexivity]. apply find_row_some in F1 as [Hr <-]. apply Q1. auto.
    + destruct (loose_size ls k) as [sz|] eqn:E.
      * right. left. exists k, sz. rewrite rest_in. auto.
      * assert (Hnf : In k notfound) by (apply notfound_in; auto).
        destruct (find_row d2 k) as [r|] eqn:F2.
        -- right. right. left. exists r. split; [|reflexivity]. apply find_row_some in F2 as [Hr <-]. apply Q2. auto.
        -- right. right. right. destruct skip; [cbn in Hw; discriminate|].
           apply in_map. apply really_in. auto.
Qed.

Lemma full_nodup : NoDup (map fkey full).
Proof.
  unfold full. rewrite !map_app.
  assert (K1 : forall k, In k (map fkey (map FPacked (grouped rows1))) -> In k ks /\ exists r, find_row d1 k = Some r).
  { intros k Hk. eapply Permutation_in in Hk; [|apply fkey_packed_grouped].
    apply in_map_iff in Hk as (r & <- & Hr). apply Q1 in Hr as [Hr Hk]. split; [exact Hk|]. exists r. apply find_row_in; assumption. }
  assert (K2 : forall k, In k (map fkey loose_found) -> In k rest /\ exists sz, loose_size ls k = Some sz).
  { intros k Hk. rewrite loose_found_keys in Hk. apply filter_In in Hk as [Hk E]. split; [exact Hk|].
    destruct (loose_size ls k) as [sz|]; [eauto|discriminate]. }
  assert (K3 : forall k, In k (map fkey (map FPacked (grouped rows2))) -> In k notfound /\ exists r, find_row d2 k = Some r).
  { intros k Hk. eapply Permutation_in in Hk; [|apply fkey_packed_grouped].
    apply in_map_iff in Hk as (r & <- & Hr). apply Q2 in Hr as [Hr Hk]. split; [exact Hk|]. exists r. apply find_row_in; assumption. }
  assert (K4 : forall k, In k (map fkey (if skip then [] else map FMissing really)) -> In k really).
  { intros k Hk. destruct skip; [destruct Hk|]. rewrite map_map in Hk. cbn in Hk. rewrite map_id in Hk. exact Hk. }
  apply NoDup_app_mk; [| apply NoDup_app_mk; [| apply NoDup_app_mk |] |].
  - eapply Permutation_NoDup; [apply Permutation_sym, fkey_packed_grouped|]. apply Q1.
  - rewrite loose_found_keys. apply NoDup_filter. exact N_rest.
  - eapply Permutation_NoDup; [apply Permutation_sym, fkey_packed_grouped|]. apply Q2.
  - destruct skip; [constructor|]. rewrite map_map. cbn. rewrite map_id. apply NoDup_filter. exact N_notfound.
  - intros k H3 H4. apply K3 in H3 as (_ & r & F). apply K4 in H4. apply really_in in H4 as [_ F']. congruence.
  - intros k H2 H34. apply K2 in H2 as (_ & sz & E). apply in_app_or in H34 as [H3|H4].
    + apply K3 in H3 as (Hk & _). apply notfound_in in Hk as (_ & _ & E'). congruence.
    + apply K4 in H4. apply really_in in H4 as [Hk _]. apply notfound_in in Hk as (_ & _ & E'). congruence.
  - intros k H1 H234. apply K1 in H1 as (_ & r & F). apply in_app_or in H234 as [H2|H34].
    + apply K2 in H2 as (Hk & _). apply rest_in in Hk as [_ F']. congruence.
    + apply in_app_or in H34 as [H3|H4].
      * apply K3 in H3 as (Hk & _). apply notfound_in in Hk as (_ & F' & _). congruence.
      * apply K4 in H4. apply really_in in H4 as [Hk _]. apply notfound_in in Hk as (_ & F' & _). congruence.
Qed.

(* the generator's output is `full`; when nothing is left to look for, the refreshed-index part is empty *)
Lemma lookup_bulk_full : fst (lookup_bulk c skip d1 ls d2 ks) = full /\ snd (lookup_bulk c skip d1 ls d2 ks) = Ok.
Proof.
  pose proof (query_spec c d1 ks Hn Nd1 Nk) as [S1 _].
  pose proof (query_spec c d2 notfound Hn Nd2 N_notfound) as [S2 _].
  assert (E1 : query c d1 ks = (rows1, Ok)).
  { unfold rows1. destruct (query c d1 ks) as [a b]. cbn [fst snd] in *. subst b. reflexivity. }
  assert (E2 : query c d2 notfound = (rows2, Ok)).
  { unfold rows2. destruct (query c d2 notfound) as [a b]. cbn [fst snd] in *. subst b. reflexivity. }
  unfold lookup_bulk. rewrite E1. cbv beta iota zeta.
  change (filter (fun k => negb (mem k (map rkey rows1))) ks) with rest.
  change (filter (fun k => match loose_size ls k with None => true | Some _ => false end) rest) with notfound.
  change (flat_map (fun k => match loose_size ls k with Some sz => [FLoose k sz] | None => [] end) rest) with loose_found.
  destruct (nil_or_cons notfound) as [En|(k0 & nf & En)].
  - rewrite En. cbn [fst snd]. split; [|reflexivity]. unfold full.
    assert (R2 : rows2 = []).
    { apply nil_of_no_in. intros r Hr. apply Q2 in Hr as [_ Hr]. rewrite En in Hr. destruct Hr. }
    assert (R3 : really = []) by (unfold really; rewrite En; reflexivity).
    rewrite R2, R3. unfold grouped. cbn. destruct skip; cbn; rewrite ?app_nil_r; reflexivity.
  - rewrite En. cbv iota. rewrite <- En. rewrite E2. cbv beta iota zeta. cbn [fst snd worst]. split; reflexivity.
Qed.

Theorem bulk_in f : In f (fst (lookup_bulk c skip d1 ls d2 ks)) <-> exists k, In k ks /\ f = lookup1 d1 ls d2 k /\ wanted skip f = true.
Proof. rewrite (proj1 lookup_bulk_full). apply full_in. Qed.

Theorem bulk_each_key_once : NoDup (map fkey (fst (lookup_bulk c skip d1 ls d2 ks))).
Proof. rewrite (proj1 lookup_bulk_full). apply full_nodup. Qed.

Theorem bulk_never_rejects : snd (lookup_bulk c skip d1 ls d2 ks) = Ok.
Proof. apply lookup_bulk_full. Qed.

Lemma fkey_lookup1 k : fkey (lookup1 d1 ls d2 k) = k.
Proof.
  unfold lookup1. destruct (find_row d1 k) as [r|] eqn:F1; [apply find_row_some in F1 as [_ F1]; exact F1|].
  destruct (loose_size ls k); [reflexivity|].
  destruct (find_row d2 k) as [r|] eqn:F2; [apply find_row_some in F2 as [_ F2]; exact F2|reflexivity].
Qed.

(* the statement of C16 for the lookup generator: the bulk answer is the single-key answer of every distinct key, as a multiset *)
Theorem bulk_is_map_single :
  Permutation (fst (lookup_bulk c skip d1 ls d2 ks)) (filter (wanted skip) (map (lookup1 d1 ls d2) ks)).
Proof.
  apply NoDup_Permutation.
  - eapply NoDup_map_inv. apply bulk_each_key_once.
  - apply NoDup_filter. apply (NoDup_map_inv fkey). rewrite map_map.
    rewrite (map_ext _ (fun k => k) fkey_lookup1), map_id. exact Nk.
  - intros f. rewrite bulk_in, filter_In, in_map_iff. split.
    + intros (k & Hk & -> & Hw). split; [exists k; auto|exact Hw].
    + intros [(k & <- & Hk) Hw]. exists k. auto.
Qed.
End Gen.

(* independence of the thresholds (hence of the strategy the count triggers) *)
Theorem bulk_strategy_independent c c' skip d1 ls d2 ks :
  (0 < in_max c)%nat -> (0 < in_max c')%nat -> NoDup (map rkey d1) -> NoDup (map rkey d2) -> NoDup ks ->
  Permutation (fst (lookup_bulk c skip d1 ls d2 ks)) (fst (lookup_bulk c' skip d1 ls d2 ks)).
Proof.
  intros. eapply perm_trans; [apply bulk_is_map_single; assumption|]. apply Permutation_sym. apply bulk_is_map_single; assumption.
Qed.

(* any request list: repetitions and order do not matter, every distinct key is answered once *)
Theorem bulk_any_request c skip d1 ls d2 req :
  (0 < in_max c)%nat -> NoDup (map rkey d1) -> NoDup (map rkey d2) ->
  let out := fst (lookup_bulk c skip d1 ls d2 (dedup req)) in
  NoDup (map fkey out) /\
  (forall k, In k (map fkey out) -> In k req) /\
  (skip = false -> forall k, In k req -> In k (map fkey out)) /\
  (forall f, In f out -> f = lookup1 d1 ls d2 (fkey f)).
Proof.
  intros Hn N1 N2 out. pose proof (dedup_nodup req) as Nk. repeat split.
  - apply bulk_each_key_once; assumption.
  - intros k Hk. apply in_map_iff in Hk as (f & <- & Hf). apply bulk_in in Hf as (k & Hk & -> & _); try assumption.
    rewrite fkey_lookup1. apply dedup_in. exact Hk.
  - intros -> k Hk. apply in_map_iff. exists (lookup1 d1 ls d2 k). split; [apply fkey_lookup1|].
    apply bulk_in; try assumption. exists k. split; [apply dedup_in; exact Hk|]. split; reflexivity.
  - intros f Hf. apply bulk_in in Hf as (k & Hk & -> & _); try assumption. rewrite fkey_lookup1. reflexivity.
Qed.
