(* Store.v - the on-disk state of a container (world), handle-local state, the event alphabet of the
   durability projection (Appendix A of DESIGN.md) with its semantics, crash and power-loss projections,
   the C03 invariant as a Prop and as a boolean checker, and the abstraction to a key -> bytes map.
   No proofs here. *)
From Coq Require Import List ZArith NArith Arith Bool Lia.
From DOS Require Import Base.
Import ListNotations.

Definition key := N.

(* ---- association lists ---- *)
Section Assoc.
Context {K V : Type}.
Variable eqb : K -> K -> bool.
Fixpoint aget (l : list (K * V)) (k : K) : option V :=
  match l with [] => None | (k', v) :: t => if eqb k k' then Some v else aget t k end.
Fixpoint adel (l : list (K * V)) (k : K) : list (K * V) :=
  match l with [] => [] | (k', v) :: t => if eqb k k' then adel t k else (k', v) :: adel t k end.
Definition aset (l : list (K * V)) (k : K) (v : V) : list (K * V) := (k, v) :: adel l k.
End Assoc.

Record file := mkFile { fdata : bytes; fsynced : bytes }.
Record row := mkRow { rkey : key; rpack : Z; roff : nat; rlen : nat; rcomp : bool; rsize : nat }.

Record world := mkWorld {
  loose : list (key * file);
  packs : list (Z * file);
  sandbox : list (nat * file);
  db : list row                  (* committed index rows, oldest first *)
}.

Inductive hid := HSand (n : nat) | HPack (id : Z).
Definition hid_eqb (a b : hid) : bool :=
  match a, b with HSand x, HSand y => Nat.eqb x y | HPack x, HPack y => Z.eqb x y | _, _ => false end.

Inductive sqlop :=
| SInsert (ignore : bool) (rows : list row)     (* INSERT [OR IGNORE] *)
| SDelete (keys : list key)                     (* DELETE WHERE hashkey IN keys *)
| SUpdateRows (rows : list row)                 (* bulk_update_mappings: rows replaced by primary key (= by key) *)
| SRepoint (old new : Z).                       (* UPDATE SET pack_id = new WHERE pack_id = old *)

Record local := mkLocal {
  bufs : list (hid * bytes);     (* user-space buffers of the open write handles *)
  pending : list sqlop           (* statements of the open transaction, oldest first *)
}.
Definition local0 : local := {| bufs := []; pending := [] |}.

Inductive event :=
| EOpenSand (n : nat)                 (* open(sandbox/<uuid>, 'wb') *)
| EOpenPack (id : Z)                  (* open(packs/<id>, 'ab') : creates the file when missing *)
| EWrite (h : hid) (b : bytes)
| EFlush (h : hid)
| EFsync (h : hid)
| EClose (h : hid)
| ETruncate (id : Z) (pos : nat)      (* seek(pos); truncate() on the pack handle *)
| EPublish (n : nat) (k : key)        (* os.rename / os.replace sandbox -> loose/<key> *)
| EUnlinkSand (n : nat)
| EUnlinkLoose (k : key)
| EUnlinkPack (id : Z)
| ELinkPack (src dst : Z)
| ESql (s : sqlop)
| ECommit
| ERollback.                          (* session closed / engine disposed with an open transaction *)

Section Model.
Variable H : bytes -> key.
Variable inflate : bytes -> option bytes.

Definition get_pack (w : world) (id : Z) := aget Z.eqb (packs w) id.
Definition get_loose (w : world) (k : key) := aget N.eqb (loose w) k.
Definition get_sand (w : world) (n : nat) := aget Nat.eqb (sandbox w) n.
Definition get_buf (l : local) (h : hid) := aget hid_eqb (bufs l) h.

Definition set_packs (w : world) p := {| loose := loose w; packs := p; sandbox := sandbox w; db := db w |}.
Definition set_loose (w : world) x := {| loose := x; packs := packs w; sandbox := sandbox w; db := db w |}.
Definition set_sandbox (w : world) x := {| loose := loose w; packs := packs w; sandbox := x; db := db w |}.
Definition set_db (w : world) x := {| loose := loose w; packs := packs w; sandbox := sandbox w; db := x |}.
Definition set_bufs (l : local) x := {| bufs := x; pending := pending l |}.
Definition set_pending (l : local) x := {| bufs := bufs l; pending := x |}.

Definition get_file (w : world) (h : hid) : option file :=
  match h with HSand n => get_sand w n | HPack id => get_pack w id end.
Definition put_file (w : world) (h : hid) (f : file) : world :=
  match h with
  | HSand n => set_sandbox w (aset Nat.eqb (sandbox w) n f)
  | HPack id => set_packs w (aset Z.eqb (packs w) id f)
  end.

(* ---- SQL ---- *)
Definition has_key (d : list row) (k : key) : bool := existsb (fun r => N.eqb (rkey r) k) d.
Fixpoint insert_rows (ignore : bool) (d : list row) (rs : list row) : list row :=
  match rs with
  | [] => d
  | r :: t => if has_key d (rkey r) then insert_rows ignore d t   (* UNIQUE: skipped (IGNORE); a plain INSERT would raise *)
              else insert_rows ignore (d ++ [r]) t
  end.
Definition find_row (rs : list row) (k : key) : option row := find (fun r => N.eqb (rkey r) k) rs.
Definition apply_sql (d : list row) (s : sqlop) : list row :=
  match s with
  | SInsert ig rs => insert_rows ig d rs
  | SDelete ks => filter (fun r => negb (existsb (N.eqb (rkey r)) ks)) d
  | SUpdateRows rs => map (fun r => match find_row rs (rkey r) with Some r' => r' | None => r end) d
  | SRepoint o n => map (fun r => if Z.eqb (rpack r) o then mkRow (rkey r) n (roff r) (rlen r) (rcomp r) (rsize r) else r) d
  end.

(* ---- event semantics ---- *)
Definition flush_h (w : world) (l : local) (h : hid) : world * local :=
  match get_buf l h, get_file w h with
  | Some b, Some f => (put_file w h (mkFile (fdata f ++ b) (fsynced f)), set_bufs l (aset hid_eqb (bufs l) h []))
  | _, _ => (w, l)
  end.

Definition apply_ev (s : world * local) (e : event) : world * local :=
  let '(w, l) := s in
  match e with
  | EOpenSand n => (put_file w (HSand n) (mkFile [] []), set_bufs l (aset hid_eqb (bufs l) (HSand n) []))
  | EOpenPack id =>
      let w' := match get_pack w id with Some _ => w | None => put_file w (HPack id) (mkFile [] []) end in
      (w', set_bufs l (aset hid_eqb (bufs l) (HPack id) []))
  | EWrite h b =>
      match get_buf l h with
      | Some old => (w, set_bufs l (aset hid_eqb (bufs l) h (old ++ b)))
      | None => (w, l)
      end
  | EFlush h => flush_h w l h
  | EFsync h =>
      match get_file w h with
      | Some f => (put_file w h (mkFile (fdata f) (fdata f)), l)
      | None => (w, l)
      end
  | EClose h =>
      let '(w', l') := flush_h w l h in (w', set_bufs l' (adel hid_eqb (bufs l') h))
  | ETruncate id pos =>
      let '(w', l') := flush_h w l (HPack id) in
      match get_pack w' id with
      | Some f => (put_file w' (HPack id) (mkFile (firstn pos (fdata f)) (fsynced f)), l')
      | None => (w', l')
      end
  | EPublish n k =>
      match get_sand w n with
      | Some f => (set_loose (set_sandbox w (adel Nat.eqb (sandbox w) n)) (aset N.eqb (loose w) k f), l)
      | None => (w, l)
      end
  | EUnlinkSand n => (set_sandbox w (adel Nat.eqb (sandbox w) n), l)
  | EUnlinkLoose k => (set_loose w (adel N.eqb (loose w) k), l)
  | EUnlinkPack id => (set_packs w (adel Z.eqb (packs w) id), l)
  | ELinkPack src dst =>
      match get_pack w src, get_pack w dst with
      | Some f, None => (put_file w (HPack dst) f, l)
      | _, _ => (w, l)
      end
  | ESql s => (w, set_pending l (pending l ++ [s]))
  | ECommit => (set_db w (fold_left apply_sql (pending l) (db w)), set_pending l [])
  | ERollback => (w, set_pending l [])
  end.

Definition run_events (s : world * local) (tr : list event) : world * local := fold_left apply_ev tr s.

(* a process crash drops the handle-local state: user-space buffers and the open transaction *)
Definition crash (s : world * local) : world := fst s.

(* power loss: every regular file falls back to its content at its last fsync; directory entries and the
   committed index survive *)
Definition pl_file (f : file) : file := mkFile (fsynced f) (fsynced f).
Definition power_loss (w : world) : world :=
  {| loose := map (fun kf => (fst kf, pl_file (snd kf))) (loose w);
     packs := map (fun kf => (fst kf, pl_file (snd kf))) (packs w);
     sandbox := map (fun kf => (fst kf, pl_file (snd kf))) (sandbox w);
     db := db w |}.

(* ---- C03 invariant ---- *)
Definition decode (b : bytes) (comp : bool) : option bytes := if comp then inflate b else Some b.

Definition row_ok (w : world) (r : row) : Prop :=
  exists f c, get_pack w (rpack r) = Some f /\ roff r + rlen r <= length (fdata f) /\
    decode (slice (fdata f) (roff r) (rlen r)) (rcomp r) = Some c /\ H c = rkey r /\ length c = rsize r /\
    (rcomp r = false -> rlen r = rsize r).

Definition disjoint (a b : row) : Prop := rpack a <> rpack b \/ roff a + rlen a <= roff b \/ roff b + rlen b <= roff a.

Fixpoint pairwise {A} (P : A -> A -> Prop) (l : list A) : Prop :=
  match l with [] => True | x :: t => Forall (P x) t /\ pairwise P t end.

Definition Inv (w : world) : Prop :=
  NoDup (map rkey (db w)) /\
  Forall (row_ok w) (db w) /\
  pairwise disjoint (db w) /\
  Forall (fun kf => H (fdata (snd kf)) = fst kf) (loose w).

(* boolean checker *)
Definition bytes_eqb (a b : bytes) : bool := if list_eq_dec N.eq_dec a b then true else false.
Definition row_ok_b (w : world) (r : row) : bool :=
  match get_pack w (rpack r) with
  | None => false
  | Some f =>
      (roff r + rlen r <=? length (fdata f)) &&
      match decode (slice (fdata f) (roff r) (rlen r)) (rcomp r) with
      | None => false
      | Some c => N.eqb (H c) (rkey r) && Nat.eqb (length c) (rsize r) && (rcomp r || Nat.eqb (rlen r) (rsize r))
      end
  end.
Definition disjoint_b (a b : row) : bool :=
  negb (Z.eqb (rpack a) (rpack b)) || (roff a + rlen a <=? roff b) || (roff b + rlen b <=? roff a).
Fixpoint pairwise_b {A} (p : A -> A -> bool) (l : list A) : bool :=
  match l with [] => true | x :: t => forallb (p x) t && pairwise_b p t end.
Fixpoint nodup_b (l : list key) : bool :=
  match l with [] => true | x :: t => negb (existsb (N.eqb x) t) && nodup_b t end.
Definition inv_b (w : world) : bool :=
  nodup_b (map rkey (db w)) && forallb (row_ok_b w) (db w) && pairwise_b disjoint_b (db w) &&
  forallb (fun kf => N.eqb (H (fdata (snd kf))) (fst kf)) (loose w).

(* ---- abstraction: what a key reads back as, without the library ---- *)
Definition read_row (w : world) (r : row) : option bytes :=
  match get_pack w (rpack r) with
  | Some f => if roff r + rlen r <=? length (fdata f) then decode (slice (fdata f) (roff r) (rlen r)) (rcomp r) else None
  | None => None
  end.
Definition stored (w : world) (k : key) : option bytes :=
  match find_row (db w) k with
  | Some r => read_row w r
  | None => match get_loose w k with Some f => Some (fdata f) | None => None end
  end.
Definition opt_bytes_eqb (a b : option bytes) : bool :=
  match a, b with Some x, Some y => bytes_eqb x y | None, None => true | _, _ => false end.
(* every (k, c) in `truth` not in `targets` is still stored with exactly its bytes *)
Definition preserved_b (truth : list (key * bytes)) (targets : list key) (w : world) : bool :=
  forallb (fun kc => existsb (N.eqb (fst kc)) targets || opt_bytes_eqb (stored w (fst kc)) (Some (snd kc))) truth.

(* the monitor: the invariant and preservation at EVERY crash point of a trace, and under power loss *)
Fixpoint monitor (pl : bool) (truth : list (key * bytes)) (targets : list key) (s : world * local) (tr : list event) : bool :=
  let w := if pl then power_loss (crash s) else crash s in
  inv_b w && preserved_b truth targets w &&
  match tr with
  | [] => true
  | e :: t => monitor pl truth targets (apply_ev s e) t
  end.

End Model.
