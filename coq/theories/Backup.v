(* Backup.v - backup_utils.backup_container as a RUN: the steps the backup takes, each at an instant of its own, interleaved
   with whatever the other clients do (any monotone steps: loose writers, the packer with or without cleaning, direct-to-pack appends).

     1. rsync of loose/ : the file list is taken (world wl), then every listed entry is transferred at its own instant (an entry
        that has vanished meanwhile - packed and cleaned - is skipped)
     2. the index is dumped by the SQLite online-backup API: ONE atomic snapshot (world w2)
     3. rsync of packs/ : the list is taken (world wp), every listed pack is transferred at its own instant
     4. everything else (configuration; the live index and its side files are excluded: Generated.BACKUP_EXCLUDES)

   Theorems (all runs, all interleavings): the backup is a valid container (the C03 invariant holds of it, hence validate() is clean
   on it and every key it exposes reads back as bytes with that digest) and every object stored when the backup started reads back
   from it with exactly its bytes. *)
From Coq Require Import List ZArith NArith Arith Bool Lia.
From DOS Require Import Base Store StoreProofs StoreLemmas Mono MonoStep.
Import ListNotations.

Section Copy.
Context {K V : Type}.
Variable eqb : K -> K -> bool.
Hypothesis eqb_spec : forall a b, reflect (a = b) (eqb a b).
Variable get : world -> K -> option V.

Definition copy_step (acc : list (K * V)) (kw : K * world) : list (K * V) :=
  match get (snd kw) (fst kw) with Some f => aset eqb acc (fst kw) f | None => acc end.
Definition copy_all (cs : list (K * world)) : list (K * V) := fold_left copy_step cs [].

Lemma find_none_notin (cs : list (K * world)) k : ~ In k (map fst cs) -> find (fun kw => eqb k (fst kw)) cs = None.
Proof.
  induction cs as [|[a w] t IH]; cbn; intros Hn; [reflexivity|].
  destruct (eqb_spec k a) as [->|Hne]; [exfalso; apply Hn; left; reflexivity|]. apply IH. intros Hin. apply Hn. right. exact Hin.
Qed.

Lemma copy_fold_get (cs : list (K * world)) : forall acc k, NoDup (map fst cs) ->
  aget eqb (fold_left copy_step cs acc) k =
  match find (fun kw => eqb k (fst kw)) cs with
  | Some kw => match get (snd kw) k with Some f => Some f | None => aget eqb acc k end
  | None => aget eqb acc k
  end.
Proof.
  induction cs as [|[a w] t IH]; intros acc k Hnd; cbn [fold_left find]; [reflexivity|].
  cbn in Hnd. inversion Hnd as [|? ? Hni Hnd']; subst. rewrite (IH _ k Hnd'). cbn [fst snd].
  destruct (eqb_spec k a) as [->|Hne].
  - rewrite (find_none_notin t a Hni). unfold copy_step. cbn [fst snd].
    destruct (get w a) as [f|]; [apply (g_aset_eq eqb eqb_spec)|reflexivity].
  - assert (E : aget eqb (copy_step acc (a, w)) k = aget eqb acc k).
    { unfold copy_step. cbn [fst snd]. destruct (get w a); [apply (g_aset_neq eqb eqb_spec); exact Hne|reflexivity]. }
    rewrite E. reflexivity.
Qed.

Lemma copy_all_get cs k : NoDup (map fst cs) ->
  aget eqb (copy_all cs) k = match find (fun kw => eqb k (fst kw)) cs with Some kw => get (snd kw) k | None => None end.
Proof.
  intros Hnd. unfold copy_all. rewrite (copy_fold_get cs [] k Hnd). cbn.
  destruct (find _ cs) as [kw|]; [destruct (get (snd kw) k); reflexivity|reflexivity].
Qed.

Lemma find_copy_some (cs : list (K * world)) k kw : find (fun kw => eqb k (fst kw)) cs = Some kw -> In kw cs /\ fst kw = k.
Proof.
  intros Hf. apply find_some in Hf as [Hin He]. split; [exact Hin|]. destruct (eqb_spec k (fst kw)); [auto|discriminate].
Qed.

Lemma find_copy_none (cs : list (K * world)) k : find (fun kw => eqb k (fst kw)) cs = None -> ~ In k (map fst cs).
Proof.
  intros Hf Hin. apply in_map_iff in Hin as (kw & Hk & Hin). eapply find_none in Hf; [|exact Hin]. cbn in Hf.
  destruct (eqb_spec k (fst kw)); [discriminate|congruence].
Qed.

(* every entry of the copy comes from one of the copied worlds *)
Lemma adel_Forall (P : K * V -> Prop) l k : Forall P l -> Forall P (adel eqb l k).
Proof.
  induction l as [|[a v] t IH]; cbn; intros Hf; [constructor|]. inversion Hf; subst.
  destruct (eqb k a); [apply IH; assumption|constructor; [assumption|apply IH; assumption]].
Qed.

Lemma copy_fold_Forall (P : K * V -> Prop) (cs : list (K * world)) : forall acc,
  (forall kw f, In kw cs -> get (snd kw) (fst kw) = Some f -> P (fst kw, f)) -> Forall P acc -> Forall P (fold_left copy_step cs acc).
Proof.
  induction cs as [|[a w] t IH]; intros acc Hall Hacc; cbn [fold_left]; [exact Hacc|].
  apply IH; [intros kw f Hin; apply Hall; right; exact Hin|].
  unfold copy_step. cbn [fst snd]. destruct (get w a) as [f|] eqn:E; [|exact Hacc].
  unfold aset. constructor; [apply (Hall (a, w) f); [left; reflexivity|exact E]|apply adel_Forall; exact Hacc].
Qed.
End Copy.

(* the order of the steps of backup_container, as the run below assumes it (compared with the observed order of the rsync calls and
   of the index dump on every run of the C15 check) *)
Inductive phase := PhLoose | PhDump | PhCopyDump | PhPacks | PhRest.
Definition backup_phases : list phase := [PhLoose; PhDump; PhCopyDump; PhPacks; PhRest].

Section Backup.
Variable H : bytes -> key.
Variable inflate : bytes -> option bytes.
Hypothesis H_inj : forall a b, H a = H b -> a = b.
Notation Inv := (Inv H inflate).
Notation stored := (stored inflate).

Record run := mkRun {
  wl : world;                         (* the loose file list is taken *)
  lcopies : list (key * world);       (* each listed entry is transferred at its own instant *)
  w2 : world;                         (* the index is dumped *)
  wp : world;                         (* the pack list is taken *)
  pcopies : list (Z * world) }.       (* each listed pack is transferred at its own instant *)

Definition run_worlds (r : run) : list world := wl r :: map snd (lcopies r) ++ [w2 r; wp r] ++ map snd (pcopies r).

Definition backup_of (r : run) : world :=
  {| loose := copy_all N.eqb get_loose (lcopies r);
     packs := copy_all Z.eqb get_pack (pcopies r);
     sandbox := [];
     db := db (w2 r) |}.

(* the live container: every instant satisfies the invariant and follows the previous one by monotone steps *)
Fixpoint chain (w : world) (ws : list world) : Prop :=
  match ws with [] => True | x :: t => Mono w x /\ Inv x /\ chain x t end.

Definition valid_run (w0 : world) (r : run) : Prop :=
  chain w0 (run_worlds r) /\
  (forall k, get_loose (wl r) k <> None -> In k (map fst (lcopies r))) /\ NoDup (map fst (lcopies r)) /\   (* rsync transfers every listed entry, once *)
  (forall id, get_pack (wp r) id <> None -> In id (map fst (pcopies r))) /\ NoDup (map fst (pcopies r)).

Lemma chain_in w ws x : chain w ws -> In x ws -> Mono w x /\ Inv x.
Proof.
  revert w. induction ws as [|y t IH]; intros w Hc Hin; [destruct Hin|].
  destruct Hc as (M & I & Hc). destruct Hin as [<-|Hin]; [auto|].
  destruct (IH y Hc Hin) as [M' I']. split; [eapply Mono_trans; eauto|exact I'].
Qed.

Lemma chain_split w a x b y : chain w (a ++ x :: b) -> In y b -> Mono x y /\ Inv y.
Proof.
  revert w. induction a as [|z a IH]; intros w Hc Hin.
  - cbn in Hc. destruct Hc as (_ & _ & Hc). eapply chain_in; eauto.
  - cbn in Hc. destruct Hc as (_ & _ & Hc). eapply IH; eauto.
Qed.

Section Run.
Variables (w0 : world) (r : run).
Hypothesis I0 : Inv w0.
Hypothesis V : valid_run w0 r.

Let Hchain : chain w0 (run_worlds r) := proj1 V.

Lemma w2_in : In (w2 r) (run_worlds r).
Proof. unfold run_worlds. right. apply in_or_app. right. left. reflexivity. Qed.
Lemma wl_ok : Mono w0 (wl r) /\ Inv (wl r).
Proof. apply (chain_in w0 (run_worlds r)); [exact Hchain|left; reflexivity]. Qed.
Lemma w2_ok : Mono w0 (w2 r) /\ Inv (w2 r).
Proof. apply (chain_in w0 (run_worlds r)); [exact Hchain|exact w2_in]. Qed.
Lemma wl_w2 : Mono (wl r) (w2 r).
Proof.
  pose proof Hchain as Hc. unfold run_worlds in Hc. change (wl r :: ?x) with ([] ++ wl r :: x) in Hc.
  apply (chain_split _ _ _ _ (w2 r)) in Hc; [apply Hc|]. apply in_or_app. right. left. reflexivity.
Qed.

Lemma lcopy_ok k wk : In (k, wk) (lcopies r) -> Mono w0 wk /\ Inv wk /\ Mono wk (w2 r).
Proof.
  intros Hin. assert (Hw : In wk (map snd (lcopies r))) by (apply in_map_iff; exists (k, wk); auto).
  destruct (in_split _ _ Hw) as (a & b & E).
  assert (Hin' : In wk (run_worlds r)) by (unfold run_worlds; right; apply in_or_app; left; exact Hw).
  destruct (chain_in _ _ _ Hchain Hin') as [M I]. split; [exact M|split; [exact I|]].
  pose proof Hchain as Hc. unfold run_worlds in Hc. rewrite E in Hc.
  replace (wl r :: (a ++ wk :: b) ++ [w2 r; wp r] ++ map snd (pcopies r))
    with ((wl r :: a) ++ wk :: (b ++ [w2 r; wp r] ++ map snd (pcopies r))) in Hc by (cbn; rewrite <- app_assoc; reflexivity).
  apply (chain_split _ _ _ _ (w2 r)) in Hc; [apply Hc|]. apply in_or_app. right. left. reflexivity.
Qed.

Lemma w2_wp : Mono (w2 r) (wp r) /\ Inv (wp r).
Proof.
  pose proof Hchain as Hc. unfold run_worlds in Hc.
  replace (wl r :: map snd (lcopies r) ++ [w2 r; wp r] ++ map snd (pcopies r))
    with ((wl r :: map snd (lcopies r)) ++ w2 r :: (wp r :: map snd (pcopies r))) in Hc by reflexivity.
  apply (chain_split _ _ _ _ (wp r)) in Hc; [exact Hc|left; reflexivity].
Qed.

Lemma pcopy_ok id wi : In (id, wi) (pcopies r) -> Mono (wp r) wi /\ Inv wi.
Proof.
  intros Hin. assert (Hw : In wi (map snd (pcopies r))) by (apply in_map_iff; exists (id, wi); auto).
  pose proof Hchain as Hc. unfold run_worlds in Hc.
  replace (wl r :: map snd (lcopies r) ++ [w2 r; wp r] ++ map snd (pcopies r))
    with ((wl r :: map snd (lcopies r) ++ [w2 r]) ++ wp r :: map snd (pcopies r)) in Hc
    by (cbn; rewrite <- app_assoc; reflexivity).
  apply (chain_split _ _ _ _ wi) in Hc; [exact Hc|exact Hw].
Qed.

(* each loose entry of the backup is the entry of ONE instant between the start and the index dump *)
Lemma backup_loose k : exists wk, Inv wk /\ Mono w0 wk /\ Mono wk (w2 r) /\ get_loose (backup_of r) k = get_loose wk k.
Proof.
  pose proof V as (_ & Hcov & Hnd & _).
  unfold get_loose at 1. unfold backup_of. cbn [loose].
  rewrite (copy_all_get N.eqb N.eqb_spec get_loose (lcopies r) k Hnd).
  destruct (find (fun kw => N.eqb k (fst kw)) (lcopies r)) as [[k' wk]|] eqn:F.
  - apply (find_copy_some N.eqb N.eqb_spec) in F as [Hin Hk]. cbn in Hk. subst k'.
    destruct (lcopy_ok k wk Hin) as (M & I & M2). exists wk. cbn [snd]. auto.
  - apply (find_copy_none N.eqb N.eqb_spec) in F. exists (wl r).
    destruct wl_ok as [M I]. split; [exact I|split; [exact M|split; [exact wl_w2|]]].
    destruct (get_loose (wl r) k) eqn:E; [|reflexivity]. exfalso. apply F. apply Hcov. rewrite E. discriminate.
Qed.

(* each pack that existed when the index was dumped is in the backup and extends what it was at the dump *)
Lemma backup_packs id f : get_pack (w2 r) id = Some f -> exists f', get_pack (backup_of r) id = Some f' /\ prefix_of (fdata f) (fdata f').
Proof.
  intros Hp. pose proof V as (_ & _ & _ & Hcov & Hnd).
  destruct w2_wp as [(_ & P2 & _) _]. destruct (P2 _ _ Hp) as (f1 & Hp1 & Pf1).
  assert (Hl : In id (map fst (pcopies r))) by (apply Hcov; rewrite Hp1; discriminate).
  unfold get_pack at 1. unfold backup_of. cbn [packs].
  rewrite (copy_all_get Z.eqb Z.eqb_spec get_pack (pcopies r) id Hnd).
  destruct (find (fun kw => Z.eqb id (fst kw)) (pcopies r)) as [[id' wi]|] eqn:F.
  - apply (find_copy_some Z.eqb Z.eqb_spec) in F as [Hin Hk]. cbn in Hk. subst id'.
    destruct (pcopy_ok id wi Hin) as [(_ & Pi & _) _]. destruct (Pi _ _ Hp1) as (f2 & Hp2 & Pf2).
    exists f2. cbn [snd]. split; [exact Hp2|]. eapply prefix_trans; eauto.
  - apply (find_copy_none Z.eqb Z.eqb_spec) in F. contradiction.
Qed.

(* C15, first half: every object stored when the backup started reads back from the backup with exactly its bytes *)
Theorem backup_run_complete k c : stored w0 k = Some c -> stored (backup_of r) k = Some c.
Proof.
  intros Hs. destruct w2_ok as [_ I2].
  apply (backup_complete H inflate H_inj w0 (w2 r) (backup_of r) k c I0 I2); [reflexivity|exact backup_loose|exact backup_packs|exact Hs].
Qed.

(* C15, second half: the backup is itself a valid container *)
Theorem backup_run_is_a_valid_container : Inv (backup_of r).
Proof.
  destruct w2_ok as [_ (Hnd & Hok & Hpw & _)]. unfold Store.Inv. cbn [db backup_of]. repeat split.
  - exact Hnd.
  - rewrite Forall_forall in *. intros row Hin. destruct (Hok row Hin) as (f & c & Hp & Hle & Hd & Hh & Hsz & Hcomp).
    destruct (backup_packs _ _ Hp) as (f' & Hp' & x & Hx).
    exists f', c. split; [exact Hp'|]. rewrite Hx, app_length. split; [lia|].
    rewrite slice_app_l by lia. auto.
  - exact Hpw.
  - cbn [loose]. unfold copy_all. apply copy_fold_Forall; [|constructor].
    intros [k wk] f Hin Hg. cbn [fst snd] in *. destruct (lcopy_ok k wk Hin) as (_ & (_ & _ & _ & Hl) & _).
    rewrite Forall_forall in Hl. exact (Hl _ (get_loose_in _ _ _ Hg)).
Qed.
End Run.
End Backup.
