(* Compress.v - utils.estimate_compression as far as the stream is concerned: which positions it seeks to and where it
   leaves the stream (the compression verdict itself is an oracle).  On a stream of the length it is told (`size` = L, which the
   C03 invariant gives for uncompressed entries and loose files) every seek stays inside [0, L] - so PackedObjectReader never
   raises - the loop terminates, and the position is restored. *)
From Coq Require Import List ZArith Lia Bool.
Import ListNotations.
Open Scope Z_scope.

(* positions sought after each sample read; None = out of fuel *)
Fixpoint est (fuel : nat) (L sample maxs interval pos total : Z) (acc : list Z) : option (list Z) :=
  if total >=? maxs then Some acc else
  match fuel with
  | O => None
  | S f =>
      let k := Z.min sample (Z.max 0 (L - pos)) in           (* chunk = stream.read(sample_size) *)
      if k =? 0 then Some acc else                            (* EOF *)
      let tell := pos + k in
      let d := Z.min (L - tell) (Z.max 0 (interval - k)) in   (* min(max_seek, max(0, sample_interval - len(chunk))) *)
      est f L sample maxs interval (tell + d) (total + k) (acc ++ [tell + d])
  end.

(* estimate_compression(stream, size): tell, seek(0), loop, seek(initial_pos); returns (seek targets, final position) *)
Definition estimate (L size sample maxs : Z) (pos0 : Z) : option (list Z * Z) :=
  if size =? 0 then Some ([], pos0) else
  let interval := size / (maxs / sample) in
  match est (Z.to_nat maxs + 1) L sample maxs interval 0 0 [0] with
  | Some acc => Some (acc ++ [pos0], pos0)
  | None => None
  end.

Lemma est_ok : forall fuel L sample maxs interval pos total acc,
  0 < sample -> 0 <= pos <= L -> (Z.to_nat (maxs - total) < fuel)%nat ->
  Forall (fun p => 0 <= p <= L) acc ->
  exists acc', est fuel L sample maxs interval pos total acc = Some acc' /\ Forall (fun p => 0 <= p <= L) acc'.
Proof.
  induction fuel as [|f IH]; intros L sample maxs interval pos total acc Hs Hp Hf Ha; [lia|].
  cbn [est]. destruct (total >=? maxs) eqn:E; [eauto|].
  set (k := Z.min sample (Z.max 0 (L - pos))).
  destruct (k =? 0) eqn:Ek; [eauto|].
  assert (Hk : 0 < k <= L - pos) by (unfold k in *; lia).
  set (d := Z.min (L - (pos + k)) (Z.max 0 (interval - k))).
  assert (Hd : 0 <= d <= L - (pos + k)) by (unfold d; lia).
  apply IH; try lia.
  apply Forall_app. split; [exact Ha|]. constructor; [lia|constructor].
Qed.

(* never seeks outside [0, size], terminates, restores the position *)
Theorem estimate_ok L sample maxs pos0 :
  0 < sample -> 0 <= maxs -> 0 <= pos0 <= L ->
  exists targets, estimate L L sample maxs pos0 = Some (targets, pos0) /\ Forall (fun p => 0 <= p <= L) targets.
Proof.
  intros Hs Hm Hp. unfold estimate. destruct (L =? 0) eqn:E0; [exists []; split; [reflexivity|constructor]|].
  destruct (est_ok (Z.to_nat maxs + 1) L sample maxs (L / (maxs / sample)) 0 0 [0]) as (acc & He & Ha); try lia.
  - constructor; [lia|constructor].
  - rewrite He. exists (acc ++ [pos0]). split; [reflexivity|]. apply Forall_app. split; [exact Ha|]. constructor; [lia|constructor].
Qed.
