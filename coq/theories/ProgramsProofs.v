(* ProgramsProofs.v - program-level theorems: for ALL inputs, worlds satisfying the invariant, and EVERY crash point
   (prefix of the program), the crash state - and its power-loss image - satisfies the invariant and keeps every
   stored object; the completed program makes the new object readable. *)
From Coq Require Import List ZArith NArith Arith Bool Lia.
From DOS Require Import Base Store StoreProofs StoreLemmas Mono MonoStep Programs.
Import ListNotations.

Lemma hid_eqb_spec a b : reflect (a = b) (hid_eqb a b).
Proof.
  destruct a as [x|x], b as [y|y]; cbn.
  - destruct (Nat.eqb_spec x y); constructor; congruence.
  - constructor; congruence.
  - constructor; congruence.
  - destruct (Z.eqb_spec x y); constructor; congruence.
Qed.

Section PP.
Variable H : bytes -> key.
Variable inflate : bytes -> option bytes.
Hypothesis H_inj : forall a b, H a = H b -> a = b.
Notation Inv := (Inv H inflate).
Notation stored := (stored inflate).

(* ---- the invariant, `stored` and the power-loss image depend only on loose/, packs/ and the index ---- *)
Definition core (w : world) := (loose w, packs w, db w).

Lemma Inv_core w w' : core w = core w' -> Inv w -> Inv w'.
Proof.
  unfold core. intros E. inversion E as [[E1 E2 E3]].
  unfold Store.Inv, Store.row_ok, get_pack. rewrite E1, E2, E3. auto.
Qed.

Lemma stored_core w w' k : core w = core w' -> stored w k = stored w' k.
Proof.
  unfold core. intros E. inversion E as [[E1 E2 E3]].
  unfold Store.stored, Store.read_row, get_pack, get_loose. rewrite E1, E2, E3. reflexivity.
Qed.

Lemma pl_core w w' : core w = core w' -> core (power_loss w) = core (power_loss w').
Proof. unfold core. intros E. inversion E as [[E1 E2 E3]]. cbn. rewrite E1, E2, E3. reflexivity. Qed.

(* events that touch only the sandbox file / the user-space buffers / the pending statements *)
Definition local_only (e : event) : bool :=
  match e with
  | EOpenSand _ | EWrite _ _ | EFlush (HSand _) | EFsync (HSand _) | EClose (HSand _) | EUnlinkSand _ | ESql _ | ERollback => true
  | _ => false
  end.

Lemma local_only_core s e : local_only e = true -> core (fst (apply_ev s e)) = core (fst s).
Proof.
  destruct s as [w l]. destruct e; try destruct h; cbn [local_only]; try discriminate; intros _;
    cbn [apply_ev fst]; unfold flush_h; cbn [get_file put_file];
    try destruct (get_buf l _); try destruct (get_sand w _); reflexivity.
Qed.

Lemma local_only_run : forall tr s, forallb local_only tr = true -> core (fst (run_events s tr)) = core (fst s).
Proof.
  induction tr as [|e t IH]; intros s Hb; [reflexivity|].
  cbn in Hb. apply andb_prop in Hb as [He Ht].
  change (run_events s (e :: t)) with (run_events (apply_ev s e) t).
  rewrite IH by auto. apply local_only_core; auto.
Qed.

Lemma forallb_firstn {A} (p : A -> bool) l n : forallb p l = true -> forallb p (firstn n l) = true.
Proof.
  revert n. induction l as [|x t IH]; intros n Hb; destruct n; cbn; auto.
  cbn in Hb. apply andb_prop in Hb as [Hx Ht]. rewrite Hx. cbn. auto.
Qed.

(* ---- symbolic execution of the sandbox-file part of add_loose ---- *)
Lemma run_writes h : forall chunks w l b, get_buf l h = Some b ->
  exists l', run_events (w, l) (map (EWrite h) chunks) = (w, l') /\ get_buf l' h = Some (b ++ concat chunks) /\ pending l' = pending l.
Proof.
  induction chunks as [|x t IH]; intros w l b Hb.
  - exists l. cbn. rewrite app_nil_r. auto.
  - cbn [map]. change (run_events (w, l) (EWrite h x :: map (EWrite h) t)) with (run_events (apply_ev (w, l) (EWrite h x)) (map (EWrite h) t)).
    cbn [apply_ev]. rewrite Hb.
    destruct (IH w (set_bufs l (aset hid_eqb (bufs l) h (b ++ x))) (b ++ x)) as (l' & Hr & Hg & Hp).
    { unfold get_buf. cbn [bufs set_bufs]. apply (g_aset_eq hid_eqb hid_eqb_spec). }
    exists l'. split; [exact Hr|]. split; [|exact Hp]. rewrite Hg. cbn [concat]. rewrite app_assoc. reflexivity.
Qed.

(* state of the sandbox file n after: open; writes; flush; fsync; close *)
Lemma run_sandbox_part w l n chunks :
  let c := concat chunks in
  exists w' l', run_events (w, l) (EOpenSand n :: map (EWrite (HSand n)) chunks ++ [EFlush (HSand n); EFsync (HSand n); EClose (HSand n)]) = (w', l')
    /\ core w' = core w /\ get_sand w' n = Some (mkFile c c) /\ pending l' = pending l.
Proof.
  intros c.
  change (run_events (w, l) (EOpenSand n :: ?t)) with (run_events (apply_ev (w, l) (EOpenSand n)) t).
  cbn [apply_ev put_file].
  set (w1 := set_sandbox w (aset Nat.eqb (sandbox w) n (mkFile [] []))).
  set (l1 := set_bufs l (aset hid_eqb (bufs l) (HSand n) [])).
  unfold run_events. rewrite fold_left_app. fold (run_events (w1, l1) (map (EWrite (HSand n)) chunks)).
  destruct (run_writes (HSand n) chunks w1 l1 []) as (l2 & Hr & Hg & Hp).
  { unfold get_buf, l1. cbn [bufs set_bufs]. apply (g_aset_eq hid_eqb hid_eqb_spec). }
  rewrite Hr. cbn [app] in Hg. fold c in Hg.
  cbn [fold_left apply_ev].
  (* flush *)
  assert (Hs1 : get_sand w1 n = Some (mkFile [] [])) by (unfold get_sand, w1; cbn [sandbox set_sandbox]; apply (g_aset_eq Nat.eqb Nat.eqb_spec)).
  unfold flush_h. rewrite Hg. cbn [get_file]. rewrite Hs1. cbn [put_file fdata fsynced app].
  set (w2 := set_sandbox w1 (aset Nat.eqb (sandbox w1) n (mkFile c []))).
  set (l3 := set_bufs l2 (aset hid_eqb (bufs l2) (HSand n) [])).
  assert (Hs2 : get_sand w2 n = Some (mkFile c [])) by (unfold get_sand, w2; cbn [sandbox set_sandbox]; apply (g_aset_eq Nat.eqb Nat.eqb_spec)).
  (* fsync *)
  cbn [apply_ev get_file]. rewrite Hs2. cbn [put_file fdata].
  set (w3 := set_sandbox w2 (aset Nat.eqb (sandbox w2) n (mkFile c c))).
  assert (Hs3 : get_sand w3 n = Some (mkFile c c)) by (unfold get_sand, w3; cbn [sandbox set_sandbox]; apply (g_aset_eq Nat.eqb Nat.eqb_spec)).
  (* close: flush of an empty buffer, then the handle is dropped *)
  assert (Hg3 : get_buf l3 (HSand n) = Some []) by (unfold get_buf, l3; cbn [bufs set_bufs]; apply (g_aset_eq hid_eqb hid_eqb_spec)).
  cbn [apply_ev]. unfold flush_h. rewrite Hg3. cbn [get_file]. rewrite Hs3. cbn [put_file fdata fsynced]. rewrite app_nil_r.
  eexists. eexists. split; [reflexivity|]. split; [reflexivity|]. split.
  - unfold get_sand. cbn [sandbox set_sandbox]. apply (g_aset_eq Nat.eqb Nat.eqb_spec).
  - cbn [pending set_bufs]. unfold l3. cbn [pending set_bufs]. rewrite Hp. reflexivity.
Qed.

(* ---- publishing a complete, correctly named loose file ---- *)
Lemma Inv_publish w n k f :
  Inv w -> get_sand w n = Some f -> H (fdata f) = k ->
  Inv (set_loose (set_sandbox w (adel Nat.eqb (sandbox w) n)) (aset N.eqb (loose w) k f)).
Proof.
  intros (Hnd & Hok & Hpw & Hl) Hs Hk. unfold Store.Inv. cbn [db set_loose set_sandbox loose].
  split; [exact Hnd|]. split; [|split; [exact Hpw|]].
  - rewrite Forall_forall in *. intros r Hr. destruct (Hok r Hr) as (f0 & c & Hp & Hrest).
    exists f0, c. split; auto.
  - unfold aset. constructor; [cbn; auto|].
    rewrite Forall_forall in *. intros [k' f'] Hin. apply Hl.
    clear -Hin. induction (loose w) as [|[a v] t IH]; cbn in Hin; [destruct Hin|].
    destruct (N.eqb k a); [right; auto|]. destruct Hin as [E|Hin]; [left; auto|right; auto].
Qed.

Lemma get_loose_publish w n k f k' :
  get_loose (set_loose (set_sandbox w (adel Nat.eqb (sandbox w) n)) (aset N.eqb (loose w) k f)) k' =
  if N.eqb k' k then Some f else get_loose w k'.
Proof.
  unfold get_loose. cbn [loose set_loose set_sandbox].
  destruct (N.eqb_spec k' k) as [->|Hne].
  - apply (g_aset_eq N.eqb N.eqb_spec).
  - apply (g_aset_neq N.eqb N.eqb_spec); auto.
Qed.

(* ================= add_streamed_object / add_object ================= *)
Lemma dest_ok_iff w k : Inv w -> (dest_ok H w k = true <-> exists f, get_loose w k = Some f).
Proof.
  intros HI. unfold dest_ok. split.
  - destruct (get_loose w k) as [f|]; [eauto|discriminate].
  - intros [f Hf]. rewrite Hf. destruct HI as (_ & _ & _ & Hl). rewrite Forall_forall in Hl.
    pose proof (Hl _ (get_loose_in _ _ _ Hf)) as E. cbn in E. apply N.eqb_eq. exact E.
Qed.

Definition sand_part (n : nat) (chunks : list bytes) : list event :=
  EOpenSand n :: map (EWrite (HSand n)) chunks ++ [EFlush (HSand n); EFsync (HSand n); EClose (HSand n)].
Definition last_part (w : world) (n : nat) (chunks : list bytes) : list event :=
  if dest_ok H w (H (concat chunks)) then [EUnlinkSand n] else [EPublish n (H (concat chunks))].

Lemma p_add_loose_split w n chunks : p_add_loose H w n chunks = sand_part n chunks ++ last_part w n chunks.
Proof. unfold p_add_loose, sand_part, last_part. cbn [app]. rewrite <- app_assoc. reflexivity. Qed.

Lemma sand_part_local n chunks : forallb local_only (sand_part n chunks) = true.
Proof.
  unfold sand_part. cbn [forallb local_only]. rewrite forallb_app. cbn. rewrite andb_true_r.
  apply forallb_forall. intros e He. apply in_map_iff in He as (x & <- & _). reflexivity.
Qed.

(* every proper prefix leaves loose/, packs/ and the index untouched *)
Lemma add_loose_prefix_core w l n chunks m :
  m < length (p_add_loose H w n chunks) -> core (fst (run_events (w, l) (firstn m (p_add_loose H w n chunks)))) = core w.
Proof.
  intros Hm. rewrite p_add_loose_split in *.
  assert (Hlen : length (last_part w n chunks) = 1) by (unfold last_part; destruct (dest_ok H w _); reflexivity).
  rewrite app_length, Hlen in Hm.
  rewrite firstn_app. replace (m - length (sand_part n chunks)) with 0 by lia. cbn [firstn]. rewrite app_nil_r.
  rewrite local_only_run; [reflexivity|]. apply forallb_firstn. apply sand_part_local.
Qed.

(* the completed program *)
Lemma add_loose_final w l n chunks : Inv w ->
  exists w' l', run_events (w, l) (p_add_loose H w n chunks) = (w', l') /\ Inv w' /\
    (forall k' c', stored w k' = Some c' -> stored w' k' = Some c') /\
    stored w' (H (concat chunks)) = Some (concat chunks) /\
    (Inv (power_loss w) -> Inv (power_loss w')).
Proof.
  intros HI. rewrite p_add_loose_split. set (c := concat chunks). set (k := H c).
  unfold run_events. rewrite fold_left_app. fold (run_events (w, l) (sand_part n chunks)).
  destruct (run_sandbox_part w l n chunks) as (w1 & l1 & Hr & Hc & Hs & _). fold c in Hs.
  unfold sand_part. rewrite Hr.
  assert (I1 : Inv w1) by (eapply Inv_core; [symmetry; exact Hc|exact HI]).
  unfold last_part. fold c k.
  destruct (dest_ok H w k) eqn:Ed.
  - (* the destination already holds the object: nothing is published *)
    cbn [fold_left apply_ev].
    set (w2 := set_sandbox w1 (adel Nat.eqb (sandbox w1) n)).
    assert (Hc2 : core w2 = core w) by (rewrite <- Hc; reflexivity).
    exists w2, l1. split; [reflexivity|]. split; [eapply Inv_core; [symmetry; exact Hc2|exact HI]|].
    split; [intros k' c' Hst; rewrite <- (stored_core w w2 k') by (symmetry; exact Hc2); exact Hst|].
    split.
    + rewrite <- (stored_core w w2 k) by (symmetry; exact Hc2).
      apply (dest_ok_iff w k HI) in Ed as [f Hf].
      unfold Store.stored. destruct (find_row (db w) k) as [r|] eqn:Fr.
      * apply find_row_some in Fr as [Hin Hrk]. destruct HI as (_ & Hok & _). rewrite Forall_forall in Hok.
        destruct (row_ok_read H inflate w r (Hok r Hin)) as (c' & Hrd & Hh & _). rewrite Hrd.
        f_equal. apply H_inj. unfold k in Hrk. congruence.
      * rewrite Hf. f_equal. destruct HI as (_ & _ & _ & Hl). rewrite Forall_forall in Hl.
        pose proof (Hl _ (get_loose_in _ _ _ Hf)) as E. cbn in E. apply H_inj. exact E.
    + intros Ip. eapply Inv_core; [|exact Ip]. apply pl_core. symmetry. exact Hc2.
  - (* publish *)
    cbn [fold_left apply_ev]. rewrite Hs.
    set (w2 := set_loose (set_sandbox w1 (adel Nat.eqb (sandbox w1) n)) (aset N.eqb (loose w1) k (mkFile c c))).
    assert (Hnone : get_loose w k = None).
    { destruct (get_loose w k) as [f|] eqn:E; [|reflexivity].
      assert (dest_ok H w k = true) by (apply (dest_ok_iff w k HI); eauto). congruence. }
    assert (Hdb : db w2 = db w) by (inversion Hc; reflexivity).
    assert (Hpk : packs w2 = packs w) by (inversion Hc; reflexivity).
    assert (E1 : loose w1 = loose w) by (inversion Hc; reflexivity).
    assert (Hlo : forall k', get_loose w2 k' = if N.eqb k' k then Some (mkFile c c) else get_loose w k').
    { intros k'. unfold w2. rewrite get_loose_publish. destruct (N.eqb k' k); [reflexivity|].
      unfold get_loose. rewrite E1. reflexivity. }
    exists w2, l1. split; [reflexivity|]. split; [apply Inv_publish; auto|].
    assert (Hst : forall k' c', stored w k' = Some c' -> stored w2 k' = Some c').
    { intros k' c' Hst. unfold Store.stored, Store.read_row, get_pack in *. rewrite Hdb, Hpk.
      destruct (find_row (db w) k') as [r|]; [exact Hst|].
      fold (get_loose w2 k'). rewrite Hlo. destruct (N.eqb_spec k' k) as [->|Hne]; [|exact Hst].
      fold (get_loose w k) in Hst. rewrite Hnone in Hst. discriminate. }
    split; [exact Hst|]. split.
    + unfold Store.stored, Store.read_row, get_pack. rewrite Hdb, Hpk.
      destruct (find_row (db w) k) as [r|] eqn:Fr.
      * apply find_row_some in Fr as [Hin Hrk]. destruct HI as (_ & Hok & _). rewrite Forall_forall in Hok.
        destruct (row_ok_read H inflate w r (Hok r Hin)) as (c' & Hrd & Hh & _).
        unfold Store.read_row, get_pack in Hrd. rewrite Hrd. f_equal. apply H_inj. unfold k in Hrk. congruence.
      * fold (get_loose w2 k). rewrite Hlo, N.eqb_refl. reflexivity.
    + (* power loss: the published file was fsynced before the rename, so its durable content is complete *)
      intros (Pnd & Pok & Ppw & Pl).
      unfold Store.Inv. cbn [db power_loss loose packs]. rewrite Hdb.
      split; [exact Pnd|]. split; [|split; [exact Ppw|]].
      * rewrite Forall_forall in *. intros r Hr0. destruct (Pok r Hr0) as (f0 & c0 & Hp & Hrest).
        exists f0, c0. split; auto. unfold get_pack in *. cbn [packs power_loss] in *. rewrite Hpk. exact Hp.
      * unfold w2. cbn [loose set_loose set_sandbox]. unfold aset. cbn [map fst snd pl_file fsynced].
        constructor; [cbn; reflexivity|].
        rewrite Forall_forall in *. intros kf Hin. apply in_map_iff in Hin as ([k' f'] & <- & Hin). cbn [fst snd].
        rewrite E1 in Hin.
        assert (Hin' : In (k', f') (loose w)).
        { clear -Hin. induction (loose w) as [|[a v] t IH]; cbn in Hin; [destruct Hin|].
          destruct (N.eqb k a); [right; auto|]. destruct Hin as [E|Hin]; [left; auto|right; auto]. }
        specialize (Pl (k', pl_file f')). cbn [power_loss loose fst snd] in Pl. apply Pl.
        apply in_map_iff. exists (k', f'). auto.
Qed.

(* C05 + C06 for add_object / add_streamed_object, for every content, every chunking of the source stream, every world
   satisfying the invariant and EVERY crash point m *)
Theorem add_loose_crash_safe w l n chunks m :
  Inv w ->
  let w' := crash (run_events (w, l) (firstn m (p_add_loose H w n chunks))) in
  Inv w' /\ (forall k c, stored w k = Some c -> stored w' k = Some c) /\ (Inv (power_loss w) -> Inv (power_loss w')).
Proof.
  intros HI. cbn zeta. unfold crash.
  destruct (Nat.lt_ge_cases m (length (p_add_loose H w n chunks))) as [Hlt|Hge].
  - pose proof (add_loose_prefix_core w l n chunks m Hlt) as Hc.
    split; [eapply Inv_core; [symmetry; exact Hc|exact HI]|].
    split; [intros k c Hs; rewrite (stored_core _ w k Hc); exact Hs|].
    intros Ip. eapply Inv_core; [|exact Ip]. apply pl_core. symmetry. exact Hc.
  - rewrite firstn_all2 by lia.
    destruct (add_loose_final w l n chunks HI) as (w' & l' & Hr & I' & Hst & _ & Hpl).
    rewrite Hr. cbn [fst]. auto.
Qed.

(* C01 (loose paths): the completed call makes exactly the stored bytes readable under the digest of those bytes *)
Theorem add_loose_roundtrip w l n chunks :
  Inv w -> stored (crash (run_events (w, l) (p_add_loose H w n chunks))) (H (concat chunks)) = Some (concat chunks).
Proof.
  intros HI. destruct (add_loose_final w l n chunks HI) as (w' & l' & Hr & _ & _ & Hk & _).
  rewrite Hr. exact Hk.
Qed.

End PP.
