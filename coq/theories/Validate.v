(* Validate.v - Container.validate() / _validate_hashkeys_pack and the read path over the same slicing semantics:
   a range that runs past the end of the pack yields the bytes that are there (the real file read is short), a missing
   pack file or a stream that does not inflate makes the call raise (modelled as: not clean / no bytes). *)
From Coq Require Import List ZArith NArith Arith Bool Lia.
From DOS Require Import Base Store StoreProofs StoreLemmas.
Import ListNotations.

Section Validate.
Variable H : bytes -> key.
Variable inflate : bytes -> option bytes.

(* what PackedObjectReader (+ decompresser) yields for a row *)
Definition read_impl (w : world) (r : row) : option bytes :=
  match get_pack w (rpack r) with
  | Some f => decode inflate (slice (fdata f) (roff r) (rlen r)) (rcomp r)
  | None => None
  end.

(* what a fresh handle returns for a key: index first, then the loose folder *)
Definition lookup_impl (w : world) (k : key) : option bytes :=
  match find_row (db w) k with
  | Some r => read_impl w r
  | None => match get_loose w k with Some f => Some (fdata f) | None => None end
  end.

Definition validate_row (w : world) (r : row) : bool :=
  match read_impl w r with
  | Some c => N.eqb (H c) (rkey r) && Nat.eqb (length c) (rsize r)     (* invalid_hashes_packed / invalid_sizes_packed *)
  | None => false                                                       (* open() or the decompresser raises *)
  end.

Definition validate_b (w : world) : bool :=
  forallb (validate_row w) (db w) && pairwise_b disjoint_b (db w) &&    (* overlapping_packed *)
  forallb (fun kf => N.eqb (H (fdata (snd kf))) (fst kf)) (loose w).    (* invalid_hashes_loose *)

(* no false negative: a clean report means every visible key reads back, through the library, as bytes with that digest and
   the recorded size - for ANY world, however damaged *)
Theorem validate_no_false_negative w : validate_b w = true ->
  (forall r, In r (db w) -> NoDup (map rkey (db w)) ->
     exists c, lookup_impl w (rkey r) = Some c /\ H c = rkey r /\ length c = rsize r) /\
  (forall k f, get_loose w k = Some f -> find_row (db w) k = None ->
     lookup_impl w k = Some (fdata f) /\ H (fdata f) = k).
Proof.
  unfold validate_b. intros Hb. apply andb_prop in Hb as [Hb Hl]. apply andb_prop in Hb as [Hr _].
  rewrite forallb_forall in Hr, Hl. split.
  - intros r Hin Hnd. specialize (Hr r Hin). unfold validate_row in Hr.
    destruct (read_impl w r) as [c|] eqn:E; [|discriminate].
    apply andb_prop in Hr as [H1 H2]. exists c. unfold lookup_impl. rewrite (find_row_in _ _ Hnd Hin).
    split; [exact E|]. split; [apply N.eqb_eq; auto|apply Nat.eqb_eq; auto].
  - intros k f Hg Hf. unfold lookup_impl. rewrite Hf, Hg. split; [reflexivity|].
    assert (Hin : In (k, f) (loose w)).
    { unfold get_loose in Hg. clear -Hg. induction (loose w) as [|[a v] t IH]; cbn in Hg; [discriminate|].
      destruct (N.eqb_spec k a); [inversion Hg; subst; left; reflexivity|right; auto]. }
    specialize (Hl _ Hin). cbn in Hl. apply N.eqb_eq; auto.
Qed.

(* no false positive: on every state satisfying the invariant (hence on every reachable state) validation is clean *)
Lemma disjoint_b_complete a b : disjoint a b -> disjoint_b a b = true.
Proof.
  unfold disjoint, disjoint_b. intros [Hd|[Hd|Hd]].
  - apply Z.eqb_neq in Hd. rewrite Hd. reflexivity.
  - apply Nat.leb_le in Hd. rewrite Hd. apply orb_true_iff. left. apply orb_true_r.
  - apply Nat.leb_le in Hd. rewrite Hd. apply orb_true_r.
Qed.

Lemma pairwise_b_complete (l : list row) : pairwise disjoint l -> pairwise_b disjoint_b l = true.
Proof.
  induction l as [|x t IH]; cbn; intros Hp; [reflexivity|]. destruct Hp as [Hx Ht].
  rewrite IH by auto. rewrite andb_true_r. apply forallb_forall. intros y Hy.
  rewrite Forall_forall in Hx. apply disjoint_b_complete. auto.
Qed.

Theorem validate_no_false_positive w : Inv H inflate w -> validate_b w = true.
Proof.
  intros (Hnd & Hok & Hpw & Hl). unfold validate_b.
  apply andb_true_iff. split; [apply andb_true_iff; split|].
  - apply forallb_forall. intros r Hin. rewrite Forall_forall in Hok.
    destruct (Hok r Hin) as (f & c & Hp & Hle & Hd & Hh & Hs & _).
    unfold validate_row, read_impl. rewrite Hp, Hd. rewrite Hh, Hs, N.eqb_refl, Nat.eqb_refl. reflexivity.
  - apply pairwise_b_complete; auto.
  - apply forallb_forall. intros kf Hin. rewrite Forall_forall in Hl. apply N.eqb_eq. exact (Hl _ Hin).
Qed.

(* under the invariant the library's read path and the library-free recovery agree *)
Theorem lookup_impl_stored w k : Inv H inflate w -> lookup_impl w k = stored inflate w k.
Proof.
  intros (Hnd & Hok & _). unfold lookup_impl, Store.stored.
  destruct (find_row (db w) k) as [r|] eqn:E; [|reflexivity].
  apply find_row_some in E as [Hin _]. rewrite Forall_forall in Hok.
  destruct (Hok r Hin) as (f & c & Hp & Hle & Hd & _).
  unfold read_impl, Store.read_row. rewrite Hp.
  destruct (Nat.leb_spec (roff r + rlen r) (length (fdata f))); [reflexivity|lia].
Qed.

End Validate.
