(* PickPack.v - Container._get_pack_id_to_write_to: the first pack, starting from the cached id, that does not exist
   or is below pack_size_target (size taken from known_sizes when given - the tell() of the open handle - else stat()).
   Model + proofs; the layout invariant of C13 (ids consecutive from 0, every pack but the last at or above the target). *)
From Coq Require Import List ZArith Arith Lia Bool.
Import ListNotations.
Open Scope Z_scope.

(* sizes : pack id -> Some size when the file exists; the known_sizes override is folded into `sizes` by the caller *)
Fixpoint pick (fuel : nat) (sizes : Z -> option Z) (target : Z) (id : Z) : option Z :=
  match sizes id with
  | None => Some id
  | Some sz => if sz <? target then Some id else
      match fuel with O => None | S f => pick f sizes target (id + 1) end
  end.

Definition override (sizes : Z -> option Z) (known : option (Z * Z)) : Z -> option Z :=
  fun id => match known with
            | Some (kid, ksz) => if id =? kid then (match sizes id with Some _ => Some ksz | None => None end) else sizes id
            | None => sizes id
            end.

(* the pack files are 0 .. n-1 *)
Definition consecutive (sizes : Z -> option Z) (n : Z) : Prop :=
  0 <= n /\ forall id, (0 <= id < n -> exists sz, sizes id = Some sz) /\ (id < 0 \/ n <= id -> sizes id = None).

Lemma pick_spec : forall fuel sizes target start n,
  consecutive sizes n -> 0 <= start <= n -> (Z.to_nat (n - start) <= fuel)%nat ->
  exists r, pick fuel sizes target start = Some r /\ start <= r <= n /\
    (forall id, start <= id < r -> exists sz, sizes id = Some sz /\ target <= sz) /\
    (sizes r = None \/ exists sz, sizes r = Some sz /\ sz < target).
Proof.
  induction fuel as [|f IH]; intros sizes target start n Hc Hs Hf.
  - assert (start = n) by lia. subst start. cbn [pick].
    destruct Hc as (Hn & Hc). destruct (Hc n) as (_ & Hnone). rewrite Hnone by lia.
    exists n. split; [reflexivity|]. split; [lia|]. split; [intros; lia|left; apply Hnone; lia].
  - cbn [pick]. destruct (sizes start) as [sz|] eqn:Es.
    + destruct (sz <? target) eqn:El.
      * exists start. split; [reflexivity|]. split; [lia|]. split; [intros; lia|right; exists sz; split; [auto|lia]].
      * assert (Hlt : start < n).
        { destruct Hc as (Hn & Hc). destruct (Z_lt_ge_dec start n); [auto|]. destruct (Hc start) as (_ & Hnone).
          rewrite Hnone in Es by lia. discriminate. }
        destruct (IH sizes target (start + 1) n Hc) as (r & Hr & Hrange & Hfull & Hlast); [lia|lia|].
        exists r. split; [exact Hr|]. split; [lia|]. split; [|exact Hlast].
        intros id Hid. destruct (Z.eq_dec id start) as [->|Hne]; [exists sz; split; [auto|lia]|apply Hfull; lia].
    + exists start. split; [reflexivity|]. split; [lia|]. split; [intros; lia|left; exact Es].
Qed.

(* C13 layout: all packs but the last have reached the target *)
Definition layout (sizes : Z -> option Z) (target n : Z) : Prop :=
  consecutive sizes n /\ forall id sz, 0 <= id < n - 1 -> sizes id = Some sz -> target <= sz.

(* from a handle whose cached id is at most n (it can point one past the last pack), the pack chosen for writing is the last
   pack when that is below the target, else the next fresh id: so appending to the chosen pack keeps the layout *)
Theorem pick_keeps_layout sizes target n cached fuel :
  layout sizes target n -> 0 <= cached <= n -> (Z.to_nat (n - cached) <= fuel)%nat ->
  exists r, pick fuel sizes target cached = Some r /\
    ((r = n /\ (n = 0 \/ exists sz, sizes (n - 1) = Some sz /\ (target <= sz \/ cached = n))) \/
     (r = n - 1 /\ exists sz, sizes r = Some sz /\ sz < target) \/
     (r < n - 1 /\ False)).
Proof.
  intros (Hc & Hfull) Hs Hf. destruct (pick_spec fuel sizes target cached n Hc Hs Hf) as (r & Hr & Hrange & Hbefore & Hlast).
  exists r. split; [exact Hr|].
  destruct Hc as (Hn & Hcc).
  destruct Hlast as [Hnone|(sz & Hsz & Hlt)].
  - (* r does not exist: r = n *)
    assert (r = n). { destruct (Z_lt_ge_dec r n); [|lia]. destruct (Hcc r) as (Hex & _). destruct Hex as (x & Hx); [lia|congruence]. }
    subst r. left. split; [reflexivity|]. destruct (Z.eq_dec n 0); [left; auto|right].
    destruct (Hcc (n - 1)) as (Hex & _). destruct Hex as (x & Hx); [lia|]. exists x. split; [exact Hx|].
    destruct (Z.eq_dec cached n); [right; auto|left]. destruct (Hbefore (n - 1)) as (y & Hy & Hge); [lia|]. congruence.
  - (* r exists and is below the target: it must be the last pack *)
    assert (r < n). { destruct (Z_lt_ge_dec r n); [auto|]. destruct (Hcc r) as (_ & Hno). rewrite Hno in Hsz by lia. discriminate. }
    destruct (Z.eq_dec r (n - 1)) as [E|E].
    + right. left. split; [exact E|]. exists sz. auto.
    + exfalso. assert (target <= sz) by (apply (Hfull r sz); [lia|exact Hsz]). lia.
Qed.
