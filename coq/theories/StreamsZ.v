(* StreamsZ.v - simulation of the decompressing stream (Streams.zsd_step) by the in-memory reference, for EVERY
   decompressor oracle (whatever zlib decides to return per call), every chunk size > 0, every program of in-range
   operations: a result is either the reference's result, or RErr (the oracle reported a stall before the end of the
   stream = corrupt/truncated data: ValueError), or ROutOfFuel (the oracle never made progress within the fuel). *)
From Coq Require Import List ZArith Lia Bool.
From DOS Require Import Base Streams StreamsProofs.
Import ListNotations.
Open Scope Z_scope.

(* ---------- more slicing ---------- *)
Lemma firstn_app_skipn {A} (l : list A) : forall a b, firstn a l ++ firstn b (skipn a l) = firstn (a + b) l.
Proof.
  induction l as [|x t IH]; intros a b.
  - rewrite skipn_nil, !firstn_nil. reflexivity.
  - destruct a as [|a]; cbn; [reflexivity|]. f_equal. apply IH.
Qed.

Lemma skipn_skipn_add {A} (l : list A) : forall a b, skipn b (skipn a l) = skipn (a + b) l.
Proof.
  induction l as [|x t IH]; intros a b.
  - rewrite !skipn_nil. reflexivity.
  - destruct a as [|a]; cbn; [reflexivity|]. apply IH.
Qed.

Lemma zslice_app_adj {A} (c : list A) p a b : 0 <= p -> 0 <= a -> 0 <= b ->
  zslice c p a ++ zslice c (p + a) b = zslice c p (a + b).
Proof.
  intros Hp Ha Hb. unfold zslice, slice.
  replace (Z.to_nat (p + a)) with (Z.to_nat p + Z.to_nat a)%nat by lia.
  rewrite <- skipn_skipn_add. rewrite firstn_app_skipn. f_equal. lia.
Qed.

Lemma zslice_zslice {A} (c : list A) p n q m : 0 <= p -> 0 <= q -> 0 <= m -> q + m <= n ->
  zslice (zslice c p n) q m = zslice c (p + q) m.
Proof.
  intros Hp Hq Hm Hle. unfold zslice, slice.
  replace (Z.to_nat (p + q)) with (Z.to_nat p + Z.to_nat q)%nat by lia.
  rewrite <- skipn_skipn_add. rewrite skipn_firstn_comm. rewrite firstn_firstn. f_equal. lia.
Qed.

Lemma zslice_whole {A} (l : list A) m : zlen l <= m -> zslice l 0 m = l.
Proof. intros H. unfold zslice, slice, zlen in *. cbn. apply firstn_all2. lia. Qed.

Lemma zslice_neg {A} (l : list A) p m : m <= 0 -> zslice l p m = [].
Proof. intros H. unfold zslice, slice. replace (Z.to_nat m) with 0%nat by lia. reflexivity. Qed.

Lemma zslice_zlen_le {A} (l : list A) p m : 0 <= m -> zlen (zslice l p m) <= m.
Proof. intros H. unfold zslice, slice, zlen. rewrite firstn_length. lia. Qed.

Lemma zlen_nil {A} : zlen (@nil A) = 0.
Proof. reflexivity. Qed.

Lemma zlen_nil_iff {A} (l : list A) : l = [] <-> zlen l = 0.
Proof. unfold zlen. destruct l; cbn; split; intros; try reflexivity; try discriminate; lia. Qed.

Section ZS.
Variable orc : nat -> zev.
Variable CHUNK SEEKCHUNK : Z.
Hypothesis CHUNK_pos : 0 < CHUNK.
Hypothesis SEEK_pos : 0 < SEEKCHUNK.

Notation L s := (zlen (plain s)).

(* invariant of the compressed mode *)
Definition ZI (s : zsd) : Prop :=
  0 <= zpos s /\ dout s = zpos s + zlen (zbuf s) /\ dout s <= L s /\ zbuf s = zslice (plain s) (zpos s) (zlen (zbuf s)).

(* fields a read/seek in compressed mode never touches *)
Definition same_frame (s s' : zsd) : Prop :=
  plain s' = plain s /\ has_lazy s' = has_lazy s /\ use_unc s' = use_unc s /\ upos s' = upos s.

Lemma same_frame_refl s : same_frame s s. Proof. repeat split. Qed.
Lemma same_frame_trans a b c : same_frame a b -> same_frame b c -> same_frame a c.
Proof. intros (A1 & A2 & A3 & A4) (B1 & B2 & B3 & B4). repeat split; congruence. Qed.

Lemma zfill_spec : forall fuel size s, ZI s -> 0 < size ->
  match zfill orc fuel size s with
  | inl (Some s1) => ZI s1 /\ zpos s1 = zpos s /\ same_frame s s1 /\ (size <= zlen (zbuf s1) \/ dout s1 = L s1)
  | inl None => False
  | inr e => e = RErr \/ e = ROutOfFuel
  end.
Proof.
  induction fuel as [|f IH]; intros size s HZ Hs.
  - cbn [zfill]. destruct (zlen (zbuf s) >=? size) eqn:E.
    + split; [exact HZ|]. split; [reflexivity|]. split; [apply same_frame_refl|]. left. lia.
    + right. reflexivity.
  - cbn [zfill]. destruct (zlen (zbuf s) >=? size) eqn:E.
    + split; [exact HZ|]. split; [reflexivity|]. split; [apply same_frame_refl|]. left. lia.
    + destruct (orc (ncall s)) as [k stall].
      set (k' := Z.max 0 (Z.min k (Z.min size (L s - dout s)))).
      set (s1 := zset s (zpos s) (zbuf s ++ zslice (plain s) (dout s) k') (dout s + k') (S (ncall s))).
      destruct HZ as (Hp & Hd & Hle & Hb). pose proof (zlen_nonneg (zbuf s)) as Hnn.
      assert (Hk' : 0 <= k' /\ dout s + k' <= L s) by (unfold k'; lia).
      assert (Hlen : zlen (zbuf s1) = zlen (zbuf s) + k').
      { unfold s1; cbn [zbuf zset]. rewrite zlen_app. rewrite zslice_len; lia. }
      assert (HZ1 : ZI s1).
      { unfold ZI. rewrite Hlen. unfold s1; cbn [zpos zset dout plain zbuf].
        split; [exact Hp|]. split; [lia|]. split; [lia|].
        rewrite Hb at 1. rewrite Hd. pose proof (zlen_nonneg (zbuf s)).
        apply zslice_app_adj; lia. }
      assert (Hfr : same_frame s s1) by (unfold s1; repeat split).
      destruct stall.
      * destruct (dout s1 =? L s) eqn:Ee.
        -- split; [exact HZ1|]. split; [reflexivity|]. split; [exact Hfr|]. right. unfold s1 in *; cbn [plain zset dout] in *. lia.
        -- left. reflexivity.
      * specialize (IH size s1 HZ1 Hs). destruct (zfill orc f size s1) as [[s2|]|e]; [|contradiction|exact IH].
        destruct IH as (Z2 & P2 & F2 & D2). split; [exact Z2|]. split; [rewrite P2; reflexivity|].
        split; [eapply same_frame_trans; eauto|exact D2].
Qed.

(* _read_compressed(size), size > 0: the next min(size, remaining) bytes *)
Lemma zread_pos_spec fuel s size : ZI s -> 0 < size ->
  match zread_pos orc fuel s size with
  | (RBytes x, s') => x = zslice (plain s) (zpos s) (Z.min size (L s - zpos s)) /\ ZI s' /\
                      zpos s' = zpos s + Z.min size (L s - zpos s) /\ same_frame s s'
  | (RErr, s') | (ROutOfFuel, s') => s' = s
  | _ => False
  end.
Proof.
  intros HZ Hs. unfold zread_pos. pose proof (zfill_spec fuel size s HZ Hs) as Hf.
  destruct (zfill orc fuel size s) as [[s1|]|e]; [|contradiction|destruct Hf; subst; reflexivity].
  destruct Hf as ((Hp & Hd & Hle & Hb) & P1 & (F1 & F2 & F3 & F4) & Hdone).
  set (B := zlen (zbuf s1)) in *. pose proof (zlen_nonneg (zbuf s1)) as HB. fold B in HB.
  assert (HLs : L s1 = L s) by (rewrite F1; reflexivity).
  destruct (Z_le_gt_dec size B) as [Hc|Hc].
  - (* enough buffered *)
    assert (Hmin : Z.min size (L s - zpos s) = size) by lia.
    rewrite Hmin.
    assert (Hout : zslice (zbuf s1) 0 size = zslice (plain s) (zpos s) size).
    { rewrite Hb. fold B. rewrite zslice_zslice by lia. rewrite F1, P1. f_equal. lia. }
    assert (Hrest : zslice (zbuf s1) size (B - size) = zslice (plain s) (zpos s + size) (B - size)).
    { rewrite Hb at 1. fold B. rewrite zslice_zslice by lia. rewrite F1, P1. reflexivity. }
    assert (Hol : zlen (zslice (zbuf s1) 0 size) = size) by (apply zslice_len; lia).
    split; [exact Hout|]. split.
    + unfold ZI. cbn [zpos zset dout plain zbuf]. rewrite Hol.
      assert (Hrl : zlen (zslice (zbuf s1) size (B - size)) = B - size) by (apply zslice_len; lia).
      rewrite Hrl. split; [lia|]. split; [lia|]. split; [lia|].
      rewrite Hrest. rewrite F1, P1. reflexivity.
    + cbn [zpos zset]. rewrite Hol. split; [lia|]. repeat split; cbn; congruence.
  - (* the stream ended: everything left is returned *)
    destruct Hdone as [Hd1|Hd1]; [lia|].
    assert (HBL : B = L s - zpos s) by lia.
    assert (Hmin : Z.min size (L s - zpos s) = B) by lia.
    rewrite Hmin.
    assert (Hout : zslice (zbuf s1) 0 size = zslice (plain s) (zpos s) B).
    { rewrite zslice_whole by (fold B; lia). rewrite Hb. fold B. rewrite F1, P1. reflexivity. }
    assert (Hrest : zslice (zbuf s1) size (B - size) = []) by (apply zslice_neg; lia).
    assert (Hol : zlen (zslice (zbuf s1) 0 size) = B) by (rewrite zslice_whole by (fold B; lia); reflexivity).
    split; [exact Hout|]. split.
    + unfold ZI. cbn [zpos zset dout plain zbuf]. rewrite Hol, Hrest. change (zlen (@nil byte)) with 0.
      split; [lia|]. split; [lia|]. split; [lia|]. symmetry. apply zslice_neg. unfold zlen; cbn; lia.
    + cbn [zpos zset]. rewrite Hol. split; [lia|]. repeat split; cbn; congruence.
Qed.

(* read(-1) *)
Lemma zread_all_spec : forall fuel s acc, ZI s ->
  match zread_all orc CHUNK fuel s acc with
  | (RBytes x, s') => x = acc ++ zslice (plain s) (zpos s) (L s - zpos s) /\ ZI s' /\ zpos s' = L s /\ same_frame s s'
  | (RErr, _) | (ROutOfFuel, _) => True
  | _ => False
  end.
Proof.
  induction fuel as [|f IH]; intros s acc HZ; [exact I|].
  cbn [zread_all]. pose proof (zread_pos_spec (S f) s CHUNK HZ CHUNK_pos) as Hr.
  destruct (zread_pos orc (S f) s CHUNK) as [r s1]. destruct r as [x| | | | |]; try exact I; try contradiction.
  destruct Hr as (Hx & Z1 & P1 & F1).
  pose proof HZ as (Hp & Hd & Hle & Hb). pose proof (zlen_nonneg (zbuf s)).
  set (k := Z.min CHUNK (L s - zpos s)) in *.
  assert (Hk : 0 <= k) by (unfold k; lia).
  assert (Hxl : zlen x = k) by (rewrite Hx; apply zslice_len; unfold k; lia).
  destruct x as [|x0 xt].
  - (* empty chunk: end of stream *)
    assert (k = 0) by (rewrite <- Hxl; reflexivity).
    assert (L s - zpos s = 0) by (unfold k in *; lia).
    split; [|split; [exact Z1|split; [lia|exact F1]]].
    replace (L s - zpos s) with 0 by lia. rewrite zslice_zero, app_nil_r. reflexivity.
  - specialize (IH s1 (acc ++ x0 :: xt) Z1).
    destruct (zread_all orc CHUNK f s1 (acc ++ x0 :: xt)) as [r2 s2]. destruct r2 as [y| | | | |]; try exact I; try contradiction.
    destruct IH as (Hy & Z2 & P2 & F2). destruct F1 as (F11 & F12 & F13 & F14).
    assert (HL1 : L s1 = L s) by (rewrite F11; reflexivity).
    split.
    + rewrite Hy, Hx, F11, P1. rewrite <- app_assoc. f_equal.
      rewrite zslice_app_adj by (unfold k; lia). f_equal. lia.
    + split; [exact Z2|]. split; [lia|]. eapply same_frame_trans; [|exact F2]. repeat split; assumption.
Qed.

(* the forward skip of _seek_internal *)
Lemma zskip_spec : forall fuel s target, ZI s -> zpos s <= target ->
  match zskip orc SEEKCHUNK fuel s target with
  | (RPos p, s') => p = Z.min target (L s) /\ zpos s' = p /\ ZI s' /\ same_frame s s'
  | (RErr, _) | (ROutOfFuel, _) => True
  | _ => False
  end.
Proof.
  induction fuel as [|f IH]; intros s target HZ Hle.
  - cbn [zskip]. destruct (zpos s >=? target) eqn:E; [|exact I].
    destruct HZ as (Hp & Hd & Hl & Hb). pose proof (zlen_nonneg (zbuf s)).
    split; [lia|]. split; [reflexivity|]. split; [repeat split; assumption|apply same_frame_refl].
  - cbn [zskip]. destruct (zpos s >=? target) eqn:E.
    + pose proof HZ as (Hp & Hd & Hl & Hb). pose proof (zlen_nonneg (zbuf s)).
      split; [lia|]. split; [reflexivity|]. split; [exact HZ|apply same_frame_refl].
    + assert (Hsz : 0 < Z.min SEEKCHUNK (target - zpos s)) by lia.
      pose proof (zread_pos_spec (S f) s _ HZ Hsz) as Hr.
      destruct (zread_pos orc (S f) s (Z.min SEEKCHUNK (target - zpos s))) as [r s1].
      destruct r as [x| | | | |]; try exact I; try contradiction.
      destruct Hr as (Hx & Z1 & P1 & F1).
      pose proof HZ as (Hp & Hd & Hl & Hb). pose proof (zlen_nonneg (zbuf s)).
      set (k := Z.min (Z.min SEEKCHUNK (target - zpos s)) (L s - zpos s)) in *.
      assert (Hk : 0 <= k) by (unfold k; lia).
      assert (Hxl : zlen x = k) by (rewrite Hx; apply zslice_len; unfold k; lia).
      destruct F1 as (F11 & F12 & F13 & F14).
      assert (HL1 : L s1 = L s) by (rewrite F11; reflexivity).
      destruct x as [|x0 xt].
      * assert (k = 0) by (rewrite <- Hxl; reflexivity).
        assert (L s - zpos s = 0) by (unfold k in *; lia).
        split; [lia|]. split; [reflexivity|]. split; [exact Z1|repeat split; assumption].
      * assert (Hle1 : zpos s1 <= target) by (rewrite P1; unfold k; lia).
        specialize (IH s1 target Z1 Hle1).
        destruct (zskip orc SEEKCHUNK f s1 target) as [r2 s2]. destruct r2 as [| p | | | |]; try exact I; try contradiction.
        destruct IH as (Hpp & P2 & Z2 & F2).
        split; [rewrite Hpp, HL1; reflexivity|]. split; [exact P2|]. split; [exact Z2|].
        eapply same_frame_trans; [|exact F2]. repeat split; assumption.
Qed.

(* ---------- the simulation relation ---------- *)
Definition zR (s : zsd) (b : bio) : Prop :=
  bcontent b = plain s /\ bpos b = zsd_tell s /\
  (if use_unc s then 0 <= upos s else ZI s).

Lemma zR_init pl lazy : zR (zsd_init pl lazy) {| bcontent := pl; bpos := 0 |}.
Proof.
  unfold zR, zsd_init, zsd_tell; cbn [use_unc zpos bcontent bpos plain].
  split; [reflexivity|]. split; [reflexivity|].
  unfold ZI; cbn [zpos dout zbuf plain]. change (zlen (@nil byte)) with 0.
  pose proof (zlen_nonneg pl). repeat split; try lia.
Qed.

Definition not_fail (r : res) : Prop := r <> RErr /\ r <> ROutOfFuel.

(* one step, lazy cache available (every stream handed out by Container) or not (validate/repack: then no whence = 2) *)
Theorem zsd_step_sim fuel s b o :
  zR s b -> in_range b o = true ->
  (has_lazy s = true \/ match o with Seek _ w => w <> 2 | _ => True end) ->
  let '(r, s') := zsd_step orc CHUNK SEEKCHUNK fuel s o in
  let '(rb, b') := bio_step b o in
  not_fail r -> r = rb /\ zR s' b' /\ has_lazy s' = has_lazy s.
Proof.
  intros (Hc & Hpos & Hmode) Hin Hlz.
  destruct o as [n | t w | ]; cbn [zsd_step].
  - (* Read *)
    unfold zsd_read. destruct (use_unc s) eqn:Eu.
    + (* proxy to the re-loosened file *)
      unfold zsd_tell in Hpos. rewrite Eu in Hpos.
      assert (Eb : zsd_unc s = b) by (destruct b; unfold zsd_unc; cbn in *; subst; reflexivity).
      rewrite Eb. cbn [fio_step]. destruct (bio_step b (Read n)) as [rb b'] eqn:Es.
      intros _. split; [reflexivity|]. split; [|reflexivity].
      cbn [bio_step] in Es. injection Es as <- <-. unfold zR, zsd_tell; cbn [use_unc zsd_set_unc bcontent bpos plain upos].
      split; [exact Hc|]. split; [reflexivity|].
      pose proof (zlen_nonneg (bcontent b)). destruct (n <? 0) eqn:En; lia.
    + unfold zsd_tell in Hpos. rewrite Eu in Hpos. pose proof Hmode as HZ.
      pose proof HZ as (Hp & Hd & Hl & Hb). pose proof (zlen_nonneg (zbuf s)).
      cbn [bio_step]. rewrite Hc, Hpos.
      destruct (n <? 0) eqn:En.
      * pose proof (zread_all_spec fuel s [] HZ) as Hr.
        destruct (zread_all orc CHUNK fuel s []) as [r s']. destruct r as [x| | | | |]; try contradiction;
          try (intros [A B]; congruence).
        destruct Hr as (Hx & Z' & P' & (F1 & F2 & F3 & F4)). intros _.
        replace (Z.max 0 (L s - zpos s)) with (L s - zpos s) by lia.
        split; [rewrite Hx; reflexivity|]. split; [|exact F2].
        unfold zR, zsd_tell. rewrite F3, Eu. cbn [bcontent bpos]. split; [congruence|]. split; [lia|exact Z'].
      * destruct (n =? 0) eqn:E0.
        -- intros _. assert (n = 0) by lia. subst n.
           replace (Z.min 0 (Z.max 0 (L s - zpos s))) with 0 by lia. rewrite zslice_zero.
           split; [reflexivity|]. split; [|reflexivity].
           unfold zR, zsd_tell. rewrite Eu. cbn [bcontent bpos]. split; [reflexivity|]. split; [lia|exact HZ].
        -- assert (Hn : 0 < n) by lia.
           pose proof (zread_pos_spec fuel s n HZ Hn) as Hr.
           destruct (zread_pos orc fuel s n) as [r s']. destruct r as [x| | | | |]; try contradiction;
             try (intros [A B]; congruence).
           destruct Hr as (Hx & Z' & P' & (F1 & F2 & F3 & F4)). intros _.
           replace (Z.min n (Z.max 0 (L s - zpos s))) with (Z.min n (L s - zpos s)) by lia.
           split; [rewrite Hx; reflexivity|]. split; [|exact F2].
           unfold zR, zsd_tell. rewrite F3, Eu. cbn [bcontent bpos]. split; [congruence|]. split; [lia|exact Z'].
  - (* Seek *)
    cbn [in_range] in Hin. apply andb_prop in Hin as [Hin Hr2]. apply andb_prop in Hin as [Hw Hr1].
    unfold zsd_seek. unfold valid_whence in Hw. rewrite Hw. cbn [negb].
    unfold resolved in Hr1, Hr2. rewrite Hc in Hr1, Hr2.
    set (should := (w =? 2) || (w =? 1) && (t <? 0) || (w =? 1) && (t <? zpos s)).
    destruct (use_unc s) eqn:Eu.
    + (* already on the re-loosened file *)
      cbn [negb andb]. rewrite Eu.
      unfold zsd_tell in Hpos. rewrite Eu in Hpos.
      assert (Eb : zsd_unc s = b) by (destruct b; unfold zsd_unc; cbn in *; subst; reflexivity).
      rewrite Eb.
      assert (Hir : in_range b (Seek t w) = true).
      { cbn [in_range]. unfold valid_whence, resolved. rewrite Hw, Hc. cbn [andb]. rewrite Hr1, Hr2. reflexivity. }
      rewrite (fio_in_range b (Seek t w) Hir).
      destruct (bio_step b (Seek t w)) as [rb b'] eqn:Es. intros _. split; [reflexivity|]. split; [|reflexivity].
      cbn [bio_step] in Es.
      unfold zR, zsd_tell; cbn [use_unc zsd_set_unc plain upos].
      destruct (w =? 0) eqn:E0; [|destruct (w =? 1) eqn:E1; [|destruct (w =? 2) eqn:E2]].
      * replace (t <? 0) with false in Es by lia. injection Es as <- <-; cbn. repeat split; auto; lia.
      * injection Es as <- <-; cbn. repeat split; auto; lia.
      * injection Es as <- <-; cbn. repeat split; auto; lia.
      * cbn in Hw. discriminate.
    + cbn [negb andb]. unfold zsd_tell in Hpos. rewrite Eu in Hpos. pose proof Hmode as HZ.
      pose proof HZ as (Hp & Hd & Hl & Hb). pose proof (zlen_nonneg (zbuf s)).
      destruct (has_lazy s && should) eqn:Esw.
      * (* switch to the re-loosened file, positioned at the current position *)
        cbn [use_unc zsd_set_unc].
        assert (Eb : zsd_unc (zsd_set_unc s true (zpos s)) = b).
        { destruct b; unfold zsd_unc; cbn in *; subst; reflexivity. }
        rewrite Eb.
        assert (Hir : in_range b (Seek t w) = true).
        { cbn [in_range]. unfold valid_whence, resolved. rewrite Hw, Hc. cbn [andb]. rewrite Hr1, Hr2. reflexivity. }
        rewrite (fio_in_range b (Seek t w) Hir).
        destruct (bio_step b (Seek t w)) as [rb b'] eqn:Es. intros _. split; [reflexivity|]. split; [|reflexivity].
        cbn [bio_step] in Es.
        unfold zR, zsd_tell; cbn [use_unc zsd_set_unc plain upos].
        destruct (w =? 0) eqn:E0; [|destruct (w =? 1) eqn:E1; [|destruct (w =? 2) eqn:E2]].
        -- replace (t <? 0) with false in Es by lia. injection Es as <- <-; cbn. repeat split; auto; lia.
        -- injection Es as <- <-; cbn. repeat split; auto; lia.
        -- injection Es as <- <-; cbn. repeat split; auto; lia.
        -- cbn in Hw. discriminate.
      * (* stays on the compressed stream *)
        rewrite Eu.
        assert (Hw2 : (w =? 2) = false).
        { destruct (w =? 2) eqn:E2; [|reflexivity]. unfold should in Esw. cbn [orb] in Esw.
          rewrite andb_true_r in Esw. destruct Hlz as [Hl1|Hl1]; [congruence|]. exfalso. apply Hl1. lia. }
        rewrite Hw2.
        set (target := if w =? 1 then zpos s + t else t).
        assert (Htr : 0 <= target <= L s).
        { unfold target. destruct (Z.eq_dec w 0) as [->|N0]; [|destruct (Z.eq_dec w 1) as [->|N1]].
          - cbn [Z.eqb] in *. lia.
          - cbn [Z.eqb Pos.eqb] in *. lia.
          - exfalso. lia. }
        replace (target <? 0) with false by lia.
        cbn [bio_step]. rewrite Hc, Hpos.
        assert (Hrb : (if w =? 0 then if t <? 0 then (RErr, b) else (RPos t, {| bcontent := plain s; bpos := t |})
                       else if w =? 1 then (RPos (Z.max 0 (zpos s + t)), {| bcontent := plain s; bpos := Z.max 0 (zpos s + t) |})
                       else if w =? 2 then (RPos (Z.max 0 (L s + t)), {| bcontent := plain s; bpos := Z.max 0 (L s + t) |}) else (RErr, b))
                      = (RPos target, {| bcontent := plain s; bpos := target |})).
        { unfold target in *. destruct (Z.eq_dec w 0) as [->|N0]; [|destruct (Z.eq_dec w 1) as [->|N1]].
          - cbn [Z.eqb] in *. replace (t <? 0) with false by lia. reflexivity.
          - cbn [Z.eqb Pos.eqb] in *. replace (Z.max 0 (zpos s + t)) with (zpos s + t) by lia. reflexivity.
          - exfalso. lia. }
        rewrite Hrb.
        destruct (target =? 0) eqn:Et0.
        -- intros _. assert (target = 0) by lia. split; [f_equal; lia|]. split; [|reflexivity].
           unfold zR, zsd_tell, zreset; cbn [use_unc zset plain zpos bcontent bpos]. rewrite Eu.
           split; [reflexivity|]. split; [lia|].
           unfold ZI; cbn [zpos zset dout zbuf plain]. change (zlen (@nil byte)) with 0.
           pose proof (zlen_nonneg (plain s)). repeat split; try lia; try (symmetry; apply zslice_neg; lia).
        -- set (s0 := if target <? zpos s then zreset s else s).
           assert (HZ0 : ZI s0 /\ zpos s0 <= target /\ same_frame s s0).
           { unfold s0. destruct (target <? zpos s) eqn:Elt.
             - split; [|split; [cbn; lia|repeat split]].
               unfold ZI, zreset; cbn [zpos zset dout zbuf plain]. change (zlen (@nil byte)) with 0.
               pose proof (zlen_nonneg (plain s)). repeat split; try lia; try (symmetry; apply zslice_neg; lia).
             - split; [exact HZ|]. split; [lia|apply same_frame_refl]. }
           destruct HZ0 as (HZ0 & Hle0 & (G1 & G2 & G3 & G4)).
           pose proof (zskip_spec fuel s0 target HZ0 Hle0) as Hk.
           destruct (zskip orc SEEKCHUNK fuel s0 target) as [r s']. destruct r as [| p | | | |]; try contradiction;
             try (intros [A B]; congruence).
           destruct Hk as (Hpp & P' & Z' & (F1 & F2 & F3 & F4)). intros _.
           assert (HL0 : L s0 = L s) by (rewrite G1; reflexivity).
           assert (Hpt : p = target) by lia. rewrite Hpt in *.
           split; [reflexivity|]. split; [|congruence].
           unfold zR, zsd_tell. rewrite F3, G3, Eu. cbn [bcontent bpos]. split; [congruence|]. split; [lia|exact Z'].
  - (* Tell *)
    cbn [bio_step]. intros _. split; [f_equal; auto|]. split; [|reflexivity]. repeat split; assumption.
Qed.

End ZS.

(* ---------- programs ---------- *)
Fixpoint all_in_range (b : bio) (ops : list op) : bool :=
  match ops with
  | [] => true
  | o :: t => in_range b o && all_in_range (snd (bio_step b o)) t
  end.

Definition no_whence2 (ops : list op) : Prop := Forall (fun o => match o with Seek _ w => w <> 2 | _ => True end) ops.

Section ZRun.
Variable orc : nat -> zev.
Variable CHUNK SEEKCHUNK : Z.
Hypothesis CHUNK_pos : 0 < CHUNK.
Hypothesis SEEK_pos : 0 < SEEKCHUNK.
Variable fuel : nat.

(* every program of in-range operations: if no call fails loudly (RErr = corrupt stream reported by the oracle,
   ROutOfFuel = the oracle stopped making progress), the results - bytes, returned positions, tell values - are exactly
   those of the in-memory file; holds for EVERY oracle *)
Theorem zsd_run_sim : forall ops s b,
  zR s b -> all_in_range b ops = true -> (has_lazy s = true \/ no_whence2 ops) ->
  Forall not_fail (run_ops (zsd_step orc CHUNK SEEKCHUNK fuel) s ops) ->
  run_ops (zsd_step orc CHUNK SEEKCHUNK fuel) s ops = run_ops bio_step b ops.
Proof.
  induction ops as [|o t IH]; intros s b HR Hin Hlz Hnf; [reflexivity|].
  cbn [all_in_range] in Hin. apply andb_prop in Hin as [Hi Ht].
  cbn [run_ops] in *.
  assert (Hl1 : has_lazy s = true \/ match o with Seek _ w => w <> 2 | _ => True end).
  { destruct Hlz as [A|A]; [left; exact A|right; inversion A; auto]. }
  pose proof (zsd_step_sim orc CHUNK SEEKCHUNK CHUNK_pos SEEK_pos fuel s b o HR Hi Hl1) as Hs.
  destruct (zsd_step orc CHUNK SEEKCHUNK fuel s o) as [r s'].
  destruct (bio_step b o) as [rb b'] eqn:Eb. cbn [snd] in Ht.
  inversion Hnf as [|? ? Hr Hrest]; subst.
  destruct (Hs Hr) as (-> & HR' & Hlz'). f_equal.
  apply IH; auto.
  destruct Hlz as [A|A]; [left; congruence|right; inversion A; auto].
Qed.

End ZRun.
