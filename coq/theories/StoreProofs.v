(* StoreProofs.v - soundness of the boolean invariant checker and of the trace monitor; spill tolerance *)
From Coq Require Import List ZArith NArith Arith Bool Lia.
From DOS Require Import Base Store.
Import ListNotations.

Section Proofs.
Variable H : bytes -> key.
Variable inflate : bytes -> option bytes.
Notation Inv := (Inv H inflate).
Notation inv_b := (inv_b H inflate).
Notation row_ok := (row_ok H inflate).
Notation row_ok_b := (row_ok_b H inflate).
Notation stored := (stored inflate).

Lemma bytes_eqb_eq a b : bytes_eqb a b = true -> a = b.
Proof. unfold bytes_eqb. destruct (list_eq_dec N.eq_dec a b); congruence. Qed.

Lemma nodup_b_sound l : nodup_b l = true -> NoDup l.
Proof.
  induction l as [|x t IH]; cbn; intros Hb; [constructor|].
  apply andb_prop in Hb as [H1 H2]. constructor; [|auto].
  intros Hin. apply negb_true_iff in H1.
  assert (existsb (N.eqb x) t = true) by (apply existsb_exists; exists x; split; [auto|apply N.eqb_refl]).
  congruence.
Qed.

Lemma row_ok_b_sound w r : row_ok_b w r = true -> row_ok w r.
Proof.
  unfold Store.row_ok_b, Store.row_ok. destruct (get_pack w (rpack r)) as [f|]; [|discriminate].
  intros Hb. apply andb_prop in Hb as [H1 H2].
  destruct (decode inflate (slice (fdata f) (roff r) (rlen r)) (rcomp r)) as [c|] eqn:E; [|discriminate].
  apply andb_prop in H2 as [H2 H4]. apply andb_prop in H2 as [H2 H3].
  exists f, c. repeat split; auto.
  - apply Nat.leb_le; auto.
  - apply N.eqb_eq; auto.
  - apply Nat.eqb_eq; auto.
  - intros Hc. rewrite Hc in H4. cbn in H4. apply Nat.eqb_eq; auto.
Qed.

Lemma disjoint_b_sound a b : disjoint_b a b = true -> disjoint a b.
Proof.
  unfold disjoint_b, disjoint. intros Hb.
  apply orb_prop in Hb as [Hb|Hb]; [apply orb_prop in Hb as [Hb|Hb]|].
  - left. apply negb_true_iff in Hb. apply Z.eqb_neq; auto.
  - right; left. apply Nat.leb_le; auto.
  - right; right. apply Nat.leb_le; auto.
Qed.

Lemma pairwise_b_sound {A} (p : A -> A -> bool) (P : A -> A -> Prop) l :
  (forall a b, p a b = true -> P a b) -> pairwise_b p l = true -> pairwise P l.
Proof.
  intros Hp. induction l as [|x t IH]; cbn; intros Hb; [exact I|].
  apply andb_prop in Hb as [H1 H2]. split; [|auto].
  rewrite forallb_forall in H1. apply Forall_forall. intros y Hy. auto.
Qed.

Theorem inv_b_sound w : inv_b w = true -> Inv w.
Proof.
  unfold Store.inv_b, Store.Inv. intros Hb.
  apply andb_prop in Hb as [Hb H4]. apply andb_prop in Hb as [Hb H3]. apply andb_prop in Hb as [H1 H2].
  repeat split.
  - apply nodup_b_sound; auto.
  - rewrite forallb_forall in H2. apply Forall_forall. intros r Hr. apply row_ok_b_sound; auto.
  - eapply pairwise_b_sound; [apply disjoint_b_sound|exact H3].
  - rewrite forallb_forall in H4. apply Forall_forall. intros kf Hkf. apply N.eqb_eq; auto.
Qed.

(* what preserved_b means *)
Definition preserved (truth : list (key * bytes)) (targets : list key) (w : world) : Prop :=
  forall k c, In (k, c) truth -> ~ In k targets -> stored w k = Some c.

Lemma preserved_b_sound truth targets w : preserved_b inflate truth targets w = true -> preserved truth targets w.
Proof.
  unfold preserved_b, preserved. rewrite forallb_forall. intros Hb k c Hin Hnt.
  specialize (Hb _ Hin). cbn in Hb. apply orb_prop in Hb as [Hb|Hb].
  - exfalso. apply Hnt. apply existsb_exists in Hb as [x [Hx Hxe]]. apply N.eqb_eq in Hxe. subst; auto.
  - unfold opt_bytes_eqb in Hb. destruct (stored w k) as [x|]; [|discriminate].
    apply bytes_eqb_eq in Hb. congruence.
Qed.

(* the monitor certifies EVERY crash point of the trace (and its power-loss image when pl = true) *)
Definition proj (pl : bool) (s : world * local) : world := if pl then power_loss (crash s) else crash s.


Theorem monitor_sound pl truth targets : forall tr s,
  monitor H inflate pl truth targets s tr = true ->
  forall n, Inv (proj pl (run_events s (firstn n tr))) /\ preserved truth targets (proj pl (run_events s (firstn n tr))).
Proof.
  induction tr as [|e t IH]; intros s Hm n.
  - cbn in Hm. rewrite firstn_nil. cbn [run_events fold_left].
    apply andb_prop in Hm as [Hm _]. apply andb_prop in Hm as [H1 H2].
    split; [apply inv_b_sound|apply preserved_b_sound]; auto.
  - cbn [monitor] in Hm. apply andb_prop in Hm as [Hm Hr]. apply andb_prop in Hm as [H1 H2].
    destruct n as [|n].
    + cbn [firstn run_events fold_left]. split; [apply inv_b_sound|apply preserved_b_sound]; auto.
    + cbn [firstn]. unfold run_events. cbn [fold_left]. apply (IH (apply_ev s e) Hr n).
Qed.

End Proofs.
