(* Layout.v - the fill order of pack_all_loose / add_streamed_objects_to_pack as a pure function: before every object the container asks
   _get_pack_id_to_write_to with the current size of the open pack; the object goes to the open pack while that size is below the target,
   otherwise the pack is closed (commit) and the next pack is started.  `segs` returns the objects per pack, in order.
   Theorems: nothing is lost or reordered; every pack but the last one has reached the target when it is left; no object is ever
   appended to a pack that has reached the target. *)
From Coq Require Import List Arith Bool Lia.
Import ListNotations.

Section Layout.
Context {A : Type}.
Variable len : A -> nat.          (* stored length of an object (after optional compression) *)

Definition total (l : list A) : nat := fold_right (fun o n => len o + n) 0 l.

Lemma total_app a b : total (a ++ b) = total a + total b.
Proof. induction a as [|x t IH]; cbn; [reflexivity|]. unfold total in *. rewrite IH. lia. Qed.

(* objects taken by the open pack whose current size is `size` *)
Fixpoint take_until (target size : nat) (objs : list A) : list A * list A :=
  match objs with
  | [] => ([], [])
  | o :: t => if target <=? size then ([], objs)
              else let '(a, b) := take_until target (size + len o) t in (o :: a, b)
  end.

Fixpoint segs (fuel target size : nat) (objs : list A) : list (list A) :=
  match fuel with
  | 0 => []
  | S f => match objs with
           | [] => []
           | _ => let '(a, b) := take_until target size objs in a :: segs f target 0 b
           end
  end.

Lemma take_until_app target : forall objs size, let '(a, b) := take_until target size objs in a ++ b = objs.
Proof.
  induction objs as [|o t IH]; intros size; cbn [take_until]; [reflexivity|].
  destruct (target <=? size); [reflexivity|].
  specialize (IH (size + len o)). destruct (take_until target (size + len o) t) as [a b]. cbn. rewrite IH. reflexivity.
Qed.

(* the open pack is left either because the objects are exhausted or because it has reached the target; it was below the target
   before each of its objects *)
Lemma take_until_spec target : forall objs size, let '(a, b) := take_until target size objs in
  (b <> [] -> target <= size + total a) /\
  (forall pre x post, a = pre ++ x :: post -> size + total pre < target).
Proof.
  induction objs as [|o t IH]; intros size; cbn [take_until].
  - split; [congruence|]. intros pre x post E. destruct pre; discriminate.
  - destruct (Nat.leb_spec target size) as [Hle|Hlt].
    + split; [cbn; lia|]. intros pre x post E. destruct pre; discriminate.
    + specialize (IH (size + len o)). destruct (take_until target (size + len o) t) as [a b]. destruct IH as [I1 I2].
      split.
      * intros Hb. specialize (I1 Hb). cbn [total fold_right]. fold (total a). lia.
      * intros pre x post E. destruct pre as [|y pre']; cbn in E.
        -- cbn. lia.
        -- inversion E; subst. specialize (I2 pre' x post eq_refl). cbn [total fold_right]. fold (total pre'). lia.
Qed.

Lemma take_until_progress target size o t : size < target -> fst (take_until target size (o :: t)) <> [].
Proof.
  intros Hlt. cbn [take_until]. destruct (Nat.leb_spec target size); [lia|].
  destruct (take_until target (size + len o) t). cbn. discriminate.
Qed.

Lemma take_until_rest_len target : forall objs size, length (snd (take_until target size objs)) <= length objs.
Proof.
  induction objs as [|o t IH]; intros size; cbn [take_until]; [cbn; lia|].
  destruct (target <=? size); [cbn; lia|].
  specialize (IH (size + len o)). destruct (take_until target (size + len o) t) as [a b]. cbn in *. lia.
Qed.

Lemma take_until_rest_lt target size o t : size < target -> length (snd (take_until target size (o :: t))) < length (o :: t).
Proof.
  intros Hlt. cbn [take_until]. destruct (Nat.leb_spec target size); [lia|].
  pose proof (take_until_rest_len target t (size + len o)) as Hl.
  destruct (take_until target (size + len o) t) as [a b]. cbn in *. lia.
Qed.

(* ---- the whole call ---- *)
Theorem segs_concat target : 0 < target -> forall fuel objs size, size < target -> length objs < fuel ->
  concat (segs fuel target size objs) = objs.
Proof.
  intros Ht. induction fuel as [|f IH]; intros objs size Hs Hf; [lia|].
  cbn [segs]. destruct objs as [|o t]; [reflexivity|].
  pose proof (take_until_app target (o :: t) size) as Happ.
  pose proof (take_until_rest_lt target size o t Hs) as Hlt.
  destruct (take_until target size (o :: t)) as [a b]. cbn [snd] in Hlt. cbn [concat].
  rewrite (IH b 0 Ht); [exact Happ|]. cbn [length] in *. lia.
Qed.

(* every pack but the last one of the call has reached the target (start size of the first pack: `size`; later packs start empty),
   and no object was appended to a pack that had reached the target *)
Theorem segs_layout target : 0 < target -> forall fuel objs size, size < target -> length objs < fuel ->
  forall pre s post, segs fuel target size objs = pre ++ s :: post ->
    (post <> [] -> target <= (match pre with [] => size | _ => 0 end) + total s) /\
    (forall p x q, s = p ++ x :: q -> (match pre with [] => size | _ => 0 end) + total p < target) /\
    s <> [].
Proof.
  intros Ht. induction fuel as [|f IH]; intros objs size Hs Hf pre s post E; [lia|].
  cbn [segs] in E. destruct objs as [|o t]; [destruct pre; discriminate|].
  pose proof (take_until_spec target (o :: t) size) as Hspec.
  pose proof (take_until_progress target size o t Hs) as Hprog.
  pose proof (take_until_rest_lt target size o t Hs) as Hlt.
  destruct (take_until target size (o :: t)) as [a b] eqn:Et. cbn [fst snd] in *. destruct Hspec as [S1 S2].
  destruct pre as [|y pre']; cbn in E.
  - inversion E as [[E1 E2]]. subst s. split; [|split; [exact S2|exact Hprog]].
    intros Hpost. apply S1. intros Hb. subst b. apply Hpost. destruct f; reflexivity.
  - inversion E as [[E1 E2]]. subst y.
    assert (Hfb : length b < f) by (cbn [length] in *; lia).
    destruct (IH b 0 Ht Hfb pre' s post E2) as (J1 & J2 & J3).
    split; [|split; [|exact J3]].
    + intros Hpost. specialize (J1 Hpost). destruct pre'; cbn in *; lia.
    + intros p x q Es. specialize (J2 p x q Es). destruct pre'; cbn in *; lia.
Qed.

End Layout.
