(* Lookup.v - model of Container._get_objects_stream_meta_generator (container.py), the generator behind has_objects,
   get_objects_meta, get_objects_content and get_objects_stream_and_meta.  The control flow mirrors the Python:

     hashkeys_set = set(hashkeys)
     index query on the handle's session (snapshot d1): chunked IN-queries when len(set) <= _MAX_CHUNK_ITERATE_LENGTH,
        else ONE scan ordered by hashkey merged with sorted(hashkeys_set) by detect_where_sorted (Merge.dws), keeping BOTH
     rows grouped per pack (dict insertion order = first appearance), each group sorted by offset (stable), yielded
     the remaining keys are looked for in loose/ (ls: key -> size of the file at that instant)
     if some are not there: session refreshed (snapshot d2), the SAME two-strategy query for those keys, grouped, yielded
     what is still not found is yielded as MISSING unless skip_if_missing

   Set iteration orders are not modelled (no property mentions them): the loose and missing segments are emitted in the order
   of `ks`; the correspondence compares those segments as sets and the packed segments as runs per pack (DESIGN 10.10).
   No proofs here. *)
From Coq Require Import List ZArith NArith Arith Bool Lia.
From DOS Require Import Base Merge Chunks Store.
Import ListNotations.

Definition kz (k : key) : Z := Z.of_N k.

(* stable insertion sort by a Z-valued key: x goes before the first element that is not smaller *)
Section Sort.
Context {A : Type} (f : A -> Z).
Fixpoint ins (x : A) (l : list A) : list A :=
  match l with [] => [x] | y :: t => if (f x <=? f y)%Z then x :: y :: t else y :: ins x t end.
Fixpoint isort (l : list A) : list A := match l with [] => [] | x :: t => ins x (isort t) end.
End Sort.

Record lcfg := mkLcfg { in_max : nat;      (* _IN_SQL_MAX_LENGTH *)
                        iter_max : nat }.  (* _MAX_CHUNK_ITERATE_LENGTH *)

Definition mem (k : key) (l : list key) : bool := existsb (N.eqb k) l.

(* set(hashkeys): one representative per key (the theorems hold for ANY duplicate-free enumeration of the request) *)
Fixpoint dedup (l : list key) : list key :=
  match l with [] => [] | k :: t => if mem k t then dedup t else k :: dedup t end.

(* SELECT ... WHERE hashkey IN (chunk) *)
Definition sel_in (d : list row) (chunk : list key) : list row := filter (fun r => mem (rkey r) chunk) d.
Definition q_chunked (n : nat) (d : list row) (ks : list key) : list row := flat_map (sel_in d) (chunks n ks).

(* SELECT ... ORDER BY hashkey, merged with sorted(keys); BOTH -> the row (the left element) *)
Definition rkz (r : row) : Z := kz (rkey r).
Definition both_rows (d : list row) (items : list item) : list row :=
  flat_map (fun it => match it with
                      | (k, Some _, BOTH) => match find_row d (Z.to_N k) with Some r => [r] | None => [] end
                      | _ => []
                      end) items.
Definition q_scan (d : list row) (ks : list key) : list row * status :=
  let '(items, st) := dws (map (fun r => (rkz r, 0%Z)) (isort rkz d)) (isort (fun z => z) (map kz ks)) in
  (both_rows d items, st).

Definition query (c : lcfg) (d : list row) (ks : list key) : list row * status :=
  if (length ks <=? iter_max c)%nat then (q_chunked (in_max c) d ks, Ok) else q_scan d ks.

(* packs = defaultdict(list): pack ids in order of first appearance; each group sorted by offset *)
Fixpoint first_ids (seen : list Z) (rows : list row) : list Z :=
  match rows with
  | [] => []
  | r :: t => if existsb (Z.eqb (rpack r)) seen then first_ids seen t else rpack r :: first_ids (rpack r :: seen) t
  end.
Definition of_pack (p : Z) (rows : list row) : list row := filter (fun r => Z.eqb (rpack r) p) rows.
Definition group (rows : list row) (p : Z) : list row := isort (fun r => Z.of_nat (roff r)) (of_pack p rows).
Definition grouped (rows : list row) : list row := flat_map (group rows) (first_ids [] rows).

Inductive found := FPacked (r : row) | FLoose (k : key) (size : nat) | FMissing (k : key).
Definition fkey (f : found) : key := match f with FPacked r => rkey r | FLoose k _ => k | FMissing k => k end.
Definition is_missing (f : found) : bool := match f with FMissing _ => true | _ => false end.

Definition worst (a b : status) : status := match a with Ok => b | _ => a end.

Definition loose_size (ls : list (key * nat)) (k : key) : option nat := aget N.eqb ls k.

Definition lookup_bulk (c : lcfg) (skip : bool) (d1 : list row) (ls : list (key * nat)) (d2 : list row) (ks : list key)
  : list found * status :=
  let '(rows1, st1) := query c d1 ks in
  let rest := filter (fun k => negb (mem k (map rkey rows1))) ks in
  let loose_found := flat_map (fun k => match loose_size ls k with Some sz => [FLoose k sz] | None => [] end) rest in
  let notfound := filter (fun k => match loose_size ls k with None => true | Some _ => false end) rest in
  match notfound with
  | [] => (map FPacked (grouped rows1) ++ loose_found, st1)
  | _ =>
      let '(rows2, st2) := query c d2 notfound in
      let really := filter (fun k => negb (mem k (map rkey rows2))) notfound in
      (map FPacked (grouped rows1) ++ loose_found ++ map FPacked (grouped rows2) ++
       (if skip then [] else map FMissing really), worst st1 st2)
  end.

(* the single-key answer: index snapshot, then the loose folder, then the refreshed index *)
Definition lookup1 (d1 : list row) (ls : list (key * nat)) (d2 : list row) (k : key) : found :=
  match find_row d1 k with
  | Some r => FPacked r
  | None => match loose_size ls k with
            | Some sz => FLoose k sz
            | None => match find_row d2 k with Some r => FPacked r | None => FMissing k end
            end
  end.

(* did the run consult the refreshed snapshot at all?  (the session is only reset when some key is in neither) *)
Definition needs_refresh (d1 : list row) (ls : list (key * nat)) (ks : list key) : bool :=
  existsb (fun k => match find_row d1 k, loose_size ls k with None, None => true | _, _ => false end) ks.
