(* Programs.v - operations of the library as programs over the event alphabet of Store.v (trace generators).
   The control flow mirrors the Python; what the program reads from the world is computed from the world passed in
   (sequential semantics); a crash after n primitives is the prefix `firstn n`.  No proofs here. *)
From Coq Require Import List ZArith NArith Arith Bool Lia.
From DOS Require Import Base Store.
Import ListNotations.

Section Programs.
Variable H : bytes -> key.
Variable inflate : bytes -> option bytes.

(* ObjectWriter.__enter__ .. __exit__ through Container.add_streamed_object:
   open sandbox/<uuid> 'wb'; one write per chunk read from the source stream; safe_flush_to_disk (flush, fsync, fsync of the
   directory - a directory operation, not an event of the model); close; then
     - destination exists and re-hashes to the key: return (the sandbox file is removed by the `finally`)
     - otherwise os.rename / os.replace into loose/ (then fsync of the parent directory) *)
Definition dest_ok (w : world) (k : key) : bool :=
  match get_loose w k with Some f => N.eqb (H (fdata f)) k | None => false end.

Definition p_add_loose (w : world) (n : nat) (chunks : list bytes) : list event :=
  let k := H (concat chunks) in
  EOpenSand n :: map (EWrite (HSand n)) chunks ++
  [EFlush (HSand n); EFsync (HSand n); EClose (HSand n)] ++
  (if dest_ok w k then [EUnlinkSand n] else [EPublish n k]).

(* One pack of Container.pack_all_loose, for the objects `objs` = (key, stored blob, compressed?, size) in the order the set
   iteration produced them (an oracle), written to pack `id`, default do_fsync:
     open packs/<id> 'ab'; per object: write blob (chunked); then one INSERT of all rows; flush; fsync; close; COMMIT;
     optionally unlink the loose files just packed (clean_loose_per_pack) *)
Record pobj := mkPobj { okey : key; oblob : bytes; ocomp : bool; osize : nat }.

Fixpoint rows_from (id : Z) (off : nat) (objs : list pobj) : list row :=
  match objs with
  | [] => []
  | o :: t => mkRow (okey o) id off (length (oblob o)) (ocomp o) (osize o) :: rows_from id (off + length (oblob o)) t
  end.

Definition pack_len (w : world) (id : Z) : nat := match get_pack w id with Some f => length (fdata f) | None => 0 end.

Definition p_pack_one (w : world) (id : Z) (objs : list pobj) (do_fsync clean : bool) : list event :=
  EOpenPack id :: map (fun o => EWrite (HPack id) (oblob o)) objs ++
  [ESql (SInsert false (rows_from id (pack_len w id) objs))] ++
  (if do_fsync then [EFlush (HPack id); EFsync (HPack id)] else []) ++
  [EClose (HPack id); ECommit] ++
  (if clean then map (fun o => EUnlinkLoose (okey o)) objs else []).

(* clean_storage (without duplicates): optional VACUUM (a COMMIT before it - VACUUM cannot run inside a transaction - and one
   after it; VACUUM itself does not change the rows), then unlink every loose file whose key is indexed *)
Definition p_clean (w : world) (vacuum : bool) (order : list key) : list event :=
  (if vacuum then [ECommit; ECommit] else []) ++ map EUnlinkLoose (filter (fun k => has_key (db w) k) order).

(* delete_objects: os.remove of the loose file is attempted for every key (FileNotFoundError ignored: a no-op event),
   then the DELETE of the keys (one statement per chunk of _IN_SQL_MAX_LENGTH keys; one here), one COMMIT *)
Definition p_delete (w : world) (ks : list key) : list event :=
  map EUnlinkLoose ks ++ [ESql (SDelete ks); ECommit].

(* add_streamed_objects_to_pack (one pack), the three modes:
     nh = false                      : every object is appended and gets a row (INSERT OR IGNORE decides about known keys)
     nh = true,  twice = true        : the stream is hashed first; a known key is skipped without writing
     nh = true,  twice = false       : the object is appended; if its key turns out to be known the handle is sought back and the
                                       pack truncated at once (the repair of finding F3)
   `known` starts as the indexed keys when nh (else it is not consulted), grows with every new key of the batch.
   Returns the events of the loop and the rows collected. *)
Fixpoint atp_loop (id : Z) (nh twice : bool) (known : list key) (pos : nat) (objs : list pobj) : list event * list row :=
  match objs with
  | [] => ([], [])
  | o :: t =>
      let is_known := nh && existsb (N.eqb (okey o)) known in
      if is_known then
        let '(es, rs) := atp_loop id nh twice known pos t in
        if twice then (es, rs)
        else (EWrite (HPack id) (oblob o) :: ETruncate id pos :: es, rs)
      else
        let '(es, rs) := atp_loop id nh twice (if nh then okey o :: known else known) (pos + length (oblob o)) t in
        (EWrite (HPack id) (oblob o) :: es, mkRow (okey o) id pos (length (oblob o)) (ocomp o) (osize o) :: rs)
  end.

Fixpoint atp_end (nh : bool) (known : list key) (pos : nat) (objs : list pobj) : nat :=
  match objs with
  | [] => pos
  | o :: t => if nh && existsb (N.eqb (okey o)) known then atp_end nh known pos t
              else atp_end nh (if nh then okey o :: known else known) (pos + length (oblob o)) t
  end.

Definition p_add_to_pack (w : world) (id : Z) (objs : list pobj) (nh twice do_fsync : bool) : list event :=
  let known := map rkey (db w) in
  let pos0 := pack_len w id in
  let '(es, rs) := atp_loop id nh twice known pos0 objs in
  EOpenPack id :: es ++
  (if nh then [ETruncate id (atp_end nh known pos0 objs)] else []) ++
  (match rs with [] => [] | _ => [ESql (SInsert true rs)] end) ++
  (if do_fsync then [EFlush (HPack id); EFsync (HPack id)] else []) ++
  [EClose (HPack id); ECommit].

(* The same call with do_commit=False (as import_objects uses it): everything up to and including the close of the pack handle; the rows
   stay in the open transaction.  `known` and `pos` are what the call sees: the keys its session reports (committed rows and the rows
   still pending in its own transaction) and the current length of the pack. *)
Definition sql_of_rows (rs : list row) : list event := match rs with [] => [] | _ => [ESql (SInsert true rs)] end.

Definition p_batch (id : Z) (nh twice do_fsync : bool) (known : list key) (pos : nat) (objs : list pobj) : list event :=
  EOpenPack id :: fst (atp_loop id nh twice known pos objs) ++
  (if nh then [ETruncate id (atp_end nh known pos objs)] else []) ++
  sql_of_rows (snd (atp_loop id nh twice known pos objs)) ++
  (if do_fsync then [EFlush (HPack id); EFsync (HPack id)] else []) ++
  [EClose (HPack id)].

(* the keys the session knows after a batch (only consulted when nh) *)
Fixpoint atp_known (nh : bool) (known : list key) (objs : list pobj) : list key :=
  match objs with
  | [] => known
  | o :: t => if nh && existsb (N.eqb (okey o)) known then atp_known nh known t
              else atp_known nh (if nh then okey o :: known else known) t
  end.

(* import_objects after the keys to transfer are fixed (same hash: the requested keys the destination lacks, nh = false; different
   hash: all requested keys, nh = twice = true): a sequence of batches - the flushes of the bounded content cache and the single
   objects larger than the budget -, each written to the pack the container selects at that moment, and ONE final COMMIT.
   `cur` carries the current length of the packs touched so far. *)
Fixpoint p_batches (w : world) (nh twice do_fsync : bool) (known : list key) (cur : list (Z * nat)) (bs : list (Z * list pobj)) : list event :=
  match bs with
  | [] => []
  | (id, objs) :: t =>
      let pos := match aget Z.eqb cur id with Some n => n | None => pack_len w id end in
      p_batch id nh twice do_fsync known pos objs ++
      p_batches w nh twice do_fsync (atp_known nh known objs) (aset Z.eqb cur id (atp_end nh known pos objs)) t
  end.

Definition p_import (w : world) (nh twice do_fsync : bool) (bs : list (Z * list pobj)) : list event :=
  p_batches w nh twice do_fsync (map rkey (db w)) [] bs ++ [ECommit].

(* repack_pack(id): nothing indexed in the pack -> remove the file; otherwise copy the stored bytes of its live rows, in offset
   order, into the temporary pack -1 (objs: key, new stored blob - recompressed or not, an oracle -, flag, size), flush+fsync+close,
   re-point the rows to -1 with their new offsets (bulk update by primary key), COMMIT, remove the old pack, hard-link -1 back to
   the id, re-point the rows to the id, COMMIT, remove -1 *)
Definition REPACK : Z := (-1)%Z.
Definition rows_of_pack (d : list row) (id : Z) : list row := filter (fun r => Z.eqb (rpack r) id) d.

Definition p_repack_one (w : world) (id : Z) (objs : list pobj) : list event :=
  match rows_of_pack (db w) id with
  | [] => match get_pack w id with Some _ => [EUnlinkPack id] | None => [] end
  | _ =>
      EOpenPack REPACK :: map (fun o => EWrite (HPack REPACK) (oblob o)) objs ++
      [EFlush (HPack REPACK); EFsync (HPack REPACK); EClose (HPack REPACK);
       ESql (SUpdateRows (rows_from REPACK 0 objs)); ECommit;
       EUnlinkPack id; ELinkPack REPACK id; ESql (SRepoint REPACK id); ECommit; EUnlinkPack REPACK]
  end.

(* _vacuum: COMMIT, VACUUM, commit *)
Definition p_vacuum : list event := [ECommit; ECommit].

End Programs.
