(* AddPackProofs.v - add_streamed_objects_to_pack (one pack), all three modes (plain, no_holes with read-twice, no_holes with
   immediate truncation): for ALL object lists (any repetitions, known or new keys), worlds and EVERY crash point the world is
   Good (invariant, everything stored stays stored; with do_fsync also in the power-loss image). *)
From Coq Require Import List ZArith NArith Arith Bool Lia.
From DOS Require Import Base Store StoreProofs StoreLemmas Mono MonoStep Programs ProgramsProofs PackProofs.
Import ListNotations.

Section AP.
Variable H : bytes -> key.
Variable inflate : bytes -> option bytes.
Hypothesis H_inj : forall a b, H a = H b -> a = b.
Notation Inv := (Inv H inflate).
Notation stored := (stored inflate).
Notation Good := (Good H inflate).
Notation row_ok_d := (row_ok_d H inflate).

(* ---- INSERT [OR IGNORE] of rows that may repeat keys ---- *)
Lemma insert_rows_in ig : forall rs d r, In r (insert_rows ig d rs) -> In r d \/ In r rs.
Proof.
  induction rs as [|x t IH]; intros d r Hin; cbn in Hin; [left; exact Hin|].
  destruct (has_key d (rkey x)).
  - destruct (IH d r Hin); [left; auto|right; right; auto].
  - destruct (IH (d ++ [x]) r Hin) as [Hd|Ht]; [|right; right; auto].
    apply in_app_or in Hd as [Hd|[<-|[]]]; [left; auto|right; left; auto].
Qed.

Lemma pairwise_app_one (d : list row) x : pairwise disjoint d -> Forall (fun a => disjoint a x) d -> pairwise disjoint (d ++ [x]).
Proof.
  induction d as [|a t IH]; intros Hp Hf; cbn; [split; [constructor|exact I]|].
  destruct Hp as [Ha Ht]. inversion Hf; subst. split.
  - apply Forall_app. split; [exact Ha|constructor; [assumption|constructor]].
  - apply IH; auto.
Qed.

Lemma pairwise_insert ig : forall rs d, pairwise disjoint d -> (forall a, In a d -> Forall (disjoint a) rs) -> pairwise disjoint rs ->
  pairwise disjoint (insert_rows ig d rs).
Proof.
  induction rs as [|x t IH]; intros d Hd Hx Hp; cbn; [exact Hd|]. destruct Hp as [Hxt Ht].
  destruct (has_key d (rkey x)).
  - apply IH; auto. intros a Ha. specialize (Hx a Ha). inversion Hx; auto.
  - apply IH; auto.
    + apply pairwise_app_one; auto. apply Forall_forall. intros a Ha. specialize (Hx a Ha). inversion Hx; auto.
    + intros a Ha. apply in_app_or in Ha as [Ha|[<-|[]]]; [specialize (Hx a Ha); inversion Hx; auto|exact Hxt].
Qed.

Lemma commit_Good_ins w w4 l4 id fs X (data : bytes) (R : list row) ig :
  Inv w -> prefix_of (Dof w id) data ->
  Forall (fun r => rpack r = id /\ length (Dof w id) <= roff r /\ row_ok_d data r) R ->
  pairwise disjoint R ->
  ext w w4 id data X -> (fs = true -> X = data) ->
  pending l4 = match R with [] => [] | _ => [SInsert ig R] end ->
  exists l5, apply_ev (w4, l4) ECommit = (set_db w4 (insert_rows ig (db w) R), l5) /\ Good w fs (set_db w4 (insert_rows ig (db w) R)).
Proof.
  intros HI Hpre HR HpwR E HX Hpend.
  pose proof E as (El & Ed & Ep & Eo). pose proof HI as (Hnd0 & Hok0 & Hpw0 & Hl0).
  rewrite Forall_forall in HR.
  exists (set_pending l4 []). split.
  { cbn [apply_ev]. rewrite Hpend, Ed. destruct R; reflexivity. }
  set (D2 := insert_rows ig (db w) R).
  set (w5 := set_db w4 D2).
  assert (HndR : NoDup (map rkey D2)) by (apply insert_rows_nodup; exact Hnd0).
  assert (HpwD : pairwise disjoint D2).
  { apply pairwise_insert; auto. intros a Ha. apply Forall_forall. intros r Hr. destruct (HR r Hr) as (Hrp & Hoff & _).
    destruct (Z.eq_dec (rpack a) id) as [Ea|Ea]; [|left; congruence].
    right. left. rewrite Forall_forall in Hok0.
    destruct (proj1 (row_ok_iff H inflate w a) (Hok0 a Ha)) as (f & Hp & (c & Hle & _)).
    unfold Dof in Hoff. rewrite Ea in Hp. rewrite Hp in Hoff. lia. }
  assert (Hrows_id : forall r, In r D2 -> rpack r = id -> row_ok_d data r).
  { intros r Hin Er. apply insert_rows_in in Hin as [Hin|Hin].
    - rewrite Forall_forall in Hok0. destruct (proj1 (row_ok_iff H inflate w r) (Hok0 r Hin)) as (f & Hp & Hd).
      eapply row_ok_d_prefix; [exact Hd|]. unfold Dof in Hpre. rewrite Er in Hp. rewrite Hp in Hpre. exact Hpre.
    - destruct (HR r Hin) as (_ & _ & Hd). exact Hd. }
  assert (Hrows_other : forall r, In r D2 -> rpack r <> id -> In r (db w)).
  { intros r Hin Ne. apply insert_rows_in in Hin as [Hin|Hin]; [exact Hin|]. destruct (HR r Hin) as (Hrp & _). congruence. }
  assert (Hkeys : forall k, In k (map rkey (db w)) -> In k (map rkey D2)).
  { intros k Hk. apply in_map_iff in Hk as (r & <- & Hr). apply in_map. apply insert_rows_keeps. exact Hr. }
  split; [|split].
  - apply (Inv_assemble' H inflate w w5 id data X); unfold w5; cbn [db set_db loose]; auto.
    + rewrite El. exact Hl0.
    + intros r Hin Ne. rewrite Forall_forall in Hok0. apply Hok0. apply Hrows_other; auto.
  - split; [unfold w5; cbn [db set_db]; exact Hkeys|].
    intros k f Hg. left. exists f. unfold get_loose, w5 in *. cbn [loose set_db]. rewrite El. auto.
  - intros F P. specialize (HX F). subst X.
    pose proof (ext_pl _ _ _ _ _ E) as (Elp & Edp & Epp & Eop).
    pose proof P as (Pnd & Pok & Ppw & Pl).
    assert (Epl : power_loss w5 = set_db (power_loss w4) D2) by reflexivity.
    split.
    + rewrite Epl.
      apply (Inv_assemble' H inflate (power_loss w) (set_db (power_loss w4) D2) id data data); cbn [db set_db loose]; auto.
      * rewrite Elp. exact Pl.
      * intros r Hin Ne. rewrite Forall_forall in Pok. apply Pok. cbn [db power_loss]. apply Hrows_other; auto.
    + split; [cbn [db power_loss]; unfold w5; cbn [db set_db]; exact Hkeys|].
      intros k f Hg. left. exists f. unfold get_loose in *. rewrite Epl. cbn [loose set_db]. rewrite Elp. auto.
Qed.


(* what the caller passes for each stream: the stored blob decodes to the content whose digest is the key (the key is computed from
   the stream by the hashing wrapper) and whose length is the recorded size *)
Definition aobj_ok (o : pobj) : Prop :=
  exists c, decode inflate (oblob o) (ocomp o) = Some c /\ H c = okey o /\ length c = osize o /\
            (ocomp o = false -> length (oblob o) = osize o).

Fixpoint atp_bytes (nh : bool) (known : list key) (objs : list pobj) : bytes :=
  match objs with
  | [] => []
  | o :: t => if nh && existsb (N.eqb (okey o)) known then atp_bytes nh known t
              else oblob o ++ atp_bytes nh (if nh then okey o :: known else known) t
  end.

Lemma atp_end_bytes nh : forall objs known pos, atp_end nh known pos objs = pos + length (atp_bytes nh known objs).
Proof.
  induction objs as [|o t IH]; intros known pos; cbn [atp_end atp_bytes]; [cbn; lia|].
  destruct (nh && existsb (N.eqb (okey o)) known); [apply IH|]. rewrite IH, app_length. lia.
Qed.

Lemma exec_write1 w1 l1 id b x : get_buf l1 (HPack id) = Some b ->
  exists l2, apply_ev (w1, l1) (EWrite (HPack id) x) = (w1, l2) /\ get_buf l2 (HPack id) = Some (b ++ x) /\ pending l2 = pending l1.
Proof.
  intros Hb. cbn [apply_ev]. rewrite Hb. eexists. split; [reflexivity|]. split; [|reflexivity].
  unfold get_buf. cbn [bufs set_bufs]. apply (g_aset_eq hid_eqb hid_eqb_spec).
Qed.

Lemma exec_truncate w0 w1 l id X Y b pos : ext w0 w1 id X Y -> get_buf l (HPack id) = Some b ->
  exists w2 l2, apply_ev (w1, l) (ETruncate id pos) = (w2, l2) /\ ext w0 w2 id (firstn pos (X ++ b)) Y /\
     get_buf l2 (HPack id) = Some [] /\ pending l2 = pending l.
Proof.
  intros E Hb. destruct (exec_flush w0 w1 l id X Y b E Hb) as (wf & lf & Ef & Xf & Hbf & Hpf).
  cbn [apply_ev] in Ef |- *. rewrite Ef. pose proof Xf as (_ & _ & Ep & _). rewrite Ep. cbn [fdata fsynced].
  eexists. eexists. split; [reflexivity|]. split; [eapply put_pack_ext; eauto|]. split; [exact Hbf|exact Hpf].
Qed.

Lemma write_core w1 l1 h x : core (fst (apply_ev (w1, l1) (EWrite h x))) = core w1.
Proof. apply (local_only_core (w1, l1) (EWrite h x)). reflexivity. Qed.

(* the loop over the streams *)
Lemma atp_loop_spec w id nh twice fs : Inv w -> forall objs known pos w1 l1 X b,
  ext w w1 id X (Sof w id) -> get_buf l1 (HPack id) = Some b -> prefix_of (Dof w id) X -> pos = length (X ++ b) ->
  Forall aobj_ok objs ->
  let '(es, rs) := atp_loop id nh twice known pos objs in
  always (Good w fs) (w1, l1) es /\
  (exists w2 l2 X2 b2, run_events (w1, l1) es = (w2, l2) /\ ext w w2 id X2 (Sof w id) /\ get_buf l2 (HPack id) = Some b2 /\
      prefix_of (Dof w id) X2 /\ X2 ++ b2 = (X ++ b) ++ atp_bytes nh known objs /\ pending l2 = pending l1) /\
  Forall (fun r => rpack r = id /\ pos <= roff r /\ forall post, row_ok_d ((X ++ b) ++ atp_bytes nh known objs ++ post) r) rs /\
  pairwise disjoint rs.
Proof.
  intros HI. induction objs as [|o t IH]; intros known pos w1 l1 X b E Hb Hpre Hpos Hobjs.
  - cbn [atp_loop atp_bytes]. split; [apply always_nil; cbn [fst]; eapply (ext_Good_before H inflate); eauto|].
    split; [|split; [constructor|exact I]].
    exists w1, l1, X, b. cbn. rewrite app_nil_r.
    split; [reflexivity|]. split; [exact E|]. split; [exact Hb|]. split; [exact Hpre|]. split; reflexivity.
  - inversion Hobjs as [|? ? Ho Ht]; subst.
    assert (G1 : Good w fs w1) by (eapply (ext_Good_before H inflate); eauto).
    cbn [atp_loop atp_bytes]. destruct (nh && existsb (N.eqb (okey o)) known) eqn:Ek.
    + (* a known key *)
      destruct twice.
      * (* read twice: nothing is written *)
        specialize (IH known (length (X ++ b)) w1 l1 X b E Hb Hpre eq_refl Ht).
        destruct (atp_loop id nh true known (length (X ++ b)) t) as [es rs]. exact IH.
      * (* written, then cut away at once *)
        destruct (exec_write1 w1 l1 id b (oblob o) Hb) as (l2 & E2 & Hb2 & Hp2).
        destruct (exec_truncate w w1 l2 id X (Sof w id) (b ++ oblob o) (length (X ++ b)) E Hb2) as (w3 & l3 & E3 & X3 & Hb3 & Hp3).
        assert (Hcut : firstn (length (X ++ b)) (X ++ b ++ oblob o) = X ++ b).
        { rewrite app_assoc. rewrite firstn_app, firstn_all, Nat.sub_diag. cbn. apply app_nil_r. }
        rewrite Hcut in X3.
        assert (Hpre3 : prefix_of (Dof w id) (X ++ b)) by (eapply prefix_trans; [exact Hpre|exists b; reflexivity]).
        specialize (IH known (length (X ++ b)) w3 l3 (X ++ b) [] X3 Hb3 Hpre3).
        rewrite app_nil_r in IH. specialize (IH eq_refl Ht).
        destruct (atp_loop id nh false known (length (X ++ b)) t) as [es rs].
        destruct IH as (IHa & (w4 & l4 & X4 & b4 & Er & E4 & Hb4 & Hpre4 & Heq4 & Hp4) & IHr & IHp).
        split; [|split; [|split; [exact IHr|exact IHp]]].
        -- apply always_cons; [exact G1|]. rewrite E2. apply always_cons; [exact G1|]. rewrite E3. exact IHa.
        -- exists w4, l4, X4, b4.
           change (run_events (w1, l1) (EWrite (HPack id) (oblob o) :: ETruncate id (length (X ++ b)) :: es))
             with (run_events (apply_ev (apply_ev (w1, l1) (EWrite (HPack id) (oblob o))) (ETruncate id (length (X ++ b)))) es).
           rewrite E2, E3. split; [exact Er|]. split; [exact E4|]. split; [exact Hb4|]. split; [exact Hpre4|].
           split; [exact Heq4|]. rewrite Hp4, Hp3, Hp2. reflexivity.
    + (* a new key: appended, gets a row *)
      destruct (exec_write1 w1 l1 id b (oblob o) Hb) as (l2 & E2 & Hb2 & Hp2).
      set (known' := if nh then okey o :: known else known).
      set (P := length (X ++ b)) in *.
      specialize (IH known' (P + length (oblob o)) w1 l2 X (b ++ oblob o) E Hb2 Hpre).
      assert (Hpos' : P + length (oblob o) = length (X ++ b ++ oblob o)) by (unfold P; rewrite !app_length; lia).
      specialize (IH Hpos' Ht).
      destruct (atp_loop id nh twice known' (P + length (oblob o)) t) as [es rs].
      destruct IH as (IHa & (w4 & l4 & X4 & b4 & Er & E4 & Hb4 & Hpre4 & Heq4 & Hp4) & IHr & IHp).
      split; [|split; [|split]].
      * apply always_cons; [exact G1|]. rewrite E2. exact IHa.
      * exists w4, l4, X4, b4.
        change (run_events (w1, l1) (EWrite (HPack id) (oblob o) :: es)) with (run_events (apply_ev (w1, l1) (EWrite (HPack id) (oblob o))) es).
        rewrite E2. split; [exact Er|]. split; [exact E4|]. split; [exact Hb4|]. split; [exact Hpre4|].
        split; [rewrite Heq4; rewrite <- !app_assoc; reflexivity|]. rewrite Hp4, Hp2. reflexivity.
      * constructor.
        -- cbn [rpack roff]. split; [reflexivity|]. split; [lia|]. intros post.
           destruct Ho as (c & Hd & Hh & Hl & Hc). unfold PackProofs.row_ok_d. cbn [roff rlen rcomp rkey rsize]. exists c.
           replace ((X ++ b) ++ (oblob o ++ atp_bytes nh known' t) ++ post) with ((X ++ b) ++ oblob o ++ (atp_bytes nh known' t ++ post))
             by (rewrite <- !app_assoc; reflexivity).
           unfold P. split; [rewrite !app_length; lia|].
           rewrite slice_mid. repeat split; auto.
        -- eapply Forall_impl; [|exact IHr]. intros r (A & B & C). split; [exact A|]. split; [lia|].
           intros post. specialize (C post). rewrite <- !app_assoc in C. rewrite <- !app_assoc. exact C.
      * cbn [pairwise]. split; [|exact IHp].
        eapply Forall_impl; [|exact IHr]. intros r (A & B & _). right. left. cbn [roff rlen]. lia.
Qed.


Lemma pack_len_Dof w id : pack_len w id = length (Dof w id).
Proof. unfold pack_len, Dof. destruct (get_pack w id); reflexivity. Qed.

Definition sqlpart (rs : list row) : list event := match rs with [] => [] | _ => [ESql (SInsert true rs)] end.

Lemma sqlpart_run w1 l1 rs : pending l1 = [] ->
  exists l2, run_events (w1, l1) (sqlpart rs) = (w1, l2) /\ bufs l2 = bufs l1 /\
             pending l2 = match rs with [] => [] | _ => [SInsert true rs] end.
Proof.
  intros Hp. destruct rs as [|r t]; cbn [sqlpart].
  - exists l1. split; [reflexivity|]. split; [reflexivity|exact Hp].
  - eexists. split; [reflexivity|]. split; [reflexivity|]. cbn [pending set_pending]. rewrite Hp. reflexivity.
Qed.

Lemma sqlpart_local rs : forallb local_only (sqlpart rs) = true.
Proof. destruct rs; reflexivity. Qed.

(* add_streamed_objects_to_pack, one pack, any mode: at EVERY prefix the world is Good *)
Theorem add_to_pack_always w l id objs nh twice fs :
  Inv w -> pending l = [] -> Forall aobj_ok objs ->
  always (Good w fs) (w, l) (p_add_to_pack w id objs nh twice fs).
Proof.
  intros HI Hpend Hobjs. unfold p_add_to_pack.
  set (known := map rkey (db w)). set (D := Dof w id).
  rewrite pack_len_Dof. fold D.
  (* open *)
  destruct (exec_open w l id) as (w1 & l1 & E1 & X1 & Hb1 & Hp1). fold D in X1.
  pose proof (atp_loop_spec w id nh twice fs HI objs known (length D) w1 l1 D [] X1 Hb1 (prefix_refl D)) as LS.
  rewrite app_nil_r in LS. specialize (LS eq_refl Hobjs).
  rewrite atp_end_bytes.
  destruct (atp_loop id nh twice known (length D) objs) as [es rs].
  destruct LS as (LA & (w2 & l2 & X2 & b2 & Er & E2 & Hb2 & Hpre2 & Heq2 & Hp2) & LR & LP).
  set (NB := atp_bytes nh known objs) in *.
  set (data := D ++ NB) in *.
  assert (Hpred : prefix_of D data) by (exists NB; reflexivity).
  assert (HR : Forall (fun r => rpack r = id /\ length D <= roff r /\ row_ok_d data r) rs).
  { eapply Forall_impl; [|exact LR]. intros r (A & B & C). split; [exact A|]. split; [exact B|].
    specialize (C []). rewrite app_nil_r in C. exact C. }
  apply always_cons; [apply Good_refl; exact HI|]. rewrite E1.
  apply always_app; [exact LA|]. rewrite Er.
  assert (Hpend2 : pending l2 = []) by (rewrite Hp2, Hp1; exact Hpend).
  (* optional final truncate: afterwards the file holds exactly data and the buffer is empty; otherwise unchanged *)
  assert (Tr : exists w3 l3 X3 b3, always (Good w fs) (w2, l2) (if nh then [ETruncate id (length D + length NB)] else []) /\
            run_events (w2, l2) (if nh then [ETruncate id (length D + length NB)] else []) = (w3, l3) /\
            ext w w3 id X3 (Sof w id) /\ get_buf l3 (HPack id) = Some b3 /\ prefix_of D X3 /\ X3 ++ b3 = data /\ pending l3 = []).
  { assert (G2 : Good w fs w2) by (eapply (ext_Good_before H inflate); eauto).
    destruct nh.
    - destruct (exec_truncate w w2 l2 id X2 (Sof w id) b2 (length D + length NB) E2 Hb2) as (w3 & l3 & E3 & X3 & Hb3 & Hp3).
      assert (Hcut : firstn (length D + length NB) (X2 ++ b2) = data).
      { rewrite Heq2. fold data. unfold data. rewrite <- app_length. apply firstn_all. }
      rewrite Hcut in X3.
      exists w3, l3, data, []. split.
      { apply always_cons; [exact G2|]. rewrite E3. apply always_nil. cbn [fst]. eapply (ext_Good_before H inflate); eauto. }
      split; [cbn [run_events fold_left]; exact E3|]. split; [exact X3|]. split; [exact Hb3|]. split; [exact Hpred|].
      split; [apply app_nil_r|]. rewrite Hp3. exact Hpend2.
    - exists w2, l2, X2, b2. split; [apply always_nil; exact G2|]. split; [reflexivity|]. split; [exact E2|]. split; [exact Hb2|].
      split; [exact Hpre2|]. split; [exact Heq2|exact Hpend2]. }
  destruct Tr as (w3 & l3 & X3 & b3 & TA & TR & E3 & Hb3 & Hpre3 & Heq3 & Hp3).
  apply always_app; [exact TA|]. rewrite TR.
  assert (G3 : Good w fs w3) by (eapply (ext_Good_before H inflate); eauto).
  (* the INSERT OR IGNORE statement, if any row was collected *)
  fold (sqlpart rs).
  apply always_app.
  { apply always_local; [apply sqlpart_local|]. intros w' Hc. eapply Good_core; [exact Hc|exact G3]. }
  destruct (sqlpart_run w3 l3 rs Hp3) as (l4 & E4 & Hbufs4 & Hp4). rewrite E4.
  assert (Hb4 : get_buf l4 (HPack id) = Some b3) by (unfold get_buf in *; rewrite Hbufs4; exact Hb3).
  destruct fs.
  - cbn [app].
    apply always_cons; [exact G3|].
    destruct (exec_flush w w3 l4 id X3 (Sof w id) b3 E3 Hb4) as (w5 & l5 & E5 & X5 & Hb5 & Hp5). rewrite E5. rewrite Heq3 in X5.
    assert (G5 : Good w true w5) by (eapply (ext_Good_before H inflate); eauto).
    apply always_cons; [exact G5|].
    destruct (exec_fsync w w5 l5 id data (Sof w id) X5) as (w6 & E6 & X6). rewrite E6.
    assert (G6 : Good w true w6) by (eapply (ext_Good_synced H inflate); eauto).
    apply always_cons; [exact G6|].
    destruct (exec_close w w6 l5 id data data [] X6 Hb5) as (w7 & l7 & E7 & X7 & Hp7). rewrite E7. rewrite app_nil_r in X7.
    assert (G7 : Good w true w7) by (eapply (ext_Good_synced H inflate); eauto).
    apply always_cons; [exact G7|].
    destruct (commit_Good_ins w w7 l7 id true data data rs true HI Hpred HR LP X7 (fun _ => eq_refl)) as (l8 & E8 & G8).
    { rewrite Hp7, Hp5. exact Hp4. }
    rewrite E8. apply always_nil. exact G8.
  - cbn [app].
    apply always_cons; [exact G3|].
    destruct (exec_close w w3 l4 id X3 (Sof w id) b3 E3 Hb4) as (w7 & l7 & E7 & X7 & Hp7). rewrite E7. rewrite Heq3 in X7.
    assert (G7 : Good w false w7) by (eapply (ext_Good_before H inflate); eauto).
    apply always_cons; [exact G7|].
    destruct (commit_Good_ins w w7 l7 id false (Sof w id) data rs true HI Hpred HR LP X7) as (l8 & E8 & G8).
    { intros F; discriminate. }
    { rewrite Hp7. exact Hp4. }
    rewrite E8. apply always_nil. exact G8.
Qed.

(* C05 / C06 / C09 for add_objects_to_pack / add_streamed_objects_to_pack (one pack), ALL batches and modes, EVERY crash point *)
Theorem add_to_pack_crash_safe w l id objs nh twice fs m :
  Inv w -> pending l = [] -> Forall aobj_ok objs ->
  let w' := crash (run_events (w, l) (firstn m (p_add_to_pack w id objs nh twice fs))) in
  Inv w' /\ (forall k c, stored w k = Some c -> stored w' k = Some c) /\
  (fs = true -> Inv (power_loss w) ->
     Inv (power_loss w') /\ (forall k c, stored (power_loss w) k = Some c -> stored (power_loss w') k = Some c)).
Proof.
  intros HI Hpend Hobjs. cbn zeta. unfold crash.
  destruct (add_to_pack_always w l id objs nh twice fs HI Hpend Hobjs m) as (A & B & C).
  split; [exact A|]. split.
  - intros k c Hs. exact (stored_preserved H inflate H_inj w _ k c HI A B Hs).
  - intros F P. destruct (C F P) as (C1 & C2). split; [exact C1|].
    intros k c Hs. exact (stored_preserved H inflate H_inj (power_loss w) _ k c P C1 C2 Hs).
Qed.

(* C09, no_holes: the completed call leaves the pack equal to its old bytes followed by the stored bytes of exactly the objects whose
   key was not indexed before (each once, in first-occurrence order): nothing for known content, no unreferenced byte *)
Theorem add_to_pack_no_holes_final w l id objs twice fs :
  pending l = [] ->
  exists w' l' syn, run_events (w, l) (p_add_to_pack w id objs true twice fs) = (w', l') /\
    get_pack w' id = Some (mkFile (Dof w id ++ atp_bytes true (map rkey (db w)) objs) syn) /\
    (forall j, j <> id -> get_pack w' j = get_pack w j) /\ loose w' = loose w.
Proof.
  intros Hpend. unfold p_add_to_pack.
  set (known := map rkey (db w)). set (D := Dof w id).
  rewrite pack_len_Dof. fold D.
  assert (RC : forall s e t, run_events s (e :: t) = run_events (apply_ev s e) t) by reflexivity.
  assert (RA : forall s a b, run_events s (a ++ b) = run_events (run_events s a) b) by (intros; unfold run_events; apply fold_left_app).
  destruct (exec_open w l id) as (w1 & l1 & E1 & X1 & Hb1 & Hp1). fold D in X1.
  (* the loop, execution part only (no invariant needed) *)
  assert (LS : forall objs known pos w1 l1 X b, ext w w1 id X (Sof w id) -> get_buf l1 (HPack id) = Some b -> pos = length (X ++ b) ->
     exists w2 l2 X2 b2, run_events (w1, l1) (fst (atp_loop id true twice known pos objs)) = (w2, l2) /\ ext w w2 id X2 (Sof w id) /\
        get_buf l2 (HPack id) = Some b2 /\ X2 ++ b2 = (X ++ b) ++ atp_bytes true known objs /\ pending l2 = pending l1).
  { clear. induction objs as [|o t IH]; intros known pos w1 l1 X b E Hb Hpos.
    - cbn. exists w1, l1, X, b. rewrite app_nil_r. split; [reflexivity|]. split; [exact E|]. split; [exact Hb|]. split; reflexivity.
    - cbn [atp_loop atp_bytes]. cbn [andb]. destruct (existsb (N.eqb (okey o)) known) eqn:Ek.
      + destruct twice.
        * specialize (IH known pos w1 l1 X b E Hb Hpos). destruct (atp_loop id true true known pos t) as [es rs]. exact IH.
        * destruct (exec_write1 w1 l1 id b (oblob o) Hb) as (l2 & E2 & Hb2 & Hp2).
          destruct (exec_truncate w w1 l2 id X (Sof w id) (b ++ oblob o) pos E Hb2) as (w3 & l3 & E3 & X3 & Hb3 & Hp3).
          assert (Hcut : firstn pos (X ++ b ++ oblob o) = X ++ b).
          { subst pos. rewrite app_assoc. rewrite firstn_app, firstn_all, Nat.sub_diag. cbn. apply app_nil_r. }
          rewrite Hcut in X3.
          specialize (IH known pos w3 l3 (X ++ b) [] X3 Hb3). rewrite app_nil_r in IH. specialize (IH Hpos).
          destruct (atp_loop id true false known pos t) as [es rs]. cbn [fst] in *.
          destruct IH as (w4 & l4 & X4 & b4 & Er & E4 & Hb4 & Heq4 & Hp4).
          exists w4, l4, X4, b4.
          change (run_events (w1, l1) (EWrite (HPack id) (oblob o) :: ETruncate id pos :: es))
            with (run_events (apply_ev (apply_ev (w1, l1) (EWrite (HPack id) (oblob o))) (ETruncate id pos)) es).
          rewrite E2, E3. split; [exact Er|]. split; [exact E4|]. split; [exact Hb4|]. split; [exact Heq4|]. rewrite Hp4, Hp3, Hp2. reflexivity.
      + destruct (exec_write1 w1 l1 id b (oblob o) Hb) as (l2 & E2 & Hb2 & Hp2).
        specialize (IH (okey o :: known) (pos + length (oblob o)) w1 l2 X (b ++ oblob o) E Hb2).
        assert (Hpos' : pos + length (oblob o) = length (X ++ b ++ oblob o)) by (subst pos; rewrite !app_length; lia).
        specialize (IH Hpos').
        destruct (atp_loop id true twice (okey o :: known) (pos + length (oblob o)) t) as [es rs]. cbn [fst] in *.
        destruct IH as (w4 & l4 & X4 & b4 & Er & E4 & Hb4 & Heq4 & Hp4).
        exists w4, l4, X4, b4.
        change (run_events (w1, l1) (EWrite (HPack id) (oblob o) :: es)) with (run_events (apply_ev (w1, l1) (EWrite (HPack id) (oblob o))) es).
        rewrite E2. split; [exact Er|]. split; [exact E4|]. split; [exact Hb4|]. split; [rewrite Heq4; rewrite <- !app_assoc; reflexivity|].
        rewrite Hp4, Hp2. reflexivity. }
  specialize (LS objs known (length D) w1 l1 D [] X1 Hb1). rewrite app_nil_r in LS. specialize (LS eq_refl).
  rewrite atp_end_bytes.
  destruct (atp_loop id true twice known (length D) objs) as [es rs]. cbn [fst] in LS.
  destruct LS as (w2 & l2 & X2 & b2 & Er & E2 & Hb2 & Heq2 & Hp2).
  set (NB := atp_bytes true known objs) in *. set (data := D ++ NB) in *.
  rewrite RC, E1, RA, Er. cbn [app]. rewrite RC.
  destruct (exec_truncate w w2 l2 id X2 (Sof w id) b2 (length D + length NB) E2 Hb2) as (w3 & l3 & E3 & X3 & Hb3 & Hp3).
  assert (Hcut : firstn (length D + length NB) (X2 ++ b2) = data).
  { rewrite Heq2. fold data. unfold data. rewrite <- app_length. apply firstn_all. }
  rewrite Hcut in X3. rewrite E3.
  fold (sqlpart rs). rewrite RA.
  assert (Hp3' : pending l3 = []) by (rewrite Hp3, Hp2, Hp1; exact Hpend).
  destruct (sqlpart_run w3 l3 rs Hp3') as (l4 & E4 & Hbufs4 & Hp4). rewrite E4.
  assert (Hb4 : get_buf l4 (HPack id) = Some []) by (unfold get_buf in *; rewrite Hbufs4; exact Hb3).
  assert (Fin : forall wz lz X Y, ext w wz id X Y ->
     exists w' l', apply_ev (wz, lz) ECommit = (w', l') /\ get_pack w' id = Some (mkFile X Y) /\
        (forall j, j <> id -> get_pack w' j = get_pack w j) /\ loose w' = loose w).
  { intros wz lz X Y (El & Ed & Ep & Eo). cbn [apply_ev]. eexists. eexists. split; [reflexivity|].
    unfold get_pack in *. cbn [packs set_db loose]. auto. }
  destruct fs; cbn [app].
  - rewrite RC.
    destruct (exec_flush w w3 l4 id data (Sof w id) [] X3 Hb4) as (w5 & l5 & E5 & X5 & Hb5 & Hp5). rewrite E5. rewrite app_nil_r in X5.
    rewrite RC. destruct (exec_fsync w w5 l5 id data (Sof w id) X5) as (w6 & E6 & X6). rewrite E6.
    rewrite RC. destruct (exec_close w w6 l5 id data data [] X6 Hb5) as (w7 & l7 & E7 & X7 & Hp7). rewrite E7. rewrite app_nil_r in X7.
    rewrite RC. destruct (Fin w7 l7 data data X7) as (w8 & l8 & E8 & F1 & F2 & F3). rewrite E8.
    exists w8, l8, data. split; [reflexivity|]. auto.
  - rewrite RC. destruct (exec_close w w3 l4 id data (Sof w id) [] X3 Hb4) as (w7 & l7 & E7 & X7 & Hp7). rewrite E7. rewrite app_nil_r in X7.
    rewrite RC. destruct (Fin w7 l7 data (Sof w id) X7) as (w8 & l8 & E8 & F1 & F2 & F3). rewrite E8.
    exists w8, l8, (Sof w id). split; [reflexivity|]. auto.
Qed.

End AP.
