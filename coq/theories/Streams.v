(* Streams.v - executable models of the stream classes handed out by Container.get_object(s)_stream*:
     bio   : the reference, an in-memory binary file (io.BytesIO semantics)
     fio   : a plain file opened 'rb' (loose object, re-loosened cache)
     por   : utils.PackedObjectReader over a pack file with arbitrary neighbours (por0 = the pre-repair seek)
     zsd   : utils.ZlibLikeBaseStreamDecompresser, with or without a LazyLooseStream
   Positions are Z; contents are lists.  No proofs here (so the model still runs when a proof breaks). *)
From Coq Require Import List ZArith Lia Bool.
From DOS Require Import Base.
Import ListNotations.
Open Scope Z_scope.

Inductive op := Read (n : Z) | Seek (t w : Z) | Tell.
Inductive res := RBytes (b : bytes) | RPos (p : Z) | RErr | RAssert | RNotImpl | ROutOfFuel.

Definition zlen {A} (l : list A) : Z := Z.of_nat (length l).
(* b[o:o+l] for o, l >= 0 (negative arguments behave as 0) *)
Definition zslice {A} (b : list A) (o l : Z) : list A := slice b (Z.to_nat o) (Z.to_nat l).

(* ---------- reference: io.BytesIO ---------- *)
Record bio := { bcontent : bytes; bpos : Z }.

Definition bio_step (s : bio) (o : op) : res * bio :=
  let L := zlen (bcontent s) in
  match o with
  | Tell => (RPos (bpos s), s)
  | Read n =>
      let rem := Z.max 0 (L - bpos s) in
      let k := if n <? 0 then rem else Z.min n rem in
      (RBytes (zslice (bcontent s) (bpos s) k), {| bcontent := bcontent s; bpos := bpos s + k |})
  | Seek t w =>
      if w =? 0 then if t <? 0 then (RErr, s) else (RPos t, {| bcontent := bcontent s; bpos := t |})
      else if w =? 1 then let p := Z.max 0 (bpos s + t) in (RPos p, {| bcontent := bcontent s; bpos := p |})
      else if w =? 2 then let p := Z.max 0 (L + t) in (RPos p, {| bcontent := bcontent s; bpos := p |})
      else (RErr, s)
  end.

(* ---------- a file opened 'rb' (BufferedReader over FileIO) ---------- *)
(* same as BytesIO except that a negative resulting position is an OSError instead of clamping to 0 *)
Definition fio_step (s : bio) (o : op) : res * bio :=
  let L := zlen (bcontent s) in
  match o with
  | Seek t w =>
      let p := if w =? 0 then t else if w =? 1 then bpos s + t else L + t in
      if negb ((w =? 0) || (w =? 1) || (w =? 2)) then (RErr, s)
      else if p <? 0 then (RErr, s) else (RPos p, {| bcontent := bcontent s; bpos := p |})
  | _ => bio_step s o
  end.

(* ---------- PackedObjectReader ---------- *)
(* fpos = position of the shared pack handle, ppos = the cached self._pos *)
Record por := { pack : bytes; poff : Z; plen : Z; fpos : Z; ppos : Z }.

Definition por_init (pk : bytes) (off len : Z) : por := {| pack := pk; poff := off; plen := len; fpos := off; ppos := 0 |}.

(* fhandle.read(k): k < 0 reads to the end of the file *)
Definition fh_read (s : por) (k : Z) : bytes * Z :=
  let avail := Z.max 0 (zlen (pack s) - fpos s) in
  let k' := if k <? 0 then avail else Z.min k avail in
  (zslice (pack s) (fpos s) k', fpos s + k').

(* _update_pos: assigns, then asserts *)
Definition por_update (s : por) (f : Z) : por * bool :=
  let p := f - poff s in
  ({| pack := pack s; poff := poff s; plen := plen s; fpos := f; ppos := p |}, (p <=? plen s) && (0 <=? p)).

Definition por_read (s : por) (n : Z) : res * por :=
  let remaining := plen s - ppos s in
  let k := if n <? 0 then remaining else Z.min remaining n in
  let '(b, f) := fh_read s k in
  let '(s', ok) := por_update s f in
  if ok then (RBytes b, s') else (RAssert, s').

(* the repaired seek: whence 2 is converted to an absolute target and shares the bounds checks *)
Definition por_seek (s : por) (t w : Z) : res * por :=
  if negb ((w =? 0) || (w =? 1) || (w =? 2)) then (RErr, s) else
  let target := if w =? 1 then (fpos s - poff s) + t else if w =? 2 then plen s + t else t in
  if target <? 0 then (RErr, s) else if target >? plen s then (RErr, s) else
  let newp := poff s + target in
  if newp <? 0 then (RErr, s) else
  let '(s', ok) := por_update s newp in
  if ok then (RPos target, s') else (RAssert, s').

(* the pre-repair seek (finding F2): whence 2 is unchecked and returns the offset, not the position *)
Definition por_seek0 (s : por) (t w : Z) : res * por :=
  if negb ((w =? 0) || (w =? 1) || (w =? 2)) then (RErr, s) else
  if (w =? 0) || (w =? 1) then
    let target := if w =? 1 then (fpos s - poff s) + t else t in
    if target <? 0 then (RErr, s) else if target >? plen s then (RErr, s) else
    let newp := poff s + target in
    let '(s', ok) := por_update s newp in
    if ok then (RPos target, s') else (RAssert, s')
  else
    let newp := poff s + plen s + t in
    if newp <? 0 then (RErr, s) else
    let '(s', ok) := por_update s newp in
    if ok then (RPos t, s') else (RAssert, s').

Definition por_step (s : por) (o : op) : res * por :=
  match o with
  | Tell => (RPos (fpos s - poff s), s)
  | Read n => por_read s n
  | Seek t w => por_seek s t w
  end.
Definition por_step0 (s : por) (o : op) : res * por :=
  match o with
  | Seek t w => por_seek0 s t w
  | _ => por_step s o
  end.

(* ---------- ZlibLikeBaseStreamDecompresser ---------- *)
(* What zlib decides per decompress() call is an oracle: (k, stall) = "this call returned k more plain bytes"
   (sanitised to at most max_length and at most what is left) and stall = "there was no new input and the
   unconsumed tail is empty afterwards" (the code then breaks if decompressor.eof and raises ValueError
   otherwise; eof <-> everything was produced). *)
Definition zev := (Z * bool)%type.

Record zsd := {
  plain : bytes;          (* the inflated content: what the compressed range decodes to *)
  zpos : Z;               (* self._pos *)
  zbuf : bytes;           (* self._internal_buffer *)
  dout : Z;               (* plain bytes produced by the decompressor so far *)
  ncall : nat;            (* number of decompress() calls so far: index into the oracle *)
  has_lazy : bool;        (* a LazyLooseStream was passed (always, through Container) *)
  use_unc : bool;         (* self._use_uncompressed_stream *)
  upos : Z                (* position of the re-loosened file once open *)
}.

Definition zsd_init (pl : bytes) (lazy : bool) : zsd :=
  {| plain := pl; zpos := 0; zbuf := []; dout := 0; ncall := 0; has_lazy := lazy; use_unc := false; upos := 0 |}.

Section Z.
Variable orc : nat -> zev.
Variable CHUNK : Z.        (* ZlibLikeBaseStreamDecompresser._CHUNKSIZE *)
Variable SEEKCHUNK : Z.    (* read_chunk_size of _seek_internal *)

Definition zset (s : zsd) (p : Z) (b : bytes) (d : Z) (n : nat) : zsd :=
  {| plain := plain s; zpos := p; zbuf := b; dout := d; ncall := n; has_lazy := has_lazy s; use_unc := use_unc s; upos := upos s |}.

(* the `while len(self._internal_buffer) < size` loop of _read_compressed, size > 0 *)
Fixpoint zfill (fuel : nat) (size : Z) (s : zsd) : option zsd + res :=
  if zlen (zbuf s) >=? size then inl (Some s) else
  match fuel with
  | O => inr ROutOfFuel
  | S f =>
      let '(k, stall) := orc (ncall s) in
      let k' := Z.max 0 (Z.min k (Z.min size (zlen (plain s) - dout s))) in
      let s1 := zset s (zpos s) (zbuf s ++ zslice (plain s) (dout s) k') (dout s + k') (S (ncall s)) in
      if stall then (if dout s1 =? zlen (plain s) then inl (Some s1) else inr RErr)
      else zfill f size s1
  end.

(* _read_compressed(size) for size > 0 *)
Definition zread_pos (fuel : nat) (s : zsd) (size : Z) : res * zsd :=
  match zfill fuel size s with
  | inr e => (e, s)
  | inl None => (RErr, s)
  | inl (Some s1) =>
      let out := zslice (zbuf s1) 0 size in
      let rest := zslice (zbuf s1) size (zlen (zbuf s1) - size) in
      (RBytes out, zset s1 (zpos s1 + zlen out) rest (dout s1) (ncall s1))
  end.

(* read(-1): chunks of CHUNK until an empty one *)
Fixpoint zread_all (fuel : nat) (s : zsd) (acc : bytes) : res * zsd :=
  match fuel with
  | O => (ROutOfFuel, s)
  | S f =>
      match zread_pos fuel s CHUNK with
      | (RBytes [], s1) => (RBytes acc, s1)
      | (RBytes b, s1) => zread_all f s1 (acc ++ b)
      | (e, s1) => (e, s1)
      end
  end.

Definition zsd_unc (s : zsd) : bio := {| bcontent := plain s; bpos := upos s |}.
Definition zsd_set_unc (s : zsd) (u : bool) (p : Z) : zsd :=
  {| plain := plain s; zpos := zpos s; zbuf := zbuf s; dout := dout s; ncall := ncall s; has_lazy := has_lazy s; use_unc := u; upos := p |}.

Definition zsd_read (fuel : nat) (s : zsd) (n : Z) : res * zsd :=
  if use_unc s then
    let '(r, b) := fio_step (zsd_unc s) (Read n) in (r, zsd_set_unc s true (bpos b))
  else if n <? 0 then zread_all fuel s []
  else if n =? 0 then (RBytes [], s)
  else zread_pos fuel s n.

Definition zsd_tell (s : zsd) : Z := if use_unc s then upos s else zpos s.

Definition zreset (s : zsd) : zsd := zset s 0 [] 0 (ncall s).

(* `while self.tell() < target: content = self.read(min(read_chunk_size, target - self.tell())); if not content: break` *)
Fixpoint zskip (fuel : nat) (s : zsd) (target : Z) : res * zsd :=
  if zpos s >=? target then (RPos (zpos s), s) else
  match fuel with
  | O => (ROutOfFuel, s)
  | S f =>
      match zread_pos fuel s (Z.min SEEKCHUNK (target - zpos s)) with
      | (RBytes [], s1) => (RPos (zpos s1), s1)
      | (RBytes _, s1) => zskip f s1 target
      | (e, s1) => (e, s1)
      end
  end.

Definition zsd_seek (fuel : nat) (s : zsd) (t w : Z) : res * zsd :=
  if negb ((w =? 0) || (w =? 1) || (w =? 2)) then (RErr, s) else
  let should := (w =? 2) || ((w =? 1) && (t <? 0)) || ((w =? 1) && (t <? zpos s)) in
  let s := if negb (use_unc s) && has_lazy s && should then zsd_set_unc s true (zpos s) else s in
  if use_unc s then
    let '(r, b) := fio_step (zsd_unc s) (Seek t w) in (r, zsd_set_unc s true (bpos b))
  else
    let target := if w =? 1 then zpos s + t else t in
    if w =? 2 then (RNotImpl, s)
    else if target <? 0 then (RErr, s)
    else if target =? 0 then (RPos 0, zreset s)
    else let s := if target <? zpos s then zreset s else s in
         zskip fuel s target.

Definition zsd_step (fuel : nat) (s : zsd) (o : op) : res * zsd :=
  match o with
  | Tell => (RPos (zsd_tell s), s)
  | Read n => zsd_read fuel s n
  | Seek t w => zsd_seek fuel s t w
  end.

End Z.

(* running a program *)
Section Run.
Context {S : Type}.
Variable step : S -> op -> res * S.
Fixpoint run_ops (s : S) (ops : list op) : list res :=
  match ops with
  | [] => []
  | o :: t => let '(r, s') := step s o in r :: run_ops s' t
  end.
End Run.
