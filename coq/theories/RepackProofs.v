(* RepackProofs.v - repack_pack(id) as a program: for ALL worlds satisfying the invariant, all live-row sets and all
   (re)compressed blobs, at EVERY crash point - before, between and after the five hand-over stages (write -1, commit,
   unlink old, link back, commit, unlink -1) - the invariant holds and every key reads back exactly as before; also in the
   power-loss image.  The completed call leaves the pack equal to the concatenation of the live objects' stored bytes. *)
From Coq Require Import List ZArith NArith Arith Bool Lia.
From DOS Require Import Base Store StoreProofs StoreLemmas Mono MonoStep Programs ProgramsProofs PackProofs.
Import ListNotations.

Section RP.
Variable H : bytes -> key.
Variable inflate : bytes -> option bytes.
Hypothesis H_inj : forall a b, H a = H b -> a = b.
Notation Inv := (Inv H inflate).
Notation stored := (stored inflate).
Notation Good := (Good H inflate).
Notation row_ok_d := (row_ok_d H inflate).

(* ---- a world described by its pack map and its index ---- *)
Definition PS (w w' : world) (gp : Z -> option file) (d : list row) : Prop :=
  loose w' = loose w /\ db w' = d /\ forall id', get_pack w' id' = gp id'.

Definition rows_valid (gp : Z -> option file) (sel : file -> bytes) (d : list row) : Prop :=
  forall r, In r d -> exists f, gp (rpack r) = Some f /\ row_ok_d (sel f) r.

Lemma Good_of_PS w w' gp d fs :
  Inv w -> PS w w' gp d ->
  NoDup (map rkey d) -> pairwise disjoint d -> map rkey d = map rkey (db w) ->
  rows_valid gp fdata d ->
  (fs = true -> Inv (power_loss w) -> rows_valid gp fsynced d) ->
  Good w fs w'.
Proof.
  intros HI (El & Ed & Eg) Hnd Hpw Hkeys Hv Hvs. pose proof HI as (_ & _ & _ & Hl).
  assert (HR : Rel w w').
  { split; [rewrite Ed, Hkeys; auto|]. intros k f Hg. left. exists f. unfold get_loose in *. rewrite El. auto. }
  split; [|split; [exact HR|]].
  - unfold Store.Inv. rewrite Ed, El. split; [exact Hnd|]. split; [|split; [exact Hpw|exact Hl]].
    apply Forall_forall. intros r Hr. apply (row_ok_iff H inflate). destruct (Hv r Hr) as (f & Hg & Hd).
    exists f. split; [rewrite Eg; exact Hg|exact Hd].
  - intros F P. pose proof P as (_ & _ & _ & Pl). split.
    + unfold Store.Inv. cbn [db power_loss loose]. rewrite Ed, El. split; [exact Hnd|]. split; [|split; [exact Hpw|exact Pl]].
      apply Forall_forall. intros r Hr. apply (row_ok_iff H inflate). destruct (Hvs F P r Hr) as (f & Hg & Hd).
      exists (pl_file f). split; [rewrite get_pack_pl, Eg, Hg; reflexivity|exact Hd].
    + split; [cbn [db power_loss]; rewrite Ed, Hkeys; auto|].
      intros k f Hg. left. exists f. unfold get_loose in *. cbn [loose power_loss] in *. rewrite El. auto.
Qed.

(* ---- the statement of what the caller passes ---- *)
Definition robj_ok (w : world) (id : Z) (o : pobj) : Prop :=
  exists r c, In r (db w) /\ rpack r = id /\ rkey r = okey o /\ rsize r = osize o /\
    read_row inflate w r = Some c /\ decode inflate (oblob o) (ocomp o) = Some c /\
    (ocomp o = false -> length (oblob o) = osize o).

Lemma read_row_content w r c : Inv w -> In r (db w) -> read_row inflate w r = Some c -> H c = rkey r /\ length c = rsize r.
Proof.
  intros (_ & Hok & _) Hin Hr. rewrite Forall_forall in Hok.
  destruct (row_ok_read H inflate w r (Hok r Hin)) as (c' & Hr' & Hh & Hs). rewrite Hr in Hr'. inversion Hr'; subst. auto.
Qed.

(* the rows written for the batch, against the new pack bytes *)
Lemma rrows_spec w id pk : forall objs pre post,
  Inv w -> Forall (robj_ok w id) objs ->
  Forall (fun r => rpack r = pk /\ row_ok_d (pre ++ concat (map oblob objs) ++ post) r) (rows_from pk (length pre) objs).
Proof.
  induction objs as [|o t IH]; intros pre post HI Hok; cbn [rows_from]; [constructor|].
  inversion Hok as [|? ? Ho Ht]; subst. constructor.
  - cbn [rpack]. split; [reflexivity|].
    destruct Ho as (r & c & Hin & Hp & Hk & Hs & Hr & Hd & Hl).
    destruct (read_row_content w r c HI Hin Hr) as (Hh & Hlen).
    unfold PackProofs.row_ok_d. cbn [roff rlen rcomp rkey rsize]. exists c.
    cbn [map concat]. rewrite <- app_assoc. rewrite !app_length. split; [lia|].
    rewrite slice_mid. split; [exact Hd|]. split; [congruence|]. split; [congruence|exact Hl].
  - specialize (IH (pre ++ oblob o) post HI Ht). rewrite app_length in IH.
    eapply Forall_impl; [|exact IH]. intros r (A & C). split; [exact A|].
    cbn [map concat]. rewrite <- !app_assoc in C. rewrite <- app_assoc. exact C.
Qed.

(* ---- pairwise over a mapped list with unique keys ---- *)
Lemma pairwise_map_nodup (f : row -> row) (l : list row) :
  NoDup (map rkey l) ->
  (forall a b, In a l -> In b l -> rkey a <> rkey b -> disjoint (f a) (f b)) ->
  pairwise disjoint (map f l).
Proof.
  induction l as [|x t IH]; intros Hnd Hd; cbn; [exact I|]. inversion Hnd as [|? ? Hni Hnd']; subst. split.
  - apply Forall_forall. intros y Hy. apply in_map_iff in Hy as (b & <- & Hb). apply Hd; [left; auto|right; auto|].
    intros E. apply Hni. rewrite E. apply in_map; auto.
  - apply IH; auto. intros a b Ha Hb. apply Hd; right; auto.
Qed.

Lemma disjoint_sym a b : disjoint a b -> disjoint b a.
Proof. unfold disjoint. intros [E|[E|E]]; [left; congruence|right; right; auto|right; left; auto]. Qed.

Lemma pairwise_in (l : list row) a b : pairwise disjoint l -> In a l -> In b l -> rkey a <> rkey b -> disjoint a b.
Proof.
  induction l as [|x t IH]; intros Hp Ha Hb Hne; [destruct Ha|]. destruct Hp as [Hx Ht]. rewrite Forall_forall in Hx.
  destruct Ha as [->|Ha], Hb as [->|Hb]; [congruence|auto|apply disjoint_sym; auto|auto].
Qed.


(* ---- steps on a described world ---- *)
Lemma PS_of_ext w w' i data syn :
  ext w w' i data syn -> PS w w' (fun j => if Z.eqb j i then Some (mkFile data syn) else get_pack w j) (db w).
Proof.
  intros (El & Ed & Ep & Eo). split; [exact El|]. split; [exact Ed|]. intros j.
  destruct (Z.eqb_spec j i) as [->|Hne]; [exact Ep|apply Eo; exact Hne].
Qed.

Lemma PS_commit w w' gp d l ops : PS w w' gp d -> pending l = ops ->
  exists l', apply_ev (w', l) ECommit = (set_db w' (fold_left apply_sql ops d), l') /\
             PS w (set_db w' (fold_left apply_sql ops d)) gp (fold_left apply_sql ops d) /\ pending l' = [].
Proof.
  intros (El & Ed & Eg) Hp. exists (set_pending l []). cbn [apply_ev]. rewrite Hp, Ed. split; [reflexivity|]. split; [|reflexivity].
  split; [exact El|]. split; [reflexivity|]. intros j. unfold get_pack. cbn [packs set_db]. apply Eg.
Qed.

Lemma PS_unlinkpack w w' gp d l i : PS w w' gp d ->
  exists w'', apply_ev (w', l) (EUnlinkPack i) = (w'', l) /\ PS w w'' (fun j => if Z.eqb j i then None else gp j) d.
Proof.
  intros (El & Ed & Eg). eexists. split; [reflexivity|]. split; [exact El|]. split; [exact Ed|]. intros j.
  unfold get_pack. cbn [packs set_packs]. destruct (Z.eqb_spec j i) as [->|Hne].
  - apply (g_adel_eq Z.eqb Z.eqb_spec).
  - rewrite (g_adel_neq Z.eqb Z.eqb_spec); auto. apply Eg.
Qed.

Lemma PS_link w w' gp d l src dst f : PS w w' gp d -> gp src = Some f -> gp dst = None ->
  exists w'', apply_ev (w', l) (ELinkPack src dst) = (w'', l) /\ PS w w'' (fun j => if Z.eqb j dst then Some f else gp j) d.
Proof.
  intros (El & Ed & Eg) Hs Hd. cbn [apply_ev]. rewrite (Eg src), Hs, (Eg dst), Hd.
  eexists. split; [reflexivity|]. split; [exact El|]. split; [exact Ed|]. intros j.
  unfold get_pack, put_file. cbn [packs set_packs]. destruct (Z.eqb_spec j dst) as [->|Hne].
  - apply (g_aset_eq Z.eqb Z.eqb_spec).
  - rewrite (g_aset_neq Z.eqb Z.eqb_spec); auto. apply Eg.
Qed.

Lemma find_row_of_key (l : list row) k : In k (map rkey l) -> exists r, find_row l k = Some r.
Proof.
  intros Hin. destruct (find_row l k) as [r|] eqn:E; [eauto|]. exfalso. eapply find_row_none; eauto.
Qed.

Lemma nodup_key_eq (d : list row) a b : NoDup (map rkey d) -> In a d -> In b d -> rkey a = rkey b -> a = b.
Proof.
  intros Hnd Ha Hb E. pose proof (find_row_in d a Hnd Ha) as Fa. pose proof (find_row_in d b Hnd Hb) as Fb.
  rewrite E in Fa. congruence.
Qed.

End RP.

Section RepackMain.
Variable H : bytes -> key.
Variable inflate : bytes -> option bytes.
Hypothesis H_inj : forall a b, H a = H b -> a = b.
Notation Inv := (Inv H inflate).
Notation stored := (stored inflate).
Notation Good := (Good H inflate).
Notation row_ok_d := (row_ok_d H inflate).

Variables (w : world) (id : Z) (objs : list pobj).
Hypothesis HI : Inv w.
Hypothesis Hid : id <> REPACK.
Hypothesis Hno : get_pack w REPACK = None.
Hypothesis Hobjs : Forall (robj_ok inflate w id) objs.
Hypothesis Hnd : NoDup (map okey objs).
Hypothesis Hcover : forall r, In r (db w) -> rpack r = id -> In (rkey r) (map okey objs).

Let B' := concat (map oblob objs).
Let R' := rows_from REPACK 0 objs.
Let upd (r : row) : row := match find_row R' (rkey r) with Some r' => r' | None => r end.
Let rep (r : row) : row := if Z.eqb (rpack r) REPACK then mkRow (rkey r) id (roff r) (rlen r) (rcomp r) (rsize r) else r.
Let d1 := map upd (db w).
Let d2 := map rep d1.

Lemma d1_is_update : apply_sql (db w) (SUpdateRows R') = d1.
Proof. reflexivity. Qed.
Lemma d2_is_repoint : apply_sql d1 (SRepoint REPACK id) = d2.
Proof. reflexivity. Qed.

Lemma R'_spec : Forall (fun r => rpack r = REPACK /\ row_ok_d B' r) R'.
Proof.
  pose proof (rrows_spec H inflate w id REPACK objs [] [] HI Hobjs) as G. cbn [app length] in G. rewrite app_nil_r in G. exact G.
Qed.

Lemma R'_keys : map rkey R' = map okey objs.
Proof. apply rows_from_keys. Qed.

Lemma not_repack r : In r (db w) -> rpack r <> REPACK.
Proof.
  intros Hin E. destruct HI as (_ & Hok & _). rewrite Forall_forall in Hok.
  destruct (Hok r Hin) as (f & c & Hp & _). rewrite E, Hno in Hp. discriminate.
Qed.

Lemma upd_cases r : In r (db w) ->
  (rpack r = id /\ In (upd r) R' /\ rkey (upd r) = rkey r) \/ (rpack r <> id /\ upd r = r).
Proof.
  intros Hin. destruct (Z.eq_dec (rpack r) id) as [E|E].
  - left. split; [exact E|]. unfold upd.
    destruct (find_row_of_key R' (rkey r)) as (r' & Hf); [rewrite R'_keys; apply Hcover; auto|].
    rewrite Hf. apply find_row_some in Hf as [Hin' Hk]. auto.
  - right. split; [exact E|]. unfold upd. destruct (find_row R' (rkey r)) as [r'|] eqn:Hf; [|reflexivity].
    exfalso. apply find_row_some in Hf as [Hin' Hk].
    assert (Hko : In (rkey r) (map okey objs)) by (rewrite <- R'_keys, <- Hk; apply in_map; exact Hin').
    apply in_map_iff in Hko as (o & Ho & Hino). rewrite Forall_forall in Hobjs.
    destruct (Hobjs o Hino) as (r0 & c & Hin0 & Hp0 & Hk0 & _).
    destruct HI as (Hndk & _).
    assert (r0 = r) by (apply (nodup_key_eq (db w)); auto; congruence). subst r0. congruence.
Qed.

Lemma upd_key r : In r (db w) -> rkey (upd r) = rkey r.
Proof. intros Hin. destruct (upd_cases r Hin) as [(_ & _ & E)|(_ & E)]; [exact E|rewrite E; reflexivity]. Qed.

Lemma rep_key r : rkey (rep r) = rkey r.
Proof. unfold rep. destruct (Z.eqb (rpack r) REPACK); reflexivity. Qed.

Lemma keys_d1 : map rkey d1 = map rkey (db w).
Proof. unfold d1. rewrite map_map. apply map_ext_in. intros r Hr. apply upd_key; auto. Qed.
Lemma keys_d2 : map rkey d2 = map rkey (db w).
Proof. unfold d2. rewrite map_map. rewrite <- keys_d1. unfold d1. rewrite !map_map. apply map_ext. intros r. apply rep_key. Qed.

Lemma R'_disjoint a b : In a R' -> In b R' -> rkey a <> rkey b -> disjoint a b.
Proof. apply pairwise_in. apply rows_from_pairwise. Qed.

Lemma in_R'_pack r : In r R' -> rpack r = REPACK /\ row_ok_d B' r.
Proof. intros Hin. pose proof R'_spec as G. rewrite Forall_forall in G. auto. Qed.

Lemma pairwise_d1 : pairwise disjoint d1.
Proof.
  destruct HI as (Hndk & _ & Hpw & _). unfold d1. apply pairwise_map_nodup; [exact Hndk|].
  intros a b Ha Hb Hne.
  destruct (upd_cases a Ha) as [(Pa & Ia & Ka)|(Pa & Ea)]; destruct (upd_cases b Hb) as [(Pb & Ib & Kb)|(Pb & Eb)].
  - apply R'_disjoint; auto. congruence.
  - left. rewrite Eb. destruct (in_R'_pack _ Ia) as (E & _). rewrite E. intros E2. apply (not_repack b Hb). auto.
  - left. rewrite Ea. destruct (in_R'_pack _ Ib) as (E & _). rewrite E. apply (not_repack a Ha).
  - rewrite Ea, Eb. apply (pairwise_in (db w)); auto.
Qed.

Lemma rep_disjoint a b : disjoint a b -> (rpack a = REPACK <-> rpack b = REPACK) -> rpack a <> id -> rpack b <> id ->
  disjoint (rep a) (rep b).
Proof.
  unfold rep, disjoint. intros Hd Hiff Ha Hb.
  destruct (Z.eqb_spec (rpack a) REPACK) as [Ea|Ea]; destruct (Z.eqb_spec (rpack b) REPACK) as [Eb|Eb]; cbn [rpack roff rlen].
  - destruct Hd as [E|E]; [congruence|right; exact E].
  - exfalso. apply Eb. apply Hiff. exact Ea.
  - exfalso. apply Ea. apply Hiff. exact Eb.
  - exact Hd.
Qed.

Lemma pairwise_d2 : pairwise disjoint d2.
Proof.
  destruct HI as (Hndk & _ & Hpw & _). unfold d2, d1. rewrite map_map. apply pairwise_map_nodup; [exact Hndk|].
  intros a b Ha Hb Hne.
  destruct (upd_cases a Ha) as [(Pa & Ia & Ka)|(Pa & Ea)]; destruct (upd_cases b Hb) as [(Pb & Ib & Kb)|(Pb & Eb)].
  - destruct (in_R'_pack _ Ia) as (Ea & _). destruct (in_R'_pack _ Ib) as (Eb & _).
    apply rep_disjoint; [apply R'_disjoint; auto; congruence|split; auto|rewrite Ea; auto|rewrite Eb; auto].
  - destruct (in_R'_pack _ Ia) as (Ea & _). rewrite Eb. unfold rep. rewrite Ea. cbn [Z.eqb].
    destruct (Z.eqb_spec (rpack b) REPACK) as [Eb2|Eb2]; [exfalso; apply (not_repack b Hb); exact Eb2|].
    left. cbn [rpack]. auto.
  - destruct (in_R'_pack _ Ib) as (Eb & _). rewrite Ea. unfold rep. rewrite Eb. cbn [Z.eqb].
    destruct (Z.eqb_spec (rpack a) REPACK) as [Ea2|Ea2]; [exfalso; apply (not_repack a Ha); exact Ea2|].
    left. cbn [rpack]. auto.
  - rewrite Ea, Eb. unfold rep.
    destruct (Z.eqb_spec (rpack a) REPACK) as [Ea2|Ea2]; [exfalso; apply (not_repack a Ha); exact Ea2|].
    destruct (Z.eqb_spec (rpack b) REPACK) as [Eb2|Eb2]; [exfalso; apply (not_repack b Hb); exact Eb2|].
    apply (pairwise_in (db w)); auto.
Qed.

(* validity of the three row lists against the pack maps of the successive states *)
Definition unchanged_elsewhere (gp : Z -> option file) : Prop := forall j, j <> id -> j <> REPACK -> gp j = get_pack w j.

Lemma row_w_valid (sel : file -> bytes) r :
  (sel = fdata \/ (sel = fsynced /\ Inv (power_loss w))) -> In r (db w) ->
  exists f, get_pack w (rpack r) = Some f /\ row_ok_d (sel f) r.
Proof.
  intros [->|(-> & P)] Hin.
  - destruct HI as (_ & Hok & _). rewrite Forall_forall in Hok. apply (row_ok_iff H inflate). auto.
  - destruct P as (_ & Pok & _). rewrite Forall_forall in Pok. cbn [db power_loss] in Pok.
    destruct (proj1 (row_ok_iff H inflate (power_loss w) r) (Pok r Hin)) as (f & Hp & Hd).
    rewrite get_pack_pl in Hp. destruct (get_pack w (rpack r)) as [f0|]; [|discriminate]. inversion Hp; subst.
    exists f0. split; [reflexivity|exact Hd].
Qed.

Lemma valid_dbw gp sel : (sel = fdata \/ (sel = fsynced /\ Inv (power_loss w))) ->
  (forall j, j <> REPACK -> gp j = get_pack w j) -> rows_valid H inflate gp sel (db w).
Proof.
  intros Hs Hg r Hin. destruct (row_w_valid sel r Hs Hin) as (f & Hp & Hd). exists f. split; [|exact Hd].
  rewrite Hg; [exact Hp|apply not_repack; exact Hin].
Qed.

Lemma valid_d1 gp sel : (sel = fdata \/ (sel = fsynced /\ Inv (power_loss w))) ->
  unchanged_elsewhere gp -> gp REPACK = Some (mkFile B' B') -> rows_valid H inflate gp sel d1.
Proof.
  intros Hs Hg Hr r1 Hin. unfold d1 in Hin. apply in_map_iff in Hin as (r & <- & Hin).
  destruct (upd_cases r Hin) as [(Pa & Ia & Ka)|(Pa & Ea)].
  - destruct (in_R'_pack _ Ia) as (E & Hd). exists (mkFile B' B'). rewrite E. split; [exact Hr|].
    destruct Hs as [->|(-> & _)]; exact Hd.
  - rewrite Ea. destruct (row_w_valid sel r Hs Hin) as (f & Hp & Hd). exists f. split; [|exact Hd].
    rewrite Hg; [exact Hp|exact Pa|apply not_repack; exact Hin].
Qed.

Lemma row_ok_d_rep data r : row_ok_d data r -> row_ok_d data (rep r).
Proof. unfold rep. destruct (Z.eqb (rpack r) REPACK); auto. Qed.

Lemma valid_d2 gp sel : (sel = fdata \/ (sel = fsynced /\ Inv (power_loss w))) ->
  unchanged_elsewhere gp -> gp id = Some (mkFile B' B') -> rows_valid H inflate gp sel d2.
Proof.
  intros Hs Hg Hr r2 Hin. unfold d2, d1 in Hin. rewrite map_map in Hin. apply in_map_iff in Hin as (r & <- & Hin).
  destruct (upd_cases r Hin) as [(Pa & Ia & Ka)|(Pa & Ea)].
  - destruct (in_R'_pack _ Ia) as (E & Hd). exists (mkFile B' B').
    assert (Er : rpack (rep (upd r)) = id) by (unfold rep; rewrite E; reflexivity).
    rewrite Er. split; [exact Hr|]. apply row_ok_d_rep. destruct Hs as [->|(-> & _)]; exact Hd.
  - rewrite Ea. assert (Er : rep r = r).
    { unfold rep. destruct (Z.eqb_spec (rpack r) REPACK) as [E2|E2]; [exfalso; apply (not_repack r Hin); exact E2|reflexivity]. }
    rewrite Er. destruct (row_w_valid sel r Hs Hin) as (f & Hp & Hd). exists f. split; [|exact Hd].
    rewrite Hg; [exact Hp|exact Pa|apply not_repack; exact Hin].
Qed.


Lemma Dof_repack : Dof w REPACK = [] /\ Sof w REPACK = [].
Proof. unfold Dof, Sof. rewrite Hno. split; reflexivity. Qed.

Lemma nodup_d1 : NoDup (map rkey d1).
Proof. rewrite keys_d1. destruct HI as (A & _). exact A. Qed.
Lemma nodup_d2 : NoDup (map rkey d2).
Proof. rewrite keys_d2. destruct HI as (A & _). exact A. Qed.

Lemma good_of_PS_d1 w' gp fs : PS w w' gp d1 -> unchanged_elsewhere gp -> gp REPACK = Some (mkFile B' B') -> Good w fs w'.
Proof.
  intros HP Hu Hr. apply (Good_of_PS H inflate H_inj w w' gp d1 fs HI HP nodup_d1 pairwise_d1 keys_d1).
  - apply valid_d1; auto.
  - intros _ P. apply valid_d1; auto.
Qed.

Lemma good_of_PS_d2 w' gp fs : PS w w' gp d2 -> unchanged_elsewhere gp -> gp id = Some (mkFile B' B') -> Good w fs w'.
Proof.
  intros HP Hu Hr. apply (Good_of_PS H inflate H_inj w w' gp d2 fs HI HP nodup_d2 pairwise_d2 keys_d2).
  - apply valid_d2; auto.
  - intros _ P. apply valid_d2; auto.
Qed.

Theorem repack_always l fs :
  pending l = [] -> rows_of_pack (db w) id <> [] ->
  always (Good w fs) (w, l) (p_repack_one w id objs).
Proof.
  intros Hpend Hne. unfold p_repack_one. destruct (rows_of_pack (db w) id) as [|r0 rt] eqn:Er; [congruence|]. clear Hne Er r0 rt.
  fold R'. destruct Dof_repack as (HD & HS).
  assert (Nri : (REPACK =? id)%Z = false) by (apply Z.eqb_neq; auto).
  assert (Nir : (id =? REPACK)%Z = false) by (apply Z.eqb_neq; auto).
  (* open -1 *)
  apply always_cons; [apply Good_refl; exact HI|].
  destruct (exec_open w l REPACK) as (w1 & l1 & E1 & X1 & Hb1 & Hp1). rewrite E1. rewrite HD, HS in X1.
  assert (Pnil : forall x : bytes, prefix_of (Dof w REPACK) x) by (intros x; rewrite HD; exists x; reflexivity).
  assert (G1 : Good w fs w1).
  { eapply (ext_Good_before H inflate); [exact HI|rewrite HS; exact X1|apply Pnil]. }
  (* writes *)
  apply always_app.
  { apply always_local; [apply writes_local|]. intros w' Hc. eapply Good_core; [exact Hc|exact G1]. }
  destruct (exec_writes w1 l1 REPACK objs [] Hb1) as (l2 & E2 & Hb2 & Hp2). rewrite E2. cbn [app] in Hb2. fold B' in Hb2.
  (* flush *)
  apply always_cons; [exact G1|].
  destruct (exec_flush w w1 l2 REPACK [] [] B' X1 Hb2) as (w2 & l3 & E3 & X3 & Hb3 & Hp3). rewrite E3. cbn [app] in X3.
  assert (G3 : Good w fs w2).
  { eapply (ext_Good_before H inflate); [exact HI|rewrite HS; exact X3|apply Pnil]. }
  (* fsync *)
  apply always_cons; [exact G3|].
  destruct (exec_fsync w w2 l3 REPACK B' [] X3) as (w3 & E4 & X4). rewrite E4.
  assert (G4 : Good w fs w3) by (eapply (ext_Good_synced H inflate); [exact HI|exact X4|apply Pnil]).
  (* close *)
  apply always_cons; [exact G4|].
  destruct (exec_close w w3 l3 REPACK B' B' [] X4 Hb3) as (w4 & l4 & E5 & X5 & Hp5). rewrite E5. rewrite app_nil_r in X5.
  assert (G5 : Good w fs w4) by (eapply (ext_Good_synced H inflate); [exact HI|exact X5|apply Pnil]).
  pose proof (PS_of_ext w w4 REPACK B' B' X5) as P5.
  set (gp5 := fun j => if (j =? REPACK)%Z then Some (mkFile B' B') else get_pack w j) in P5.
  (* UPDATE rows -> -1 *)
  apply always_cons; [exact G5|]. cbn [apply_ev].
  set (l5 := set_pending l4 (pending l4 ++ [SUpdateRows R'])).
  assert (Hp5' : pending l5 = [SUpdateRows R']) by (unfold l5; cbn [pending set_pending]; rewrite Hp5, Hp3, Hp2, Hp1, Hpend; reflexivity).
  (* COMMIT 1 *)
  apply always_cons; [exact G5|].
  destruct (PS_commit w w4 gp5 (db w) l5 [SUpdateRows R'] P5 Hp5') as (l6 & E6 & P6 & Hp6). rewrite E6.
  cbn [fold_left] in P6. rewrite d1_is_update in P6.
  set (w6 := set_db w4 (fold_left apply_sql [SUpdateRows R'] (db w))) in *.
  assert (U5 : unchanged_elsewhere gp5) by (intros j _ Hj; unfold gp5; destruct (Z.eqb_spec j REPACK); [congruence|reflexivity]).
  assert (R5 : gp5 REPACK = Some (mkFile B' B')) by (unfold gp5; rewrite Z.eqb_refl; reflexivity).
  assert (G6 : Good w fs w6) by (apply (good_of_PS_d1 w6 gp5 fs P6 U5 R5)).
  (* unlink the old pack *)
  apply always_cons; [exact G6|].
  destruct (PS_unlinkpack w w6 gp5 d1 l6 id P6) as (w7 & E7 & P7). rewrite E7.
  set (gp7 := fun j => if (j =? id)%Z then None else gp5 j) in P7.
  assert (U7 : unchanged_elsewhere gp7) by (intros j Hj1 Hj2; unfold gp7; destruct (Z.eqb_spec j id); [congruence|apply U5; auto]).
  assert (R7 : gp7 REPACK = Some (mkFile B' B')) by (unfold gp7; rewrite Nri; exact R5).
  assert (G7 : Good w fs w7) by (apply (good_of_PS_d1 w7 gp7 fs P7 U7 R7)).
  (* link -1 -> id *)
  apply always_cons; [exact G7|].
  destruct (PS_link w w7 gp7 d1 l6 REPACK id (mkFile B' B') P7 R7) as (w8 & E8 & P8); [unfold gp7; rewrite Z.eqb_refl; reflexivity|]. rewrite E8.
  set (gp8 := fun j => if (j =? id)%Z then Some (mkFile B' B') else gp7 j) in P8.
  assert (U8 : unchanged_elsewhere gp8) by (intros j Hj1 Hj2; unfold gp8; destruct (Z.eqb_spec j id); [congruence|apply U7; auto]).
  assert (R8 : gp8 REPACK = Some (mkFile B' B')) by (unfold gp8; rewrite Nri; exact R7).
  assert (I8 : gp8 id = Some (mkFile B' B')) by (unfold gp8; rewrite Z.eqb_refl; reflexivity).
  assert (G8 : Good w fs w8) by (apply (good_of_PS_d1 w8 gp8 fs P8 U8 R8)).
  (* UPDATE pack_id -1 -> id *)
  apply always_cons; [exact G8|]. cbn [apply_ev].
  set (l9 := set_pending l6 (pending l6 ++ [SRepoint REPACK id])).
  assert (Hp9 : pending l9 = [SRepoint REPACK id]) by (unfold l9; cbn [pending set_pending]; rewrite Hp6; reflexivity).
  (* COMMIT 2 *)
  apply always_cons; [exact G8|].
  destruct (PS_commit w w8 gp8 d1 l9 [SRepoint REPACK id] P8 Hp9) as (l10 & E10 & P10 & Hp10). rewrite E10.
  cbn [fold_left] in P10. rewrite d2_is_repoint in P10.
  set (w10 := set_db w8 (fold_left apply_sql [SRepoint REPACK id] d1)) in *.
  assert (G10 : Good w fs w10) by (apply (good_of_PS_d2 w10 gp8 fs P10 U8 I8)).
  (* unlink -1 *)
  apply always_cons; [exact G10|].
  destruct (PS_unlinkpack w w10 gp8 d2 l10 REPACK P10) as (w11 & E11 & P11). rewrite E11.
  set (gp11 := fun j => if (j =? REPACK)%Z then None else gp8 j) in P11.
  assert (U11 : unchanged_elsewhere gp11) by (intros j Hj1 Hj2; unfold gp11; destruct (Z.eqb_spec j REPACK); [congruence|apply U8; auto]).
  assert (I11 : gp11 id = Some (mkFile B' B')) by (unfold gp11; rewrite Nir; exact I8).
  apply always_nil. cbn [fst]. apply (good_of_PS_d2 w11 gp11 fs P11 U11 I11).
Qed.

(* the completed call: pack id holds exactly the concatenation of the live objects' (new) stored bytes, fully synced; the
   temporary pack is gone; the index holds the re-offset rows d2 (same keys as before) *)
Theorem repack_final_state l :
  pending l = [] -> rows_of_pack (db w) id <> [] ->
  exists w' l', run_events (w, l) (p_repack_one w id objs) = (w', l') /\
    get_pack w' id = Some (mkFile B' B') /\ get_pack w' REPACK = None /\ db w' = d2 /\
    (forall j, j <> id -> j <> REPACK -> get_pack w' j = get_pack w j) /\ loose w' = loose w.
Proof.
  intros Hpend Hne. unfold p_repack_one. destruct (rows_of_pack (db w) id) as [|r0 rt] eqn:Er; [congruence|]. clear Hne Er r0 rt.
  fold R'. destruct Dof_repack as (HD & HS).
  assert (Nri : (REPACK =? id)%Z = false) by (apply Z.eqb_neq; auto).
  assert (Nir : (id =? REPACK)%Z = false) by (apply Z.eqb_neq; auto).
  assert (RC : forall s e t, run_events s (e :: t) = run_events (apply_ev s e) t) by reflexivity.
  assert (RA : forall s a b, run_events s (a ++ b) = run_events (run_events s a) b) by (intros; unfold run_events; apply fold_left_app).
  rewrite RC.
  destruct (exec_open w l REPACK) as (w1 & l1 & E1 & X1 & Hb1 & Hp1). rewrite E1. rewrite HD, HS in X1.
  rewrite RA.
  destruct (exec_writes w1 l1 REPACK objs [] Hb1) as (l2 & E2 & Hb2 & Hp2). rewrite E2. cbn [app] in Hb2. fold B' in Hb2.
  rewrite RC.
  destruct (exec_flush w w1 l2 REPACK [] [] B' X1 Hb2) as (w2 & l3 & E3 & X3 & Hb3 & Hp3). rewrite E3. cbn [app] in X3.
  rewrite RC.
  destruct (exec_fsync w w2 l3 REPACK B' [] X3) as (w3 & E4 & X4). rewrite E4.
  rewrite RC.
  destruct (exec_close w w3 l3 REPACK B' B' [] X4 Hb3) as (w4 & l4 & E5 & X5 & Hp5). rewrite E5. rewrite app_nil_r in X5.
  pose proof (PS_of_ext w w4 REPACK B' B' X5) as P5.
  set (gp5 := fun j => if (j =? REPACK)%Z then Some (mkFile B' B') else get_pack w j) in P5.
  rewrite RC.
  change (apply_ev (w4, l4) (ESql (SUpdateRows R'))) with (w4, set_pending l4 (pending l4 ++ [SUpdateRows R'])).
  set (l5 := set_pending l4 (pending l4 ++ [SUpdateRows R'])).
  assert (Hp5' : pending l5 = [SUpdateRows R']) by (unfold l5; cbn [pending set_pending]; rewrite Hp5, Hp3, Hp2, Hp1, Hpend; reflexivity).
  rewrite RC.
  destruct (PS_commit w w4 gp5 (db w) l5 [SUpdateRows R'] P5 Hp5') as (l6 & E6 & P6 & Hp6). rewrite E6.
  cbn [fold_left] in P6. rewrite d1_is_update in P6.
  set (w6 := set_db w4 (fold_left apply_sql [SUpdateRows R'] (db w))) in *.
  rewrite RC.
  destruct (PS_unlinkpack w w6 gp5 d1 l6 id P6) as (w7 & E7 & P7). rewrite E7.
  set (gp7 := fun j => if (j =? id)%Z then None else gp5 j) in P7.
  assert (R7 : gp7 REPACK = Some (mkFile B' B')) by (unfold gp7, gp5; rewrite Nri, Z.eqb_refl; reflexivity).
  rewrite RC.
  destruct (PS_link w w7 gp7 d1 l6 REPACK id (mkFile B' B') P7 R7) as (w8 & E8 & P8); [unfold gp7; rewrite Z.eqb_refl; reflexivity|]. rewrite E8.
  set (gp8 := fun j => if (j =? id)%Z then Some (mkFile B' B') else gp7 j) in P8.
  rewrite RC.
  change (apply_ev (w8, l6) (ESql (SRepoint REPACK id))) with (w8, set_pending l6 (pending l6 ++ [SRepoint REPACK id])).
  set (l9 := set_pending l6 (pending l6 ++ [SRepoint REPACK id])).
  assert (Hp9 : pending l9 = [SRepoint REPACK id]) by (unfold l9; cbn [pending set_pending]; rewrite Hp6; reflexivity).
  rewrite RC.
  destruct (PS_commit w w8 gp8 d1 l9 [SRepoint REPACK id] P8 Hp9) as (l10 & E10 & P10 & Hp10). rewrite E10.
  cbn [fold_left] in P10. rewrite d2_is_repoint in P10.
  set (w10 := set_db w8 (fold_left apply_sql [SRepoint REPACK id] d1)) in *.
  rewrite RC.
  destruct (PS_unlinkpack w w10 gp8 d2 l10 REPACK P10) as (w11 & E11 & (El & Ed & Eg)). rewrite E11.
  change (run_events (w11, l10) []) with (w11, l10).
  exists w11, l10. split; [reflexivity|].
  split; [rewrite Eg; rewrite Nir; unfold gp8; rewrite Z.eqb_refl; reflexivity|].
  split; [rewrite Eg; rewrite Z.eqb_refl; reflexivity|].
  split; [exact Ed|]. split; [|exact El].
  intros j Hj1 Hj2. rewrite Eg. destruct (Z.eqb_spec j REPACK); [congruence|]. unfold gp8. destruct (Z.eqb_spec j id); [congruence|].
  unfold gp7. destruct (Z.eqb_spec j id); [congruence|]. unfold gp5. destruct (Z.eqb_spec j REPACK); [congruence|reflexivity].
Qed.

End RepackMain.

Section RepackThm.
Variable H : bytes -> key.
Variable inflate : bytes -> option bytes.
Hypothesis H_inj : forall a b, H a = H b -> a = b.
Notation Inv := (Inv H inflate).
Notation stored := (stored inflate).
Notation Good := (Good H inflate).

(* a pack without live rows is simply removed *)
Lemma repack_empty_always w l id fs :
  Inv w -> rows_of_pack (db w) id = [] -> always (Good w fs) (w, l) (p_repack_one w id []).
Proof.
  intros HI He. unfold p_repack_one. rewrite He.
  destruct (get_pack w id) as [f|] eqn:Hp; [|apply always_nil; apply Good_refl; exact HI].
  apply always_cons; [apply Good_refl; exact HI|]. apply always_nil. cbn [apply_ev fst].
  assert (Hnone : forall r, In r (db w) -> rpack r <> id).
  { intros r Hin E. assert (In r (rows_of_pack (db w) id)) by (apply filter_In; split; [exact Hin|apply Z.eqb_eq; exact E]).
    rewrite He in H0. destruct H0. }
  assert (HP : PS w (set_packs w (adel Z.eqb (packs w) id)) (fun j => if Z.eqb j id then None else get_pack w j) (db w)).
  { split; [reflexivity|]. split; [reflexivity|]. intros j. unfold get_pack. cbn [packs set_packs].
    destruct (Z.eqb_spec j id) as [->|Hne]; [apply (g_adel_eq Z.eqb Z.eqb_spec)|apply (g_adel_neq Z.eqb Z.eqb_spec); auto]. }
  pose proof HI as (Hnd & Hok & Hpw & _).
  apply (Good_of_PS H inflate H_inj w _ _ (db w) fs HI HP Hnd Hpw eq_refl).
  - intros r Hin. rewrite Forall_forall in Hok. destruct (proj1 (row_ok_iff H inflate w r) (Hok r Hin)) as (f0 & Hp0 & Hd).
    exists f0. split; [|exact Hd]. destruct (Z.eqb_spec (rpack r) id) as [E|E]; [exfalso; apply (Hnone r Hin E)|exact Hp0].
  - intros _ P r Hin. destruct P as (_ & Pok & _). rewrite Forall_forall in Pok. cbn [db power_loss] in Pok.
    destruct (proj1 (row_ok_iff H inflate (power_loss w) r) (Pok r Hin)) as (f0 & Hp0 & Hd).
    rewrite get_pack_pl in Hp0. destruct (get_pack w (rpack r)) as [f1|] eqn:E1; [|discriminate]. inversion Hp0; subst.
    exists f1. split; [|exact Hd]. destruct (Z.eqb_spec (rpack r) id) as [E|E]; [exfalso; apply (Hnone r Hin E)|reflexivity].
Qed.

(* C05 / C06 / C02 / C11 for repack_pack: ALL worlds, live-row sets, recompressed blobs, EVERY crash point *)
Theorem repack_crash_safe w l id objs fs m :
  Inv w -> pending l = [] -> id <> REPACK -> get_pack w REPACK = None ->
  Forall (robj_ok inflate w id) objs -> NoDup (map okey objs) ->
  (forall r, In r (db w) -> rpack r = id -> In (rkey r) (map okey objs)) ->
  rows_of_pack (db w) id <> [] ->
  let w' := crash (run_events (w, l) (firstn m (p_repack_one w id objs))) in
  Inv w' /\ (forall k c, stored w k = Some c -> stored w' k = Some c) /\
  (fs = true -> Inv (power_loss w) ->
     Inv (power_loss w') /\ (forall k c, stored (power_loss w) k = Some c -> stored (power_loss w') k = Some c)).
Proof.
  intros HI Hp Hid Hno Hobjs Hnd Hcov Hne. cbn zeta. unfold crash.
  destruct (repack_always H inflate H_inj w id objs HI Hid Hno Hobjs Hcov l fs Hp Hne m) as (A & B & C).
  split; [exact A|]. split.
  - intros k c Hs. exact (stored_preserved H inflate H_inj w _ k c HI A B Hs).
  - intros F P. destruct (C F P) as (C1 & C2). split; [exact C1|].
    intros k c Hs. exact (stored_preserved H inflate H_inj (power_loss w) _ k c P C1 C2 Hs).
Qed.

End RepackThm.
