(* ImportProofs.v - import_objects after the keys to transfer are fixed: any number of do_commit=False batches (cache flushes and
   single large objects), over any packs, then one COMMIT.  For ALL batch lists, modes, worlds and EVERY crash point the world is
   Good (invariant holds, everything stored stays stored; with do_fsync also in the power-loss image); at the end every object of
   every batch is indexed. *)
From Coq Require Import List ZArith NArith Arith Bool Lia.
From DOS Require Import Base Store StoreProofs StoreLemmas Mono MonoStep Programs ProgramsProofs PackProofs AddPackProofs.
Import ListNotations.

Section IM.
Variable H : bytes -> key.
Variable inflate : bytes -> option bytes.
Hypothesis H_inj : forall a b, H a = H b -> a = b.
Notation Inv := (Inv H inflate).
Notation stored := (stored inflate).
Notation Good := (Good H inflate).
Notation row_ok_d := (row_ok_d H inflate).
Notation aobj_ok := (aobj_ok H inflate).

(* ---- small facts ---- *)
Lemma Rel_trans X Y Z : Rel X Y -> Rel Y Z -> Rel X Z.
Proof.
  clear H_inj. intros (A1 & A2) (B1 & B2). split; [auto|].
  intros k f Hg. destruct (A2 k f Hg) as [(f' & Hg' & E)|Hin]; [|right; auto].
  destruct (B2 k f' Hg') as [(f'' & Hg'' & E')|Hin]; [|right; auto].
  left. exists f''. split; [exact Hg''|congruence].
Qed.

Lemma Good_trans w fs w1 w2 : Good w fs w1 -> Good w1 fs w2 -> Good w fs w2.
Proof.
  clear H_inj. intros (A1 & A2 & A3) (B1 & B2 & B3). split; [exact B1|]. split; [eapply Rel_trans; eauto|].
  intros F P. destruct (A3 F P) as (C1 & C2). destruct (B3 F C1) as (D1 & D2). split; [exact D1|eapply Rel_trans; eauto].
Qed.

Lemma always_weaken (P Q : world -> Prop) s tr : (forall w, P w -> Q w) -> always P s tr -> always Q s tr.
Proof. intros HPQ HA m. apply HPQ. apply HA. Qed.

Lemma insert_rows_app ig : forall a d b, insert_rows ig (insert_rows ig d a) b = insert_rows ig d (a ++ b).
Proof.
  induction a as [|r t IH]; intros d b; cbn [insert_rows app]; [reflexivity|].
  destruct (has_key d (rkey r)); apply IH.
Qed.

Lemma pairwise_app (a : list row) : forall b, pairwise disjoint a -> pairwise disjoint b ->
  (forall x y, In x a -> In y b -> disjoint x y) -> pairwise disjoint (a ++ b).
Proof.
  induction a as [|x t IH]; intros b Ha Hb Hab; [exact Hb|].
  cbn [app pairwise] in *. destruct Ha as [Hx Ht]. split.
  - apply Forall_app. split; [exact Hx|]. apply Forall_forall. intros y Hy. apply Hab; [left; reflexivity|exact Hy].
  - apply IH; auto. intros x' y Hx' Hy. apply Hab; [right; exact Hx'|exact Hy].
Qed.

Lemma prefix_len (a b : bytes) : prefix_of a b -> length a <= length b.
Proof. intros [x ->]. rewrite app_length. lia. Qed.

Lemma sql_of_rows_local rs : forallb local_only (sql_of_rows rs) = true.
Proof. destruct rs; reflexivity. Qed.

Lemma sql_of_rows_run w1 l1 rs :
  exists l2, run_events (w1, l1) (sql_of_rows rs) = (w1, l2) /\ bufs l2 = bufs l1 /\
             pending l2 = pending l1 ++ match rs with [] => [] | _ => [SInsert true rs] end.
Proof.
  destruct rs as [|r t]; cbn [sql_of_rows].
  - exists l1. split; [reflexivity|]. split; [reflexivity|]. rewrite app_nil_r. reflexivity.
  - eexists. split; [reflexivity|]. split; reflexivity.
Qed.

(* ---- one batch (a do_commit=False call), from a world that satisfies the invariant ---- *)
Lemma batch_spec w l id objs nh twice fs known :
  Inv w -> Forall aobj_ok objs ->
  let D := Dof w id in
  let NB := atp_bytes nh known objs in
  let rs := snd (atp_loop id nh twice known (length D) objs) in
  always (Good w fs) (w, l) (p_batch id nh twice fs known (length D) objs) /\
  exists w' l' syn, run_events (w, l) (p_batch id nh twice fs known (length D) objs) = (w', l') /\
     ext w w' id (D ++ NB) syn /\ (fs = true -> syn = D ++ NB) /\ (fs = false -> syn = Sof w id) /\
     pending l' = pending l ++ match rs with [] => [] | _ => [SInsert true rs] end /\
     Forall (fun r => rpack r = id /\ length D <= roff r /\ row_ok_d (D ++ NB) r) rs /\ pairwise disjoint rs.
Proof.
  intros HI Hobjs D NB rs. unfold p_batch.
  assert (RA : forall s a b, run_events s (a ++ b) = run_events (run_events s a) b) by (intros; unfold run_events; apply fold_left_app).
  assert (RC : forall s e t, run_events s (e :: t) = run_events (apply_ev s e) t) by reflexivity.
  destruct (exec_open w l id) as (w1 & l1 & E1 & X1 & Hb1 & Hp1). fold D in X1.
  pose proof (atp_loop_spec H inflate w id nh twice fs HI objs known (length D) w1 l1 D [] X1 Hb1 (prefix_refl D)) as LS.
  rewrite app_nil_r in LS. specialize (LS eq_refl Hobjs).
  rewrite atp_end_bytes. fold NB.
  subst rs. destruct (atp_loop id nh twice known (length D) objs) as [es rs]. cbn [fst snd].
  destruct LS as (LA & (w2 & l2 & X2 & b2 & Er & E2 & Hb2 & Hpre2 & Heq2 & Hp2) & LR & LP).
  fold NB in Heq2, LR.
  set (data := D ++ NB) in *.
  assert (Hpred : prefix_of D data) by (exists NB; reflexivity).
  assert (HR : Forall (fun r => rpack r = id /\ length D <= roff r /\ row_ok_d data r) rs).
  { eapply Forall_impl; [|exact LR]. intros r (A & B & C). split; [exact A|]. split; [exact B|].
    specialize (C []). rewrite app_nil_r in C. exact C. }
  (* optional final truncate *)
  assert (Tr : exists w3 l3 X3 b3, always (Good w fs) (w2, l2) (if nh then [ETruncate id (length D + length NB)] else []) /\
            run_events (w2, l2) (if nh then [ETruncate id (length D + length NB)] else []) = (w3, l3) /\
            ext w w3 id X3 (Sof w id) /\ get_buf l3 (HPack id) = Some b3 /\ prefix_of D X3 /\ X3 ++ b3 = data /\ pending l3 = pending l).
  { assert (G2 : Good w fs w2) by (eapply (ext_Good_before H inflate); eauto).
    assert (Hpend2 : pending l2 = pending l) by (rewrite Hp2, Hp1; reflexivity).
    destruct nh.
    - destruct (exec_truncate w w2 l2 id X2 (Sof w id) b2 (length D + length NB) E2 Hb2) as (w3 & l3 & E3 & X3 & Hb3 & Hp3).
      assert (Hcut : firstn (length D + length NB) (X2 ++ b2) = data).
      { rewrite Heq2. unfold data. rewrite <- app_length. apply firstn_all. }
      rewrite Hcut in X3.
      exists w3, l3, data, []. split.
      { apply always_cons; [exact G2|]. rewrite E3. apply always_nil. cbn [fst]. eapply (ext_Good_before H inflate); eauto. }
      split; [cbn [run_events fold_left]; exact E3|]. split; [exact X3|]. split; [exact Hb3|]. split; [exact Hpred|].
      split; [apply app_nil_r|]. rewrite Hp3. exact Hpend2.
    - exists w2, l2, X2, b2. split; [apply always_nil; exact G2|]. split; [reflexivity|]. split; [exact E2|]. split; [exact Hb2|].
      split; [exact Hpre2|]. split; [exact Heq2|exact Hpend2]. }
  destruct Tr as (w3 & l3 & X3 & b3 & TA & TR & E3 & Hb3 & Hpre3 & Heq3 & Hp3).
  assert (G3 : Good w fs w3) by (eapply (ext_Good_before H inflate); eauto).
  destruct (sql_of_rows_run w3 l3 rs) as (l4 & E4 & Hbufs4 & Hp4).
  assert (Hb4 : get_buf l4 (HPack id) = Some b3) by (unfold get_buf in *; rewrite Hbufs4; exact Hb3).
  split.
  - apply always_cons; [apply Good_refl; exact HI|]. rewrite E1.
    apply always_app; [exact LA|]. rewrite Er.
    apply always_app; [exact TA|]. rewrite TR.
    apply always_app.
    { apply always_local; [apply sql_of_rows_local|]. intros w' Hc. eapply Good_core; [exact Hc|exact G3]. }
    rewrite E4.
    destruct fs.
    + cbn [app].
      apply always_cons; [exact G3|].
      destruct (exec_flush w w3 l4 id X3 (Sof w id) b3 E3 Hb4) as (w5 & l5 & E5 & X5 & Hb5 & Hp5). rewrite E5. rewrite Heq3 in X5.
      assert (G5 : Good w true w5) by (eapply (ext_Good_before H inflate); eauto).
      apply always_cons; [exact G5|].
      destruct (exec_fsync w w5 l5 id data (Sof w id) X5) as (w6 & E6 & X6). rewrite E6.
      assert (G6 : Good w true w6) by (eapply (ext_Good_synced H inflate); eauto).
      apply always_cons; [exact G6|].
      destruct (exec_close w w6 l5 id data data [] X6 Hb5) as (w7 & l7 & E7 & X7 & Hp7). rewrite E7. rewrite app_nil_r in X7.
      apply always_nil. cbn [fst]. eapply (ext_Good_synced H inflate); eauto.
    + cbn [app].
      apply always_cons; [exact G3|].
      destruct (exec_close w w3 l4 id X3 (Sof w id) b3 E3 Hb4) as (w7 & l7 & E7 & X7 & Hp7). rewrite E7. rewrite Heq3 in X7.
      apply always_nil. cbn [fst]. eapply (ext_Good_before H inflate); eauto.
  - rewrite RC, E1, RA, Er, RA, TR, RA, E4.
    destruct fs.
    + cbn [app].
      destruct (exec_flush w w3 l4 id X3 (Sof w id) b3 E3 Hb4) as (w5 & l5 & E5 & X5 & Hb5 & Hp5). rewrite Heq3 in X5.
      destruct (exec_fsync w w5 l5 id data (Sof w id) X5) as (w6 & E6 & X6).
      destruct (exec_close w w6 l5 id data data [] X6 Hb5) as (w7 & l7 & E7 & X7 & Hp7). rewrite app_nil_r in X7.
      exists w7, l7, data. rewrite !RC, E5, E6, E7. split; [reflexivity|]. split; [exact X7|].
      split; [reflexivity|]. split; [discriminate|]. split; [rewrite Hp7, Hp5, Hp4, Hp3; reflexivity|]. split; [exact HR|exact LP].
    + cbn [app].
      destruct (exec_close w w3 l4 id X3 (Sof w id) b3 E3 Hb4) as (w7 & l7 & E7 & X7 & Hp7). rewrite Heq3 in X7.
      exists w7, l7, (Sof w id). rewrite !RC, E7. split; [reflexivity|]. split; [exact X7|].
      split; [discriminate|]. split; [reflexivity|]. split; [rewrite Hp7, Hp4, Hp3; reflexivity|]. split; [exact HR|exact LP].
Qed.

(* ---- between the batches ---- *)
Definition grows (a b : option file) : Prop :=
  match a, b with
  | None, _ => True
  | Some f, Some g => prefix_of (fdata f) (fdata g) /\ (prefix_of (fsynced f) (fsynced g) \/ prefix_of (fdata f) (fsynced g))
  | Some _, None => False
  end.

Lemma Inv_rows (w' : world) :
  NoDup (map rkey (db w')) ->
  (forall r, In r (db w') -> exists f, get_pack w' (rpack r) = Some f /\ row_ok_d (fdata f) r) ->
  pairwise disjoint (db w') ->
  Forall (fun kf => H (fdata (snd kf)) = fst kf) (loose w') -> Inv w'.
Proof.
  clear H_inj. intros A B C D. split; [exact A|]. split; [|split; [exact C|exact D]].
  apply Forall_forall. intros r Hr. apply (row_ok_iff H inflate). exact (B r Hr).
Qed.

Lemma grows_rows w w' : Inv w -> (forall id, grows (get_pack w id) (get_pack w' id)) ->
  forall r, In r (db w) -> exists g, get_pack w' (rpack r) = Some g /\ row_ok_d (fdata g) r.
Proof.
  clear H_inj. intros (_ & Hok & _) Hg r Hr. rewrite Forall_forall in Hok.
  destruct (proj1 (row_ok_iff H inflate w r) (Hok r Hr)) as (f & Hp & Hd).
  specialize (Hg (rpack r)). rewrite Hp in Hg. destruct (get_pack w' (rpack r)) as [g|]; [|contradiction].
  exists g. split; [reflexivity|]. destruct Hg as [Hpre _]. eapply row_ok_d_prefix; eauto.
Qed.

Lemma grows_rows_pl w w' : Inv w -> Inv (power_loss w) -> (forall id, grows (get_pack w id) (get_pack w' id)) ->
  forall r, In r (db w) -> exists g, get_pack (power_loss w') (rpack r) = Some g /\ row_ok_d (fdata g) r.
Proof.
  clear H_inj. intros (_ & Hok & _) (_ & Hokp & _) Hg r Hr. rewrite Forall_forall in Hok, Hokp.
  destruct (proj1 (row_ok_iff H inflate w r) (Hok r Hr)) as (f & Hp & Hd).
  destruct (proj1 (row_ok_iff H inflate (power_loss w) r) (Hokp r Hr)) as (fp & Hpp & Hdp).
  rewrite get_pack_pl, Hp in Hpp. cbn in Hpp. inversion Hpp; subst fp. cbn [pl_file fdata] in Hdp.
  specialize (Hg (rpack r)). rewrite Hp in Hg. rewrite get_pack_pl.
  destruct (get_pack w' (rpack r)) as [g|]; [|contradiction].
  exists (pl_file g). split; [reflexivity|]. cbn [pl_file fdata].
  destruct Hg as [_ [Hs|Hs]]; [exact (row_ok_d_prefix H inflate _ _ r Hdp Hs)|exact (row_ok_d_prefix H inflate _ _ r Hd Hs)].
Qed.

Record BI (w : world) (fs : bool) (R : list row) (cur : list (Z * nat)) (s : world * local) : Prop := mkBI {
  bi_loose : loose (fst s) = loose w;
  bi_db : db (fst s) = db w;
  bi_grows : forall id, grows (get_pack w id) (get_pack (fst s) id);
  bi_cur : forall id, match aget Z.eqb cur id with
                      | Some n => n = length (Dof (fst s) id)
                      | None => get_pack (fst s) id = get_pack w id
                      end;
  bi_pend : forall d, fold_left apply_sql (pending (snd s)) d = insert_rows true d R;
  bi_rows : Forall (fun r => length (Dof w (rpack r)) <= roff r /\
                             exists f, get_pack (fst s) (rpack r) = Some f /\ row_ok_d (fdata f) r /\
                                       (fs = true -> row_ok_d (fsynced f) r)) R;
  bi_pw : pairwise disjoint R }.

Lemma BI_Good w fs R cur s : Inv w -> BI w fs R cur s -> Good w fs (fst s).
Proof.
  intros HI B. destruct B as [Bl Bd Bg _ _ _ _]. destruct s as [wi li]. cbn [fst snd] in *.
  pose proof HI as (Hnd & Hok & Hpw & Hl).
  assert (R1 : Rel w wi).
  { split; [rewrite Bd; auto|]. intros k f Hg. left. exists f. unfold get_loose in *. rewrite Bl. auto. }
  split; [|split; [exact R1|]].
  - apply Inv_rows; rewrite ?Bd, ?Bl; auto. intros r Hr. exact (grows_rows w wi HI Bg r Hr).
  - intros _ P. pose proof P as (Pnd & Pok & Ppw & Pl). split.
    + apply Inv_rows; cbn [db loose power_loss]; rewrite ?Bd, ?Bl; auto.
      intros r Hr. exact (grows_rows_pl w wi HI P Bg r Hr).
    + split; [cbn [db power_loss]; rewrite Bd; auto|].
      intros k f Hg. left. exists f. unfold get_loose in *. cbn [loose power_loss] in *. rewrite Bl. auto.
Qed.

Lemma BI_init w fs l : pending l = [] -> BI w fs [] [] (w, l).
Proof.
  intros Hp. constructor; cbn [fst snd].
  - reflexivity.
  - reflexivity.
  - intros id. destruct (get_pack w id) as [f|]; cbn; [|exact I]. split; [apply prefix_refl|left; apply prefix_refl].
  - intros id. reflexivity.
  - intros d. rewrite Hp. reflexivity.
  - constructor.
  - exact I.
Qed.

Lemma grows_Dof_len w wi id : grows (get_pack w id) (get_pack wi id) -> length (Dof w id) <= length (Dof wi id).
Proof.
  unfold Dof. destruct (get_pack w id) as [f|]; [|cbn; lia]. destruct (get_pack wi id) as [g|]; [|contradiction].
  intros [Hp _]. apply prefix_len. exact Hp.
Qed.

(* one batch keeps the invariant between batches; every prefix of it is Good with respect to the world the import started from *)
Lemma batch_step w fs R cur s id objs nh twice known :
  Inv w -> BI w fs R cur s -> Forall aobj_ok objs ->
  let pos := match aget Z.eqb cur id with Some n => n | None => pack_len w id end in
  let rs := snd (atp_loop id nh twice known pos objs) in
  always (Good w fs) s (p_batch id nh twice fs known pos objs) /\
  BI w fs (R ++ rs) (aset Z.eqb cur id (atp_end nh known pos objs)) (run_events s (p_batch id nh twice fs known pos objs)).
Proof.
  intros HI B Hobjs pos rs.
  pose proof (BI_Good w fs R cur s HI B) as G0. destruct s as [wi li]. cbn [fst] in G0.
  pose proof G0 as (HIi & _).
  destruct B as [Bl Bd Bg Bc Bp Br Bw]. cbn [fst snd] in *.
  assert (Hpos : pos = length (Dof wi id)).
  { subst pos. specialize (Bc id). destruct (aget Z.eqb cur id) as [n|]; [exact Bc|].
    rewrite pack_len_Dof. unfold Dof. rewrite Bc. reflexivity. }
  subst rs. rewrite Hpos.
  destruct (batch_spec wi li id objs nh twice fs known HIi Hobjs) as (BA & w' & l' & syn & Erun & E & Hs1 & Hs0 & Hpend & HR & HP).
  set (D := Dof wi id) in *. set (NB := atp_bytes nh known objs) in *.
  set (rs := snd (atp_loop id nh twice known (length D) objs)) in *.
  split.
  { eapply always_weaken; [|exact BA]. intros x Gx. eapply Good_trans; eauto. }
  rewrite Erun. pose proof E as (El & Ed & Ep & Eo).
  assert (Hlen0 : length (Dof w id) <= length D) by (apply grows_Dof_len; apply Bg).
  constructor; cbn [fst snd].
  - rewrite El. exact Bl.
  - rewrite Ed. exact Bd.
  - intros id0. destruct (Z.eq_dec id0 id) as [->|Hne].
    + rewrite Ep. specialize (Bg id). destruct (get_pack w id) as [f|] eqn:Hf; cbn; [|exact I].
      unfold D, Dof in *. destruct (get_pack wi id) as [g|] eqn:Hg; [|contradiction]. cbn in Bg. destruct Bg as [Bg1 Bg2].
      assert (Hd : prefix_of (fdata f) (fdata g ++ NB)) by (eapply prefix_trans; [exact Bg1|exists NB; reflexivity]).
      split; [exact Hd|]. destruct fs.
      * rewrite (Hs1 eq_refl). right. exact Hd.
      * rewrite (Hs0 eq_refl). unfold Sof. rewrite Hg. exact Bg2.
    + rewrite (Eo id0 Hne). apply Bg.
  - intros id0. destruct (Z.eq_dec id0 id) as [->|Hne].
    + rewrite (g_aset_eq Z.eqb Z.eqb_spec). rewrite atp_end_bytes. unfold Dof at 1. rewrite Ep. cbn [fdata].
      fold NB. rewrite app_length. reflexivity.
    + rewrite (g_aset_neq Z.eqb Z.eqb_spec) by exact Hne. specialize (Bc id0).
      destruct (aget Z.eqb cur id0) as [n|]; unfold Dof in *; rewrite (Eo id0 Hne); exact Bc.
  - intros d. rewrite Hpend, fold_left_app, Bp.
    destruct rs as [|r0 rt] eqn:Ers; [cbn [fold_left]; rewrite app_nil_r; reflexivity|].
    cbn [fold_left apply_sql]. apply insert_rows_app.
  - apply Forall_app. split.
    + eapply Forall_impl; [|exact Br]. intros r (A & f & Hf & Hd & Hsy). split; [exact A|].
      destruct (Z.eq_dec (rpack r) id) as [Er|Hne].
      * exists (mkFile (D ++ NB) syn). rewrite Er. split; [exact Ep|]. cbn [fdata fsynced].
        assert (Hdd : row_ok_d (D ++ NB) r).
        { eapply row_ok_d_prefix; [|exists NB; reflexivity]. unfold D, Dof. rewrite Er in Hf. rewrite Hf. exact Hd. }
        split; [exact Hdd|]. intros F. rewrite (Hs1 F). exact Hdd.
      * exists f. rewrite (Eo _ Hne). auto.
    + eapply Forall_impl; [|exact HR]. intros r (A & Bq & C). rewrite A. split; [lia|].
      exists (mkFile (D ++ NB) syn). split; [exact Ep|]. cbn [fdata fsynced]. split; [exact C|].
      intros F. rewrite (Hs1 F). exact C.
  - apply pairwise_app; auto. intros x y Hx Hy. rewrite Forall_forall in Br, HR.
    destruct (Br x Hx) as (_ & f & Hf & (c & Hle & _) & _). destruct (HR y Hy) as (Ay & By & _).
    destruct (Z.eq_dec (rpack x) id) as [Ex|Hne]; [|left; congruence].
    right. left. rewrite Ex in Hf. unfold D, Dof in By. rewrite Hf in By. lia.
Qed.

(* the rows collected by the batches, mirroring p_batches *)
Fixpoint rows_of_batches (w : world) (nh twice : bool) (known : list key) (cur : list (Z * nat)) (bs : list (Z * list pobj)) : list row :=
  match bs with
  | [] => []
  | (id, objs) :: t =>
      let pos := match aget Z.eqb cur id with Some n => n | None => pack_len w id end in
      snd (atp_loop id nh twice known pos objs) ++
      rows_of_batches w nh twice (atp_known nh known objs) (aset Z.eqb cur id (atp_end nh known pos objs)) t
  end.

Lemma batches_spec w fs nh twice : Inv w -> forall bs known cur R s,
  BI w fs R cur s -> Forall (fun b => Forall aobj_ok (snd b)) bs ->
  always (Good w fs) s (p_batches w nh twice fs known cur bs) /\
  exists cur', BI w fs (R ++ rows_of_batches w nh twice known cur bs) cur' (run_events s (p_batches w nh twice fs known cur bs)).
Proof.
  intros HI. induction bs as [|[id objs] t IH]; intros known cur R s B Hall.
  - cbn [p_batches rows_of_batches]. split; [apply always_nil; eapply BI_Good; eauto|].
    exists cur. rewrite app_nil_r. exact B.
  - inversion Hall as [|? ? Ho Ht]; subst. cbn [snd] in Ho.
    cbn [p_batches rows_of_batches].
    destruct (batch_step w fs R cur s id objs nh twice known HI B Ho) as (A1 & B1).
    cbn zeta in A1, B1.
    set (pos := match aget Z.eqb cur id with Some n => n | None => pack_len w id end) in *.
    destruct (IH (atp_known nh known objs) (aset Z.eqb cur id (atp_end nh known pos objs)) _ _ B1 Ht) as (A2 & cur' & B2).
    split.
    + apply always_app; [exact A1|exact A2].
    + exists cur'. unfold run_events in *. rewrite fold_left_app. rewrite app_assoc. exact B2.
Qed.

(* the final COMMIT *)
Lemma commit_BI w fs R cur wn ln : Inv w -> BI w fs R cur (wn, ln) ->
  exists l', apply_ev (wn, ln) ECommit = (set_db wn (insert_rows true (db w) R), l') /\
             Good w fs (set_db wn (insert_rows true (db w) R)).
Proof.
  intros HI B. pose proof (BI_Good w fs R cur _ HI B) as (HIn & _ & Gpl). cbn [fst] in *.
  destruct B as [Bl Bd Bg _ Bp Br Bw]. cbn [fst snd] in *.
  pose proof HI as (Hnd & Hok & Hpw & Hl).
  exists (set_pending ln []). split; [cbn [apply_ev]; rewrite Bp, Bd; reflexivity|].
  set (D2 := insert_rows true (db w) R). set (w5 := set_db wn D2).
  rewrite Forall_forall in Br.
  assert (HndR : NoDup (map rkey D2)) by (apply insert_rows_nodup; exact Hnd).
  assert (HpwD : pairwise disjoint D2).
  { apply pairwise_insert; auto. intros a Ha. apply Forall_forall. intros r Hr. destruct (Br r Hr) as (Hoff & _).
    destruct (Z.eq_dec (rpack a) (rpack r)) as [Ea|Ea]; [|left; exact Ea].
    right. left. rewrite Forall_forall in Hok.
    destruct (proj1 (row_ok_iff H inflate w a) (Hok a Ha)) as (f & Hp & (c & Hle & _)).
    unfold Dof in Hoff. rewrite <- Ea, Hp in Hoff. lia. }
  assert (Hkeys : forall k, In k (map rkey (db w)) -> In k (map rkey D2)).
  { intros k Hk. apply in_map_iff in Hk as (r & <- & Hr). apply in_map. apply insert_rows_keeps. exact Hr. }
  split; [|split].
  - apply Inv_rows; unfold w5; cbn [db set_db loose]; auto; [|rewrite Bl; exact Hl].
    intros r Hr. apply insert_rows_in in Hr as [Hr|Hr].
    + exact (grows_rows w wn HI Bg r Hr).
    + destruct (Br r Hr) as (_ & f & Hf & Hd & _). exists f. auto.
  - split; [unfold w5; cbn [db set_db]; exact Hkeys|].
    intros k f Hg. left. exists f. unfold get_loose, w5 in *. cbn [loose set_db]. rewrite Bl. auto.
  - intros F P. pose proof P as (Pnd & Pok & Ppw & Pl). split.
    + apply Inv_rows; unfold w5; cbn [db set_db loose power_loss]; auto; [|rewrite Bl; exact Pl].
      intros r Hr. apply insert_rows_in in Hr as [Hr|Hr].
      * exact (grows_rows_pl w wn HI P Bg r Hr).
      * destruct (Br r Hr) as (_ & f & Hf & _ & Hsy). exists (pl_file f). split; [|exact (Hsy F)].
        change (get_pack (power_loss (set_db wn D2)) (rpack r)) with (get_pack (power_loss wn) (rpack r)).
        rewrite get_pack_pl, Hf. reflexivity.
    + split; [cbn [db power_loss]; unfold w5; cbn [db set_db]; exact Hkeys|].
      intros k f Hg. left. exists f. unfold get_loose, w5 in *. cbn [loose set_db power_loss] in *. rewrite Bl. auto.
Qed.

(* import_objects (transfer part): at EVERY prefix the world is Good *)
Theorem import_always w l bs nh twice fs :
  Inv w -> pending l = [] -> Forall (fun b => Forall aobj_ok (snd b)) bs ->
  always (Good w fs) (w, l) (p_import w nh twice fs bs).
Proof.
  intros HI Hp Hall. unfold p_import.
  destruct (batches_spec w fs nh twice HI bs (map rkey (db w)) [] [] (w, l) (BI_init w fs l Hp) Hall) as (A & cur' & B).
  apply always_app; [exact A|].
  destruct (run_events (w, l) (p_batches w nh twice fs (map rkey (db w)) [] bs)) as [wn ln] eqn:Er.
  apply always_cons; [eapply BI_Good; eauto|].
  destruct (commit_BI w fs _ cur' wn ln HI B) as (l' & E & G). rewrite E. apply always_nil. exact G.
Qed.

(* C05 / C06 / C14: every crash point of the transfer, for ALL batch lists, packs and modes *)
Theorem import_crash_safe w l bs nh twice fs m :
  Inv w -> pending l = [] -> Forall (fun b => Forall aobj_ok (snd b)) bs ->
  let w' := crash (run_events (w, l) (firstn m (p_import w nh twice fs bs))) in
  Inv w' /\ (forall k c, stored w k = Some c -> stored w' k = Some c) /\
  (fs = true -> Inv (power_loss w) ->
     Inv (power_loss w') /\ (forall k c, stored (power_loss w) k = Some c -> stored (power_loss w') k = Some c)).
Proof.
  intros HI Hpend Hobjs. cbn zeta. unfold crash.
  destruct (import_always w l bs nh twice fs HI Hpend Hobjs m) as (A & B & C).
  split; [exact A|]. split.
  - intros k c Hs. exact (stored_preserved H inflate H_inj w _ k c HI A B Hs).
  - intros F P. destruct (C F P) as (C1 & C2). split; [exact C1|].
    intros k c Hs. exact (stored_preserved H inflate H_inj (power_loss w) _ k c P C1 C2 Hs).
Qed.

(* the completed transfer: the index is the old index plus the collected rows (INSERT OR IGNORE semantics), nothing else changed but
   the packs, which only grew *)
Theorem import_final w l bs nh twice fs :
  Inv w -> pending l = [] -> Forall (fun b => Forall aobj_ok (snd b)) bs ->
  exists w' l', run_events (w, l) (p_import w nh twice fs bs) = (w', l') /\
    db w' = insert_rows true (db w) (rows_of_batches w nh twice (map rkey (db w)) [] bs) /\
    loose w' = loose w /\ (forall id, grows (get_pack w id) (get_pack w' id)) /\ Good w fs w'.
Proof.
  intros HI Hp Hall. unfold p_import.
  destruct (batches_spec w fs nh twice HI bs (map rkey (db w)) [] [] (w, l) (BI_init w fs l Hp) Hall) as (A & cur' & B).
  unfold run_events. rewrite fold_left_app. fold (run_events (w, l) (p_batches w nh twice fs (map rkey (db w)) [] bs)).
  destruct (run_events (w, l) (p_batches w nh twice fs (map rkey (db w)) [] bs)) as [wn ln] eqn:Er.
  destruct (commit_BI w fs _ cur' wn ln HI B) as (l' & E & G).
  cbn [fold_left]. rewrite E. eexists. eexists. split; [reflexivity|].
  destruct B as [Bl Bd Bg _ _ _ _]. cbn [fst] in *.
  split; [reflexivity|]. split; [exact Bl|]. split; [exact Bg|exact G].
Qed.

(* ---- completeness: every object of every batch ends up indexed, and reads back as its content ---- *)
Lemma atp_loop_keys id nh twice : forall objs known pos o, In o objs ->
  In (okey o) (map rkey (snd (atp_loop id nh twice known pos objs))) \/ In (okey o) known.
Proof.
  clear H_inj. induction objs as [|x t IH]; intros known pos o Hin; [destruct Hin|].
  cbn [atp_loop]. destruct (nh && existsb (N.eqb (okey x)) known) eqn:Ek.
  - assert (Hxk : In (okey x) known).
    { apply andb_prop in Ek as [_ Ek]. apply existsb_exists in Ek as (y & Hy & E). apply N.eqb_eq in E. subst y. exact Hy. }
    destruct Hin as [->|Hin]; [right; exact Hxk|].
    specialize (IH known pos o Hin).
    destruct (atp_loop id nh twice known pos t) as [es rs]. destruct twice; cbn [snd] in *; exact IH.
  - set (known' := if nh then okey x :: known else known).
    destruct Hin as [->|Hin].
    + destruct (atp_loop id nh twice known' (pos + length (oblob o)) t) as [es rs]. cbn [snd map rkey]. left. left. reflexivity.
    + specialize (IH known' (pos + length (oblob x)) o Hin).
      destruct (atp_loop id nh twice known' (pos + length (oblob x)) t) as [es rs]. cbn [snd map rkey] in *.
      destruct IH as [IH|IH]; [left; right; exact IH|].
      unfold known' in IH. destruct nh; [|right; exact IH]. destruct IH as [<-|IH]; [left; left; reflexivity|right; exact IH].
Qed.

Lemma atp_known_sub id nh twice : forall objs known pos k, In k (atp_known nh known objs) ->
  In k known \/ In k (map rkey (snd (atp_loop id nh twice known pos objs))).
Proof.
  clear H_inj. induction objs as [|x t IH]; intros known pos k Hin; [left; exact Hin|].
  cbn [atp_known atp_loop] in *. destruct (nh && existsb (N.eqb (okey x)) known) eqn:Ek.
  - specialize (IH known pos k Hin). destruct (atp_loop id nh twice known pos t) as [es rs]. destruct twice; cbn [snd] in *; exact IH.
  - set (known' := if nh then okey x :: known else known) in *.
    specialize (IH known' (pos + length (oblob x)) k Hin).
    destruct (atp_loop id nh twice known' (pos + length (oblob x)) t) as [es rs]. cbn [snd map rkey] in *.
    destruct IH as [IH|IH]; [|right; right; exact IH].
    unfold known' in IH. destruct nh; [|left; exact IH]. destruct IH as [<-|IH]; [right; left; reflexivity|left; exact IH].
Qed.

Lemma rows_cover w nh twice : forall bs known cur b o, In b bs -> In o (snd b) ->
  In (okey o) known \/ In (okey o) (map rkey (rows_of_batches w nh twice known cur bs)).
Proof.
  clear H_inj. induction bs as [|[id objs] t IH]; intros known cur b o Hb Ho; [destruct Hb|].
  cbn [rows_of_batches]. rewrite map_app.
  set (pos := match aget Z.eqb cur id with Some n => n | None => pack_len w id end).
  destruct Hb as [<-|Hb].
  - cbn [snd] in Ho. destruct (atp_loop_keys id nh twice objs known pos o Ho) as [Hr|Hk]; [right; apply in_or_app; left; exact Hr|left; exact Hk].
  - destruct (IH (atp_known nh known objs) (aset Z.eqb cur id (atp_end nh known pos objs)) b o Hb Ho) as [Hk|Hr].
    + destruct (atp_known_sub id nh twice objs known pos _ Hk) as [Hk'|Hr]; [left; exact Hk'|right; apply in_or_app; left; exact Hr].
    + right. apply in_or_app. right. exact Hr.
Qed.

(* C14: after the completed transfer every object of every batch reads back from the destination as its content, under the key of
   that content - whether it was written now or was already there *)
Theorem import_transfers_all w l bs nh twice fs :
  Inv w -> pending l = [] -> Forall (fun b => Forall aobj_ok (snd b)) bs ->
  exists w' l', run_events (w, l) (p_import w nh twice fs bs) = (w', l') /\ Inv w' /\
    (forall k c, stored w k = Some c -> stored w' k = Some c) /\
    forall b o, In b bs -> In o (snd b) ->
      exists c, decode inflate (oblob o) (ocomp o) = Some c /\ H c = okey o /\ stored w' (okey o) = Some c.
Proof.
  intros HI Hp Hall.
  destruct (import_final w l bs nh twice fs HI Hp Hall) as (w' & l' & Er & Edb & El & Eg & (G1 & G2 & _)).
  exists w', l'. split; [exact Er|]. split; [exact G1|]. split.
  { intros k c Hs. exact (stored_preserved H inflate H_inj w w' k c HI G1 G2 Hs). }
  intros b o Hb Ho.
  assert (Hidx : In (okey o) (map rkey (db w'))).
  { rewrite Edb. destruct (rows_cover w nh twice bs (map rkey (db w)) [] b o Hb Ho) as [Hk|Hr].
    - apply in_map_iff in Hk as (r & <- & Hr). apply in_map. apply insert_rows_keeps. exact Hr.
    - apply in_map_iff in Hr as (r & <- & Hr). apply insert_rows_adds. exact Hr. }
  rewrite Forall_forall in Hall. specialize (Hall b Hb). rewrite Forall_forall in Hall.
  destruct (Hall o Ho) as (c & Hd & Hh & _).
  exists c. split; [exact Hd|]. split; [exact Hh|].
  apply in_map_iff in Hidx as (r & Hrk & Hr).
  destruct (manual_recovery H inflate w' r G1 Hr) as (c' & Hst & Hh' & _).
  rewrite Hrk in *. rewrite Hst. f_equal. apply H_inj. congruence.
Qed.

(* a single batch followed by the COMMIT is add_streamed_objects_to_pack with do_commit=True *)
Lemma import_one_batch w id objs nh twice fs :
  p_import w nh twice fs [(id, objs)] = p_add_to_pack w id objs nh twice fs.
Proof.
  clear H_inj. unfold p_import, p_add_to_pack. cbn [p_batches aget]. unfold p_batch.
  destruct (atp_loop id nh twice (map rkey (db w)) (pack_len w id) objs) as [es rs]. cbn [fst snd].
  rewrite app_nil_r. cbn [app]. rewrite <- !app_assoc. cbn [app]. unfold sql_of_rows.
  reflexivity.
Qed.

End IM.
