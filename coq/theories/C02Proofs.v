(* C02Proofs.v - the write programs are EXACT map updates: besides storing what they store (and keeping what was stored), they make no
   other key appear and change what no other key reads back as - in both directions (Some stays the same Some, None stays None). *)
From Coq Require Import List ZArith NArith Arith Bool Lia.
From DOS Require Import Base Store StoreProofs StoreLemmas Mono MonoStep Programs ProgramsProofs PackProofs MaintProofs AddPackProofs ImportProofs.
Import ListNotations.

Section C02P.
Variable H : bytes -> key.
Variable inflate : bytes -> option bytes.
Hypothesis H_inj : forall a b, H a = H b -> a = b.
Notation Inv := (Inv H inflate).
Notation stored := (stored inflate).

(* ---- add_object / add_streamed_object ---- *)
Lemma add_loose_world w l n chunks : Inv w ->
  exists w' l', run_events (w, l) (p_add_loose H w n chunks) = (w', l') /\ db w' = db w /\ packs w' = packs w /\
    forall k', k' <> H (concat chunks) -> get_loose w' k' = get_loose w k'.
Proof.
  intros HI. rewrite (p_add_loose_split H). set (c := concat chunks). set (k := H c).
  unfold run_events. rewrite fold_left_app. fold (run_events (w, l) (sand_part n chunks)).
  destruct (run_sandbox_part w l n chunks) as (w1 & l1 & Hr & Hc & Hs & _). fold c in Hs.
  unfold sand_part. rewrite Hr. unfold last_part. fold c k.
  assert (E1 : loose w1 = loose w) by (inversion Hc; reflexivity).
  assert (E2 : packs w1 = packs w) by (inversion Hc; reflexivity).
  assert (E3 : db w1 = db w) by (inversion Hc; reflexivity).
  destruct (dest_ok H w k).
  - cbn [fold_left apply_ev]. eexists. eexists. split; [reflexivity|]. cbn [db packs set_sandbox]. split; [exact E3|]. split; [exact E2|].
    intros k' _. unfold get_loose. cbn [loose set_sandbox]. rewrite E1. reflexivity.
  - cbn [fold_left apply_ev]. rewrite Hs. eexists. eexists. split; [reflexivity|]. cbn [db packs set_loose set_sandbox].
    split; [exact E3|]. split; [exact E2|].
    intros k' Hne. rewrite get_loose_publish. destruct (N.eqb_spec k' k) as [E|_]; [contradiction|].
    unfold get_loose. rewrite E1. reflexivity.
Qed.

Theorem add_loose_exact w l n chunks : Inv w ->
  forall k', k' <> H (concat chunks) ->
    stored (crash (run_events (w, l) (p_add_loose H w n chunks))) k' = stored w k'.
Proof.
  intros HI k' Hne. destruct (add_loose_world w l n chunks HI) as (w' & l' & Hr & Hdb & Hpk & Hlo).
  rewrite Hr. cbn [crash fst]. unfold Store.stored, Store.read_row, get_pack. rewrite Hdb, Hpk.
  destruct (find_row (db w) k'); [reflexivity|]. fold (get_loose w' k') (get_loose w k'). rewrite (Hlo k' Hne). reflexivity.
Qed.

(* ---- direct-to-pack and import ---- *)
Lemma find_row_app_other (d : list row) r k : rkey r <> k -> find_row (d ++ [r]) k = find_row d k.
Proof.
  clear H_inj. intros Hne. unfold find_row. induction d as [|x t IH]; cbn.
  - destruct (N.eqb_spec (rkey r) k); [contradiction|reflexivity].
  - destruct (N.eqb (rkey x) k); [reflexivity|exact IH].
Qed.

Lemma find_row_insert_other ig : forall rs d k, (forall r, In r rs -> rkey r <> k) -> find_row (insert_rows ig d rs) k = find_row d k.
Proof.
  clear H_inj. induction rs as [|r t IH]; intros d k Hall; cbn [insert_rows]; [reflexivity|].
  destruct (has_key d (rkey r)).
  - apply IH. intros x Hx. apply Hall. right. exact Hx.
  - rewrite IH by (intros x Hx; apply Hall; right; exact Hx).
    apply find_row_app_other. apply Hall. left. reflexivity.
Qed.

Lemma atp_loop_rows_keys id nh twice : forall objs known pos r, In r (snd (atp_loop id nh twice known pos objs)) ->
  exists o, In o objs /\ rkey r = okey o.
Proof.
  clear H_inj. induction objs as [|x t IH]; intros known pos r Hin; cbn [atp_loop] in Hin; [destruct Hin|].
  destruct (nh && existsb (N.eqb (okey x)) known).
  - specialize (IH known pos r). destruct (atp_loop id nh twice known pos t) as [es rs].
    assert (Hin' : In r rs) by (destruct twice; exact Hin).
    destruct (IH Hin') as (o & Ho & E). exists o. split; [right; exact Ho|exact E].
  - set (known' := if nh then okey x :: known else known) in *.
    specialize (IH known' (pos + length (oblob x)) r).
    destruct (atp_loop id nh twice known' (pos + length (oblob x)) t) as [es rs]. cbn [snd] in *.
    destruct Hin as [<-|Hin]; [exists x; split; [left; reflexivity|reflexivity]|].
    destruct (IH Hin) as (o & Ho & E). exists o. split; [right; exact Ho|exact E].
Qed.

Lemma rows_of_batches_keys w nh twice : forall bs known cur r, In r (rows_of_batches w nh twice known cur bs) ->
  exists b o, In b bs /\ In o (snd b) /\ rkey r = okey o.
Proof.
  clear H_inj. induction bs as [|[id objs] t IH]; intros known cur r Hin; cbn [rows_of_batches] in Hin; [destruct Hin|].
  apply in_app_or in Hin as [Hin|Hin].
  - destruct (atp_loop_rows_keys id nh twice objs known _ r Hin) as (o & Ho & E).
    exists (id, objs), o. split; [left; reflexivity|]. split; [exact Ho|exact E].
  - destruct (IH _ _ r Hin) as (b & o & Hb & Ho & E). exists b, o. split; [right; exact Hb|]. split; [exact Ho|exact E].
Qed.

Lemma read_row_data_grows w w' r :
  (forall id f, get_pack w id = Some f -> exists g, get_pack w' id = Some g /\ prefix_of (fdata f) (fdata g)) -> row_ok H inflate w r ->
  read_row inflate w' r = read_row inflate w r.
Proof.
  clear H_inj. intros Hg (f0 & c & Hp0 & Hle & Hd & _). unfold Store.read_row. destruct (Hg _ _ Hp0) as (g & Hpg & x & Hx).
  rewrite Hp0, Hpg, Hx, app_length.
  destruct (Nat.leb_spec (roff r + rlen r) (length (fdata f0) + length x)); [|lia].
  destruct (Nat.leb_spec (roff r + rlen r) (length (fdata f0))); [|lia].
  rewrite slice_app_l by lia. reflexivity.
Qed.

Lemma read_row_grows w w' r : (forall id, grows (get_pack w id) (get_pack w' id)) -> row_ok H inflate w r ->
  read_row inflate w' r = read_row inflate w r.
Proof.
  clear H_inj. intros Hg (f0 & c & Hp0 & Hle & Hd & _). unfold Store.read_row. specialize (Hg (rpack r)). rewrite Hp0 in Hg |- *.
  destruct (get_pack w' (rpack r)) as [g|]; [|contradiction]. destruct Hg as [[x Hx] _]. rewrite Hx, app_length.
  destruct (Nat.leb_spec (roff r + rlen r) (length (fdata f0) + length x)); [|lia].
  destruct (Nat.leb_spec (roff r + rlen r) (length (fdata f0))); [|lia].
  rewrite slice_app_l by lia. reflexivity.
Qed.

(* keys that are not among the objects handed over read back exactly as before - present or absent *)
Theorem import_exact w l bs nh twice fs :
  Inv w -> pending l = [] -> Forall (fun b => Forall (aobj_ok H inflate) (snd b)) bs ->
  forall k, (forall b o, In b bs -> In o (snd b) -> okey o <> k) ->
    stored (crash (run_events (w, l) (p_import w nh twice fs bs))) k = stored w k.
Proof.
  intros HI Hp Hall k Hk.
  destruct (import_final H inflate H_inj w l bs nh twice fs HI Hp Hall) as (w' & l' & Er & Edb & El & Eg & _).
  rewrite Er. cbn [crash fst]. unfold Store.stored. rewrite Edb.
  rewrite find_row_insert_other.
  - destruct (find_row (db w) k) as [r|] eqn:F.
    + apply find_row_some in F as [Hin _]. destruct HI as (_ & Hok & _). rewrite Forall_forall in Hok.
      apply read_row_grows; auto.
    + unfold get_loose. rewrite El. reflexivity.
  - intros r Hr. destruct (rows_of_batches_keys w nh twice bs _ _ r Hr) as (b & o & Hb & Ho & E). rewrite E. apply (Hk b o Hb Ho).
Qed.

Theorem add_to_pack_exact w l id objs nh twice fs :
  Inv w -> pending l = [] -> Forall (aobj_ok H inflate) objs ->
  forall k, (forall o, In o objs -> okey o <> k) ->
    stored (crash (run_events (w, l) (p_add_to_pack w id objs nh twice fs))) k = stored w k.
Proof.
  intros HI Hp Ho k Hk. rewrite <- (import_one_batch w id objs nh twice fs).
  apply (import_exact w l [(id, objs)] nh twice fs HI Hp); [constructor; [exact Ho|constructor]|].
  intros b o [<-|[]] Hin. exact (Hk o Hin).
Qed.

(* ---- pack_all_loose (one pack): the completed call ---- *)
Lemma unlinks_loose : forall us s k, ~ In k us -> get_loose (fst (run_events s (map EUnlinkLoose us))) k = get_loose (fst s) k.
Proof.
  clear H_inj. induction us as [|u t IH]; intros s k Hn; [reflexivity|].
  cbn [map]. change (run_events s (EUnlinkLoose u :: map EUnlinkLoose t)) with (run_events (apply_ev s (EUnlinkLoose u)) (map EUnlinkLoose t)).
  rewrite IH by (intros Hin; apply Hn; right; exact Hin). destruct s as [w l]. cbn [apply_ev fst]. unfold get_loose. cbn [loose set_loose].
  apply (g_adel_neq N.eqb N.eqb_spec). intros E. apply Hn. left. symmetry. exact E.
Qed.

Lemma pack_one_final w l id objs fs clean :
  Inv w -> pending l = [] ->
  Forall (obj_ok inflate w) objs -> NoDup (map okey objs) -> (forall o, In o objs -> ~ In (okey o) (map rkey (db w))) ->
  exists w' l' syn, run_events (w, l) (p_pack_one w id objs fs clean) = (w', l') /\
    db w' = db w ++ rows_from id (length (Dof w id)) objs /\
    get_pack w' id = Some (mkFile (Dof w id ++ concat (map oblob objs)) syn) /\
    (forall id', id' <> id -> get_pack w' id' = get_pack w id') /\
    (forall k, ~ In k (map okey objs) -> get_loose w' k = get_loose w k).
Proof.
  intros HI Hpend Hobjs Hnd Hfresh.
  set (B := concat (map oblob objs)). set (D := Dof w id). set (R := rows_from id (length D) objs).
  assert (HR : rows_from id (pack_len w id) objs = R).
  { unfold R, D, Dof, pack_len. destruct (get_pack w id); reflexivity. }
  assert (RC : forall s e t, run_events s (e :: t) = run_events (apply_ev s e) t) by reflexivity.
  assert (RA : forall s a b, run_events s (a ++ b) = run_events (run_events s a) b) by (intros; unfold run_events; apply fold_left_app).
  unfold p_pack_one. rewrite HR.
  destruct (exec_open w l id) as (w1 & l1 & E1 & X1 & Hb1 & Hp1). fold D in X1.
  destruct (exec_writes w1 l1 id objs [] Hb1) as (l2 & E2 & Hb2 & Hp2). cbn [app] in Hb2. fold B in Hb2.
  set (l3 := set_pending l2 (pending l2 ++ [SInsert false R])).
  assert (Hb3 : get_buf l3 (HPack id) = Some B) by exact Hb2.
  assert (Hp3 : pending l3 = [SInsert false R]) by (unfold l3; cbn [pending set_pending]; rewrite Hp2, Hp1, Hpend; reflexivity).
  rewrite RC, E1, RA, E2. rewrite RA.
  change (run_events (w1, l2) [ESql (SInsert false R)]) with (w1, l3).
  (* the tail after the INSERT, from (w1, l3) *)
  assert (Tail : exists w4 l5 syn, run_events (w1, l3) ((if fs then [EFlush (HPack id); EFsync (HPack id)] else []) ++ [EClose (HPack id); ECommit]) =
                   (set_db w4 (db w ++ R), l5) /\ ext w w4 id (D ++ B) syn).
  { destruct fs; cbn [app].
    - destruct (exec_flush w w1 l3 id D (Sof w id) B X1 Hb3) as (w2 & l4 & E4 & X4 & Hb4 & Hp4).
      destruct (exec_fsync w w2 l4 id (D ++ B) (Sof w id) X4) as (w3 & E5 & X5).
      destruct (exec_close w w3 l4 id (D ++ B) (D ++ B) [] X5 Hb4) as (w4 & l5 & E6 & X6 & Hp6). rewrite app_nil_r in X6.
      destruct (commit_Good H inflate H_inj w w4 l5 id objs true (D ++ B) HI Hobjs Hnd Hfresh X6 (fun _ => eq_refl)) as (l6 & E7 & _).
      { rewrite Hp6, Hp4. exact Hp3. }
      fold D R in E7. exists w4, l6, (D ++ B). rewrite !RC, E4, E5, E6, E7. split; [reflexivity|exact X6].
    - destruct (exec_close w w1 l3 id D (Sof w id) B X1 Hb3) as (w4 & l5 & E6 & X6 & Hp6).
      destruct (commit_Good H inflate H_inj w w4 l5 id objs false (Sof w id) HI Hobjs Hnd Hfresh X6) as (l6 & E7 & _).
      { intros F; discriminate. }
      { rewrite Hp6. exact Hp3. }
      fold D R in E7. exists w4, l6, (Sof w id). rewrite !RC, E6, E7. split; [reflexivity|exact X6]. }
  destruct Tail as (w4 & l5 & syn & ET & (El & Ed & Ep & Eo)).
  replace ((if fs then [EFlush (HPack id); EFsync (HPack id)] else []) ++ [EClose (HPack id); ECommit] ++
           (if clean then map (fun o => EUnlinkLoose (okey o)) objs else []))
    with (((if fs then [EFlush (HPack id); EFsync (HPack id)] else []) ++ [EClose (HPack id); ECommit]) ++
           (if clean then map (fun o => EUnlinkLoose (okey o)) objs else [])) by (rewrite <- app_assoc; reflexivity).
  rewrite RA, ET.
  set (w5 := set_db w4 (db w ++ R)).
  destruct clean.
  - replace (map (fun o => EUnlinkLoose (okey o)) objs) with (map EUnlinkLoose (map okey objs)) by (rewrite map_map; reflexivity).
    destruct (unlinks_frame (map okey objs) (w5, l5)) as (A1 & A2 & _). cbn [fst] in A1, A2.
    pose proof (fun k Hn => unlinks_loose (map okey objs) (w5, l5) k Hn) as A3. cbn [fst] in A3.
    destruct (run_events (w5, l5) (map EUnlinkLoose (map okey objs))) as [w6 l6]. cbn [fst] in *.
    exists w6, l6, syn. split; [reflexivity|]. split; [rewrite A1; reflexivity|].
    split; [unfold get_pack; rewrite A2; exact Ep|]. split; [intros id' Hne; unfold get_pack; rewrite A2; exact (Eo id' Hne)|].
    intros k Hn. rewrite (A3 k Hn). unfold get_loose, w5. cbn [loose set_db]. rewrite El. reflexivity.
  - cbn [run_events fold_left]. exists w5, l5, syn. split; [reflexivity|]. split; [reflexivity|].
    split; [exact Ep|]. split; [exact Eo|]. intros k _. unfold get_loose, w5. cbn [loose set_db]. rewrite El. reflexivity.
Qed.

(* packing is invisible in BOTH directions: every key reads back exactly as before, present or absent *)
Theorem pack_one_exact w l id objs fs clean :
  Inv w -> pending l = [] ->
  Forall (obj_ok inflate w) objs -> NoDup (map okey objs) -> (forall o, In o objs -> ~ In (okey o) (map rkey (db w))) ->
  forall k, stored (crash (run_events (w, l) (p_pack_one w id objs fs clean))) k = stored w k.
Proof.
  intros HI Hpend Hobjs Hnd Hfresh k.
  destruct (in_dec N.eq_dec k (map okey objs)) as [Hin|Hn].
  - (* a key of the batch: it was loose, and reads back as the bytes of its loose file *)
    apply in_map_iff in Hin as (o & <- & Ho).
    destruct (pack_one_indexes_all H inflate H_inj w l id objs fs clean HI Hpend Hobjs Hnd Hfresh o Ho) as (f & Hg & Hs).
    rewrite Hs. unfold Store.stored.
    destruct (find_row (db w) (okey o)) as [r|] eqn:F.
    + exfalso. apply find_row_some in F as [Hin Hrk]. apply (Hfresh o Ho). rewrite <- Hrk. apply in_map. exact Hin.
    + rewrite Hg. reflexivity.
  - destruct (pack_one_final w l id objs fs clean HI Hpend Hobjs Hnd Hfresh) as (w' & l' & syn & Er & Edb & Ep & Eo & El).
    rewrite Er. cbn [crash fst]. unfold Store.stored. rewrite Edb.
    assert (Hfr : find_row (db w ++ rows_from id (length (Dof w id)) objs) k = find_row (db w) k).
    { rewrite <- (find_row_insert_other false (rows_from id (length (Dof w id)) objs) (db w) k).
      - rewrite insert_rows_fresh; [reflexivity| |].
        + rewrite rows_from_keys. exact Hnd.
        + intros r Hr Hk. apply in_map_iff in Hk as (r0 & Hrk & Hr0).
          assert (Hk2 : In (rkey r) (map rkey (rows_from id (length (Dof w id)) objs))) by (apply in_map; exact Hr).
          rewrite rows_from_keys in Hk2. apply in_map_iff in Hk2 as (o & Ho1 & Ho2).
          apply (Hfresh o Ho2). rewrite Ho1, <- Hrk. apply in_map. exact Hr0.
      - intros r Hr E. apply Hn. rewrite <- E. rewrite <- (rows_from_keys id objs (length (Dof w id))). apply in_map. exact Hr. }
    rewrite Hfr. destruct (find_row (db w) k) as [r|] eqn:F.
    + apply find_row_some in F as [Hin _]. destruct HI as (_ & Hok & _). rewrite Forall_forall in Hok.
      apply read_row_data_grows; [|exact (Hok r Hin)].
      intros id' f Hf. destruct (Z.eq_dec id' id) as [->|Hne].
      * eexists. split; [exact Ep|]. cbn [fdata]. unfold Dof. rewrite Hf. exists (concat (map oblob objs)). reflexivity.
      * exists f. split; [rewrite (Eo id' Hne); exact Hf|apply prefix_refl].
    + rewrite (El k Hn). reflexivity.
Qed.

End C02P.
