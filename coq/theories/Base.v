(* Base.v - shared definitions: bytes, slicing, small list lemmas. Stdlib only. *)
From Coq Require Export List ZArith NArith Arith Bool Lia.
Export ListNotations.

Definition byte := N.
Definition bytes := list byte.

(* Python slice b[o:o+l] for o,l >= 0 *)
Definition slice {A} (b : list A) (o l : nat) : list A := firstn l (skipn o b).

Lemma slice_app_l {A} (p y : list A) o l : o + l <= length p -> slice (p ++ y) o l = slice p o l.
Proof.
  unfold slice; intros H. rewrite skipn_app.
  rewrite firstn_app. rewrite skipn_length.
  replace (l - (length p - o)) with 0 by lia. cbn. rewrite app_nil_r. reflexivity.
Qed.

Lemma slice_firstn {A} (p : list A) n o l : o + l <= n -> slice (firstn n p) o l = slice p o l.
Proof.
  unfold slice; intros H. rewrite skipn_firstn_comm. rewrite firstn_firstn.
  f_equal. lia.
Qed.

Lemma slice_length {A} (b : list A) o l : o + l <= length b -> length (slice b o l) = l.
Proof. unfold slice; intros. rewrite firstn_length, skipn_length. lia. Qed.

Lemma slice_all {A} (b : list A) : slice b 0 (length b) = b.
Proof. unfold slice. cbn. apply firstn_all. Qed.

Lemma slice_app_r {A} (p y : list A) : slice (p ++ y) (length p) (length y) = y.
Proof.
  unfold slice. rewrite skipn_app, skipn_all, Nat.sub_diag. cbn. apply firstn_all.
Qed.
