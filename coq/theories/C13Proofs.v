(* C13Proofs.v - the direct-to-pack and import programs are append-only for ALL inputs: every single step of p_add_to_pack / p_import
   passes the C13 side conditions (MonoStep.c13_ok_b), hence keeps every referenced byte of every pack and never shrinks a pack below
   its last referenced byte (MonoStep.c13_step).  The only events that could violate it are truncations (no_holes) and the commit;
   truncations always cut at or above the length the pack had when the call began, the commit only inserts. *)
From Coq Require Import List ZArith NArith Arith Bool Lia.
From DOS Require Import Base Store StoreProofs StoreLemmas Mono MonoStep Programs ProgramsProofs PackProofs AddPackProofs ImportProofs.
Import ListNotations.

Section C13P.
Variable H : bytes -> key.
Variable inflate : bytes -> option bytes.
Hypothesis H_inj : forall a b, H a = H b -> a = b.
Notation Inv := (Inv H inflate).
Notation Good := (Good H inflate).

(* the events of a transfer body, with the lower bound every truncation respects *)
Definition body_ev (w : world) (e : event) : Prop :=
  match e with
  | EOpenPack _ | EWrite _ _ | EFlush _ | EFsync _ | EClose _ => True
  | ESql s => is_insert s = true
  | ETruncate id pos => pack_len w id <= pos
  | _ => False
  end.

(* ---- syntactic facts about the programs ---- *)
Lemma atp_end_ge nh : forall objs known pos, pos <= atp_end nh known pos objs.
Proof.
  clear H_inj. induction objs as [|o t IH]; intros known pos; cbn [atp_end]; [lia|].
  destruct (nh && existsb (N.eqb (okey o)) known); [apply IH|].
  eapply Nat.le_trans; [|apply IH]. lia.
Qed.

Lemma atp_loop_body w id nh twice : forall objs known pos, pack_len w id <= pos ->
  Forall (body_ev w) (fst (atp_loop id nh twice known pos objs)).
Proof.
  clear H_inj. induction objs as [|o t IH]; intros known pos Hp; cbn [atp_loop]; [constructor|].
  destruct (nh && existsb (N.eqb (okey o)) known).
  - specialize (IH known pos Hp). destruct (atp_loop id nh twice known pos t) as [es rs]. cbn [fst] in *.
    destruct twice; [exact IH|]. constructor; [exact I|]. constructor; [exact Hp|exact IH].
  - set (known' := if nh then okey o :: known else known).
    assert (Hp' : pack_len w id <= pos + length (oblob o)) by lia.
    specialize (IH known' _ Hp'). destruct (atp_loop id nh twice known' (pos + length (oblob o)) t) as [es rs]. cbn [fst] in *.
    constructor; [exact I|exact IH].
Qed.

Lemma p_batch_body w id nh twice fs known pos objs : pack_len w id <= pos -> Forall (body_ev w) (p_batch id nh twice fs known pos objs).
Proof.
  clear H_inj. intros Hp. unfold p_batch. constructor; [exact I|].
  apply Forall_app. split; [apply atp_loop_body; exact Hp|].
  apply Forall_app. split.
  { destruct nh; constructor; [|constructor]. cbn [body_ev]. eapply Nat.le_trans; [exact Hp|apply atp_end_ge]. }
  apply Forall_app. split.
  { unfold sql_of_rows. destruct (snd (atp_loop id nh twice known pos objs)); constructor; [reflexivity|constructor]. }
  apply Forall_app. split; [destruct fs; repeat constructor|repeat constructor].
Qed.

Lemma p_batches_body w nh twice fs : forall bs known cur,
  (forall id n, aget Z.eqb cur id = Some n -> pack_len w id <= n) ->
  Forall (body_ev w) (p_batches w nh twice fs known cur bs).
Proof.
  clear H_inj. induction bs as [|[id objs] t IH]; intros known cur Hc; cbn [p_batches]; [constructor|].
  set (pos := match aget Z.eqb cur id with Some n => n | None => pack_len w id end).
  assert (Hp : pack_len w id <= pos).
  { unfold pos. destruct (aget Z.eqb cur id) as [n|] eqn:E; [exact (Hc id n E)|lia]. }
  apply Forall_app. split; [apply p_batch_body; exact Hp|].
  apply IH. intros id' n Hg. destruct (Z.eq_dec id' id) as [->|Hne].
  - rewrite (g_aset_eq Z.eqb Z.eqb_spec) in Hg. inversion Hg; subst n. eapply Nat.le_trans; [exact Hp|apply atp_end_ge].
  - rewrite (g_aset_neq Z.eqb Z.eqb_spec) in Hg by exact Hne. exact (Hc id' n Hg).
Qed.

(* ---- what a body does to the index and to the open transaction ---- *)
Lemma flush_db w l h : db (fst (flush_h w l h)) = db w /\ pending (snd (flush_h w l h)) = pending l.
Proof.
  clear H_inj. unfold flush_h. destruct (get_buf l h); [|split; reflexivity].
  destruct (get_file w h); [|split; reflexivity]. destruct h; split; reflexivity.
Qed.

Lemma body_ev_step w0 w l e : body_ev w0 e ->
  db (fst (apply_ev (w, l) e)) = db w /\
  (forallb is_insert (pending l) = true -> forallb is_insert (pending (snd (apply_ev (w, l) e))) = true).
Proof.
  clear H_inj. intros He. destruct e; cbn [body_ev] in He; try contradiction; cbn [apply_ev].
  - (* EOpenPack *) split; [destruct (get_pack w id); reflexivity|auto].
  - (* EWrite *) destruct (get_buf l h); split; auto.
  - (* EFlush *) destruct (flush_db w l h) as [A B]. split; [exact A|]. rewrite B. auto.
  - (* EFsync *) destruct (get_file w h); [|split; auto]. destruct h; split; auto.
  - (* EClose *) pose proof (flush_db w l h) as [A B]. destruct (flush_h w l h) as [w' l']. cbn [fst snd] in *.
    split; [exact A|]. cbn [pending set_bufs]. rewrite B. auto.
  - (* ETruncate *) pose proof (flush_db w l (HPack id)) as [A B]. destruct (flush_h w l (HPack id)) as [w' l']. cbn [fst snd] in *.
    destruct (get_pack w' id); cbn [fst snd]; (split; [try exact A|rewrite B; auto]).
  - (* ESql *) split; [reflexivity|]. intros Hp. cbn [snd pending set_pending]. rewrite forallb_app. cbn. rewrite Hp, He. reflexivity.
Qed.

Lemma body_keeps_db w0 : forall tr s, Forall (body_ev w0) tr -> db (fst (run_events s tr)) = db (fst s).
Proof.
  clear H_inj. induction tr as [|e t IH]; intros s Hf; [reflexivity|].
  inversion Hf as [|? ? He Ht]; subst. cbn [run_events fold_left]. fold (run_events (apply_ev s e) t).
  rewrite (IH _ Ht). destruct s as [w l]. exact (proj1 (body_ev_step w0 w l e He)).
Qed.

Lemma body_pending_inserts w0 : forall tr s, Forall (body_ev w0) tr -> forallb is_insert (pending (snd s)) = true ->
  forallb is_insert (pending (snd (run_events s tr))) = true.
Proof.
  clear H_inj. induction tr as [|e t IH]; intros s Hf Hp; [exact Hp|].
  inversion Hf as [|? ? He Ht]; subst. cbn [run_events fold_left]. fold (run_events (apply_ev s e) t).
  apply IH; [exact Ht|]. destruct s as [w l]. exact (proj2 (body_ev_step w0 w l e He) Hp).
Qed.

Lemma maxref_le_pack_len w id : Inv w -> maxref (db w) id <= pack_len w id.
Proof.
  clear H_inj. intros (_ & Hok & _). unfold pack_len. destruct (get_pack w id) as [f|] eqn:Hp.
  - exact (maxref_le H inflate w (db w) id f Hok Hp).
  - assert (Hz : forall d, Forall (row_ok H inflate w) d -> maxref d id = 0).
    { induction d as [|r t IH]; intros Hd; [reflexivity|]. inversion Hd as [|? ? Hr Ht]; subst. cbn [maxref fold_right].
      fold (maxref t id). rewrite (IH Ht). destruct (Z.eqb_spec (rpack r) id) as [E|E]; [|reflexivity].
      destruct Hr as (f0 & c & Hp0 & _). rewrite E, Hp in Hp0. discriminate. }
    rewrite (Hz _ Hok). lia.
Qed.

(* ---- every step of  body ++ [ECommit]  passes the C13 side conditions ---- *)
Theorem body_commit_c13 w l body :
  Inv w -> pending l = [] -> Forall (body_ev w) body ->
  forall a e b, body ++ [ECommit] = a ++ e :: b -> c13_ok_b H (run_events (w, l) a) e = true.
Proof.
  intros HI Hp Hb a e b Heq.
  assert (Hcases : (exists b', body = a ++ e :: b' ) \/ (a = body /\ e = ECommit)).
  { clear - Heq. revert a Heq. induction body as [|x t IH]; intros a Heq.
    - destruct a as [|y a']; cbn in Heq; [inversion Heq; right; auto|]. inversion Heq as [[E1 E2]]. destruct a'; discriminate.
    - destruct a as [|y a']; cbn in Heq.
      + inversion Heq; subst. left. exists t. reflexivity.
      + inversion Heq as [[E1 E2]]. subst y. destruct (IH a' E2) as [(b' & ->)|[-> ->]].
        * left. exists b'. reflexivity.
        * right. auto. }
  destruct Hcases as [(b' & Eb)|[-> ->]].
  - subst body. apply Forall_app in Hb as [Ha Heb]. inversion Heb as [|? ? He _]; subst.
    pose proof (body_keeps_db w a (w, l) Ha) as Hdb. cbn [fst] in Hdb.
    destruct (run_events (w, l) a) as [wa la]. cbn [fst] in Hdb.
    destruct e; cbn [body_ev] in He; try contradiction; try reflexivity.
    (* ETruncate *)
    cbn [c13_ok_b fst]. rewrite Hdb. apply Nat.leb_le.
    eapply Nat.le_trans; [apply maxref_le_pack_len; exact HI|exact He].
  - cbn [c13_ok_b mono_ok_b].
    pose proof (body_pending_inserts w body (w, l) Hb) as Hpi. cbn [snd] in Hpi. rewrite Hp in Hpi. specialize (Hpi eq_refl).
    destruct (run_events (w, l) body) as [wn ln]. exact Hpi.
Qed.

(* import_objects (transfer) and, as the one-batch case, add_objects_to_pack / add_streamed_objects_to_pack *)
Theorem import_every_step_c13 w l bs nh twice fs :
  Inv w -> pending l = [] ->
  forall a e b, p_import w nh twice fs bs = a ++ e :: b -> c13_ok_b H (run_events (w, l) a) e = true.
Proof.
  intros HI Hp a e b Heq. unfold p_import in Heq.
  apply (body_commit_c13 w l (p_batches w nh twice fs (map rkey (db w)) [] bs) HI Hp) with (b := b); [|exact Heq].
  apply p_batches_body. intros id n Hg. discriminate.
Qed.

Theorem import_every_step_keeps_ref w l bs nh twice fs :
  Inv w -> pending l = [] -> Forall (fun b => Forall (aobj_ok H inflate) (snd b)) bs ->
  forall a e b, p_import w nh twice fs bs = a ++ e :: b ->
    keeps_ref (fst (run_events (w, l) a)) (fst (run_events (w, l) (a ++ [e]))).
Proof.
  intros HI Hp Hall a e b Heq.
  assert (HIa : Inv (fst (run_events (w, l) a))).
  { pose proof (import_always H inflate H_inj w l bs nh twice fs HI Hp Hall (length a)) as (A & _).
    rewrite Heq in A. rewrite firstn_app, firstn_all, Nat.sub_diag in A. cbn [firstn] in A. rewrite app_nil_r in A. exact A. }
  unfold run_events at 2. rewrite fold_left_app. cbn [fold_left]. fold (run_events (w, l) a).
  apply (c13_step H inflate H_inj); [exact HIa|].
  exact (import_every_step_c13 w l bs nh twice fs HI Hp a e b Heq).
Qed.

Theorem add_to_pack_every_step_keeps_ref w l id objs nh twice fs :
  Inv w -> pending l = [] -> Forall (aobj_ok H inflate) objs ->
  forall a e b, p_add_to_pack w id objs nh twice fs = a ++ e :: b ->
    keeps_ref (fst (run_events (w, l) a)) (fst (run_events (w, l) (a ++ [e]))).
Proof.
  intros HI Hp Ho a e b Heq. rewrite <- (import_one_batch w id objs nh twice fs) in Heq.
  apply (import_every_step_keeps_ref w l [(id, objs)] nh twice fs HI Hp) with (b := b); [|exact Heq].
  constructor; [exact Ho|constructor].
Qed.

(* ---- pack_all_loose (one pack): body, COMMIT, then the per-pack unlinks of the loose files just packed ---- *)
Definition sqls (tr : list event) : list sqlop := flat_map (fun e => match e with ESql q => [q] | _ => [] end) tr.

Lemma body_pending_eq w0 : forall tr s, Forall (body_ev w0) tr -> pending (snd (run_events s tr)) = pending (snd s) ++ sqls tr.
Proof.
  clear H_inj. induction tr as [|e t IH]; intros s Hf; [cbn; rewrite app_nil_r; reflexivity|].
  inversion Hf as [|? ? He Ht]; subst. cbn [run_events fold_left]. fold (run_events (apply_ev s e) t).
  rewrite (IH _ Ht). destruct s as [w l]. cbn [snd]. unfold sqls. cbn [flat_map]. fold (sqls t).
  assert (Hstep : pending (snd (apply_ev (w, l) e)) = pending l ++ match e with ESql q => [q] | _ => [] end).
  { destruct e; cbn [body_ev] in He; try contradiction; cbn [apply_ev]; rewrite ?app_nil_r.
    - reflexivity.
    - destruct (get_buf l h); reflexivity.
    - exact (proj2 (flush_db w l h)).
    - destruct (get_file w h); reflexivity.
    - pose proof (flush_db w l h) as [_ B]. destruct (flush_h w l h) as [w' l']. cbn [snd] in *. exact B.
    - pose proof (flush_db w l (HPack id)) as [_ B]. destruct (flush_h w l (HPack id)) as [w' l']. cbn [snd] in *.
      destruct (get_pack w' id); exact B.
    - reflexivity. }
  rewrite Hstep, <- app_assoc. reflexivity.
Qed.

Lemma unlinks_keep_db : forall ks s, db (fst (run_events s (map EUnlinkLoose ks))) = db (fst s).
Proof.
  clear H_inj. induction ks as [|k t IH]; intros s; [reflexivity|].
  cbn [map run_events fold_left]. fold (run_events (apply_ev s (EUnlinkLoose k)) (map EUnlinkLoose t)). rewrite IH.
  destruct s as [w l]. reflexivity.
Qed.

Definition pack_body (w : world) (id : Z) (objs : list pobj) (fs : bool) : list event :=
  EOpenPack id :: map (fun o => EWrite (HPack id) (oblob o)) objs ++
  [ESql (SInsert false (rows_from id (pack_len w id) objs))] ++
  (if fs then [EFlush (HPack id); EFsync (HPack id)] else []) ++ [EClose (HPack id)].

Lemma p_pack_one_split w id objs fs clean :
  p_pack_one w id objs fs clean = (pack_body w id objs fs ++ [ECommit]) ++ (if clean then map (fun o => EUnlinkLoose (okey o)) objs else []).
Proof. clear H_inj. unfold p_pack_one, pack_body. cbn [app]. rewrite <- !app_assoc. cbn [app]. destruct fs; reflexivity. Qed.

Lemma pack_body_ev w id objs fs : Forall (body_ev w) (pack_body w id objs fs).
Proof.
  clear H_inj. unfold pack_body. constructor; [exact I|]. apply Forall_app. split.
  - apply Forall_forall. intros e He. apply in_map_iff in He as (o & <- & _). exact I.
  - constructor; [reflexivity|]. destruct fs; repeat constructor.
Qed.

Lemma pack_body_sqls w id objs fs : sqls (pack_body w id objs fs) = [SInsert false (rows_from id (pack_len w id) objs)].
Proof.
  clear H_inj. unfold pack_body, sqls. cbn [flat_map]. rewrite flat_map_app.
  assert (Hw : flat_map (fun e => match e with ESql q => [q] | _ => [] end) (map (fun o => EWrite (HPack id) (oblob o)) objs) = []).
  { induction objs as [|o t IH]; [reflexivity|exact IH]. }
  rewrite Hw. destruct fs; reflexivity.
Qed.

Theorem pack_one_every_step_c13 w l id objs fs clean :
  Inv w -> pending l = [] ->
  forall a e b, p_pack_one w id objs fs clean = a ++ e :: b -> c13_ok_b H (run_events (w, l) a) e = true.
Proof.
  intros HI Hp a e b Heq. rewrite p_pack_one_split in Heq.
  set (B := pack_body w id objs fs ++ [ECommit]) in *.
  set (U := if clean then map (fun o => EUnlinkLoose (okey o)) objs else []) in *.
  (* the position of e: inside B, or among the unlinks *)
  assert (Hcases : (exists b', B = a ++ e :: b') \/ (exists a' , a = B ++ a' /\ U = a' ++ e :: b)).
  { clear - Heq. revert a Heq. induction B as [|x t IH]; intros a Heq.
    - right. exists a. split; [reflexivity|exact Heq].
    - destruct a as [|y a']; cbn in Heq.
      + inversion Heq; subst. left. exists t. reflexivity.
      + inversion Heq as [[E1 E2]]. subst y. destruct (IH a' E2) as [(b' & ->)|(a2 & -> & HU)].
        * left. exists b'. reflexivity.
        * right. exists a2. split; [reflexivity|exact HU]. }
  destruct Hcases as [(b' & EB)|(a' & -> & EU)].
  - exact (body_commit_c13 w l (pack_body w id objs fs) HI Hp (pack_body_ev w id objs fs) a e b' EB).
  - (* an unlink after the commit: its key was just committed *)
    destruct clean; [|destruct a'; discriminate].
    assert (He : exists o, In o objs /\ e = EUnlinkLoose (okey o)).
    { assert (Hin : In e U) by (rewrite EU; apply in_or_app; right; left; reflexivity).
      apply in_map_iff in Hin as (o & <- & Ho). exists o. auto. }
    destruct He as (o & Ho & ->).
    assert (Ha' : exists ks, a' = map EUnlinkLoose ks).
    { clear - EU. revert a' EU. unfold U. generalize objs as os. induction os as [|x t IH]; intros a' EU.
      - destruct a'; discriminate.
      - destruct a' as [|y a2]; [exists []; reflexivity|]. cbn [map] in EU. inversion EU as [[E1 E2]].
        destruct (IH a2 E2) as (ks & ->). exists (okey x :: ks). reflexivity. }
    destruct Ha' as (ks & ->).
    unfold run_events. rewrite fold_left_app. fold (run_events (w, l) B). fold (run_events (run_events (w, l) B) (map EUnlinkLoose ks)).
    pose proof (unlinks_keep_db ks (run_events (w, l) B)) as Hdb.
    destruct (run_events (run_events (w, l) B) (map EUnlinkLoose ks)) as [wu lu]. cbn [fst] in Hdb.
    cbn [c13_ok_b mono_ok_b]. rewrite Hdb.
    (* the index after the commit *)
    unfold B. unfold run_events. rewrite fold_left_app. fold (run_events (w, l) (pack_body w id objs fs)). cbn [fold_left].
    pose proof (body_keeps_db w _ (w, l) (pack_body_ev w id objs fs)) as Hd. cbn [fst] in Hd.
    pose proof (body_pending_eq w _ (w, l) (pack_body_ev w id objs fs)) as Hq. cbn [snd] in Hq. rewrite Hp, pack_body_sqls in Hq. cbn [app] in Hq.
    destruct (run_events (w, l) (pack_body w id objs fs)) as [wb lb]. cbn [fst snd] in *.
    cbn [apply_ev fst db set_db]. rewrite Hq, Hd. cbn [fold_left apply_sql].
    apply has_key_in.
    assert (Hk : In (okey o) (map rkey (rows_from id (pack_len w id) objs))) by (rewrite rows_from_keys; apply in_map; exact Ho).
    apply in_map_iff in Hk as (r & <- & Hr). apply insert_rows_adds. exact Hr.
Qed.

Theorem pack_one_every_step_keeps_ref w l id objs fs clean :
  Inv w -> pending l = [] ->
  Forall (obj_ok inflate w) objs -> NoDup (map okey objs) -> (forall o, In o objs -> ~ In (okey o) (map rkey (db w))) ->
  forall a e b, p_pack_one w id objs fs clean = a ++ e :: b ->
    keeps_ref (fst (run_events (w, l) a)) (fst (run_events (w, l) (a ++ [e]))).
Proof.
  intros HI Hp Ho Hn Hf a e b Heq.
  assert (HIa : Inv (fst (run_events (w, l) a))).
  { pose proof (pack_one_always H inflate H_inj w l id objs fs clean HI Hp Ho Hn Hf (length a)) as (A & _).
    rewrite Heq in A. rewrite firstn_app, firstn_all, Nat.sub_diag in A. cbn [firstn] in A. rewrite app_nil_r in A. exact A. }
  unfold run_events at 2. rewrite fold_left_app. cbn [fold_left]. fold (run_events (w, l) a).
  apply (c13_step H inflate H_inj); [exact HIa|].
  exact (pack_one_every_step_c13 w l id objs fs clean HI Hp a e b Heq).
Qed.

End C13P.
