(* MaintProofs.v - clean_storage and delete_objects as programs: every crash point, all inputs *)
From Coq Require Import List ZArith NArith Arith Bool Lia.
From DOS Require Import Base Store StoreProofs StoreLemmas Mono MonoStep Programs ProgramsProofs PackProofs.
Import ListNotations.

Section Maint.
Variable H : bytes -> key.
Variable inflate : bytes -> option bytes.
Hypothesis H_inj : forall a b, H a = H b -> a = b.
Notation Inv := (Inv H inflate).
Notation stored := (stored inflate).
Notation Good := (Good H inflate).

(* ---------- clean_storage ---------- *)
Lemma commit_empty w l : pending l = [] -> exists l', apply_ev (w, l) ECommit = (set_db w (db w), l') /\ pending l' = [].
Proof. intros Hp. cbn [apply_ev]. rewrite Hp. cbn. eexists. split; reflexivity. Qed.

Theorem clean_always w l fs vacuum order :
  Inv w -> pending l = [] -> always (Good w fs) (w, l) (p_clean w vacuum order).
Proof.
  intros HI Hp. unfold p_clean.
  assert (Hun : forall s, Good w fs (fst s) -> db (fst s) = db w ->
            always (Good w fs) s (map EUnlinkLoose (filter (fun k => has_key (db w) k) order))).
  { intros s Hg Hdb. apply (always_unlinks H inflate); [exact Hg|].
    intros k Hk. apply filter_In in Hk as [_ Hk]. rewrite Hdb. apply has_key_in. exact Hk. }
  destruct vacuum; cbn [app].
  - apply always_cons; [apply Good_refl; exact HI|].
    destruct (commit_empty w l Hp) as (l1 & E1 & Hp1). rewrite E1.
    assert (G1 : Good w fs (set_db w (db w))) by (eapply Good_core; [|apply Good_refl; exact HI]; reflexivity).
    apply always_cons; [exact G1|].
    destruct (commit_empty (set_db w (db w)) l1 Hp1) as (l2 & E2 & Hp2). rewrite E2.
    apply Hun; [|reflexivity]. cbn [fst]. eapply Good_core; [|apply Good_refl; exact HI]. reflexivity.
  - apply Hun; [apply Good_refl; exact HI|reflexivity].
Qed.

(* C05 / C06 / C02 for clean_storage: nothing stored is lost at any crash point, also under power loss *)
Theorem clean_crash_safe w l fs vacuum order m :
  Inv w -> pending l = [] ->
  let w' := crash (run_events (w, l) (firstn m (p_clean w vacuum order))) in
  Inv w' /\ (forall k c, stored w k = Some c -> stored w' k = Some c) /\
  (fs = true -> Inv (power_loss w) ->
     Inv (power_loss w') /\ (forall k c, stored (power_loss w) k = Some c -> stored (power_loss w') k = Some c)).
Proof.
  intros HI Hp. cbn zeta. unfold crash.
  destruct (clean_always w l fs vacuum order HI Hp m) as (A & B & C).
  split; [exact A|]. split.
  - intros k c Hs. exact (stored_preserved H inflate H_inj w _ k c HI A B Hs).
  - intros F P. destruct (C F P) as (C1 & C2). split; [exact C1|].
    intros k c Hs. exact (stored_preserved H inflate H_inj (power_loss w) _ k c P C1 C2 Hs).
Qed.

(* ---------- delete_objects ---------- *)
Definition KeepOthers (w : world) (ks : list key) (w' : world) : Prop :=
  Inv w' /\ forall k c, ~ In k ks -> stored w k = Some c -> stored w' k = Some c.

Lemma stored_unlink_other w k k' : k' <> k -> stored (unlink_world w k) k' = stored w k'.
Proof.
  intros Hne. unfold Store.stored, Store.read_row, get_pack, get_loose, unlink_world. cbn [db packs loose set_loose].
  destruct (find_row (db w) k'); [reflexivity|]. rewrite (g_adel_neq N.eqb N.eqb_spec); auto.
Qed.

Lemma keep_unlinks w ks : forall us s, (forall k, In k us -> In k ks) -> KeepOthers w ks (fst s) ->
  always (KeepOthers w ks) s (map EUnlinkLoose us).
Proof.
  induction us as [|u t IH]; intros s Hsub Hk; cbn [map].
  - apply always_nil. exact Hk.
  - apply always_cons; [exact Hk|]. destruct s as [w' l']. cbn [apply_ev]. apply IH.
    + intros k Hin. apply Hsub. right; exact Hin.
    + cbn [fst] in *. destruct Hk as (A & B). split; [apply (Inv_unlink H inflate); exact A|].
      intros k c Hn Hs. change (set_loose w' (adel N.eqb (loose w') u)) with (unlink_world w' u).
      rewrite stored_unlink_other; [apply B; auto|]. intros ->. apply Hn. apply Hsub. left; reflexivity.
Qed.

Lemma find_row_filter d ks k : ~ In k ks ->
  find_row (filter (fun r => negb (existsb (N.eqb (rkey r)) ks)) d) k = find_row d k.
Proof.
  intros Hn. unfold find_row. induction d as [|r t IH]; cbn; [reflexivity|].
  destruct (existsb (N.eqb (rkey r)) ks) eqn:E; cbn.
  - destruct (N.eqb_spec (rkey r) k) as [Ek|Ek]; [|exact IH].
    exfalso. apply Hn. apply existsb_exists in E as (x & Hx & He). apply N.eqb_eq in He. subst. exact Hx.
  - destruct (N.eqb (rkey r) k); [reflexivity|exact IH].
Qed.

Lemma find_row_filter_target d ks k : In k ks ->
  find_row (filter (fun r => negb (existsb (N.eqb (rkey r)) ks)) d) k = None.
Proof.
  intros Hin. unfold find_row. induction d as [|r t IH]; cbn; [reflexivity|].
  destruct (existsb (N.eqb (rkey r)) ks) eqn:E; cbn; [exact IH|].
  destruct (N.eqb_spec (rkey r) k) as [Ek|Ek]; [|exact IH].
  exfalso. assert (existsb (N.eqb (rkey r)) ks = true) by (apply existsb_exists; exists k; split; auto; apply N.eqb_eq; auto).
  congruence.
Qed.

Lemma NoDup_map_filter (f : row -> bool) d : NoDup (map rkey d) -> NoDup (map rkey (filter f d)).
Proof.
  induction d as [|r t IH]; cbn; intros Hnd; [constructor|]. inversion Hnd; subst.
  destruct (f r); cbn; [|auto]. constructor; [|auto].
  intros Hin. apply in_map_iff in Hin as (r' & Hk & Hr'). apply filter_In in Hr' as [Hr' _].
  apply H2. rewrite <- Hk. apply in_map; auto.
Qed.

Lemma pairwise_filter (f : row -> bool) d : pairwise disjoint d -> pairwise disjoint (filter f d).
Proof.
  induction d as [|r t IH]; cbn; intros Hp; [exact I|]. destruct Hp as [Hr Ht].
  destruct (f r); cbn; [|auto]. split; [|auto].
  rewrite Forall_forall in *. intros x Hx. apply filter_In in Hx as [Hx _]. auto.
Qed.

Lemma Inv_delete w ks : Inv w -> Inv (set_db w (apply_sql (db w) (SDelete ks))).
Proof.
  intros (Hnd & Hok & Hpw & Hl). unfold Store.Inv. cbn [db set_db loose apply_sql].
  split; [apply NoDup_map_filter; exact Hnd|]. split; [|split; [apply pairwise_filter; exact Hpw|exact Hl]].
  rewrite Forall_forall in *. intros r Hr. apply filter_In in Hr as [Hr _].
  destruct (Hok r Hr) as (f & c & Hp & Hrest). exists f, c. split; auto.
Qed.

Lemma unlinks_frame : forall us s,
  db (fst (run_events s (map EUnlinkLoose us))) = db (fst s) /\
  packs (fst (run_events s (map EUnlinkLoose us))) = packs (fst s) /\
  pending (snd (run_events s (map EUnlinkLoose us))) = pending (snd s).
Proof.
  induction us as [|u t IH]; intros s; [repeat split; reflexivity|].
  cbn [map]. change (run_events s (EUnlinkLoose u :: map EUnlinkLoose t)) with (run_events (apply_ev s (EUnlinkLoose u)) (map EUnlinkLoose t)).
  destruct (IH (apply_ev s (EUnlinkLoose u))) as (A & B & C). rewrite A, B, C. destruct s; repeat split; reflexivity.
Qed.

(* delete_objects(ks): at EVERY crash point the invariant holds and every object NOT requested is still stored with its bytes;
   after the call none of the requested keys is stored *)
Theorem delete_always w l ks :
  Inv w -> pending l = [] -> always (KeepOthers w ks) (w, l) (p_delete w ks).
Proof.
  intros HI Hp. unfold p_delete. apply always_app.
  - apply keep_unlinks; [auto|]. split; [exact HI|auto].
  - set (s1 := run_events (w, l) (map EUnlinkLoose ks)).
    assert (K1 : KeepOthers w ks (fst s1)).
    { pose proof (keep_unlinks w ks ks (w, l) (fun k h => h) (conj HI (fun k c _ h => h)) (length (map EUnlinkLoose ks))) as K.
      rewrite firstn_all in K. exact K. }
    destruct (unlinks_frame ks (w, l)) as (Hdb1 & Hpk1 & Hp1'). fold s1 in Hdb1, Hpk1, Hp1'. cbn [fst snd] in Hdb1, Hpk1, Hp1'.
    assert (Hp1 : pending (snd s1) = []) by (rewrite Hp1'; exact Hp).
    destruct s1 as [w1 l1] eqn:Es1. cbn [fst snd] in *.
    apply always_cons; [exact K1|]. cbn [apply_ev].
    apply always_cons; [exact K1|]. cbn [apply_ev pending set_pending]. rewrite Hp1. cbn [app fold_left].
    apply always_nil. cbn [fst]. destruct K1 as (A & B). split; [apply Inv_delete; exact A|].
    intros k c Hn Hs. specialize (B k c Hn Hs).
    unfold Store.stored in *. cbn [db set_db apply_sql]. rewrite find_row_filter by exact Hn. exact B.
Qed.

Theorem delete_removes_requested w l ks k :
  Inv w -> pending l = [] -> In k ks -> stored (crash (run_events (w, l) (p_delete w ks))) k = None.
Proof.
  intros HI Hp Hin. unfold p_delete, run_events. rewrite fold_left_app. fold (run_events (w, l) (map EUnlinkLoose ks)).
  set (s1 := run_events (w, l) (map EUnlinkLoose ks)).
  assert (Hl1 : get_loose (fst s1) k = None /\ pending (snd s1) = []).
  { unfold s1. assert (G : forall us s, pending (snd s) = [] -> (In k us \/ get_loose (fst s) k = None) ->
        get_loose (fst (run_events s (map EUnlinkLoose us))) k = None /\ pending (snd (run_events s (map EUnlinkLoose us))) = []).
    { induction us as [|u t IH]; intros s Hps Hor.
      - split; [destruct Hor as [[]|E]; exact E|exact Hps].
      - cbn [map]. change (run_events s (EUnlinkLoose u :: map EUnlinkLoose t)) with (run_events (apply_ev s (EUnlinkLoose u)) (map EUnlinkLoose t)).
        destruct s as [w0 l0]. apply IH; [exact Hps|]. cbn [apply_ev fst].
        destruct (N.eq_dec u k) as [->|Hne].
        + right. unfold get_loose. cbn [loose set_loose]. apply (g_adel_eq N.eqb N.eqb_spec).
        + destruct Hor as [[E|Hin']|E]; [congruence|left; exact Hin'|].
          right. unfold get_loose in *. cbn [loose set_loose]. rewrite (g_adel_neq N.eqb N.eqb_spec); auto. }
    apply G; [exact Hp|left; exact Hin]. }
  destruct s1 as [w1 l1]. cbn [fst snd] in Hl1. destruct Hl1 as (Hl1 & Hp1).
  cbn [fold_left apply_ev pending set_pending]. rewrite Hp1. cbn [app fold_left crash fst].
  unfold Store.stored. cbn [db set_db apply_sql]. rewrite find_row_filter_target by exact Hin.
  unfold get_loose in *. cbn [loose set_db]. rewrite Hl1. reflexivity.
Qed.

End Maint.
